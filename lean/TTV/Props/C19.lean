import TTV.Model.Suite
import TTV.Spec.C19
import TTV.Lemmas.SuiteUtilSkel
import TTV.Generated.SuiteSrc
/-! # C19 — suite utilities preserve the test set

Property theorems (kept apart from the model).  All statements are for **every** tree (any depth and
fan-out, any mix of suite classes, any ids) and every id set.

* `holds_model`        : the executable spec `Spec.C19.holds` is true of the model's trace (headline)
* `C19_iterate_*`      : `iterate_tests` yields exactly the case nodes, in position (document) order, once each
* `C19_filter_*`       : `filter_by_ids` keeps exactly the chosen ids, order and grouping unchanged
* `C19_sorted_*`       : `sorted_tests` = a permutation, ordered by key, plain suites flattened, custom suites whole,
                         `ValueError` exactly for duplicate ids
* `C19_list`, `C19_load_list` : what `--list` prints / `--load-list` runs
-/
namespace TTV.Props.C19
open TTV.Suite TTV.Spec.C19

/-! ## iterate: position-based characterisation -/

/- positions of the case nodes, in document order -/
mutual
def casePaths : T → List (List Nat)
  | .case _ => [[]]
  | .suite _ cs => casePathsL 0 cs
def casePathsL (i : Nat) : List T → List (List Nat)
  | [] => []
  | t :: ts => (casePaths t).map (i :: ·) ++ casePathsL (i + 1) ts
end

def idAt (t : T) (p : List Nat) : Option Nat :=
  match get? t p with
  | some (.case id) => some id
  | _ => none

theorem filterMap_congr' {α β : Type} {f g : α → Option β} {l : List α} (h : ∀ a ∈ l, f a = g a) :
    l.filterMap f = l.filterMap g := by
  induction l with
  | nil => rfl
  | cons a l ih =>
    simp only [List.filterMap_cons, h a List.mem_cons_self]
    rw [ih (fun b hb => h b (List.mem_cons_of_mem _ hb))]

theorem get?_suite_cons (k : Kind) (cs : List T) (i : Nat) (p : List Nat) :
    get? (.suite k cs) (i :: p) = (cs[i]?).bind (fun c => get? c p) := by
  simp only [get?]; cases cs[i]? <;> rfl

mutual
theorem iterate_eq_paths : ∀ t : T, iterate t = (casePaths t).filterMap (idAt t)
  | .case id => by simp [iterate, casePaths, idAt, get?]
  | .suite k cs => by
      simp only [iterate, casePaths]
      rw [iterateL_eq_paths cs 0 k [] rfl]
      simp
theorem iterateL_eq_paths : ∀ (ts : List T) (i : Nat) (k : Kind) (pre : List T), pre.length = i →
    iterateL ts = (casePathsL i ts).filterMap (idAt (.suite k (pre ++ ts)))
  | [], _, _, _, _ => by simp [iterateL, casePathsL]
  | t :: ts, i, k, pre, h => by
      simp only [iterateL, casePathsL, List.filterMap_append]
      congr 1
      · rw [iterate_eq_paths t, List.filterMap_map]
        apply filterMap_congr'
        intro p _
        simp [idAt, get?_suite_cons, ← h]
      · have := iterateL_eq_paths ts (i + 1) k (pre ++ [t]) (by simp [h])
        simpa using this
end

/-- C19 (iterate, 1): `iterate_tests` yields the id found at each case position, in document order. -/
theorem C19_iterate_positions (t : T) : iterate t = (casePaths t).filterMap (idAt t) :=
  iterate_eq_paths t

mutual
theorem mem_casePaths : ∀ (t : T) (p : List Nat), p ∈ casePaths t ↔ ∃ id, get? t p = some (.case id)
  | .case id, p => by
      cases p <;> simp [casePaths, get?]
  | .suite k cs, p => by
      simp only [casePaths]
      rw [mem_casePathsL cs 0 p]
      cases p with
      | nil => simp [get?]
      | cons j q =>
        simp only [get?_suite_cons]
        constructor
        · rintro ⟨j', q', c, _, hc, hq, h⟩
          obtain ⟨rfl, rfl⟩ := List.cons.inj h
          simp only [Nat.sub_zero] at hc
          simpa [hc] using hq
        · rintro ⟨id, h⟩
          cases hc : cs[j]? with
          | none => simp [hc] at h
          | some c => exact ⟨j, q, c, Nat.zero_le _, by simpa using hc, ⟨id, by simpa [hc] using h⟩, rfl⟩
theorem mem_casePathsL : ∀ (ts : List T) (i : Nat) (p : List Nat),
    p ∈ casePathsL i ts ↔ ∃ j q c, i ≤ j ∧ ts[j - i]? = some c ∧ (∃ id, get? c q = some (.case id)) ∧ p = j :: q
  | [], i, p => by simp [casePathsL]
  | t :: ts, i, p => by
      simp only [casePathsL, List.mem_append, List.mem_map]
      rw [mem_casePathsL ts (i + 1) p]
      constructor
      · rintro (⟨q, hq, rfl⟩ | ⟨j, q, c, hj, hc, hid, rfl⟩)
        · exact ⟨i, q, t, Nat.le_refl _, by simp, (mem_casePaths t q).mp hq, rfl⟩
        · refine ⟨j, q, c, by omega, ?_, hid, rfl⟩
          have : j - i = (j - (i + 1)) + 1 := by omega
          rw [this]; simpa using hc
      · rintro ⟨j, q, c, hj, hc, hid, rfl⟩
        by_cases hji : j = i
        · subst hji
          left
          simp at hc; subst hc
          exact ⟨q, (mem_casePaths _ q).mpr hid, rfl⟩
        · right
          refine ⟨j, q, c, by omega, ?_, hid, rfl⟩
          have : j - i = (j - (i + 1)) + 1 := by omega
          rw [this] at hc; simpa using hc
end

/-- C19 (iterate, 2): a position is visited iff it holds a test case — every leaf, nothing else. -/
theorem C19_iterate_complete (t : T) (p : List Nat) :
    p ∈ casePaths t ↔ ∃ id, get? t p = some (.case id) := mem_casePaths t p

/-- lexicographic order on positions = document order -/
def pathLt : List Nat → List Nat → Prop
  | [], _ => False
  | _ :: _, [] => False
  | i :: p, j :: q => i < j ∨ (i = j ∧ pathLt p q)

mutual
theorem casePaths_sorted : ∀ t : T, (casePaths t).Pairwise pathLt
  | .case _ => by simp [casePaths]
  | .suite _ cs => by simpa [casePaths] using (casePathsL_sorted cs 0).1
theorem casePathsL_sorted : ∀ (ts : List T) (i : Nat),
    (casePathsL i ts).Pairwise pathLt ∧ ∀ p ∈ casePathsL i ts, ∃ j q, p = j :: q ∧ i ≤ j
  | [], i => by simp [casePathsL]
  | t :: ts, i => by
      obtain ⟨ih1, ih2⟩ := casePathsL_sorted ts (i + 1)
      constructor
      · simp only [casePathsL]
        rw [List.pairwise_append]
        refine ⟨?_, ih1, ?_⟩
        · rw [List.pairwise_map]
          exact (casePaths_sorted t).imp (fun h => Or.inr ⟨rfl, h⟩)
        · intro a ha b hb
          obtain ⟨q, _, rfl⟩ := List.mem_map.mp ha
          obtain ⟨j, q', rfl, hj⟩ := ih2 b hb
          exact Or.inl (by omega)
      · intro p hp
        simp only [casePathsL, List.mem_append, List.mem_map] at hp
        rcases hp with ⟨q, _, rfl⟩ | hp
        · exact ⟨i, q, rfl, Nat.le_refl _⟩
        · obtain ⟨j, q, rfl, hj⟩ := ih2 p hp
          exact ⟨j, q, rfl, by omega⟩
end

/-- C19 (iterate, 3): positions are visited in strictly increasing document order — hence each once. -/
theorem C19_iterate_order (t : T) : (casePaths t).Pairwise pathLt := casePaths_sorted t

/-! ## filter_by_ids -/
mutual
theorem iterate_filter (S : Nat → Bool) : ∀ t : T, iterate (filterIds S t) = (iterate t).filter S
  | .case id => by
      simp only [filterIds, iterate]
      split <;> simp_all [iterate, iterateL]
  | .suite k cs => by
      simp only [filterIds, iterate]
      exact iterateL_filter S cs
theorem iterateL_filter (S : Nat → Bool) : ∀ ts : List T, iterateL (filterL S ts) = (iterateL ts).filter S
  | [] => by simp [filterL, iterateL]
  | t :: ts => by
      simp only [filterL, iterateL, List.filter_append]
      rw [iterate_filter S t, iterateL_filter S ts]
end

/-- C19 (filter, 1): exactly the tests whose id is chosen remain, in their original relative order. -/
theorem C19_filter_ids (S : Nat → Bool) (t : T) : iterate (filterIds S t) = (iterate t).filter S :=
  iterate_filter S t

/-! repetition: filtering an already filtered suite (`--load-list` on a suite that a caller filtered before; the
placeholders of removed tests are themselves suites and are filtered again) -/
mutual
theorem filter_filter (S₁ S₂ : Nat → Bool) : ∀ t : T,
    filterIds S₂ (filterIds S₁ t) = filterIds (fun x => S₁ x && S₂ x) t
  | .case id => by
      simp only [filterIds]
      by_cases h₁ : S₁ id = true <;> by_cases h₂ : S₂ id = true <;> simp [filterIds, filterL, h₁, h₂]
  | .suite k cs => by
      simp only [filterIds]
      rw [filterL_filterL S₁ S₂ cs]
theorem filterL_filterL (S₁ S₂ : Nat → Bool) : ∀ ts : List T,
    filterL S₂ (filterL S₁ ts) = filterL (fun x => S₁ x && S₂ x) ts
  | [] => by simp [filterL]
  | t :: ts => by
      simp only [filterL]
      rw [filter_filter S₁ S₂ t, filterL_filterL S₁ S₂ ts]
end

/-- C19 (filter, repetition): filtering twice is filtering once by the intersection — the *same tree*, placeholders
included, not merely the same ids; so the order of two filters does not matter and a filter applied again changes
nothing. -/
theorem C19_filter_twice (S₁ S₂ : Nat → Bool) (t : T) :
    filterIds S₂ (filterIds S₁ t) = filterIds (fun x => S₁ x && S₂ x) t
    ∧ filterIds S₂ (filterIds S₁ t) = filterIds S₁ (filterIds S₂ t)
    ∧ filterIds S₁ (filterIds S₁ t) = filterIds S₁ t := by
  refine ⟨filter_filter S₁ S₂ t, ?_, ?_⟩
  · rw [filter_filter, filter_filter]
    congr 1; funext x; exact Bool.and_comm _ _
  · rw [filter_filter]
    congr 1; funext x; exact Bool.and_self _

-- non-vacuity: the two filters overlap on one test of a nested suite, the custom suite keeps its class
example : filterIds (fun x => x != 1) (filterIds (fun x => x != 3) (.suite .plain [.case 1, .suite .custom [.case 2, .case 3]]))
    = .suite .plain [.suite .plain [], .suite .custom [.case 2, .suite .plain []]] := by
  simp [filterIds, filterL]

mutual
theorem rel_filter (S : Nat → Bool) : ∀ t : T, rel S t (filterIds S t) = true
  | .case id => by
      simp only [filterIds]
      split <;> simp_all [rel]
  | .suite k cs => by
      simp only [filterIds, rel, beq_self_eq_true, Bool.true_and]
      exact relL_filter S cs
theorem relL_filter (S : Nat → Bool) : ∀ ts : List T, relL S ts (filterL S ts) = true
  | [] => by simp [filterL, relL]
  | t :: ts => by simp [filterL, relL, rel_filter S t, relL_filter S ts]
end

theorem filterL_getElem? (S : Nat → Bool) : ∀ (ts : List T) (i : Nat),
    (filterL S ts)[i]? = (ts[i]?).map (filterIds S)
  | [], i => by simp [filterL]
  | t :: ts, 0 => by simp [filterL]
  | t :: ts, i + 1 => by simpa [filterL] using filterL_getElem? S ts i

/-- C19 (filter, 2 — grouping): at every position of the original tree that holds a suite, the result
holds a suite of the same class with the same number of children; a case survives at its own position
iff its id is chosen (otherwise an empty plain suite stands there). -/
theorem C19_filter_positions (S : Nat → Bool) : ∀ (t : T) (p : List Nat),
    (∀ k cs, get? t p = some (.suite k cs) →
        ∃ cs', get? (filterIds S t) p = some (.suite k cs') ∧ cs'.length = cs.length) ∧
    (∀ id, get? t p = some (.case id) →
        get? (filterIds S t) p = some (if S id then .case id else .suite .plain []))
  | .case id, [] => by
      simp [get?, filterIds]
  | .case id, _ :: _ => by simp [get?]
  | .suite k cs, [] => by
      refine ⟨?_, by simp [get?]⟩
      intro k' cs' h
      simp only [get?, Option.some.injEq, T.suite.injEq] at h
      obtain ⟨rfl, rfl⟩ := h
      refine ⟨filterL S cs, by simp [get?, filterIds], ?_⟩
      clear k
      induction cs with
      | nil => simp [filterL]
      | cons c cs ih => simp [filterL, ih]
  | .suite k cs, i :: p => by
      simp only [filterIds, get?_suite_cons, filterL_getElem?]
      cases hc : cs[i]? with
      | none => simp
      | some c =>
        have := C19_filter_positions S c p
        simpa using this

/-! ## sorted_tests -/
theorem keyLe_trans (a b c : Option Nat) : keyLe a b = true → keyLe b c = true → keyLe a c = true := by
  cases a <;> cases b <;> cases c <;> simp [keyLe] <;> omega
theorem keyLe_total (a b : Option Nat) : (keyLe a b || keyLe b a) = true := by
  cases a <;> cases b <;> simp [keyLe] <;> omega

theorem sortItems_perm (xs : List Item) : (sortItems xs).Perm xs := List.mergeSort_perm _ _

theorem iterateL_append (xs ys : List T) : iterateL (xs ++ ys) = iterateL xs ++ iterateL ys := by
  induction xs with
  | nil => simp [iterateL]
  | cons x xs ih => simp [iterateL, ih]

theorem iterateL_perm {xs ys : List T} (h : xs.Perm ys) : (iterateL xs).Perm (iterateL ys) := by
  induction h with
  | nil => exact List.Perm.refl _
  | cons x _ ih => simp only [iterateL]; exact List.Perm.append_left _ ih
  | swap x y l =>
    simp only [iterateL, ← List.append_assoc]
    exact List.Perm.append_right _ List.perm_append_comm
  | trans _ _ ih1 ih2 => exact ih1.trans ih2

/- the leaves of the flattened items are the leaves of the tree, up to order (custom suites with
`sort_tests` reorder their own content) -/
mutual
theorem flatten_perm : ∀ (o : Bool) (t : T), (iterateL ((flatten o t).map (·.2))).Perm (iterate t)
  | o, .case id => by simp [flatten, iterateL, iterate]
  | o, .suite k cs => by
      simp only [flatten, iterate]
      split
      · exact flattenL_perm cs
      · simp only [List.map_cons, List.map_nil, iterateL, List.append_nil]
        split
        · simp only [iterate]
          exact (iterateL_perm ((sortItems_perm _).map _)).trans (flattenL_perm cs)
        · simp [iterate]
theorem flattenL_perm : ∀ ts : List T, (iterateL ((flattenL ts).map (·.2))).Perm (iterateL ts)
  | [] => by simp [flattenL, iterateL]
  | t :: ts => by
      simp only [flattenL, List.map_append, iterateL_append, iterateL]
      exact List.Perm.append (flatten_perm false t) (flattenL_perm ts)
end

theorem hasDup_iff (xs : List Nat) : hasDup xs = false ↔ xs.Nodup := by
  induction xs with
  | nil => simp [hasDup]
  | cons x xs ih => simp [hasDup, ih, List.nodup_cons]

/-- C19 (sorted, 1): `ValueError` precisely when two tests share an id. -/
theorem C19_sorted_dup (t : T) : sortedTests t = none ↔ ¬ (iterate t).Nodup := by
  unfold sortedTests
  split
  · rename_i h
    simp only [true_iff]
    intro hn
    rw [← hasDup_iff] at hn
    simp [hn] at h
  · rename_i h
    simp only [Bool.not_eq_true] at h
    simp [(hasDup_iff _).mp h]

/-- C19 (sorted, 2): otherwise the result holds the same tests (a permutation of them). -/
theorem C19_sorted_perm (t r : T) (h : sortedTests t = some r) : (iterate r).Perm (iterate t) := by
  unfold sortedTests at h
  split at h
  · simp at h
  · simp only [Option.some.injEq] at h
    subst h
    simp only [iterate]
    exact (iterateL_perm ((sortItems_perm _).map _)).trans (flatten_perm false t)

/-- C19 (sorted, 3): the items of the result are ordered by their sort key. -/
theorem C19_sorted_ordered (t : T) :
    ((sortItems (flatten false t)).map (·.1)).Pairwise (fun a b => keyLe a b = true) := by
  rw [List.pairwise_map]
  exact List.pairwise_mergeSort (le := fun a b : Item => keyLe a.1 b.1)
    (fun a b c => keyLe_trans a.1 b.1 c.1) (fun a b => keyLe_total a.1 b.1) _

/- every item produced by flattening is a test case or a non-plain suite -/
mutual
theorem flatten_items : ∀ (t : T), ∀ x ∈ flatten false t, isPlainSuite x.2 = false
  | .case id => by simp [flatten, isPlainSuite]
  | .suite k cs => by
      simp only [flatten, Bool.or_false, decide_eq_true_eq]
      split
      · exact flattenL_items cs
      · rename_i hk
        intro x hx
        simp only [List.mem_singleton] at hx
        subst hx
        cases k <;> simp_all [isPlainSuite]
theorem flattenL_items : ∀ (ts : List T), ∀ x ∈ flattenL ts, isPlainSuite x.2 = false
  | [] => by simp [flattenL]
  | t :: ts => by
      simp only [flattenL, List.mem_append]
      rintro x (hx | hx)
      · exact flatten_items t x hx
      · exact flattenL_items ts x hx
end

/-- C19 (sorted, 4): plain suites are flattened away — no item of the result is a plain suite. -/
theorem C19_sorted_flat (t : T) : ∀ x ∈ (sortItems (flatten false t)).map (·.2), isPlainSuite x = false := by
  intro x hx
  obtain ⟨y, hy, rfl⟩ := List.mem_map.mp hx
  exact flatten_items t y ((sortItems_perm _).mem_iff.mp hy)

theorem ascending_perm {xs ys : List Nat} (h : xs.Perm ys) : ascending xs = ascending ys := by
  unfold ascending
  apply List.Perm.eq_of_pairwise (le := fun a b => decide (a ≤ b) = true)
  · intro a b _ _ h1 h2; simp at h1 h2; omega
  · exact List.pairwise_mergeSort (fun a b c => by simp; omega) (fun a b => by simp; omega) _
  · exact List.pairwise_mergeSort (fun a b c => by simp; omega) (fun a b => by simp; omega) _
  · exact ((List.mergeSort_perm _ _).trans h).trans (List.mergeSort_perm _ _).symm

/- flattening produces exactly the expected top-level items (`tops`): same keys, same classes, same leaf sets -/
mutual
theorem flatten_tops : ∀ t : T, (flatten false t).map (fun x => (x.1, summary x.2)) = tops t
  | .case id => by simp [flatten, tops, summary]
  | .suite k cs => by
      simp only [flatten, tops, Bool.or_false, decide_eq_true_eq]
      split
      · exact flattenL_tops cs
      · simp only [List.map_cons, List.map_nil, List.cons.injEq, Prod.mk.injEq, true_and, and_true]
        split
        · simp only [summary]
          congr 1
          exact ascending_perm ((iterateL_perm ((sortItems_perm _).map _)).trans (flattenL_perm cs))
        · simp [summary]
theorem flattenL_tops : ∀ ts : List T, (flattenL ts).map (fun x => (x.1, summary x.2)) = topsL ts
  | [] => by simp [flattenL, topsL]
  | t :: ts => by simp [flattenL, topsL, flatten_tops t, flattenL_tops ts]
end

/-! custom suites survive `sorted_tests` at every depth (seed C19-f) -/
theorem customsL_append (par : Option Ident) (xs ys : List T) : customsL par (xs ++ ys) = customsL par xs ++ customsL par ys := by
  induction xs with
  | nil => simp [customsL]
  | cons x xs ih => simp [customsL, ih]

theorem customsL_perm (par : Option Ident) {xs ys : List T} (h : xs.Perm ys) : (customsL par xs).Perm (customsL par ys) := by
  induction h with
  | nil => exact List.Perm.refl _
  | cons x _ ih => simp only [customsL]; exact List.Perm.append_left _ ih
  | swap x y l =>
    simp only [customsL, ← List.append_assoc]
    exact List.Perm.append_right _ List.perm_append_comm
  | trans _ _ ih1 ih2 => exact ih1.trans ih2

/- flattening (with the recursive `sort_tests` of the suites that have one) keeps every non-plain suite: same class, same
tests, same enclosing non-plain suite -/
mutual
theorem flatten_customs : ∀ (par : Option Ident) (t : T), (customsL par ((flatten false t).map (·.2))).Perm (customs par t)
  | par, .case id => by simp [flatten, customsL, customs]
  | par, .suite k cs => by
      simp only [flatten, Bool.or_false, decide_eq_true_eq]
      by_cases hk : k = .plain
      · simp only [hk, if_true, customs]
        exact flattenL_customs par cs
      · simp only [hk, if_false, List.map_cons, List.map_nil, customsL, List.append_nil]
        by_cases hs : k = .csort
        · simp only [hs, if_true, customs, if_false, reduceCtorEq]
          have hids : ascending (iterateL ((sortItems (flattenL cs)).map (·.2))) = ascending (iterateL cs) :=
            ascending_perm ((iterateL_perm ((sortItems_perm _).map _)).trans (flattenL_perm cs))
          rw [hids]
          exact List.Perm.cons _ ((customsL_perm _ ((sortItems_perm _).map _)).trans (flattenL_customs _ cs))
        · simp only [hs, if_false]
          exact List.Perm.refl _
theorem flattenL_customs : ∀ (par : Option Ident) (ts : List T), (customsL par ((flattenL ts).map (·.2))).Perm (customsL par ts)
  | par, [] => by simp [flattenL, customsL]
  | par, t :: ts => by
      simp only [flattenL, List.map_append, customsL_append, customsL]
      exact List.Perm.append (flatten_customs par t) (flattenL_customs par ts)
end

/-- C19 (custom suites whole, at every depth): in what `sorted_tests` returns every suite of the input that is not a plain
`TestSuite` is present exactly once - its class, its tests and the custom suite it sits in unchanged -, wherever it was nested:
below plain suites (dissolved around it), inside a suite that sorted itself, inside a suite kept as it is.  Nothing else of the
kind is in the result. -/
theorem C19_sorted_customs_whole (t r : T) (h : sortedTests t = some r) : (customs none r).Perm (customs none t) := by
  unfold sortedTests at h
  split at h
  · cases h
  · simp only [Option.some.injEq] at h
    subst h
    simp only [customs, if_true]
    exact (customsL_perm _ ((sortItems_perm _).map _)).trans (flatten_customs none t)

/-! ## headline: the executable spec holds of the model's trace, for every input -/
theorem holds_model (i : Input) : holds i (model i) = true := by
  simp only [holds, clauses, List.all_cons, List.all_nil, Bool.and_true, Bool.and_eq_true]
  refine ⟨?_, ?_, ?_, ?_, ?_, ?_, ?_, ?_, ?_, ?_⟩
  · simp [cIter, model]
  · simp [cFilterIds, model, iterate_filter]
  · simp [cFilterShape, model, rel_filter]
  · simp only [cSortedDup, model, sortedTests]
    split <;> simp_all
  · simp only [cSortedItems, model, sortedTests]
    split
    · trivial
    · rename_i items h
      split at h
      · simp at h
      · simp only [Option.some.injEq, T.suite.injEq, true_and] at h
        subst h
        simp only [Bool.and_eq_true, beq_iff_eq, List.all_eq_true, Bool.not_eq_true']
        refine ⟨?_, C19_sorted_flat i.tree⟩
        rw [List.map_map, ← flatten_tops i.tree]
        have := List.map_mergeSort (r := fun a b : Item => keyLe a.1 b.1)
          (s := fun a b : Option Nat × (Option Kind × List Nat) => keyLe a.1 b.1)
          (f := fun x : Item => (x.1, summary x.2)) (l := flatten false i.tree) (by intros; rfl)
        rw [← this, List.map_map]
        rfl
    · rename_i r hne h
      split at h
      · simp at h
      · simp only [Option.some.injEq] at h
        exact absurd h.symm (hne _)
  · simp only [cSortedPerm, model]
    split
    · trivial
    · rename_i r h
      simp only [beq_iff_eq]
      exact ascending_perm (C19_sorted_perm _ _ h)
  · simp [cList, model]
  · simp [cLoad, model, iterate_filter]
  · simp only [cSortThenFilter, model]
    cases sortedTests i.tree with
    | none => rfl
    | some r => simp [iterate_filter]
  · simp only [cSortedWhole, model]
    cases h : sortedTests i.tree with
    | none => rfl
    | some r => exact List.isPerm_iff.mpr (C19_sorted_customs_whole _ _ h)

/-- C19 (sort, then filter — what `testtools.run discover --load-list` does): filtering the suite `sorted_tests` returned keeps
exactly the chosen ids, in the sorted order; in particular every suite in that result - a suite whose own `sort_tests` ran
included - can still be filtered. -/
theorem C19_sorted_then_filter (i : Input) (r : T) (h : sortedTests i.tree = some r) :
    (model i).sortFilt = some ((iterate r).filter fun x => i.ids.contains x) := by
  simp [model, h, iterate_filter]

/-- C19 (`--list`): exactly the ids `iterate_tests` yields. -/
theorem C19_list (i : Input) : (model i).listed = iterate i.tree := rfl
/-- C19 (`--load-list`): exactly the listed tests run, in suite order. -/
theorem C19_load_list (i : Input) :
    (model i).loaded = (iterate i.tree).filter (fun x => i.ids.contains x) := by
  simp [model, iterate_filter]

/-! ## non-vacuity: concrete inputs meeting the hypotheses / exercising each branch -/
example : hasDup (iterate (.suite .plain [.case 1, .suite .custom [.case 1]])) = true := by decide
example : ∃ id, get? (.suite .plain [.case 3, .suite .custom [.case 2]]) [1, 0] = some (.case id) := ⟨2, by simp [get?]⟩
example : (iterate (.suite .plain [.case 3, .suite .custom [.case 2]])).Nodup := by decide

/-! ## tie to the source
`TTV.Generated.SuiteSrc` is produced by `harness/pysuite2lean.py` from `testtools/testsuite.py` and `testtools/run.py` on every
run; `TTV.SuiteUtilSkel.*I` interpret that data over the tree model. -/

/-- the model's `iterate` is the interpretation of `iterate_tests` as found in the source -/
theorem C19_src_iterate (t : T) : SuiteUtilSkel.iterateI Generated.SuiteSrc.iterateTests t = iterate t := by
  have e : Generated.SuiteSrc.iterateTests = SuiteUtilSkel.refIter := by decide
  rw [e]; exact SuiteUtilSkel.iterateI_ref t

/-- the model's `filterIds` is the interpretation of the cases of `filter_by_ids` as found in the source, in their order:
own `filter_by_ids` method → delegate; has `id` → keep the case or put a NEW empty `unittest.TestSuite()` in its place;
`TestSuite` → children filtered in place; then `return` the object -/
theorem C19_src_filter (S : Nat → Bool) (t : T) : SuiteUtilSkel.filterI Generated.SuiteSrc.filterByIds S t = filterIds S t := by
  -- evaluated on the generated case list for each kind of node (so cases whose tests exclude each other may come in any order)
  apply SuiteUtilSkel.filterI_sem _ S (by decide)
  · intro id; simp [Generated.SuiteSrc.filterByIds, SuiteUtilSkel.chooseAct, SuiteUtilSkel.FTest.holds]
  · intro k cs; cases k <;> simp [Generated.SuiteSrc.filterByIds, SuiteUtilSkel.chooseAct, SuiteUtilSkel.FTest.holds]

/-- the model's `flatten` is the interpretation of `_flatten_tests` as found in the source: a case is one item; a plain suite
(or the outer one when asked) is unpacked recursively; any other suite is one item whose key is taken BEFORE its `sort_tests`
is called -/
theorem C19_src_flatten (outer : Bool) (t : T) :
    SuiteUtilSkel.flattenI Generated.SuiteSrc.flattenTests outer t = flatten outer t := by
  have e : Generated.SuiteSrc.flattenTests = SuiteUtilSkel.refFlatten := by decide
  rw [e]; exact SuiteUtilSkel.flattenI_ref outer t

/-- the children the model gives a suite whose own `sort_tests` ran (kind `csort`: the harness's class AND the library's
`FixtureSuite`) are the interpretation of `FixtureSuite.sort_tests` as found in the source: the items of `sorted_tests(self, True)` -
so custom suites below it stay whole (seed C19-f replaced them by their leaves) -/
theorem C19_src_fixture_sort (cs : List T) :
    SuiteUtilSkel.sortSelfI Generated.SuiteSrc.flattenTests Generated.SuiteSrc.fixtureSortTests cs
      = some ((sortItems (flattenL cs)).map (·.2)) := by
  have e : Generated.SuiteSrc.flattenTests = SuiteUtilSkel.refFlatten := by decide
  have e2 : Generated.SuiteSrc.fixtureSortTests = SuiteUtilSkel.refSortSelf := by decide
  rw [e, e2]
  simp [SuiteUtilSkel.sortSelfI, SuiteUtilSkel.refSortSelf, SuiteUtilSkel.flattenIL_ref]

/-- the model's `sortedTests` is the interpretation of the steps of `sorted_tests` as found in the source: duplicate check over
`iterate_tests` of the whole argument (raising `ValueError`), flatten, stable sort by `(id is not None, id)`, wrap in a plain suite -/
theorem C19_src_sorted (t : T) :
    SuiteUtilSkel.sortedI Generated.SuiteSrc.iterateTests Generated.SuiteSrc.flattenTests t Generated.SuiteSrc.sortedTests none
      = (match sortedTests t with | none => .valueError | some r => .ok r) := by
  have e1 : Generated.SuiteSrc.iterateTests = SuiteUtilSkel.refIter := by decide
  have e2 : Generated.SuiteSrc.flattenTests = SuiteUtilSkel.refFlatten := by decide
  have e3 : Generated.SuiteSrc.sortedTests = SuiteUtilSkel.refSorted := by decide
  rw [e1, e2, e3]; exact SuiteUtilSkel.sortedI_ref t

/-- `--load-list`: between argument parsing and running, `TestProgram.__init__` reads the ids and ASSIGNS
`self.test = filter_by_ids(self.test, ids)`; the tests run are those of the model's `loaded` -/
theorem C19_src_load_list (i : Input) :
    SuiteUtilSkel.loadedI Generated.SuiteSrc.loadList Generated.SuiteSrc.iterateTests Generated.SuiteSrc.filterByIds
        (fun x => i.ids.contains x) i.tree = some (model i).loaded := by
  have e1 : Generated.SuiteSrc.iterateTests = SuiteUtilSkel.refIter := by decide
  have e3 : Generated.SuiteSrc.loadList = SuiteUtilSkel.refLoadList := by decide
  rw [e1, e3]
  simp [SuiteUtilSkel.loadedI, SuiteUtilSkel.refLoadList, C19_src_filter, SuiteUtilSkel.iterateI_ref, model]

end TTV.Props.C19
