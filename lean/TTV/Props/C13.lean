import TTV.Model.ConcSuite
import TTV.Spec.C13
import TTV.Lemmas.ConcSuite
import TTV.Props.C12
import TTV.Lemmas.SuiteSkel
import TTV.Lemmas.Merge
import TTV.Generated.SuiteSkel
/-! # C13 — concurrent suites run every test once, deliver every event, and terminate

Property theorems for `ConcurrentTestSuite.run` / `ConcurrentStreamTestSuite.run` (model
`TTV/Model/ConcSuite.lean`).  All statements are for **every** number of workers, every worker program,
every fault plan (worker-side faults, `make_tests` failing after `k`, an interrupt at any `queue.get()`,
the caller's result raising at any call) and every schedule (arbitrary `List Nat`, no bound).
The invariants they rest on are in `TTV/Lemmas/ConcSuite.lean` (`QInv`, `BI`, `RInv`, `SInv`, `FInv`, each
preserved by every step of the machine).
-/
namespace TTV.Props.C13
open TTV.Conc TTV.Spec.C13 TTV.Merge

/-! ## the final state -/

theorem final_done (i : SInput) : (finalC i).mpc = .done ∧ unfinished (finalC i) = [] := by
  have := finalC_finished i
  simp only [finishedC, Bool.and_eq_true, beq_iff_eq, List.isEmpty_iff] at this
  exact this

theorem final_workerDone (i : SInput) {w : Nat} (hw : w < (finalC i).nsp) : (finalC i).base.pcs[w + 1]? = some [] := by
  have := workerDone_of_unfinished_nil (final_done i).2 hw
  simpa [workerDone] using this

theorem nsp_le_n (i : SInput) : (finalC i).nsp ≤ i.workers.length :=
  Nat.le_trans (QInv_final i).nsp_le (spawnCount_le i)

/-- at the end the log consists of whole sections only; main's are its `stop()` sections, a started
worker's are exactly those of its program, other threads have none -/
theorem final_log (i : SInput) : ∃ closed, (finalC i).base.log = flatLog closed
    ∧ (∀ p ∈ closed, p.1 < i.workers.length + 1)
    ∧ ownedBy 0 closed = (finalC i).msecs
    ∧ ∀ w, w < i.workers.length →
        ownedBy (w + 1) closed = if w < (finalC i).nsp then secsC i (finalC i).msecs (w + 1) else [] := by
  obtain ⟨closed, cur, todo, rem, hb⟩ := BI_final i
  obtain ⟨hdone, _⟩ := final_done i
  have hidle := hb.main_idle (by simp [hdone])
  have hsem : (finalC i).base.sem = none := by
    cases hs : (finalC i).base.sem with
    | none => rfl
    | some k =>
      exfalso
      obtain ⟨_, hpc⟩ := hb.inv.ins k hs
      rcases hb.holder k hs with h0 | hlive | hsp
      · subst h0; rw [hidle] at hpc; cases todo <;> simp [callSteps] at hpc
      · have hk : k = (k - 1) + 1 := by
          rcases Nat.eq_zero_or_pos k with h0 | h0
          · subst h0; rw [hidle] at hpc; cases todo <;> simp [callSteps] at hpc
          · omega
        rw [hk, final_workerDone i hlive] at hpc
        cases todo <;> simp [callSteps] at hpc
      · rw [hdone] at hsp; cases hsp
  refine ⟨closed, by simpa [hsem, openLog] using hb.inv.log_eq, hb.inv.owners, ?_, ?_⟩
  · have hout := hb.inv.out 0 (by omega) (by simp [hsem])
    rw [hidle] at hout
    have hrem := segSteps_eq_nil (Option.some.inj hout).symm
    have := hb.inv.acct 0 (by omega)
    simpa [hsem, hrem, segSecs, secsC] using this.symm
  · intro w hw
    split
    · rename_i hlt
      have hout := hb.inv.out (w + 1) (by omega) (by simp [hsem])
      rw [final_workerDone i hlt] at hout
      have hrem := segSteps_eq_nil (Option.some.inj hout).symm
      have := hb.inv.acct (w + 1) (by omega)
      simpa [hsem, hrem, segSecs] using this.symm
    · rename_i hge
      simp only [ownedBy, List.map_eq_nil_iff, List.filter_eq_nil_iff]
      intro p hp
      rcases hb.owners_live p hp with h0 | h1 | h1
      · simp [h0]
      · simp only [beq_iff_eq]; intro hc; omega
      · rw [hdone] at h1; cases h1

/-! ## sections of worker programs are well shaped -/

theorem sectionsAbort_shape (f : List Nat) : ∀ (ops : List Op) (l : Loc), ∀ s ∈ (sectionsAbort f l ops).1, Spec.C12.shapeOk s = true
  | [], _, s, h => by simp [sectionsAbort] at h
  | o :: os, l, s, h => by
      simp only [sectionsAbort] at h
      have hsh : ∀ s', (stepOp f l o).sec = some s' → Spec.C12.shapeOk s' = true := by
        intro s' hs'
        rcases TTV.Props.C12.stepOp_sec_cases f l o with ⟨h1, _⟩ | ⟨c, r, h1, _⟩ | ⟨k, id, s'', _, h1, h2, _, _⟩
        · rw [h1] at hs'; cases hs'
        · rw [h1] at hs'; cases hs'; simp [Spec.C12.shapeOk]
        · rw [h1] at hs'; cases hs'; exact h2
      split at h
      · cases hsec : (stepOp f l o).sec with
        | none => simp [hsec] at h
        | some s' => simp [hsec] at h; rw [h]; exact hsh s' hsec
      · cases hsec : (stepOp f l o).sec with
        | none => simp [hsec] at h; exact sectionsAbort_shape f os _ s h
        | some s' =>
          simp [hsec] at h
          rcases h with rfl | h
          · exact hsh s hsec
          · exact sectionsAbort_shape f os _ s h

theorem segSecs_append (a b : List Seg) : segSecs (a ++ b) = segSecs a ++ segSecs b := by
  induction a with
  | nil => rfl
  | cons x a ih => cases x <;> simp [segSecs, ih]

theorem suiteProg_secs (wi : Nat) (w : Worker) :
    segSecs (suiteProg wi w).segs =
      (sectionsAbort w.faults {} (workerOps w)).1 ++
        (if (sectionsAbort w.faults {} (workerOps w)).2.2 || w.boom
         then (sectionsAbort w.faults (sectionsAbort w.faults {} (workerOps w)).2.1 brokenOps).1 else []) := by
  unfold suiteProg
  dsimp only
  split <;> simp [segSecs_append, segSecs_map_sec, segSecs]

theorem streamProg_secs (wi tb : Nat) (w : Worker) : segSecs (streamProg wi tb w).segs = [] := by
  unfold streamProg
  have : ∀ l : List SEv, segSecs (l.map fun e => Seg.put (.status e)) = [] := by
    intro l; induction l with
    | nil => rfl
    | cons a l ih => simpa [segSecs] using ih
  simp [segSecs, segSecs_append, this]

theorem progOf_secs_shape (i : SInput) (wi : Nat) (w : Worker) : ∀ s ∈ segSecs (progOf i wi w).segs, Spec.C12.shapeOk s = true := by
  intro s hs
  unfold progOf at hs
  split at hs
  · rw [suiteProg_secs] at hs
    rcases List.mem_append.mp hs with hs | hs
    · exact sectionsAbort_shape _ _ _ s hs
    · split at hs
      · exact sectionsAbort_shape _ _ _ s hs
      · cases hs
  · rw [streamProg_secs] at hs; cases hs

theorem stopSections_all (mf : List Nat) : ∀ (n k : Nat), ∀ s ∈ stopSections mf k n, ∃ r, s = [(Call.ctl .stop, r)]
  | 0, _, s, h => by simp [stopSections] at h
  | n + 1, k, s, h => by
      simp only [stopSections] at h
      split at h
      · simp at h; exact ⟨true, h⟩
      · rcases List.mem_cons.mp h with rfl | h
        · exact ⟨false, rfl⟩
        · exact stopSections_all mf n (k + 1) s h

/-- the stop sections main may have: none, or those of its abort path -/
theorem final_msecs (i : SInput) : ∀ s ∈ (finalC i).msecs, ∃ r, s = [(Call.ctl .stop, r)] := by
  have hr := RInv_final i
  obtain ⟨hdone, _⟩ := final_done i
  cases hres : (finalC i).result with
  | none => have := hr.r_done.mp hdone; simp [hres] at this
  | some r =>
    cases r with
    | returned =>
      have := (hr.r_clean (by simp [hdone]) (Or.inr hres)).1
      intro s hs; rw [this] at hs; cases hs
    | raised c =>
      cases hf : i.flavour with
      | suite =>
        have := hr.r_msecs (Or.inr ⟨c, hres⟩) hf
        rw [this]; exact stopSections_all _ _ _
      | stream =>
        intro s hs; rw [msecs_stream_nil i hf] at hs; cases hs

/-! ## the clauses of the executable specification, on the model's trace -/

theorem final_parse (i : SInput) : ∃ closed, Spec.C12.parse (modelC i).log = some closed
    ∧ (∀ p ∈ closed, p.1 < i.workers.length + 1)
    ∧ ownedBy 0 closed = (finalC i).msecs
    ∧ ∀ w, w < i.workers.length →
        ownedBy (w + 1) closed = if w < (finalC i).nsp then secsC i (finalC i).msecs (w + 1) else [] := by
  obtain ⟨closed, hlog, hown, h0, hw⟩ := final_log i
  refine ⟨closed, ?_, hown, h0, hw⟩
  show Spec.C12.parse (finalC i).base.log = some closed
  rw [hlog]; exact TTV.Props.C12.parse_flat closed

theorem secsC_succ (i : SInput) (ms : List Section) (w : Nat) (wk : Worker) (hw : i.workers[w]? = some wk) :
    secsC i ms (w + 1) = segSecs (progOf i w wk).segs := by
  simp [secsC, hw]

theorem c_oneAtATime (i : SInput) : cOneAtATime i (modelC i) = true := by
  obtain ⟨closed, hp, hown, h0, hw⟩ := final_parse i
  simp only [cOneAtATime, hp, List.all_eq_true]
  intro p hpm
  have h1 := TTV.Props.C12.mem_ownedBy hpm
  obtain ⟨j, sec⟩ := p
  cases j with
  | zero =>
    simp only at h1
    rw [h0] at h1
    obtain ⟨r, hr⟩ := final_msecs i _ h1
    simp [hr, Spec.C12.shapeOk]
  | succ w =>
    have hwn : w < i.workers.length := by have := hown _ hpm; simp at this; omega
    simp only at h1
    rw [hw w hwn] at h1
    split at h1
    · have hwk : i.workers[w]? = some i.workers[w] := by simp [hwn]
      rw [secsC_succ i _ w _ hwk] at h1
      exact progOf_secs_shape i w _ sec h1
    · cases h1

theorem final_result_some (i : SInput) : (finalC i).result.isSome = true :=
  (RInv_final i).r_done.mp (final_done i).1

theorem c_terminates (i : SInput) : cTerminates i (modelC i) = true := by
  simp only [cTerminates, Bool.and_eq_true]
  exact ⟨finalC_finished i, final_result_some i⟩

theorem c_complete (i : SInput) : cComplete i (modelC i) = true := by
  unfold cComplete
  by_cases hres : (finalC i).result = some .returned
  · have hr := RInv_final i
    obtain ⟨hreg, hnsp, hlive⟩ := hr.r_returned hres
    have hcl := hr.r_clean (by simp [(final_done i).1]) (Or.inr hres)
    have h1 : (modelC i).spawned = List.range (nWorkers i) := by simp [modelC, traceOf, hnsp, nWorkers]
    have h2 : (modelC i).liveAtReturn = [] := hlive
    have h3 : (modelC i).runs = (List.range (nWorkers i)).map (fun _ => 1) := by
      simp only [modelC, traceOf, nWorkers]
      apply List.map_congr_left
      intro w hw
      have := List.mem_range.mp hw
      simp [hnsp, this]
    have h4 : ((modelC i).sink.all fun p => !p.2.2) = true := by
      simp only [modelC, traceOf, List.all_map, List.all_eq_true]
      intro p hp
      simp [hcl.2.2 p hp]
    simp [h1, h2, h3, h4]
  · have : ((modelC i).result != some .returned) = true := by
      simp only [modelC, traceOf]
      simpa using hres
    simp [this]

theorem range_contains (n w : Nat) : (List.range n).contains w = decide (w < n) := by
  by_cases h : w < n
  · simp [h]
  · simp [h]

theorem statusesOf_map_status (l : List SEv) : statusesOf (l.map Item.status) = l := by
  induction l with
  | nil => rfl
  | cons a l ih => simp [statusesOf] at ih ⊢; exact ih

/-- the events of worker `w` inside the machine (labelled with the worker's index) -/
def idxEvents (i : SInput) (w : Nat) : List SEv :=
  match i.workers[w]? with
  | some wk => streamEvents w i.tb wk
  | none => []

theorem eventsOf_stream (i : SInput) (hf : i.flavour = .stream) (w : Nat) : eventsOf i w = idxEvents i w := by
  unfold eventsOf idxEvents
  cases hw : i.workers[w]? with
  | none => rfl
  | some wk =>
    simp only [progOf, hf]
    rw [items_stream]
    have : statusesOf (Item.startRun w :: ((streamEvents w i.tb wk).map Item.status ++ [Item.stopRun w]))
        = statusesOf ((streamEvents w i.tb wk).map Item.status) := by
      simp [statusesOf]
    rw [this, statusesOf_map_status]

/-! ### route codes: what the caller sees of a worker -/

/-- relabel an event with a route code -/
def setW (r : Nat) (e : SEv) : SEv := { e with w := r }

theorem testsEvents_setW (w r : Nat) : ∀ (ts : List WTest) (j : Nat), (testsEvents w j ts).map (setW r) = testsEvents r j ts
  | [], _ => rfl
  | t :: ts, j => by
      simp only [testsEvents, List.map_append, testsEvents_setW w r ts (j + 1)]
      congr 1
      unfold testEvents
      cases t.native with
      | none => simp [setW]
      | some evs => simp [setW, nativeEvent, Function.comp_def]

theorem fileEvents_setW (w r : Nat) : ∀ n : Nat, (fileEvents w n).map (setW r) = fileEvents r n
  | 0 => rfl
  | 1 => rfl
  | n + 2 => by simp only [fileEvents, List.map_cons, fileEvents_setW w r (n + 1)]; rfl

/-- a worker's events under its route code are its events with the label replaced: nothing else depends on who emits them -/
theorem streamEvents_setW (w r tb : Nat) (wk : Worker) : (streamEvents w tb wk).map (setW r) = streamEvents r tb wk := by
  unfold streamEvents
  rw [List.map_append, testsEvents_setW]
  congr 1
  split
  · simp [brokenEvents, fileEvents_setW, setW, brokenFail]
  · rfl

/-- the events delivered under route code `r` = the machine's sink restricted to the workers given `r`, relabelled -/
theorem sinkOf_model (i : SInput) (r : Nat) :
    Spec.C13.sinkOf r (modelC i)
      = (((finalC i).sink.filter fun p => routeOf i p.1.w == r).map (·.1)).map (setW r) := by
  simp only [Spec.C13.sinkOf, modelC, traceOf]
  induction (finalC i).sink with
  | nil => rfl
  | cons p l ih =>
    simp only [List.map_cons, List.filter_cons]
    by_cases h : routeOf i p.1.w = r
    · simp only [h, beq_self_eq_true, if_true, List.map_cons, ih]
      rfl
    · have : (routeOf i p.1.w == r) = false := by simp [h]
      simp only [this]
      exact ih

/-- **the account**: whatever the machine has delivered, the events under a route code `r` are an interleaving of the event
sequences of the workers given `r`: consuming them leaves, per worker, exactly what that worker has not yet had delivered. -/
theorem route_path (i : SInput) (r n : Nat) (rest : Nat → List SEv) :
    ∀ (L : List (SEv × Bool)) (ss : List (List SEv)), ss.length = n → (∀ p ∈ L, p.1.w < n) →
      (∀ w, w < n → ss[w]? = some (if routeOf i w = r then (Conc.sinkOf w L ++ rest w).map (setW r) else [])) →
      ∃ ss', Path (((L.filter fun p => routeOf i p.1.w == r).map (·.1)).map (setW r)) ss ss' ∧ ss'.length = n ∧
        ∀ w, w < n → ss'[w]? = some (if routeOf i w = r then (rest w).map (setW r) else [])
  | [], ss, hl, _, hs => ⟨ss, .nil _, hl, fun w hw => by simpa [Conc.sinkOf] using hs w hw⟩
  | p :: L, ss, hl, ho, hs => by
      have hoL : ∀ q ∈ L, q.1.w < n := fun q hq => ho q (List.mem_cons_of_mem _ hq)
      by_cases h : routeOf i p.1.w = r
      · have hw0 : p.1.w < n := ho p List.mem_cons_self
        have h0 := hs p.1.w hw0
        simp only [h, if_true] at h0
        have hsink0 : Conc.sinkOf p.1.w (p :: L) = p.1 :: Conc.sinkOf p.1.w L := by simp [Conc.sinkOf]
        rw [hsink0] at h0
        simp only [List.cons_append, List.map_cons] at h0
        have hs1 : ∀ w, w < n → (ss.set p.1.w ((Conc.sinkOf p.1.w L ++ rest p.1.w).map (setW r)))[w]?
            = some (if routeOf i w = r then (Conc.sinkOf w L ++ rest w).map (setW r) else []) := by
          intro w hw
          by_cases hww : p.1.w = w
          · subst hww
            rw [List.getElem?_set_self (by omega)]
            simp [h]
          · rw [List.getElem?_set_ne hww, hs w hw]
            have : Conc.sinkOf w (p :: L) = Conc.sinkOf w L := by
              have : (p.1.w == w) = false := by simp [hww]
              simp [Conc.sinkOf, this]
            rw [this]
        obtain ⟨ss', hp, hl', hs'⟩ := route_path i r n rest L _ (by simpa using hl) hoL hs1
        refine ⟨ss', ?_, hl', hs'⟩
        have hf : (routeOf i p.1.w == r) = true := by simp [h]
        simp only [List.filter_cons, hf, if_true, List.map_cons]
        exact .cons p.1.w _ _ h0 (by simp) hp
      · have hf : (routeOf i p.1.w == r) = false := by simp [h]
        simp only [List.filter_cons, hf]
        apply route_path i r n rest L ss hl hoL
        intro w hw
        rw [hs w hw]
        by_cases hr : routeOf i w = r
        · have hww : (p.1.w == w) = false := by
            have : p.1.w ≠ w := fun hc => h (hc ▸ hr)
            simp [this]
          simp [Conc.sinkOf, hww]
        · simp [hr]

theorem final_sink_acct (i : SInput) (w : Nat) (hw : w < i.workers.length) :
    Conc.sinkOf w (finalC i).sink ++ statusesOf (todoItems (finalC i) w) = eventsOf i w := by
  have := (SInv_final i).acct w hw
  rw [hand_nil (by simp [(final_done i).1])] at this
  simpa using this

theorem spawned_model (i : SInput) (w : Nat) : (modelC i).spawned.contains w = decide (w < (finalC i).nsp) := by
  simp only [modelC, traceOf]; exact range_contains _ _

theorem final_todo_nil (i : SInput) (hres : (finalC i).result = some .returned) (w : Nat) (hw : w < i.workers.length) :
    todoItems (finalC i) w = [] := by
  obtain ⟨hreg, hnsp, _⟩ := (RInv_final i).r_returned hres
  by_cases hc : todoItems (finalC i) w = []
  · exact hc
  · have := ((QInv_final i).reg_iff w).mpr ⟨by omega, hc⟩
    rw [hreg] at this; cases this

/-- the events the model delivers under route code `r` are an interleaving of the streams of the workers given `r`; when
`run()` returned, of the whole streams -/
theorem model_route_path (i : SInput) (hf : i.flavour = .stream) (r : Nat) :
    ∃ ss', Path (Spec.C13.sinkOf r (modelC i)) (streamsOf i (modelC i) r) ss' ∧
      ((finalC i).result = some .returned → ∀ s ∈ ss', s = []) := by
  have hs := SInv_final i
  let rest : Nat → List SEv := fun w => if w < (finalC i).nsp then statusesOf (todoItems (finalC i) w) else []
  have hn := nsp_le_n i
  obtain ⟨ss', hp, hl', hs'⟩ := route_path i r i.workers.length rest (finalC i).sink (streamsOf i (modelC i) r)
    (by simp [streamsOf, nWorkers])
    (fun p hp => by have := hs.sink_owner p hp; omega)
    (by
      intro w hw
      have hwk : i.workers[w]? = some i.workers[w] := by simp [hw]
      simp only [streamsOf, nWorkers, List.getElem?_map, List.getElem?_range hw, Option.map_some, spawned_model]
      by_cases hr : routeOf i w = r
      · by_cases hlt : w < (finalC i).nsp
        · have hacct := final_sink_acct i w hw
          rw [eventsOf_stream i hf] at hacct
          simp only [hr, beq_self_eq_true, hlt, decide_true, Bool.and_self, if_true, rest]
          rw [hacct]
          simp only [idxEvents, Spec.C13.wEvents, workerAt, hwk, hr]
          rw [streamEvents_setW]
        · have hnil : Conc.sinkOf w (finalC i).sink = [] := by
            simp only [Conc.sinkOf, List.map_eq_nil_iff, List.filter_eq_nil_iff]
            intro p hp
            have := hs.sink_owner p hp
            simp only [beq_iff_eq]; omega
          simp [hr, hlt, rest, hnil]
      · have : (routeOf i w == r) = false := by simp [hr]
        simp [this, hr])
  refine ⟨ss', by rw [sinkOf_model]; exact hp, ?_⟩
  intro hres s hsm
  obtain ⟨w, hw, hget⟩ := List.getElem_of_mem hsm
  have hw' : w < i.workers.length := by omega
  have h1 := hs' w hw'
  rw [List.getElem?_eq_getElem hw, hget] at h1
  have h2 : s = if routeOf i w = r then (rest w).map (setW r) else [] := Option.some.inj h1
  rw [h2]
  split
  · have htodo := final_todo_nil i hres w hw'
    simp [rest, htodo, statusesOf]
  · rfl

theorem c_delivered (i : SInput) : cDelivered i (modelC i) = true := by
  unfold cDelivered
  cases hf : i.flavour with
  | suite =>
    obtain ⟨closed, hp, hown, h0, hw⟩ := final_parse i
    simp only [hp, Bool.and_eq_true, List.all_eq_true, decide_eq_true_eq, List.mem_range, beq_iff_eq]
    refine ⟨⟨?_, ?_⟩, ?_⟩
    · intro p hpm; have := hown p hpm; simp only [nWorkers]; omega
    · intro s hs
      rw [TTV.Props.C12.secsOf_eq_ownedBy, h0] at hs
      obtain ⟨r, hr⟩ := final_msecs i s hs
      simp [hr, isStopSec]
    · intro w hwn
      simp only [nWorkers] at hwn
      rw [TTV.Props.C12.secsOf_eq_ownedBy, hw w hwn]
      have hsp : (modelC i).spawned.contains w = decide (w < (finalC i).nsp) := by
        simp only [modelC, traceOf]; exact range_contains _ _
      rw [hsp]
      by_cases hlt : w < (finalC i).nsp
      · have hwk : i.workers[w]? = some i.workers[w] := by simp [hwn]
        simp only [hlt, if_true, decide_true]
        rw [secsC_succ i _ w _ hwk]
        simp [wSecs, workerAt, hwk, progOf, hf]
      · simp [hlt]
  | stream =>
    have hs := SInv_final i
    simp only [Bool.and_eq_true, List.all_eq_true]
    refine ⟨?_, ?_⟩
    · intro p hp
      simp only [modelC, traceOf, List.mem_map] at hp
      obtain ⟨p', hp', rfl⟩ := hp
      have h1 := hs.sink_owner p' hp'
      have h2 := nsp_le_n i
      refine ⟨?_, rfl⟩
      simp only [routeCodes, nWorkers, List.contains_iff_mem, List.mem_map, List.mem_range]
      exact ⟨p'.1.w, by omega, rfl⟩
    · intro r _
      obtain ⟨ss', hp, hend⟩ := model_route_path i hf r
      refine ⟨(isMergePrefix_iff _ _).mpr ⟨ss', hp⟩, ?_⟩
      by_cases hres : (finalC i).result = some .returned
      · have := (isMerge_iff _ _).mpr ⟨ss', hp, hend hres⟩
        simp [this]
      · have : ((modelC i).result != some .returned) = true := by
          simp only [modelC, traceOf]; simpa using hres
        simp [this]

/-- **C13 (equal route codes)** — `make_tests` may give several workers the same route code (`None` for all of them, say).
Under every schedule and fault plan the events the caller's result receives under a route code are an interleaving of prefixes of
the event sequences of the workers given that code - every worker's events in its own order, none twice - and, when `run()`
returned, an interleaving of ALL their events: none lost, none invented. -/
theorem C13_same_route_code (i : SInput) (hf : i.flavour = .stream) (r : Nat) :
    isMergePrefix (Spec.C13.sinkOf r (modelC i)) (streamsOf i (modelC i) r) = true
      ∧ ((finalC i).result = some .returned → isMerge (Spec.C13.sinkOf r (modelC i)) (streamsOf i (modelC i) r) = true) := by
  obtain ⟨ss', hp, hend⟩ := model_route_path i hf r
  exact ⟨(isMergePrefix_iff _ _).mpr ⟨ss', hp⟩, fun hres => (isMerge_iff _ _).mpr ⟨ss', hp, hend hres⟩⟩

/-- **C13 (the interleaving clause for a route code nobody shares)** — if `w` is the only started worker given the code `r` (the
case whenever route codes are distinct), then for ANY observed trace "the events under `r` are an interleaving of prefixes of the
streams" says exactly "they are a prefix of `w`'s events", and "an interleaving of the whole streams" says "they are `w`'s events":
the clause for distinct codes is not weakened. -/
theorem C13_merge_single (i : SInput) (t : STrace) (r w : Nat) (hw : w < nWorkers i)
    (hme : routeOf i w = r ∧ t.spawned.contains w = true)
    (honly : ∀ w', w' < nWorkers i → w' ≠ w → ¬(routeOf i w' = r ∧ t.spawned.contains w' = true)) (l : List SEv) :
    (isMergePrefix l (streamsOf i t r) = true ↔ ∃ rest, Spec.C13.wEvents i w = l ++ rest)
      ∧ (isMerge l (streamsOf i t r) = true ↔ Spec.C13.wEvents i w = l) := by
  have hlen : (streamsOf i t r).length = nWorkers i := by simp [streamsOf]
  have hget : ∀ j, j < nWorkers i → (streamsOf i t r)[j]? =
      some (if routeOf i j == r && t.spawned.contains j then Spec.C13.wEvents i j else []) := by
    intro j hj; simp [streamsOf, hj]
  have hsplit : streamsOf i t r = (streamsOf i t r).take w ++ Spec.C13.wEvents i w :: (streamsOf i t r).drop (w + 1) := by
    have hlt : w < (streamsOf i t r).length := by omega
    conv => lhs; rw [← List.take_append_drop w (streamsOf i t r)]
    rw [List.drop_eq_getElem_cons hlt]
    have := hget w hw
    rw [List.getElem?_eq_getElem hlt] at this
    have h2 := Option.some.inj this
    simp only [hme.1, beq_self_eq_true, hme.2, Bool.and_self, if_true] at h2
    rw [h2]
  have hother : ∀ j, j < nWorkers i → j ≠ w → ∀ s, (streamsOf i t r)[j]? = some s → s = [] := by
    intro j hj hne s hs
    rw [hget j hj] at hs
    have hno := honly j hj hne
    have : (routeOf i j == r && t.spawned.contains j) = false := by
      cases h1 : (routeOf i j == r) with
      | false => rfl
      | true =>
        cases h2 : t.spawned.contains j with
        | false => rfl
        | true => exact absurd ⟨by simpa using h1, h2⟩ hno
    rw [this] at hs
    exact (Option.some.inj hs).symm
  have hpre : ∀ s ∈ (streamsOf i t r).take w, s = [] := by
    intro s hs
    obtain ⟨j, hj, hjs⟩ := List.getElem_of_mem hs
    have hjw : j < w := by simp at hj; omega
    refine hother j (by omega) (by omega) s ?_
    rw [List.getElem_take] at hjs
    rw [List.getElem?_eq_getElem (by omega), hjs]
  have hpost : ∀ s ∈ (streamsOf i t r).drop (w + 1), s = [] := by
    intro s hs
    obtain ⟨j, hj, hjs⟩ := List.getElem_of_mem hs
    simp only [List.length_drop] at hj
    rw [List.getElem_drop] at hjs
    refine hother (w + 1 + j) (by omega) (by omega) s ?_
    rw [List.getElem?_eq_getElem (by omega), hjs]
  rw [hsplit]
  exact ⟨isMergePrefix_single _ _ hpre hpost l _, isMerge_single _ _ hpre hpost l _⟩

/-! ### abort -/

def stopFlag : Call × Bool → Option Bool
  | (.ctl .stop, r) => some r
  | _ => none

theorem stops_of_calls : ∀ sec : Section,
    (sec.map fun c => ((0, EvK.call c.1 c.2) : Ev)).filterMap stopOfMain = sec.filterMap stopFlag
  | [] => rfl
  | (c, r) :: sec => by
      have ih := stops_of_calls sec
      simp only [List.map_cons, List.filterMap_cons, ih]
      cases c with
      | ctl k => cases k <;> rfl
      | time t => rfl
      | startTest id => rfl
      | stopTest id => rfl
      | tags a b => rfl
      | outcome k id => rfl

theorem stops_of_other (j : Nat) : ∀ sec : Section,
    (sec.map fun c => ((j + 1, EvK.call c.1 c.2) : Ev)).filterMap stopOfMain = []
  | [] => rfl
  | (c, r) :: sec => by
      have ih := stops_of_other j sec
      simp only [List.map_cons, List.filterMap_cons, ih]
      rfl

theorem mainStops_secEvents (p : Nat × Section) :
    (secEvents p).filterMap stopOfMain = if p.1 = 0 then p.2.filterMap stopFlag else [] := by
  obtain ⟨j, sec⟩ := p
  cases j with
  | zero =>
    simp only [secEvents, List.filterMap_cons, List.filterMap_append, List.filterMap_nil, if_true, stops_of_calls]
    simp [stopOfMain]
  | succ j =>
    simp only [secEvents, List.filterMap_cons, List.filterMap_append, List.filterMap_nil, stops_of_other]
    simp [stopOfMain]

theorem mainStops_flat : ∀ closed : List (Nat × Section),
    (flatLog closed).filterMap stopOfMain = ((ownedBy 0 closed).flatten).filterMap stopFlag
  | [] => by simp [flatLog, ownedBy]
  | p :: closed => by
      have ih := mainStops_flat closed
      simp only [flatLog, List.map_cons, List.flatten_cons, List.filterMap_append] at ih ⊢
      rw [mainStops_secEvents, ih]
      obtain ⟨j, sec⟩ := p
      by_cases hj : j = 0
      · subst hj; simp [ownedBy]
      · have : (j == 0) = false := by simp [hj]
        simp [hj, ownedBy, this]

theorem model_mainStops (i : SInput) : mainStops (modelC i) = ((finalC i).msecs.flatten).filterMap stopFlag := by
  obtain ⟨closed, hlog, _, h0, _⟩ := final_log i
  show (finalC i).base.log.filterMap stopOfMain = _
  rw [hlog, mainStops_flat, h0]

/-- the flags of the stop calls of the abort path: all fine and one per registered worker, or cut after the first that raises -/
theorem stopSections_flags (mf : List Nat) : ∀ (n k : Nat),
    (((stopSections mf k n).flatten.filterMap stopFlag).length = n ∧ ((stopSections mf k n).flatten.filterMap stopFlag).all (! ·) = true)
    ∨ (1 ≤ ((stopSections mf k n).flatten.filterMap stopFlag).length ∧ ((stopSections mf k n).flatten.filterMap stopFlag).length ≤ n
        ∧ ((stopSections mf k n).flatten.filterMap stopFlag).getLast? = some true
        ∧ (((stopSections mf k n).flatten.filterMap stopFlag).dropLast).all (! ·) = true)
  | 0, _ => by left; simp [stopSections]
  | n + 1, k => by
      simp only [stopSections]
      split
      · right; simp [stopFlag]
      · rcases stopSections_flags mf n (k + 1) with ⟨h1, h2⟩ | ⟨h1, h2, h3, h4⟩
        · left
          simp only [List.flatten_cons, List.cons_append, List.nil_append, List.filterMap_cons, stopFlag, List.length_cons, List.all_cons]
          exact ⟨by omega, by simpa using h2⟩
        · right
          simp only [List.flatten_cons, List.cons_append, List.nil_append, List.filterMap_cons, stopFlag, List.length_cons]
          refine ⟨by omega, by omega, ?_, ?_⟩
          · cases hl : List.filterMap stopFlag (stopSections mf (k + 1) n).flatten with
            | nil => rw [hl] at h1; simp at h1
            | cons a l => rw [hl] at h3; simpa [List.getLast?_cons_cons] using h3
          · cases hl : List.filterMap stopFlag (stopSections mf (k + 1) n).flatten with
            | nil => rw [hl] at h1; simp at h1
            | cons a l => rw [hl] at h4; simpa [List.dropLast_cons_cons] using h4

theorem causeOk_eq (i : SInput) (c : Cause) : Spec.C13.causeOk i c = Conc.causeOk i c := by
  cases c <;> rfl

/-- at the end, "registered" as the spec computes it from the trace is what main's `threads` holds -/
theorem final_registered (i : SInput) :
    (∀ w, w ∈ registered (modelC i) ↔ w ∈ (finalC i).reg) ∧ (registered (modelC i)).length = (finalC i).reg.length := by
  have hq := QInv_final i
  have hmem : ∀ w, w ∈ registered (modelC i) ↔ w ∈ (finalC i).reg := by
    intro w
    simp only [registered, modelC, traceOf, List.mem_filter, List.mem_range, Bool.not_eq_true', List.contains_eq_mem,
      decide_eq_false_iff_not]
    rw [hq.reg_iff]
    constructor
    · rintro ⟨h1, h2⟩
      refine ⟨h1, ?_⟩
      intro hc
      have := (hq.joined_iff w h1).mpr hc
      simp [(final_done i).1] at this
      exact h2 this
    · rintro ⟨h1, h2⟩
      refine ⟨h1, ?_⟩
      intro hc
      exact h2 ((hq.joined_iff w h1).mp (Or.inl hc))
  refine ⟨hmem, ?_⟩
  apply List.Perm.length_eq
  rw [List.perm_ext_iff_of_nodup _ hq.reg_nodup]
  · exact hmem
  · exact List.Nodup.sublist List.filter_sublist List.nodup_range

theorem c_abort (i : SInput) : cAbort i (modelC i) = true := by
  have hr := RInv_final i
  have hdone := (final_done i).1
  unfold cAbort
  have hres : (modelC i).result = (finalC i).result := rfl
  rw [hres]
  cases hre : (finalC i).result with
  | none => rfl
  | some r =>
    cases r with
    | returned =>
      have hcl := hr.r_clean (by simp [hdone]) (Or.inr hre)
      simp only [Bool.and_eq_true, beq_iff_eq, List.all_eq_true, Bool.not_eq_true']
      refine ⟨by rw [model_mainStops, hcl.1]; rfl, ?_⟩
      intro b hb
      exact hcl.2.1 b hb
    | raised c =>
      have hc := hr.r_cause c (Or.inl hre)
      simp only [causeOk_eq, hc, Bool.true_and]
      obtain ⟨hmem, hlen⟩ := final_registered i
      cases hf : i.flavour with
      | stream =>
        simp only [List.all_eq_true]
        intro w hw
        have hwr := (hmem w).mp hw
        have h1 := (FInv_final i).f_set c hre hf w hwr
        show ((finalC i).flags[w]?).getD false = true
        simp [h1]
      | suite =>
        have hms := hr.r_msecs (Or.inr ⟨c, hre⟩) hf
        rw [model_mainStops, hms, hlen]
        have hfl := stopSections_flags i.mfaults (finalC i).reg.length 0
        generalize (List.filterMap stopFlag (stopSections i.mfaults 0 (finalC i).reg.length).flatten) = L at hfl
        rcases hfl with ⟨h1, h2⟩ | ⟨h1, h2, h3, h4⟩
        · rw [Bool.or_eq_true]; left
          rw [Bool.and_eq_true]; exact ⟨by simp [h1], h2⟩
        · rw [Bool.or_eq_true]; right
          simp only [Bool.and_eq_true, decide_eq_true_eq, beq_iff_eq]
          exact ⟨⟨⟨h1, h2⟩, h3⟩, h4⟩

/-! ### broken runner -/

def isBE : Call × Bool → Bool
  | (.outcome .error .broken, _) => true
  | _ => false

theorem be_of_calls (w : Nat) : ∀ sec : Section,
    ((sec.map fun c => ((w + 1, EvK.call c.1 c.2) : Ev)).filter (isBrokenError w)).length = (sec.filter isBE).length
  | [] => rfl
  | (c, r) :: sec => by
      have ih := be_of_calls w sec
      simp only [List.map_cons, List.filter_cons]
      cases c with
      | outcome k id =>
        cases k <;> cases id <;> simp [isBrokenError, isBE, ih]
      | time t => simp [isBrokenError, isBE, ih]
      | startTest id => simp [isBrokenError, isBE, ih]
      | stopTest id => simp [isBrokenError, isBE, ih]
      | tags a b => simp [isBrokenError, isBE, ih]
      | ctl k => simp [isBrokenError, isBE, ih]

theorem be_of_other (w j : Nat) (hj : j ≠ w + 1) : ∀ sec : Section,
    ((sec.map fun c => ((j, EvK.call c.1 c.2) : Ev)).filter (isBrokenError w)) = []
  | [] => rfl
  | (c, r) :: sec => by
      have ih := be_of_other w j hj sec
      simp only [List.map_cons, List.filter_cons, ih]
      cases c with
      | outcome k id => cases k <;> cases id <;> simp [isBrokenError, hj]
      | time t => simp [isBrokenError]
      | startTest id => simp [isBrokenError]
      | stopTest id => simp [isBrokenError]
      | tags a b => simp [isBrokenError]
      | ctl k => simp [isBrokenError]

theorem be_secEvents (w j : Nat) (sec : Section) :
    ((secEvents (j, sec)).filter (isBrokenError w)).length = if j = w + 1 then (sec.filter isBE).length else 0 := by
  have e1 : isBrokenError w (j, EvK.acq) = false := rfl
  have e2 : isBrokenError w (j, EvK.rel) = false := rfl
  simp only [secEvents, List.filter_cons, e1, e2, List.filter_append, List.filter_nil, List.append_nil, Bool.false_eq_true, if_false]
  split
  · rename_i hj; subst hj; exact be_of_calls w sec
  · rename_i hj; rw [be_of_other w j hj sec]; rfl

theorem be_flat (w : Nat) : ∀ closed : List (Nat × Section),
    ((flatLog closed).filter (isBrokenError w)).length = (((ownedBy (w + 1) closed).flatten).filter isBE).length
  | [] => by simp [flatLog, ownedBy]
  | p :: closed => by
      have ih := be_flat w closed
      obtain ⟨j, sec⟩ := p
      simp only [flatLog, List.map_cons, List.flatten_cons, List.filter_append, List.length_append] at ih ⊢
      rw [be_secEvents, ih]
      by_cases hj : j = w + 1
      · subst hj; simp [ownedBy]
      · have hne : (j == w + 1) = false := by simp [hj]
        simp [hj, ownedBy, hne]

theorem emit_nofault : ∀ (cs : List Call) (n : Nat), emit [] n cs = (cs.map (·, false), n + cs.length, false)
  | [], n => by simp [emit]
  | c :: cs, n => by simp [emit, emit_nofault cs (n + 1)]; omega

theorem preCalls_noBE (l : Loc) (id : TId) : ((preCalls l id).map (·, false)).filter isBE = [] := by
  unfold preCalls
  by_cases hg : anyTags l.gtags = true <;> by_cases ht : anyTags l.ttags = true <;> simp [hg, ht, isBE]

/-- without injected faults an operation never raises, and only `addError(broken-runner)` reports the broken runner -/
theorem stepOp_nofault (l : Loc) (o : Op) :
    (stepOp [] l o).raised = false ∧
    (((stepOp [] l o).sec.getD []).filter isBE).length = (if o = .outcome .error .broken then 1 else 0) := by
  cases o with
  | time t => simp [stepOp]
  | tags a b => simp [stepOp]
  | startTest id => simp [stepOp]
  | stopTest id => simp [stepOp]
  | ctl c => simp [stepOp, isBE]
  | outcome k id =>
    simp only [stepOp, emit_nofault]
    simp only [Bool.false_eq_true, if_false, List.contains_nil, Bool.or_self, Option.getD_some, List.filter_append, preCalls_noBE,
      List.nil_append, true_and]
    cases k <;> cases id <;> simp [isBE, List.filter]

theorem sectionsAbort_nofault : ∀ (ops : List Op) (l : Loc),
    (sectionsAbort [] l ops).2.2 = false ∧
    (((sectionsAbort [] l ops).1.flatten).filter isBE).length = (ops.filter (· == .outcome .error .broken)).length
  | [], _ => by simp [sectionsAbort]
  | o :: os, l => by
      obtain ⟨h1, h2⟩ := stepOp_nofault l o
      obtain ⟨ih1, ih2⟩ := sectionsAbort_nofault os (stepOp [] l o).loc
      simp only [sectionsAbort, h1, Bool.false_eq_true, if_false]
      refine ⟨ih1, ?_⟩
      cases hsec : (stepOp [] l o).sec with
      | none =>
        simp only [hsec, Option.getD_none, List.filter_nil, List.length_nil] at h2
        simp only [List.nil_append, ih2, List.filter_cons]
        by_cases ho : o = .outcome .error .broken
        · simp [ho] at h2
        · simp [ho]
      | some sc =>
        simp only [hsec, Option.getD_some] at h2
        simp only [List.cons_append, List.nil_append, List.flatten_cons, List.filter_append, List.length_append, h2, ih2, List.filter_cons]
        by_cases ho : o = .outcome .error .broken
        · simp [ho]; omega
        · simp [ho]

theorem testsOps_noBroken : ∀ (ts : List WTest) (j : Nat), (testsOps j ts).filter (· == .outcome .error .broken) = []
  | [], _ => rfl
  | t :: ts, j => by
      simp only [testsOps, List.filter_append, testsOps_noBroken ts (j + 1), List.append_nil, testOps]
      simp

theorem testsOpsP_noBroken (p : Bool) : ∀ (ts : List WTest) (j : Nat), (testsOpsP p j ts).filter (· == .outcome .error .broken) = []
  | [], _ => rfl
  | t :: ts, j => by
      simp only [testsOpsP, List.filter_append, testsOpsP_noBroken p ts (j + 1), List.append_nil, testOps]
      cases p <;> simp

theorem workerOps_noBroken (w : Worker) : (workerOps w).filter (· == .outcome .error .broken) = [] := by
  simp only [workerOps, List.filter_append, testsOpsP_noBroken, List.nil_append]
  split <;> simp

theorem testsOpsP_false : ∀ (ts : List WTest) (j : Nat), testsOpsP false j ts = testsOps j ts
  | [], _ => rfl
  | t :: ts, j => by simp [testsOpsP, testsOps, testsOpsP_false ts (j + 1)]

/-- **C13 (a stock `unittest.TestSuite` partition)** — a sub-suite that polls does exactly what a plain one does, plus reads of
`result.shouldStop`: one before each test and one before the element that breaks the run; without `polls` the program is the
plain one. -/
theorem C13_polls_only_add_reads (w : Worker) :
    (workerOps w).filter (· != .ctl .shouldStop) = testsOps 0 w.tests ∧ (w.polls = false → workerOps w = testsOps 0 w.tests) := by
  have h : ∀ (p : Bool) (ts : List WTest) (j : Nat), (testsOpsP p j ts).filter (· != .ctl .shouldStop) = testsOps j ts := by
    intro p ts
    induction ts with
    | nil => intro j; rfl
    | cons t ts ih => intro j; cases p <;> simp [testsOpsP, testsOps, testOps, ih (j + 1)]
  constructor
  · simp only [workerOps, List.filter_append, h]
    split <;> simp
  · intro hp; simp [workerOps, hp, testsOpsP_false]

theorem suite_broken_count (wi : Nat) (w : Worker) (hf : w.faults = []) :
    (((segSecs (suiteProg wi w).segs).flatten).filter isBE).length = (if w.boom then 1 else 0) := by
  rw [suiteProg_secs, hf]
  obtain ⟨h1, h2⟩ := sectionsAbort_nofault (workerOps w) {}
  simp only [h1, Bool.false_or, List.flatten_append, List.filter_append, List.length_append, h2, workerOps_noBroken,
    List.length_nil, Nat.zero_add]
  split
  · obtain ⟨_, h4⟩ := sectionsAbort_nofault brokenOps (sectionsAbort [] {} (workerOps w)).2.1
    rw [h4]; simp [brokenOps]
  · rfl

theorem count_via_sinkOf (ev : SEv) : ∀ sink : List (SEv × Bool),
    (sink.filter fun p => p.1 == ev).length = ((Conc.sinkOf ev.w sink).filter (· == ev)).length
  | [] => rfl
  | p :: sink => by
      have ih := count_via_sinkOf ev sink
      simp only [Conc.sinkOf, List.filter_cons] at ih ⊢
      by_cases h1 : p.1 = ev
      · simp [h1, ih]
      · have hne : (p.1 == ev) = false := by simp [h1]
        by_cases h2 : p.1.w = ev.w
        · simp [hne, h2, ih]
        · have : (p.1.w == ev.w) = false := by simp [h2]
          simp [hne, this, ih]

theorem testEvents_ids (wi j : Nat) (t : WTest) : ∀ e ∈ testEvents wi j t, ∃ n, e.id = .t n := by
  intro e h
  unfold testEvents at h
  split at h
  · obtain ⟨ne, _, rfl⟩ := List.mem_map.mp h; exact ⟨ne.id, rfl⟩
  · simp only [List.mem_cons, List.not_mem_nil, or_false] at h
    rcases h with rfl | rfl <;> exact ⟨j, rfl⟩

theorem testsEvents_ids (wi : Nat) : ∀ (ts : List WTest) (j : Nat), ∀ e ∈ testsEvents wi j ts, ∃ n, e.id = .t n
  | [], _, e, h => by simp [testsEvents] at h
  | t :: ts, j, e, h => by
      simp only [testsEvents, List.mem_append] at h
      rcases h with h | h
      · exact testEvents_ids wi j t e h
      · exact testsEvents_ids wi ts (j + 1) e h

theorem testsEvents_noBroken (wi : Nat) (ev : SEv) (hev : ev.id = .broken) (ts : List WTest) (j : Nat) :
    (testsEvents wi j ts).filter (· == ev) = [] := by
  rw [List.filter_eq_nil_iff]
  intro e he
  obtain ⟨n, hn⟩ := testsEvents_ids wi ts j e he
  simp only [beq_iff_eq]
  intro hc; rw [hc, hev] at hn; cases hn

theorem fileEvents_noFail (wi : Nat) : ∀ n : Nat, (fileEvents wi n).filter (· == brokenFail wi) = []
  | 0 => by simp [fileEvents, brokenFail]
  | 1 => by simp [fileEvents, brokenFail]
  | n + 2 => by
      have := fileEvents_noFail wi (n + 1)
      have e1 : ((⟨wi, .broken, .file false, none, none⟩ : SEv) == brokenFail wi) = false := by simp [brokenFail]
      simp only [fileEvents, List.filter_cons, e1, this]
      rfl

theorem stream_broken_count (wi tb : Nat) (w : Worker) :
    ((streamEvents wi tb w).filter (· == brokenFail wi)).length = (if w.boom then 1 else 0) := by
  unfold streamEvents
  rw [List.filter_append, testsEvents_noBroken wi _ rfl]
  split
  · have e1 : ((⟨wi, .broken, .st .inprogress, none, none⟩ : SEv) == brokenFail wi) = false := by simp [brokenFail]
    simp [brokenEvents, List.filter_append, fileEvents_noFail, List.filter_cons, e1]
  · rfl

theorem brokenFails_countP (r : Nat) (t : STrace) :
    brokenFails r t = (Spec.C13.sinkOf r t).countP (· == brokenFail r) := by
  simp only [brokenFails, Spec.C13.sinkOf]
  induction t.sink with
  | nil => rfl
  | cons p l ih =>
    by_cases h1 : p.1 = brokenFail r
    · have hw : (p.1.w == r) = true := by rw [h1]; simp [brokenFail]
      have he : (p.1 == brokenFail r) = true := by simp [h1]
      rw [List.filter_cons, List.filter_cons]
      simp only [he, hw, if_true, List.length_cons, List.map_cons, List.countP_cons, ih]
    · have hne : (p.1 == brokenFail r) = false := by simp [h1]
      rw [List.filter_cons, List.filter_cons]
      simp only [hne, Bool.false_eq_true, if_false]
      by_cases h2 : (p.1.w == r) = true
      · simp only [h2, if_true, List.map_cons, List.countP_cons, hne, Bool.false_eq_true, if_false, Nat.add_zero, ih]
      · simp only [h2, Bool.false_eq_true, if_false, ih]

theorem sum_ite_eq_filter_length {β : Type} (c : β → Bool) : ∀ l : List β,
    (l.map fun x => if c x then 1 else 0).sum = (l.filter c).length
  | [] => rfl
  | x :: l => by
      have ih := sum_ite_eq_filter_length c l
      by_cases h : c x = true
      · simp [List.filter_cons, h, ih]; omega
      · simp [List.filter_cons, h, ih]

/-- the streams under a route code hold as many final `broken-runner` events as workers with that code raise -/
theorem streams_broken_total (i : SInput) (r : Nat) (hall : (finalC i).nsp = i.workers.length) :
    total (· == brokenFail r) (streamsOf i (modelC i) r) = boomsOf i r := by
  simp only [total, streamsOf, boomsOf, nWorkers, List.map_map]
  rw [← sum_ite_eq_filter_length]
  congr 1
  apply List.map_congr_left
  intro w hw
  have hw' : w < i.workers.length := by simpa using hw
  have hwk : i.workers[w]? = some i.workers[w] := by simp [hw']
  simp only [Function.comp, spawned_model, hall, hw', decide_true, Bool.and_true, workerAt, hwk, Option.map_some, Option.getD_some]
  by_cases hr : routeOf i w = r
  · simp only [hr, beq_self_eq_true, if_true, Bool.true_and, Spec.C13.wEvents, workerAt, hwk]
    have := stream_broken_count r i.tb i.workers[w]
    rw [List.countP_eq_length_filter, this]
  · have : (routeOf i w == r) = false := by simp [hr]
    simp [this]

theorem c_brokenRunner (i : SInput) : cBrokenRunner i (modelC i) = true := by
  unfold cBrokenRunner
  simp only [List.all_eq_true, List.mem_range]
  intro w hwn
  simp only [nWorkers] at hwn
  have hwk : i.workers[w]? = some i.workers[w] := by simp [hwn]
  simp only [workerAt, hwk]
  cases hf : i.flavour with
  | stream =>
    by_cases hres : (finalC i).result = some .returned
    · obtain ⟨_, hnsp, _⟩ := (RInv_final i).r_returned hres
      obtain ⟨ss', hp, hend⟩ := model_route_path i hf (routeOf i w)
      have hc := path_count (· == brokenFail (routeOf i w)) _ _ _ hp
      rw [total_empty _ _ (hend hres), streams_broken_total i _ hnsp, ← brokenFails_countP] at hc
      simp only [Nat.add_zero] at hc
      simp [hc]
    · have : ((modelC i).result != some .returned) = true := by
        simp only [modelC, traceOf]; simpa using hres
      simp [this]
  | suite =>
    obtain ⟨closed, hlog, _, _, hw⟩ := final_log i
    have hsp : (modelC i).spawned.contains w = decide (w < (finalC i).nsp) := by
      simp only [modelC, traceOf]; exact range_contains _ _
    rw [hsp]
    by_cases hlt : w < (finalC i).nsp
    · by_cases hfl : i.workers[w].faults = []
      · have hcount : brokenErrors w (modelC i) = (if i.workers[w].boom then 1 else 0) := by
          show ((finalC i).base.log.filter (isBrokenError w)).length = _
          rw [hlog, be_flat, hw w hwn]
          simp only [hlt, if_true]
          rw [secsC_succ i _ w _ hwk]
          simp only [progOf, hf]
          exact suite_broken_count w _ hfl
        simp [hcount]
      · simp [hfl]
    · simp [hlt]

/-! ## headline -/

/-- **Headline**: the executable specification holds of the model's trace, for every input. -/
theorem holds_model (i : SInput) : holds i (modelC i) = true := by
  simp only [holds, clauses, List.all_cons, List.all_nil, Bool.and_true, Bool.and_eq_true]
  exact ⟨c_oneAtATime i, c_delivered i, c_complete i, c_brokenRunner i, c_abort i, c_terminates i⟩

/-- the specification holds of the model's traces for every history of runs on one suite object -/
theorem holds_modelH (h : HInput) : holdsH h (modelH h) = true := by
  simp only [holdsH, clausesH, List.all_map, List.all_eq_true]
  intro c hc
  simp only [Function.comp, modelH, List.length_map, beq_self_eq_true, Bool.true_and, List.all_eq_true]
  intro p hp
  have hm := holds_model p.1
  simp only [holds, List.all_eq_true] at hm
  have hp2 : p.2 = modelC p.1 := by
    obtain ⟨k, hk, hget⟩ := List.getElem_of_mem hp
    simp only [List.getElem_zip, List.getElem_map] at hget
    rw [← hget]
  rw [hp2]
  exact hm c hc

/-- **C13 (runs on one suite object are independent)** — in a history of `run()` calls on one `ConcurrentTestSuite` /
`ConcurrentStreamTestSuite` object the trace of every run - what its caller's result receives, how `run()` ends, who is started,
joined, told to stop - is the trace of that same run (same sub-suites, fault plan, schedule) on a FRESH suite object: it does not
depend on how many runs went before, on what they did, on whether they were aborted, nor on what comes after. -/
theorem C13_runs_independent (pre post : HInput) (i : SInput) :
    (modelH (pre ++ i :: post))[pre.length]? = some (modelC i) ∧ modelH [i] = [modelC i] := by
  constructor
  · simp [modelH]
  · rfl

/-! ## readable statements -/

/-- states reachable by some schedule -/
def reach (i : SInput) (sched : List Nat) : CSt := runC i (initC i) sched

/-- **C13 (no stuck state)** — after *any* schedule: while `run()` has not ended or a started worker is unfinished,
some thread is enabled (main is never left waiting at `get`/`join` for something that cannot come). -/
theorem C13_no_stuck (i : SInput) (sched : List Nat) (h : finishedC (reach i sched) = false) :
    ∃ t, t < (reach i sched).base.pcs.length ∧ enabledC i (reach i sched) t = true :=
  exists_enabledC (QInv_runC sched (QInv_init i)) (BI_runC sched (BI_init i) (QInv_init i)) h

/-- **C13 (progress)** — after *any* schedule every enabled step decreases the measure `pot`, so a schedule that
keeps picking enabled threads ends after at most `pot` steps. -/
theorem C13_progress (i : SInput) (sched : List Nat) (t : Nat) (h : enabledC i (reach i sched) t = true) :
    pot i (stepC i (reach i sched) t) < pot i (reach i sched) :=
  pot_step_lt (QInv_runC sched (QInv_init i)) (BI_runC sched (BI_init i) (QInv_init i)) h

/-- **C13 (terminates)** — for every input the run (any schedule, then the lowest enabled thread) ends: `run()`
has returned or raised, and every thread that was started has ended. -/
theorem C13_terminates (i : SInput) :
    (finalC i).mpc = .done ∧ (finalC i).result.isSome = true ∧ ∀ w, w < (finalC i).nsp → (finalC i).base.pcs[w + 1]? = some [] :=
  ⟨(final_done i).1, final_result_some i, fun _ hw => final_workerDone i hw⟩

/-- **C13 (one test at a time)** — after *any* schedule the log of the caller's TestResult and the semaphore is
a sequence of whole critical sections plus at most the holder's open one (C12's invariant carries over,
including main's `stop()` calls in the abort path). -/
theorem C13_one_at_a_time (i : SInput) (sched : List Nat) :
    ∃ closed cur, (reach i sched).base.log = flatLog closed ++ openLog (reach i sched).base.sem cur := by
  obtain ⟨closed, cur, _, _, h⟩ := BI_runC sched (BI_init i) (QInv_init i)
  exact ⟨closed, cur, h.inv.log_eq⟩

/-- … and at the end every section is a well-shaped block of the thread that made it -/
theorem C13_blocks_final (i : SInput) :
    ∃ closed, (finalC i).base.log = flatLog closed ∧ ∀ p ∈ closed, Spec.C12.shapeOk p.2 = true := by
  obtain ⟨closed, hlog, _, _, _⟩ := final_log i
  refine ⟨closed, hlog, ?_⟩
  have := c_oneAtATime i
  obtain ⟨closed', hp, _⟩ := final_parse i
  have hpe : Spec.C12.parse (modelC i).log = some closed := by
    show Spec.C12.parse (finalC i).base.log = _
    rw [hlog]; exact TTV.Props.C12.parse_flat closed
  simp only [cOneAtATime, hpe, List.all_eq_true] at this
  exact this

/-- **C13 (complete)** — if `run()` returns normally then: every sub-suite that `make_tests` yields was started,
none is still running, every one has been joined or is no longer registered, and (stream) for every worker
the events the caller's result received with that worker's route code are exactly the worker's events,
in its order, once each; (suite) the sections of the worker's thread are exactly those of its program. -/
theorem C13_complete (i : SInput) (h : (finalC i).result = some .returned) :
    (finalC i).nsp = i.workers.length ∧ (finalC i).liveAtReturn = [] ∧ (finalC i).reg = []
    ∧ (∀ w, w < i.workers.length → (finalC i).base.pcs[w + 1]? = some [])
    ∧ (∀ w, w < i.workers.length → Conc.sinkOf w (finalC i).sink = eventsOf i w)
    ∧ (∀ p ∈ (finalC i).sink, p.2 = false) := by
  have hr := RInv_final i
  have hq := QInv_final i
  obtain ⟨hreg, hnsp, hlive⟩ := hr.r_returned h
  refine ⟨hnsp, hlive, hreg, fun w hw => final_workerDone i (by omega), ?_, (hr.r_clean (by simp [(final_done i).1]) (Or.inr h)).2.2⟩
  intro w hw
  have hacct := final_sink_acct i w hw
  have htodo : todoItems (finalC i) w = [] := by
    by_cases hc : todoItems (finalC i) w = []
    · exact hc
    · have := (hq.reg_iff w).mpr ⟨by omega, hc⟩
      rw [hreg] at this; cases this
  rw [htodo] at hacct
  simpa [statusesOf] using hacct

/-- **C13 (delivery, always)** — also when `run()` is aborted: what the caller's StreamResult received with
route code `w` is a prefix of worker `w`'s events (nothing lost in the middle, nothing twice, nothing
re-ordered, nothing invented), every event carries a route code of a started worker. -/
theorem C13_delivery_prefix (i : SInput) (sched : List Nat) (w : Nat) (hw : w < i.workers.length) :
    ∃ rest, Conc.sinkOf w (reach i sched).sink ++ rest = eventsOf i w := by
  have := (SInv_runC sched (SInv_init i) (QInv_init i)).acct w hw
  exact ⟨hand (reach i sched) w ++ statusesOf (todoItems (reach i sched) w), by simpa [reach] using this⟩

/-- **C13 (native emitters)** — a test that speaks the stream protocol itself contributes exactly its scripted events,
in order, to its worker's events (which `C13_complete` / `C13_delivery_prefix` say are delivered) … -/
theorem C13_native_events (wi j : Nat) (t : WTest) (evs : List NEv) (h : t.native = some evs) :
    testEvents wi j t = evs.map (nativeEvent wi) := by
  simp [testEvents, h]

/-- … each carrying the worker's route code, its own id, payload and tags, and **its own instant if it supplied
one**; an event emitted with the `timestamp` keyword omitted or with `timestamp=None` carries no instant of
its own: it is stamped with the wall clock (in the trace: `hasTimestamp`, see `C13_delivered_stamped`). -/
theorem C13_native_event (wi : Nat) (e : NEv) :
    (nativeEvent wi e).w = wi ∧ (nativeEvent wi e).id = .t e.id ∧ (nativeEvent wi e).kind = e.kind
    ∧ (nativeEvent wi e).tags = e.tags.map normTags
    ∧ (∀ n, e.ts = .given n → (nativeEvent wi e).ts = some n)
    ∧ (e.ts = .omitted ∨ e.ts = .none → (nativeEvent wi e).ts = none) := by
  refine ⟨rfl, rfl, rfl, rfl, ?_, ?_⟩
  · intro n h; simp [nativeEvent, h]
  · intro h; rcases h with h | h <;> simp [nativeEvent, h]

/-- **C13 (every delivered event has a time stamp)** — in the model's trace every event the caller's result
received is time-stamped; together with `c_delivered` (the delivered events of worker `w` are its events,
instants included) this is the clause "carrying that worker's route code and a timestamp". -/
theorem C13_delivered_stamped (i : SInput) : ∀ p ∈ (modelC i).sink, p.2.1 = true := by
  intro p hp
  simp only [modelC, traceOf, List.mem_map] at hp
  obtain ⟨q, _, rfl⟩ := hp
  rfl

/-- **C13 (broken runner, stream)** — the events of a worker whose `run()` raises contain exactly one final
`fail` status of the `broken-runner` test; those of other workers none. -/
theorem C13_broken_runner_stream (wi tb : Nat) (w : Worker) :
    ((streamEvents wi tb w).filter (· == brokenFail wi)).length = (if w.boom then 1 else 0) :=
  stream_broken_count wi tb w

/-- **C13 (broken runner, suite)** — when the caller's result does not raise, the sections of a worker whose
`run()` raises contain exactly one `addError(broken-runner)`; those of other workers none. -/
theorem C13_broken_runner_suite (wi : Nat) (w : Worker) (hf : w.faults = []) :
    (((segSecs (suiteProg wi w).segs).flatten).filter isBE).length = (if w.boom then 1 else 0) :=
  suite_broken_count wi w hf

/-- **C13 (abort)** — if `run()` raised: the exception is one the input causes; in the suite flavour `stop()`
reached the caller's result once per still-registered worker (or the `stop()` itself raised and cut the
loop); in the stream flavour every still-registered worker's result has `shouldStop` set at the end - no
later step of any worker clears it (main forwards a worker's `startTestRun`, which resets the flag, before
it starts the thread). -/
theorem C13_abort (i : SInput) (c : Cause) (h : (finalC i).result = some (.raised c)) :
    Conc.causeOk i c = true
    ∧ (i.flavour = .suite → (finalC i).msecs = stopSections i.mfaults 0 (finalC i).reg.length)
    ∧ (i.flavour = .stream → ∀ w ∈ (finalC i).reg, (finalC i).flags[w]? = some true) := by
  have hr := RInv_final i
  exact ⟨hr.r_cause c (Or.inl h), hr.r_msecs (Or.inr ⟨c, h⟩), fun hf w hw => (FInv_final i).f_set c h hf w hw⟩

/-- **C13 (a stop request is never undone)** — after *any* schedule, once `run()` has raised in the stream flavour,
every registered worker's flag is set; and a started worker's remaining items never contain `startTestRun`,
the only step that clears a flag. -/
theorem C13_stop_sticks (i : SInput) (sched : List Nat) (c : Cause) (h : (reach i sched).result = some (.raised c))
    (hf : i.flavour = .stream) : ∀ w ∈ (reach i sched).reg, (reach i sched).flags[w]? = some true :=
  (FInv_runC sched (FInv_init i) (QInv_init i) (RInv_init i)).f_set c h hf

/-- on normal return nobody is told to stop -/
theorem C13_no_spurious_stop (i : SInput) (h : (finalC i).result = some .returned) :
    (finalC i).msecs = [] ∧ ∀ b ∈ (finalC i).flags, b = false := by
  have := (RInv_final i).r_clean (by simp [(final_done i).1]) (Or.inr h)
  exact ⟨this.1, this.2.1⟩

/-! ## tie to the source: the worker side (`_run_test`)
`TTV.Generated.SuiteSkel.*` are produced by `harness/suiteskel.py` from `testtools/testsuite.py` on every run; see
`TTV/Model/SuiteSkel.lean` for the skeleton type, its interpreter and what is trusted.  (This file also imports
`TTV.Props.C12`, whose `C12_src_*` theorems tie the forwarder blocks the suite flavour's workers perform to
`testtools/testresult/real.py`; the C13 plug-in regenerates that table as well.) -/

/-- **C13 (source, `ConcurrentTestSuite._run_test`)** — interpreting the `try / except Exception / finally` skeleton *as found in the
source*: the worker thread performs exactly the segments of the model's `suiteProg` (the sections of its tests up to the
first raise, then - if the sub-suite or the caller's result raised - those of the `broken-runner` report, then `queue.put`
in any case), and its thread ends with an exception exactly when the model says it dies. -/
theorem C13_src_run_test_suite (wi tb : Nat) (w : Worker) :
    (SuiteSkel.interp .suite wi tb w Generated.SuiteSkel.suiteRunTest {}).segs = (suiteProg wi w).segs
    ∧ (SuiteSkel.interp .suite wi tb w Generated.SuiteSkel.suiteRunTest {}).raised = (suiteProg wi w).died
    ∧ (SuiteSkel.interp .suite wi tb w Generated.SuiteSkel.suiteRunTest {}).bad = false := by
  have e : Generated.SuiteSkel.suiteRunTest = SuiteSkel.refSuiteRunTest := by decide
  rw [e, SuiteSkel.interp_refSuiteRunTest]
  exact ⟨rfl, rfl, rfl⟩

/-- **C13 (source, `ConcurrentStreamTestSuite._run_test`)** — the worker thread puts exactly the items of the model's `streamProg`
after the `startTestRun` item (which `run()` puts on its behalf before it starts the thread): the events of its tests, then -
if the sub-suite raised - those of the `broken-runner` test, then `stopTestRun` in any case; its thread never dies. -/
theorem C13_src_run_test_stream (wi tb : Nat) (w : Worker) :
    .put (.startRun wi) :: (SuiteSkel.interp .stream wi tb w Generated.SuiteSkel.streamRunTest {}).segs = (streamProg wi tb w).segs
    ∧ (SuiteSkel.interp .stream wi tb w Generated.SuiteSkel.streamRunTest {}).raised = (streamProg wi tb w).died
    ∧ (SuiteSkel.interp .stream wi tb w Generated.SuiteSkel.streamRunTest {}).bad = false := by
  have e : Generated.SuiteSkel.streamRunTest = SuiteSkel.refStreamRunTest := by decide
  rw [e]; exact SuiteSkel.interp_refStreamRunTest wi tb w

/-! ## non-vacuity -/

/-- the regression input of the lost-stop defect (one worker, `make_tests` raises after yielding it): `run()` raises
with the worker registered, and its stop flag stays set -/
def stopKeptInput : SInput :=
  { flavour := .stream, workers := [{ tests := [{ kind := .success, tags := [] }], boom := false, faults := [] }],
    mkRaise := some 1, intr := none, mfaults := [], tb := 4, sched := [] }

example : (finalC stopKeptInput).result = some (.raised .makeTests) ∧ (finalC stopKeptInput).reg = [0]
    ∧ (finalC stopKeptInput).flags = [true] ∧ holds stopKeptInput (modelC stopKeptInput) = true := by decide

def exSuite : SInput :=
  { flavour := .suite,
    workers := [{ tests := [{ kind := .success, tags := [] }], boom := true, faults := [] },
                { tests := [{ kind := .error, tags := [1] }], boom := false, faults := [] }],
    mkRaise := none, intr := none, mfaults := [], tb := 4, sched := [0, 2, 0, 1, 2, 2, 1, 1, 0, 2] }

/-- a normal return in the suite flavour: both workers started and joined, worker 0's broken runner reported -/
example : (modelC exSuite).result = some .returned ∧ (modelC exSuite).spawned = [0, 1] ∧ (modelC exSuite).liveAtReturn = []
    ∧ brokenErrors 0 (modelC exSuite) = 1 ∧ holds exSuite (modelC exSuite) = true := by decide

def exStreamAbort : SInput :=
  { flavour := .stream,
    workers := [{ tests := [{ kind := .success, tags := [] }], boom := false, faults := [] },
                { tests := [{ kind := .failure, tags := [] }], boom := false, faults := [] }],
    mkRaise := none, intr := none, mfaults := [2], tb := 4, sched := [0, 0, 0, 0, 1, 2, 1, 2, 0, 0, 0, 0, 0, 1, 2] }

/-- the caller's StreamResult raises at its third status call: `run()` raises, both workers are still registered
and both are told to stop -/
example : (modelC exStreamAbort).result = some (.raised .injected)
    ∧ registered (modelC exStreamAbort) = [0, 1] ∧ (modelC exStreamAbort).flags = [true, true]
    ∧ holds exStreamAbort (modelC exStreamAbort) = true := by decide

def exNative : SInput :=
  { flavour := .stream,
    workers := [{ tests := [{ kind := .success, tags := [2] }], boom := false, faults := [] },
                { tests := [{ kind := .success, tags := [],
                              native := some [⟨0, .st .inprogress, none, .none⟩, ⟨0, .file true, some [1], .given 7⟩,
                                              ⟨0, .st .success, some [], .omitted⟩] }], boom := false, faults := [] }],
    mkRaise := none, intr := none, mfaults := [], tb := 4, sched := [0, 0, 2, 0, 1, 2, 0, 2, 1] }

/-- a native emitter next to a TestResult-API test: its three events arrive in order with route code 1; the one
with a given instant keeps it, the ones with `timestamp=None` / no `timestamp` carry the wall clock -/
example : (modelC exNative).result = some .returned
    ∧ Spec.C13.sinkOf 1 (modelC exNative) =
        [⟨1, .t 0, .st .inprogress, none, none⟩, ⟨1, .t 0, .file true, some [1], some 7⟩, ⟨1, .t 0, .st .success, some [], none⟩]
    ∧ Spec.C13.sinkOf 0 (modelC exNative) = [⟨0, .t 0, .st .inprogress, none, none⟩, ⟨0, .t 0, .st .success, some [2], none⟩]
    ∧ holds exNative (modelC exNative) = true := by decide

/-- an event that arrives without a time stamp is rejected by the `delivered` clause (what seed C13-d does to the
event emitted with `timestamp=None`) -/
example : cDelivered exNative
    { (modelC exNative) with sink := (modelC exNative).sink.map fun p => if p.1.kind = .st .inprogress then (p.1, false, p.2.2) else p } = false := by
  decide

/-- … and so is a given instant that was replaced by the wall clock -/
example : cDelivered exNative
    { (modelC exNative) with sink := (modelC exNative).sink.map fun p => ({ p.1 with ts := none }, p.2) } = false := by
  decide

/-- the `delivered` clause is not trivially true: a duplicated event is rejected -/
example : cDelivered { exStreamAbort with mfaults := [] }
    { (modelC { exStreamAbort with mfaults := [] }) with
      sink := (modelC { exStreamAbort with mfaults := [] }).sink ++ [(⟨0, .t 0, .st .success, some [], none⟩, true, false)] } = false := by decide

end TTV.Props.C13
