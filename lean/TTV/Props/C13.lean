import TTV.Model.ConcSuite
import TTV.Spec.C13
/-! # C13 — concurrent suites (theorems: in progress) -/
namespace TTV.Props.C13
open TTV.Conc TTV.Spec.C13

end TTV.Props.C13
