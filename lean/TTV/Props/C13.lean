import TTV.Model.ConcSuite
import TTV.Spec.C13
import TTV.Lemmas.ConcSuite
import TTV.Props.C12
/-! # C13 — concurrent suites run every test once, deliver every event, and terminate

Property theorems for `ConcurrentTestSuite.run` / `ConcurrentStreamTestSuite.run` (model
`TTV/Model/ConcSuite.lean`).  All statements are for **every** number of workers, every worker program,
every fault plan (worker-side faults, `make_tests` failing after `k`, an interrupt at any `queue.get()`,
the caller's result raising at any call) and every schedule (arbitrary `List Nat`, no bound).
The invariants they rest on are in `TTV/Lemmas/ConcSuite.lean` (`QInv`, `BI`, `RInv`, `SInv`, `FInv`, each
preserved by every step of the machine).
-/
namespace TTV.Props.C13
open TTV.Conc TTV.Spec.C13

/-! ## the final state -/

theorem final_done (i : SInput) : (finalC i).mpc = .done ∧ unfinished (finalC i) = [] := by
  have := finalC_finished i
  simp only [finishedC, Bool.and_eq_true, beq_iff_eq, List.isEmpty_iff] at this
  exact this

theorem final_workerDone (i : SInput) {w : Nat} (hw : w < (finalC i).nsp) : (finalC i).base.pcs[w + 1]? = some [] := by
  have := workerDone_of_unfinished_nil (final_done i).2 hw
  simpa [workerDone] using this

theorem nsp_le_n (i : SInput) : (finalC i).nsp ≤ i.workers.length :=
  Nat.le_trans (QInv_final i).nsp_le (spawnCount_le i)

/-- at the end the log consists of whole sections only; main's are its `stop()` sections, a started
worker's are exactly those of its program, other threads have none -/
theorem final_log (i : SInput) : ∃ closed, (finalC i).base.log = flatLog closed
    ∧ (∀ p ∈ closed, p.1 < i.workers.length + 1)
    ∧ ownedBy 0 closed = (finalC i).msecs
    ∧ ∀ w, w < i.workers.length →
        ownedBy (w + 1) closed = if w < (finalC i).nsp then secsC i (finalC i).msecs (w + 1) else [] := by
  obtain ⟨closed, cur, todo, rem, hb⟩ := BI_final i
  obtain ⟨hdone, _⟩ := final_done i
  have hidle := hb.main_idle (by simp [hdone])
  have hsem : (finalC i).base.sem = none := by
    cases hs : (finalC i).base.sem with
    | none => rfl
    | some k =>
      exfalso
      obtain ⟨_, hpc⟩ := hb.inv.ins k hs
      rcases hb.holder k hs with h0 | hlive
      · subst h0; rw [hidle] at hpc; cases todo <;> simp [callSteps] at hpc
      · have hk : k = (k - 1) + 1 := by
          rcases Nat.eq_zero_or_pos k with h0 | h0
          · subst h0; rw [hidle] at hpc; cases todo <;> simp [callSteps] at hpc
          · omega
        rw [hk, final_workerDone i hlive] at hpc
        cases todo <;> simp [callSteps] at hpc
  refine ⟨closed, by simpa [hsem, openLog] using hb.inv.log_eq, hb.inv.owners, ?_, ?_⟩
  · have hout := hb.inv.out 0 (by omega) (by simp [hsem])
    rw [hidle] at hout
    have hrem := segSteps_eq_nil (Option.some.inj hout).symm
    have := hb.inv.acct 0 (by omega)
    simpa [hsem, hrem, segSecs, secsC] using this.symm
  · intro w hw
    split
    · rename_i hlt
      have hout := hb.inv.out (w + 1) (by omega) (by simp [hsem])
      rw [final_workerDone i hlt] at hout
      have hrem := segSteps_eq_nil (Option.some.inj hout).symm
      have := hb.inv.acct (w + 1) (by omega)
      simpa [hsem, hrem, segSecs] using this.symm
    · rename_i hge
      simp only [ownedBy, List.map_eq_nil_iff, List.filter_eq_nil_iff]
      intro p hp
      rcases hb.owners_live p hp with h0 | h1
      · simp [h0]
      · simp only [beq_iff_eq]; intro hc; omega

/-! ## sections of worker programs are well shaped -/

theorem sectionsAbort_shape (f : List Nat) : ∀ (ops : List Op) (l : Loc), ∀ s ∈ (sectionsAbort f l ops).1, Spec.C12.shapeOk s = true
  | [], _, s, h => by simp [sectionsAbort] at h
  | o :: os, l, s, h => by
      simp only [sectionsAbort] at h
      have hsh : ∀ s', (stepOp f l o).sec = some s' → Spec.C12.shapeOk s' = true := by
        intro s' hs'
        rcases TTV.Props.C12.stepOp_sec_cases f l o with ⟨h1, _⟩ | ⟨c, r, h1, _⟩ | ⟨k, id, s'', _, h1, h2, _, _⟩
        · rw [h1] at hs'; cases hs'
        · rw [h1] at hs'; cases hs'; simp [Spec.C12.shapeOk]
        · rw [h1] at hs'; cases hs'; exact h2
      split at h
      · cases hsec : (stepOp f l o).sec with
        | none => simp [hsec] at h
        | some s' => simp [hsec] at h; rw [h]; exact hsh s' hsec
      · cases hsec : (stepOp f l o).sec with
        | none => simp [hsec] at h; exact sectionsAbort_shape f os _ s h
        | some s' =>
          simp [hsec] at h
          rcases h with rfl | h
          · exact hsh s hsec
          · exact sectionsAbort_shape f os _ s h

theorem segSecs_append (a b : List Seg) : segSecs (a ++ b) = segSecs a ++ segSecs b := by
  induction a with
  | nil => rfl
  | cons x a ih => cases x <;> simp [segSecs, ih]

theorem suiteProg_secs (wi : Nat) (w : Worker) :
    segSecs (suiteProg wi w).segs =
      (sectionsAbort w.faults {} (testsOps 0 w.tests)).1 ++
        (if (sectionsAbort w.faults {} (testsOps 0 w.tests)).2.2 || w.boom
         then (sectionsAbort w.faults (sectionsAbort w.faults {} (testsOps 0 w.tests)).2.1 brokenOps).1 else []) := by
  unfold suiteProg
  dsimp only
  split <;> simp [segSecs_append, segSecs_map_sec, segSecs]

theorem streamProg_secs (wi tb : Nat) (w : Worker) : segSecs (streamProg wi tb w).segs = [] := by
  unfold streamProg
  have : ∀ l : List SEv, segSecs (l.map fun e => Seg.put (.status e)) = [] := by
    intro l; induction l with
    | nil => rfl
    | cons a l ih => simpa [segSecs] using ih
  simp [segSecs, segSecs_append, this]

theorem progOf_secs_shape (i : SInput) (wi : Nat) (w : Worker) : ∀ s ∈ segSecs (progOf i wi w).segs, Spec.C12.shapeOk s = true := by
  intro s hs
  unfold progOf at hs
  split at hs
  · rw [suiteProg_secs] at hs
    rcases List.mem_append.mp hs with hs | hs
    · exact sectionsAbort_shape _ _ _ s hs
    · split at hs
      · exact sectionsAbort_shape _ _ _ s hs
      · cases hs
  · rw [streamProg_secs] at hs; cases hs

theorem stopSections_all (mf : List Nat) : ∀ (n k : Nat), ∀ s ∈ stopSections mf k n, ∃ r, s = [(Call.ctl .stop, r)]
  | 0, _, s, h => by simp [stopSections] at h
  | n + 1, k, s, h => by
      simp only [stopSections] at h
      split at h
      · simp at h; exact ⟨true, h⟩
      · rcases List.mem_cons.mp h with rfl | h
        · exact ⟨false, rfl⟩
        · exact stopSections_all mf n (k + 1) s h

/-- the stop sections main may have: none, or those of its abort path -/
theorem final_msecs (i : SInput) : ∀ s ∈ (finalC i).msecs, ∃ r, s = [(Call.ctl .stop, r)] := by
  have hr := RInv_final i
  obtain ⟨hdone, _⟩ := final_done i
  cases hres : (finalC i).result with
  | none => have := hr.r_done.mp hdone; simp [hres] at this
  | some r =>
    cases r with
    | returned =>
      have := (hr.r_clean (by simp [hdone]) (Or.inr hres)).1
      intro s hs; rw [this] at hs; cases hs
    | raised c =>
      cases hf : i.flavour with
      | suite =>
        have := hr.r_msecs (Or.inr ⟨c, hres⟩) hf
        rw [this]; exact stopSections_all _ _ _
      | stream =>
        intro s hs; rw [msecs_stream_nil i hf] at hs; cases hs

end TTV.Props.C13
