import TTV.Lemmas.ContentDecode
/-! Lemmas for C16: the three modelled decoders against their whole-string references; UTF-8 round trip. -/
namespace TTV.Lemmas.ContentUtf8
open TTV.Content TTV.Spec.C16 TTV.Lemmas.ContentDecode

/-! ### stateless single-byte codecs -/

theorem feedBytes_bytewise (lim : Nat) : ∀ b : Bytes,
    feedBytes (fun (_ : Unit) x => if x < lim then some ((), [x]) else none) () b
      = if b.all (· < lim) then some ((), b) else none := by
  intro b
  induction b with
  | nil => simp [feedBytes]
  | cons x xs ih =>
    simp only [feedBytes]
    by_cases hx : x < lim
    · simp only [hx, if_true, ih]
      by_cases hxs : xs.all (· < lim) = true
      · simp [hxs, hx]
      · simp only [Bool.not_eq_true] at hxs; simp [hxs, hx]
    · simp [hx]

theorem decodeAll_latin1 (b : Bytes) : decodeAll latin1 b = latin1Ref b := by
  rw [decodeAll_eq_run _ latin1_lawful]
  simp only [run, latin1, feedBytes_bytewise 256 b, latin1Ref]
  split <;> simp_all

theorem decodeAll_ascii (b : Bytes) : decodeAll ascii b = asciiRef b := by
  rw [decodeAll_eq_run _ ascii_lawful]
  simp only [run, ascii, feedBytes_bytewise 128 b, asciiRef]
  split <;> simp_all

/-! ### the UTF-8 machine -/

/-- run the machine from state `s` over `b` and flush -/
def runU (s : U8) (b : Bytes) : Option Text := run utf8 s b

theorem runU_nil (s : U8) : runU s [] = if s.need = 0 then some [] else none := by
  simp [runU, run, utf8, feedBytes]

theorem runU_cons (s : U8) (x : Nat) (xs : Bytes) :
    runU s (x :: xs) = match u8step s x with
      | none => none
      | some (s', o) => (runU s' xs).map (o ++ ·) := by
  simp only [runU, run, utf8, feedBytes]
  cases u8step s x with
  | none => rfl
  | some r =>
    obtain ⟨s', o⟩ := r
    simp only
    cases feedBytes u8step s' xs with
    | none => rfl
    | some r2 =>
      obtain ⟨s'', o'⟩ := r2
      simp only
      split <;> simp


theorem step_ascii {b : Nat} (h : b < 128) : u8step U8.start b = some (U8.start, [b]) := by
  simp [u8step, U8.start, h]

theorem step_lead2 {b : Nat} (h1 : 194 ≤ b) (h2 : b ≤ 223) :
    u8step U8.start b = some (⟨1, b - 192, 128, 191⟩, []) := by
  have : ¬ b < 128 := by omega
  simp [u8step, U8.start, this, h1, h2]

theorem step_lead3 {b : Nat} (h1 : 224 ≤ b) (h2 : b ≤ 239) :
    u8step U8.start b = some (⟨2, b - 224, if b = 224 then 160 else 128, if b = 237 then 159 else 191⟩, []) := by
  have h3 : ¬ b < 128 := by omega
  have h4 : ¬ b ≤ 223 := by omega
  simp [u8step, U8.start, h1, h2, h3, h4]

theorem step_lead4 {b : Nat} (h1 : 240 ≤ b) (h2 : b ≤ 244) :
    u8step U8.start b = some (⟨3, b - 240, if b = 240 then 144 else 128, if b = 244 then 143 else 191⟩, []) := by
  have h3 : ¬ b < 128 := by omega
  have h4 : ¬ b ≤ 223 := by omega
  have h5 : ¬ b ≤ 239 := by omega
  simp [u8step, U8.start, h1, h2, h3, h4, h5]

theorem step_lead_bad {b : Nat} (h0 : ¬ b < 128) (h1 : ¬ (194 ≤ b ∧ b ≤ 223)) (h2 : ¬ (224 ≤ b ∧ b ≤ 239))
    (h3 : ¬ (240 ≤ b ∧ b ≤ 244)) : u8step U8.start b = none := by
  simp only [u8step, U8.start, if_true, h0, if_false]
  simp only [Bool.and_eq_true, decide_eq_true_eq, h1, h2, h3, if_false]

theorem step_last {a lo hi b : Nat} (h1 : lo ≤ b) (h2 : b ≤ hi) :
    u8step ⟨1, a, lo, hi⟩ b = some (U8.start, [a * 64 + (b - 128)]) := by
  simp [u8step, h1, h2]

theorem step_more {n a lo hi b : Nat} (h1 : lo ≤ b) (h2 : b ≤ hi) :
    u8step ⟨n + 2, a, lo, hi⟩ b = some (⟨n + 1, a * 64 + (b - 128), 128, 191⟩, []) := by
  simp [u8step, h1, h2]

theorem step_cont_bad {n a lo hi b : Nat} (h : ¬ (lo ≤ b ∧ b ≤ hi)) : u8step ⟨n + 1, a, lo, hi⟩ b = none := by
  simp only [u8step, Nat.add_one_ne_zero, if_false, Bool.and_eq_true, decide_eq_true_eq, h]

theorem runU_pending_nil {n a lo hi : Nat} : runU ⟨n + 1, a, lo, hi⟩ [] = none := by
  simp [runU_nil]

theorem isCont_iff {b : Nat} : isCont b = true ↔ 128 ≤ b ∧ b ≤ 191 := by
  simp [isCont]

theorem runU_start_eq_ref (b : Bytes) : runU U8.start b = utf8Ref b := by
  fun_induction utf8Ref b with
  | case1 => simp [runU_nil, U8.start]
  | case2 b0 rest h ih => simp [runU_cons, step_ascii h, ih]
  | case3 b0 h0 h1 b1 r hc ih =>
    simp only [Bool.and_eq_true, decide_eq_true_eq] at h1
    rw [isCont_iff] at hc
    simp [runU_cons, step_lead2 h1.1 h1.2, step_last hc.1 hc.2, ih, Function.comp_def]
  | case4 b0 h0 h1 b1 r hc =>
    simp only [Bool.and_eq_true, decide_eq_true_eq] at h1
    rw [isCont_iff] at hc
    simp [runU_cons, step_lead2 h1.1 h1.2, step_cont_bad hc]
  | case5 b0 rest h0 h1 hr =>
    simp only [Bool.and_eq_true, decide_eq_true_eq] at h1
    cases rest with
    | nil => simp [runU_cons, step_lead2 h1.1 h1.2, runU_pending_nil]
    | cons x xs => exact absurd rfl (hr x xs)
  | case6 b0 h0 h1 h2 b1 b2 r hc ih =>
    simp only [Bool.and_eq_true, decide_eq_true_eq, Bool.not_eq_true', Bool.and_eq_false_iff, decide_eq_false_iff_not, isCont_iff] at h2 hc
    obtain ⟨⟨⟨hb1, hb2⟩, hx⟩, hy⟩ := hc
    have l1 : (if b0 = 224 then 160 else 128) ≤ b1 := by split <;> omega
    have l2 : b1 ≤ (if b0 = 237 then 159 else 191) := by split <;> omega
    simp [runU_cons, step_lead3 h2.1 h2.2, step_more l1 l2, step_last hb2.1 hb2.2, ih, Function.comp_def]
  | case7 b0 h0 h1 h2 b1 b2 r hc =>
    simp only [Bool.and_eq_true, decide_eq_true_eq, Bool.not_eq_true', Bool.and_eq_false_iff, decide_eq_false_iff_not, isCont_iff] at h2 hc
    by_cases hb : (if b0 = 224 then 160 else 128) ≤ b1 ∧ b1 ≤ (if b0 = 237 then 159 else 191)
    · have hb2 : ¬ (128 ≤ b2 ∧ b2 ≤ 191) := by
        intro hb2
        apply hc
        refine ⟨⟨⟨?_, hb2⟩, ?_⟩, ?_⟩
        · obtain ⟨l1, l2⟩ := hb; split at l1 <;> split at l2 <;> omega
        · obtain ⟨l1, l2⟩ := hb; split at l1 <;> omega
        · obtain ⟨l1, l2⟩ := hb; split at l2 <;> omega
      simp [runU_cons, step_lead3 h2.1 h2.2, step_more hb.1 hb.2, step_cont_bad hb2]
    · simp [runU_cons, step_lead3 h2.1 h2.2, step_cont_bad hb]
  | case8 b0 rest h0 h1 h2 hr =>
    simp only [Bool.and_eq_true, decide_eq_true_eq] at h2
    match rest, hr with
    | [], _ => simp [runU_cons, step_lead3 h2.1 h2.2, runU_pending_nil]
    | [x], _ =>
      by_cases hb : (if b0 = 224 then 160 else 128) ≤ x ∧ x ≤ (if b0 = 237 then 159 else 191)
      · simp [runU_cons, step_lead3 h2.1 h2.2, step_more hb.1 hb.2, runU_pending_nil]
      · simp [runU_cons, step_lead3 h2.1 h2.2, step_cont_bad hb]
    | x :: y :: zs, hr => exact absurd rfl (hr x y zs)
  | case9 b0 h0 h1 h2 h3 b1 b2 b3 r hc ih =>
    simp only [Bool.and_eq_true, decide_eq_true_eq, Bool.not_eq_true', Bool.and_eq_false_iff, decide_eq_false_iff_not, isCont_iff] at h3 hc
    obtain ⟨⟨⟨⟨hb1, hb2⟩, hb3⟩, hx⟩, hy⟩ := hc
    have l1 : (if b0 = 240 then 144 else 128) ≤ b1 := by split <;> omega
    have l2 : b1 ≤ (if b0 = 244 then 143 else 191) := by split <;> omega
    simp [runU_cons, step_lead4 h3.1 h3.2, step_more l1 l2, step_more hb2.1 hb2.2, step_last hb3.1 hb3.2, ih, Function.comp_def]
  | case10 b0 h0 h1 h2 h3 b1 b2 b3 r hc =>
    simp only [Bool.and_eq_true, decide_eq_true_eq, Bool.not_eq_true', Bool.and_eq_false_iff, decide_eq_false_iff_not, isCont_iff] at h3 hc
    by_cases hb : (if b0 = 240 then 144 else 128) ≤ b1 ∧ b1 ≤ (if b0 = 244 then 143 else 191)
    · by_cases hb2 : 128 ≤ b2 ∧ b2 ≤ 191
      · have hb3 : ¬ (128 ≤ b3 ∧ b3 ≤ 191) := by
          intro hb3
          apply hc
          refine ⟨⟨⟨⟨?_, hb2⟩, hb3⟩, ?_⟩, ?_⟩
          · obtain ⟨l1, l2⟩ := hb; split at l1 <;> split at l2 <;> omega
          · obtain ⟨l1, l2⟩ := hb; split at l1 <;> omega
          · obtain ⟨l1, l2⟩ := hb; split at l2 <;> omega
        simp [runU_cons, step_lead4 h3.1 h3.2, step_more hb.1 hb.2, step_more hb2.1 hb2.2, step_cont_bad hb3]
      · simp [runU_cons, step_lead4 h3.1 h3.2, step_more hb.1 hb.2, step_cont_bad hb2]
    · simp [runU_cons, step_lead4 h3.1 h3.2, step_cont_bad hb]
  | case11 b0 rest h0 h1 h2 h3 hr =>
    simp only [Bool.and_eq_true, decide_eq_true_eq] at h3
    match rest, hr with
    | [], _ => simp [runU_cons, step_lead4 h3.1 h3.2, runU_pending_nil]
    | [x], _ =>
      by_cases hb : (if b0 = 240 then 144 else 128) ≤ x ∧ x ≤ (if b0 = 244 then 143 else 191)
      · simp [runU_cons, step_lead4 h3.1 h3.2, step_more hb.1 hb.2, runU_pending_nil]
      · simp [runU_cons, step_lead4 h3.1 h3.2, step_cont_bad hb]
    | [x, y], _ =>
      by_cases hb : (if b0 = 240 then 144 else 128) ≤ x ∧ x ≤ (if b0 = 244 then 143 else 191)
      · by_cases hb2 : 128 ≤ y ∧ y ≤ 191
        · simp [runU_cons, step_lead4 h3.1 h3.2, step_more hb.1 hb.2, step_more hb2.1 hb2.2, runU_pending_nil]
        · simp [runU_cons, step_lead4 h3.1 h3.2, step_more hb.1 hb.2, step_cont_bad hb2]
      · simp [runU_cons, step_lead4 h3.1 h3.2, step_cont_bad hb]
    | x :: y :: z :: zs, hr => exact absurd rfl (hr x y z zs)
  | case12 b0 rest h0 h1 h2 h3 =>
    simp only [Bool.and_eq_true, decide_eq_true_eq] at h1 h2 h3
    simp [runU_cons, step_lead_bad h0 h1 h2 h3]

/-- the UTF-8 machine, run over the whole input and flushed, is the RFC 3629 reference decoder -/
theorem decodeAll_utf8 (b : Bytes) : decodeAll utf8 b = utf8Ref b := by
  rw [decodeAll_eq_run _ utf8_lawful]
  exact runU_start_eq_ref b

/-! ### round trip -/

theorem validCp_iff {c : Nat} : validCp c = true ↔ c < 0xD800 ∨ (0xE000 ≤ c ∧ c < 0x110000) := by
  simp [validCp]

theorem utf8Ref_encodeCp_append {c : Nat} (hc : validCp c = true) (rest : Bytes) :
    utf8Ref (encodeCp c ++ rest) = (utf8Ref rest).map (c :: ·) := by
  rw [validCp_iff] at hc
  unfold encodeCp
  split
  · rename_i h; rw [List.singleton_append, utf8Ref.eq_def]; simp [h]
  · split
    · rename_i h1 h2
      have e : (192 + c / 64 - 192) * 64 + (128 + c % 64 - 128) = c := by omega
      have a1 : ¬ (192 + c / 64 < 128) := by omega
      have a2 : 194 ≤ 192 + c / 64 := by omega
      have a3 : 192 + c / 64 ≤ 223 := by omega
      have a4 : 128 ≤ 128 + c % 64 := by omega
      have a5 : 128 + c % 64 ≤ 191 := by omega
      have e' : c / 64 * 64 + c % 64 = c := by omega
      simp [utf8Ref, isCont, a1, a2, a3, a4, a5, e']
    · split
      · rename_i h1 h2 h3
        have e : ((224 + c / 4096 - 224) * 64 + (128 + c / 64 % 64 - 128)) * 64 + (128 + c % 64 - 128) = c := by omega
        have a1 : ¬ (224 + c / 4096 < 128) := by omega
        have a2 : ¬ (224 + c / 4096 ≤ 223) := by omega
        have a3 : 224 ≤ 224 + c / 4096 := by omega
        have a4 : 224 + c / 4096 ≤ 239 := by omega
        have a5 : 128 + c / 64 % 64 ≤ 191 := by omega
        have a6 : 128 + c % 64 ≤ 191 := by omega
        have a7 : ¬ (224 + c / 4096 = 224 ∧ 128 + c / 64 % 64 < 160) := by omega
        have a8 : ¬ (224 + c / 4096 = 237 ∧ 160 ≤ 128 + c / 64 % 64) := by omega
        have e' : (c / 4096 * 64 + c / 64 % 64) * 64 + c % 64 = c := by omega
        simp [utf8Ref, isCont, a1, a2, a3, a4, a5, a6]
        rw [if_pos (by omega), e']
      · rename_i h1 h2 h3
        have e : (((240 + c / 262144 - 240) * 64 + (128 + c / 4096 % 64 - 128)) * 64 + (128 + c / 64 % 64 - 128)) * 64
            + (128 + c % 64 - 128) = c := by omega
        have a1 : ¬ (240 + c / 262144 < 128) := by omega
        have a2 : ¬ (240 + c / 262144 ≤ 223) := by omega
        have a2' : ¬ (240 + c / 262144 ≤ 239) := by omega
        have a3 : 240 ≤ 240 + c / 262144 := by omega
        have a4 : 240 + c / 262144 ≤ 244 := by omega
        have a5 : 128 + c / 4096 % 64 ≤ 191 := by omega
        have a6 : 128 + c / 64 % 64 ≤ 191 := by omega
        have a6' : 128 + c % 64 ≤ 191 := by omega
        have a7 : ¬ (240 + c / 262144 = 240 ∧ 128 + c / 4096 % 64 < 144) := by omega
        have a8 : ¬ (240 + c / 262144 = 244 ∧ 144 ≤ 128 + c / 4096 % 64) := by omega
        have e' : ((c / 262144 * 64 + c / 4096 % 64) * 64 + c / 64 % 64) * 64 + c % 64 = c := by omega
        simp [utf8Ref, isCont, a1, a2, a2', a3, a4, a5, a6, a6']
        rw [if_pos (by omega), e']

/-- decoding the UTF-8 encoding of any text over Unicode scalar values gives the text back -/
theorem utf8Ref_utf8Encode (s : Text) (hs : s.all validCp = true) : utf8Ref (utf8Encode s) = some s := by
  induction s with
  | nil => simp [utf8Encode, utf8Ref]
  | cons c cs ih =>
    simp only [List.all_cons, Bool.and_eq_true] at hs
    have := utf8Ref_encodeCp_append hs.1 (utf8Encode cs)
    simp only [utf8Encode, List.flatMap_cons] at this ⊢
    rw [this]
    simp only [utf8Encode] at ih
    simp [ih hs.2]

/-- the model's encoder is core Lean's `String.utf8EncodeChar` read as numbers -/
theorem encodeCp_eq_core (c : Char) : encodeCp c.toNat = (String.utf8EncodeChar c).map UInt8.toNat := by
  have hlt : c.val.toNat < 0x110000 := by
    rcases c.valid with h | h
    · have : c.val.toNat < 0xd800 := h; omega
    · exact h.2
  show encodeCp c.val.toNat = _
  simp only [String.utf8EncodeChar]
  generalize c.val.toNat = n at *
  unfold encodeCp
  by_cases h1 : n ≤ 127
  · have : n < 128 := by omega
    simp [h1, this]; omega
  · have h1' : ¬ n < 128 := by omega
    by_cases h2 : n ≤ 2047
    · have : n < 2048 := by omega
      simp [h1, h1', h2, this]; omega
    · have h2' : ¬ n < 2048 := by omega
      by_cases h3 : n ≤ 65535
      · have : n < 65536 := by omega
        simp [h1, h1', h2, h2', h3, this]; omega
      · have : ¬ n < 65536 := by omega
        simp [h1, h1', h2, h2', h3, this]; omega

/-- conversely the reference decoder accepts nothing but encodings of scalar values -/
theorem utf8Ref_some (b : Bytes) : ∀ s, utf8Ref b = some s → utf8Encode s = b ∧ s.all validCp = true := by
  fun_induction utf8Ref b with
  | case1 => intro s h; simp at h; subst h; simp [utf8Encode]
  | case2 b0 rest h ih =>
    intro s hs
    simp only [Option.map_eq_some_iff] at hs
    obtain ⟨s', hs', rfl⟩ := hs
    obtain ⟨e, v⟩ := ih s' hs'
    have hv : validCp b0 = true := by rw [validCp_iff]; omega
    simp [utf8Encode, encodeCp, h, hv, v] at e ⊢
    exact e
  | case3 b0 h0 h1 b1 r hc ih =>
    intro s hs
    simp only [Option.map_eq_some_iff] at hs
    obtain ⟨s', hs', rfl⟩ := hs
    obtain ⟨e, v⟩ := ih s' hs'
    simp only [Bool.and_eq_true, decide_eq_true_eq] at h1
    rw [isCont_iff] at hc
    have hv : validCp ((b0 - 192) * 64 + (b1 - 128)) = true := by rw [validCp_iff]; omega
    have c1 : ¬ ((b0 - 192) * 64 + (b1 - 128) < 128) := by omega
    have c2 : (b0 - 192) * 64 + (b1 - 128) < 2048 := by omega
    have d1 : 192 + ((b0 - 192) * 64 + (b1 - 128)) / 64 = b0 := by omega
    have d2 : 128 + ((b0 - 192) * 64 + (b1 - 128)) % 64 = b1 := by omega
    simp only [utf8Encode, List.flatMap_cons, encodeCp, c1, c2, if_true, if_false, d1, d2, List.all_cons, hv, v] at e ⊢
    simp [e]
  | case6 b0 h0 h1 h2 b1 b2 r hc ih =>
    intro s hs
    simp only [Option.map_eq_some_iff] at hs
    obtain ⟨s', hs', rfl⟩ := hs
    obtain ⟨e, v⟩ := ih s' hs'
    simp only [Bool.and_eq_true, decide_eq_true_eq, Bool.not_eq_true', Bool.and_eq_false_iff, decide_eq_false_iff_not, isCont_iff] at h2 hc
    obtain ⟨⟨⟨hb1, hb2⟩, hx⟩, hy⟩ := hc
    have hv : validCp (((b0 - 224) * 64 + (b1 - 128)) * 64 + (b2 - 128)) = true := by rw [validCp_iff]; omega
    have c1 : ¬ (((b0 - 224) * 64 + (b1 - 128)) * 64 + (b2 - 128) < 128) := by omega
    have c2 : ¬ (((b0 - 224) * 64 + (b1 - 128)) * 64 + (b2 - 128) < 2048) := by omega
    have c3 : ((b0 - 224) * 64 + (b1 - 128)) * 64 + (b2 - 128) < 65536 := by omega
    have d1 : 224 + (((b0 - 224) * 64 + (b1 - 128)) * 64 + (b2 - 128)) / 4096 = b0 := by omega
    have d2 : 128 + (((b0 - 224) * 64 + (b1 - 128)) * 64 + (b2 - 128)) / 64 % 64 = b1 := by omega
    have d3 : 128 + (((b0 - 224) * 64 + (b1 - 128)) * 64 + (b2 - 128)) % 64 = b2 := by omega
    simp only [utf8Encode, List.flatMap_cons, encodeCp, c1, c2, c3, if_true, if_false, d1, d2, d3, List.all_cons, hv, v] at e ⊢
    simp [e]
  | case9 b0 h0 h1 h2 h3 b1 b2 b3 r hc ih =>
    intro s hs
    simp only [Option.map_eq_some_iff] at hs
    obtain ⟨s', hs', rfl⟩ := hs
    obtain ⟨e, v⟩ := ih s' hs'
    simp only [Bool.and_eq_true, decide_eq_true_eq, Bool.not_eq_true', Bool.and_eq_false_iff, decide_eq_false_iff_not, isCont_iff] at h3 hc
    obtain ⟨⟨⟨⟨hb1, hb2⟩, hb3⟩, hx⟩, hy⟩ := hc
    have hv : validCp ((((b0 - 240) * 64 + (b1 - 128)) * 64 + (b2 - 128)) * 64 + (b3 - 128)) = true := by
      rw [validCp_iff]; omega
    have c1 : ¬ ((((b0 - 240) * 64 + (b1 - 128)) * 64 + (b2 - 128)) * 64 + (b3 - 128) < 128) := by omega
    have c2 : ¬ ((((b0 - 240) * 64 + (b1 - 128)) * 64 + (b2 - 128)) * 64 + (b3 - 128) < 2048) := by omega
    have c3 : ¬ ((((b0 - 240) * 64 + (b1 - 128)) * 64 + (b2 - 128)) * 64 + (b3 - 128) < 65536) := by omega
    have d1 : 240 + ((((b0 - 240) * 64 + (b1 - 128)) * 64 + (b2 - 128)) * 64 + (b3 - 128)) / 262144 = b0 := by omega
    have d2 : 128 + ((((b0 - 240) * 64 + (b1 - 128)) * 64 + (b2 - 128)) * 64 + (b3 - 128)) / 4096 % 64 = b1 := by omega
    have d3 : 128 + ((((b0 - 240) * 64 + (b1 - 128)) * 64 + (b2 - 128)) * 64 + (b3 - 128)) / 64 % 64 = b2 := by omega
    have d4 : 128 + ((((b0 - 240) * 64 + (b1 - 128)) * 64 + (b2 - 128)) * 64 + (b3 - 128)) % 64 = b3 := by omega
    simp only [utf8Encode, List.flatMap_cons, encodeCp, c1, c2, c3, if_true, if_false, d1, d2, d3, d4, List.all_cons, hv, v] at e ⊢
    simp [e]
  | case4 | case5 | case7 | case8 | case10 | case11 | case12 => intro s h; simp at h

end TTV.Lemmas.ContentUtf8
