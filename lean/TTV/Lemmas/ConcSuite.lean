import TTV.Model.ConcSuite
import TTV.Lemmas.Conc
/-! Invariants of the concurrent-suite machine `Conc.stepC` (C13), for every schedule.

* `QInv`  — queue / registration accounting: per worker the items still to be delivered (in the queue or not
            yet put) always end with that worker's final item (`fin` / `stopTestRun`), which occurs once; a
            worker is registered iff it is started and its final item has not been taken out of the queue; …
* progress: no reachable state is stuck and a measure decreases with every enabled step. -/
namespace TTV.Conc

/-! ## projections of the helper transitions -/

section proj
variable (i : SInput) (s : CSt) (r : MainRes) (c : Cause) (k : Nat)

@[simp] theorem finishMain_base : (finishMain s r).base = s.base := rfl
@[simp] theorem finishMain_mpc : (finishMain s r).mpc = .done := rfl
@[simp] theorem finishMain_nsp : (finishMain s r).nsp = s.nsp := rfl
@[simp] theorem finishMain_reg : (finishMain s r).reg = s.reg := rfl
@[simp] theorem finishMain_flags : (finishMain s r).flags = s.flags := rfl
@[simp] theorem finishMain_sink : (finishMain s r).sink = s.sink := rfl
@[simp] theorem finishMain_result : (finishMain s r).result = some r := rfl
@[simp] theorem finishMain_joined : (finishMain s r).joined = s.joined := rfl
@[simp] theorem finishMain_live : (finishMain s r).liveAtReturn = unfinished s := rfl
@[simp] theorem finishMain_ngets : (finishMain s r).ngets = s.ngets := rfl
@[simp] theorem finishMain_nstatus : (finishMain s r).nstatus = s.nstatus := rfl
@[simp] theorem finishMain_pending : (finishMain s r).pending = s.pending := rfl

theorem loopHead_eq : loopHead s = if s.reg.isEmpty then finishMain s .returned else { s with mpc := .get } := rfl

@[simp] theorem loopHead_base : (loopHead s).base = s.base := by unfold loopHead; split <;> rfl
@[simp] theorem loopHead_nsp : (loopHead s).nsp = s.nsp := by unfold loopHead; split <;> rfl
@[simp] theorem loopHead_reg : (loopHead s).reg = s.reg := by unfold loopHead; split <;> rfl
@[simp] theorem loopHead_flags : (loopHead s).flags = s.flags := by unfold loopHead; split <;> rfl
@[simp] theorem loopHead_sink : (loopHead s).sink = s.sink := by unfold loopHead; split <;> rfl
@[simp] theorem loopHead_joined : (loopHead s).joined = s.joined := by unfold loopHead; split <;> rfl
@[simp] theorem loopHead_ngets : (loopHead s).ngets = s.ngets := by unfold loopHead; split <;> rfl
@[simp] theorem loopHead_nstatus : (loopHead s).nstatus = s.nstatus := by unfold loopHead; split <;> rfl

theorem loopHead_mpc : (loopHead s).mpc = if s.reg.isEmpty then .done else .get := by
  unfold loopHead; split <;> rfl

@[simp] theorem abortMain_nsp : (abortMain i s c).nsp = s.nsp := by
  unfold abortMain; split
  · rfl
  · split <;> rfl
@[simp] theorem abortMain_reg : (abortMain i s c).reg = s.reg := by
  unfold abortMain; split
  · rfl
  · split <;> rfl
@[simp] theorem abortMain_sink : (abortMain i s c).sink = s.sink := by
  unfold abortMain; split
  · rfl
  · split <;> rfl
@[simp] theorem abortMain_joined : (abortMain i s c).joined = s.joined := by
  unfold abortMain; split
  · rfl
  · split <;> rfl
@[simp] theorem abortMain_queue : (abortMain i s c).base.queue = s.base.queue := by
  unfold abortMain; split
  · rfl
  · split <;> rfl
@[simp] theorem abortMain_sem : (abortMain i s c).base.sem = s.base.sem := by
  unfold abortMain; split
  · rfl
  · split <;> rfl
@[simp] theorem abortMain_log : (abortMain i s c).base.log = s.base.log := by
  unfold abortMain; split
  · rfl
  · split <;> rfl
@[simp] theorem abortMain_ngets : (abortMain i s c).ngets = s.ngets := by
  unfold abortMain; split
  · rfl
  · split <;> rfl
@[simp] theorem abortMain_nstatus : (abortMain i s c).nstatus = s.nstatus := by
  unfold abortMain; split
  · rfl
  · split <;> rfl
@[simp] theorem abortMain_pcs_len : (abortMain i s c).base.pcs.length = s.base.pcs.length := by
  unfold abortMain; split
  · rfl
  · split <;> simp
@[simp] theorem abortMain_pcs_succ (w : Nat) : (abortMain i s c).base.pcs[w + 1]? = s.base.pcs[w + 1]? := by
  unfold abortMain; split
  · rfl
  · split <;> simp
@[simp] theorem abortMain_flags_len : (abortMain i s c).flags.length = s.flags.length := by
  have : ∀ (ws : List Nat) (f : List Bool), (setFlags f ws).length = f.length := by
    intro ws; induction ws with
    | nil => intro f; rfl
    | cons w ws ih => intro f; simp [setFlags, ih]
  unfold abortMain; split
  · simp [this]
  · split <;> rfl

theorem abortMain_mpc : (abortMain i s c).mpc = .done ∨ (abortMain i s c).mpc = .abort := by
  unfold abortMain; split
  · left; rfl
  · split
    · left; rfl
    · right; rfl

end proj

/-! ## items of a worker -/

def stepItems (steps : List Step) : List Item :=
  steps.filterMap fun | .put x => some x | _ => none

def projQ (w : Nat) (q : List Item) : List Item := q.filter fun x => x.owner == w

def lastItem (i : SInput) (w : Nat) : Item :=
  match i.flavour with
  | .suite => .fin w
  | .stream => .stopRun w

def wpc (s : CSt) (w : Nat) : List Step := (s.base.pcs[w + 1]?).getD []

/-- what worker `w` still has to deliver: its items in the queue, then those it has not put yet -/
def todoItems (s : CSt) (w : Nat) : List Item := projQ w s.base.queue ++ stepItems (wpc s w)

def Item.plain : Item → Bool
  | .startRun _ => true
  | .status _ => true
  | _ => false

/-- nothing, or plain items (startTestRun / status) followed by the final item; all owned by `w` -/
def GoodT (last : Item) (w : Nat) (l : List Item) : Prop :=
  (l = [] ∨ ∃ pre, l = pre ++ [last] ∧ ∀ y ∈ pre, y.plain = true) ∧ ∀ x ∈ l, x.owner = w

def LastIsPut (steps : List Step) : Prop := steps = [] ∨ ∃ pre x, steps = pre ++ [Step.put x]

theorem LastIsPut_tail {a : Step} {rest : List Step} (h : LastIsPut (a :: rest)) : LastIsPut rest := by
  rcases h with h | ⟨pre, x, h⟩
  · cases h
  · cases pre with
    | nil => simp at h; left; exact h.2
    | cons b pre => simp at h; right; exact ⟨pre, x, h.2⟩

theorem stepItems_ne_nil {steps : List Step} (h : LastIsPut steps) (hne : steps ≠ []) : stepItems steps ≠ [] := by
  rcases h with h | ⟨pre, x, h⟩
  · exact absurd h hne
  · subst h; simp [stepItems]

theorem GoodT_tail {last : Item} {w : Nat} {x : Item} {l : List Item} (h : GoodT last w (x :: l)) : GoodT last w l := by
  obtain ⟨h1, h2⟩ := h
  refine ⟨?_, fun y hy => h2 y (List.mem_cons_of_mem _ hy)⟩
  rcases h1 with h1 | ⟨pre, h1, h3⟩
  · cases h1
  · cases pre with
    | nil => simp at h1; left; exact h1.2
    | cons b pre =>
      simp at h1
      right; exact ⟨pre, h1.2, fun y hy => h3 y (List.mem_cons_of_mem _ hy)⟩

/-- a plain head is not the final item: something remains -/
theorem GoodT_head_plain {last : Item} {w : Nat} {x : Item} {l : List Item} (h : GoodT last w (x :: l))
    (hl : last.plain = false) (hx : x.plain = true) : l ≠ [] := by
  obtain ⟨h1, _⟩ := h
  rcases h1 with h1 | ⟨pre, h1, _⟩
  · cases h1
  · cases pre with
    | nil => simp at h1; rw [h1.1] at hx; rw [hx] at hl; cases hl
    | cons b pre => simp at h1; rw [h1.2]; simp

/-- a head that is not plain is the final item: nothing remains -/
theorem GoodT_head_final {last : Item} {w : Nat} {x : Item} {l : List Item} (h : GoodT last w (x :: l))
    (hx : x.plain = false) : l = [] ∧ x = last := by
  obtain ⟨h1, _⟩ := h
  rcases h1 with h1 | ⟨pre, h1, h3⟩
  · cases h1
  · cases pre with
    | nil => simp at h1; exact ⟨h1.2, h1.1⟩
    | cons b pre =>
      simp at h1
      have := h3 b List.mem_cons_self
      rw [← h1.1, hx] at this; cases this

theorem lastItem_not_plain (i : SInput) (w : Nat) : (lastItem i w).plain = false := by
  unfold lastItem; split <;> rfl

theorem lastItem_owner (i : SInput) (w : Nat) : (lastItem i w).owner = w := by
  unfold lastItem; split <;> rfl

theorem stepItems_cons_put (x : Item) (rest : List Step) : stepItems (.put x :: rest) = x :: stepItems rest := rfl

theorem stepItems_cons_other {a : Step} (rest : List Step) (h : ∀ x, a ≠ .put x) : stepItems (a :: rest) = stepItems rest := by
  cases a <;> simp [stepItems] at *

theorem projQ_append (w : Nat) (a b : List Item) : projQ w (a ++ b) = projQ w a ++ projQ w b := by
  simp [projQ]

/-! ## what one step of a thread does to the program counters and the queue -/

theorem stepThread_cases (s : St) (t : Nat) :
    stepThread s t = s ∨
    ∃ a rest, s.pcs[t]? = some (a :: rest) ∧ (stepThread s t).pcs = s.pcs.set t rest ∧
      (stepThread s t).queue = (match a with | .put x => s.queue ++ [x] | _ => s.queue) := by
  unfold stepThread
  split
  · left; rfl
  · left; rfl
  · rename_i rest hpc
    split
    · left; rfl
    · right; exact ⟨_, rest, hpc, rfl, rfl⟩
  · rename_i rest hpc
    split
    · right; exact ⟨_, rest, hpc, rfl, rfl⟩
    · right; exact ⟨_, rest, hpc, rfl, rfl⟩
  · rename_i rest hpc; right; exact ⟨_, rest, hpc, rfl, rfl⟩
  · rename_i c r rest hpc; right; exact ⟨_, rest, hpc, rfl, rfl⟩
  · rename_i x rest hpc; right; exact ⟨_, rest, hpc, rfl, rfl⟩

/-! ## the queue / registration invariant -/

structure QInv (i : SInput) (s : CSt) : Prop where
  n_pcs : s.base.pcs.length = i.workers.length + 1
  nsp_le : s.nsp ≤ spawnCount i
  goodT : ∀ w, w < i.workers.length → GoodT (lastItem i w) w (todoItems s w)
  lastPut : ∀ w, w < i.workers.length → LastIsPut (wpc s w)
  unspawned : ∀ w, s.nsp ≤ w → w < i.workers.length → todoItems s w ≠ []
  qowner : ∀ x ∈ s.base.queue, x.owner < s.nsp ∨ s.mpc = .spawn x.owner
  main_noput : stepItems ((s.base.pcs[0]?).getD []) = []
  reg_iff : ∀ w, w ∈ s.reg ↔ (w < s.nsp ∧ todoItems s w ≠ [])
  reg_nodup : s.reg.Nodup
  joined_lt : ∀ w ∈ s.joined, w < s.nsp
  joined_iff : ∀ w, w < s.nsp → ((w ∈ s.joined ∨ s.mpc = .join w) ↔ todoItems s w = [])
  mpc_spawn : ∀ k, s.mpc = .spawn k → k = s.nsp ∧ k < spawnCount i
  mpc_announce : ∀ k, s.mpc = .announce k → k = s.nsp ∧ k < spawnCount i
  mpc_get : s.mpc = .get → s.reg ≠ []
  mpc_join : ∀ w, s.mpc = .join w → w < s.nsp

theorem spawnCount_le (i : SInput) : spawnCount i ≤ i.workers.length := by
  unfold spawnCount; split
  · exact Nat.min_le_right _ _
  · exact Nat.le_refl _

theorem todoItems_congr {s s' : CSt} {w : Nat} (hpc : s'.base.pcs[w + 1]? = s.base.pcs[w + 1]?)
    (hq : s'.base.queue = s.base.queue) : todoItems s' w = todoItems s w := by
  simp [todoItems, wpc, hpc, hq]

theorem wpc_congr {s s' : CSt} {w : Nat} (hpc : s'.base.pcs[w + 1]? = s.base.pcs[w + 1]?) : wpc s' w = wpc s w := by
  simp [wpc, hpc]

/-- a main-side transition that leaves the workers, the queue, the registrations and "parked at join" alone -/
theorem QInv.transfer {i : SInput} {s s' : CSt} (h : QInv i s)
    (hlen : s'.base.pcs.length = s.base.pcs.length)
    (hpc : ∀ w, s'.base.pcs[w + 1]? = s.base.pcs[w + 1]?)
    (hq : s'.base.queue = s.base.queue)
    (h0 : stepItems ((s'.base.pcs[0]?).getD []) = [])
    (hnsp : s'.nsp = s.nsp) (hreg : s'.reg = s.reg) (hj : s'.joined = s.joined)
    (hjoin : ∀ w, s'.mpc = .join w ↔ s.mpc = .join w)
    (hso : ∀ w, s.mpc = .spawn w → s'.mpc = .spawn w)
    (hspawn : ∀ k, s'.mpc = .spawn k → k = s.nsp ∧ k < spawnCount i)
    (hann : ∀ k, s'.mpc = .announce k → k = s.nsp ∧ k < spawnCount i)
    (hget : s'.mpc = .get → s.reg ≠ []) : QInv i s' := by
  have ht : ∀ w, todoItems s' w = todoItems s w := fun w => todoItems_congr (hpc w) hq
  have hw : ∀ w, wpc s' w = wpc s w := fun w => wpc_congr (hpc w)
  refine ⟨by rw [hlen]; exact h.n_pcs, by rw [hnsp]; exact h.nsp_le, ?_, ?_, ?_, ?_, h0, ?_, by rw [hreg]; exact h.reg_nodup,
    ?_, ?_, ?_, ?_, ?_, ?_⟩
  · intro w hw'; rw [ht]; exact h.goodT w hw'
  · intro w hw'; rw [hw]; exact h.lastPut w hw'
  · intro w h1 h2; rw [ht]; exact h.unspawned w (by omega) h2
  · intro x hx; rw [hq] at hx; rw [hnsp]
    rcases h.qowner x hx with h1 | h1
    · exact Or.inl h1
    · exact Or.inr (hso _ h1)
  · intro w; rw [hreg, hnsp, ht]; exact h.reg_iff w
  · intro w hw'; rw [hj] at hw'; rw [hnsp]; exact h.joined_lt w hw'
  · intro w hw'; rw [hj, hjoin, ht]; exact h.joined_iff w (by omega)
  · intro k hk; rw [hnsp]; exact hspawn k hk
  · intro k hk; rw [hnsp]; exact hann k hk
  · intro hg; rw [hreg]; exact hget hg
  · intro w hw'; rw [hnsp]; exact h.mpc_join w ((hjoin w).mp hw')

theorem stepItems_progSteps (p : List Section) : stepItems (progSteps p) = [] := by
  induction p with
  | nil => rfl
  | cons a p ih =>
    simp only [progSteps, List.map_cons, List.flatten_cons, secSteps] at ih ⊢
    simp only [stepItems, List.filterMap_append, List.filterMap_cons] at ih ⊢
    simp [ih]

theorem QInv_finishMain {i : SInput} {s : CSt} (h : QInv i s) (r : MainRes) (hm : ∀ w, s.mpc ≠ .join w) (hsp : ∀ w, s.mpc ≠ .spawn w) :
    QInv i (finishMain s r) :=
  h.transfer rfl (fun _ => rfl) rfl h.main_noput rfl rfl rfl
    (fun w => by simp [hm w]) (fun w hw => absurd hw (hsp w)) (fun k hk => by simp at hk) (fun k hk => by simp at hk) (fun hg => by simp at hg)

theorem QInv_loopHead {i : SInput} {s : CSt} (h : QInv i s) (hm : ∀ w, s.mpc ≠ .join w) (hsp : ∀ w, s.mpc ≠ .spawn w) : QInv i (loopHead s) := by
  unfold loopHead
  split
  · exact QInv_finishMain h _ hm hsp
  · rename_i hne
    refine h.transfer rfl (fun _ => rfl) rfl h.main_noput rfl rfl rfl (fun w => by simp [hm w]) (fun w hw => absurd hw (hsp w))
      (fun k hk => by simp at hk) (fun k hk => by simp at hk) ?_
    intro _ hc; simp [hc] at hne

theorem QInv_abortMain {i : SInput} {s : CSt} (h : QInv i s) (c : Cause) (hm : ∀ w, s.mpc ≠ .join w) (hsp : ∀ w, s.mpc ≠ .spawn w) :
    QInv i (abortMain i s c) := by
  refine h.transfer (by simp) (fun w => by simp) (by simp) ?_ (by simp) (by simp) (by simp) ?_ (fun w hw => absurd hw (hsp w)) ?_ ?_ ?_
  · unfold abortMain
    split
    · exact h.main_noput
    · split
      · exact h.main_noput
      · have : 0 < s.base.pcs.length := by rw [h.n_pcs]; omega
        simp [this, stepItems_progSteps]
  · intro w
    rcases abortMain_mpc i s c with h1 | h1 <;> simp [h1, hm w]
  · intro k hk; rcases abortMain_mpc i s c with h1 | h1 <;> simp [h1] at hk
  · intro k hk; rcases abortMain_mpc i s c with h1 | h1 <;> simp [h1] at hk
  · intro hk; rcases abortMain_mpc i s c with h1 | h1 <;> simp [h1] at hk

/-! the helper transitions overwrite `mpc`: what it was before does not matter -/
theorem finishMain_mpc_irrel (s : CSt) (m : MainPc) (r : MainRes) : finishMain { s with mpc := m } r = finishMain s r := rfl
theorem loopHead_mpc_irrel (s : CSt) (m : MainPc) : loopHead { s with mpc := m } = loopHead s := rfl
theorem abortMain_mpc_irrel (i : SInput) (s : CSt) (m : MainPc) (c : Cause) : abortMain i { s with mpc := m } c = abortMain i s c := by
  unfold abortMain; split <;> rfl
theorem nextSpawn_mpc_irrel (i : SInput) (s : CSt) (m : MainPc) (k : Nat) : nextSpawn i { s with mpc := m } k = nextSpawn i s k := by
  unfold nextSpawn
  split
  · rfl
  · split
    · exact abortMain_mpc_irrel i s m _
    · rfl

theorem parkPc_cases (i : SInput) (k : Nat) : parkPc i k = .announce k ∨ parkPc i k = .spawn k := by
  unfold parkPc; split
  · exact Or.inl rfl
  · exact Or.inr rfl

theorem QInv_nextSpawn {i : SInput} {s : CSt} (h : QInv i s) (hm : ∀ w, s.mpc ≠ .join w) (hsp : ∀ w, s.mpc ≠ .spawn w)
    (hqo : ∀ x ∈ s.base.queue, x.owner < s.nsp) (k : Nat) (hk : k = s.nsp) :
    QInv i (nextSpawn i s k) := by
  unfold nextSpawn
  split
  · rename_i hlt
    rcases parkPc_cases i k with hp | hp <;> rw [hp]
    · exact h.transfer rfl (fun _ => rfl) rfl h.main_noput rfl rfl rfl (fun w => by simp [hm w]) (fun w hw => absurd hw (hsp w))
        (fun k' hk' => by simp at hk') (fun k' hk' => by simp at hk'; subst hk'; exact ⟨hk, hlt⟩) (fun hg => by simp at hg)
    · -- suite: parked at start() of worker k; nothing of worker k is in the queue
      refine ⟨h.n_pcs, h.nsp_le, h.goodT, h.lastPut, h.unspawned, fun x hx => Or.inl (hqo x hx), h.main_noput, h.reg_iff, h.reg_nodup,
        h.joined_lt, ?_, ?_, ?_, ?_, ?_⟩
      · intro w hw
        have := h.joined_iff w hw
        show (w ∈ s.joined ∨ MainPc.spawn k = .join w) ↔ todoItems s w = []
        simpa [hm w] using this
      · intro k' hk'; simp at hk'; subst hk'; exact ⟨hk, hlt⟩
      · intro k' hk'; simp at hk'
      · intro hg; simp at hg
      · intro w hw; simp at hw
  · split
    · exact QInv_abortMain h _ hm hsp
    · exact QInv_loopHead h hm hsp

/-- `start()` of worker `k` -/
theorem QInv_spawn {i : SInput} {s : CSt} (h : QInv i s) (k : Nat) (hk : s.mpc = .spawn k) :
    QInv i (nextSpawn i { s with nsp := k + 1, reg := s.reg ++ [k] } (k + 1)) := by
  obtain ⟨hk1, hk2⟩ := h.mpc_spawn k hk
  have hkn : k < i.workers.length := Nat.lt_of_lt_of_le hk2 (spawnCount_le i)
  have hT : todoItems s k ≠ [] := h.unspawned k (by omega) hkn
  have hknot : k ∉ s.reg := by
    intro hc; have := (h.reg_iff k).mp hc; omega
  have hqo1 : ∀ x ∈ s.base.queue, x.owner < k + 1 := by
    intro x hx
    rcases h.qowner x hx with h1 | h1
    · omega
    · rw [hk] at h1; simp at h1; omega
  have h1 : QInv i { s with nsp := k + 1, reg := s.reg ++ [k], mpc := .done } := by
    refine ⟨h.n_pcs, Nat.succ_le_of_lt hk2, h.goodT, h.lastPut, ?_, ?_, h.main_noput, ?_, ?_, ?_, ?_, ?_, ?_, ?_, ?_⟩
    · intro w h1 h2; exact h.unspawned w (by simp at h1; omega) h2
    · intro x hx; left; exact hqo1 x hx
    · intro w
      simp only [List.mem_append, List.mem_singleton]
      constructor
      · rintro (hw | rfl)
        · have := (h.reg_iff w).mp hw; exact ⟨by omega, this.2⟩
        · exact ⟨by omega, hT⟩
      · rintro ⟨hw1, hw2⟩
        by_cases hwk : w = k
        · right; exact hwk
        · left; exact (h.reg_iff w).mpr ⟨by omega, hw2⟩
    · exact List.nodup_append.mpr ⟨h.reg_nodup, by simp, by intro a ha b hb; simp at hb; subst hb; intro hc; subst hc; exact hknot ha⟩
    · intro w hw; have := h.joined_lt w hw; simp; omega
    · intro w hw
      simp only at hw ⊢
      by_cases hwk : w = k
      · subst hwk
        constructor
        · rintro (hj | hj)
          · have := h.joined_lt w hj; omega
          · simp at hj
        · intro hc; exact absurd hc hT
      · have := h.joined_iff w (by omega)
        simp [hk] at this
        show (w ∈ s.joined ∨ MainPc.done = .join w) ↔ todoItems s w = []
        simpa using this
    · intro k' hk'; simp at hk'
    · intro k' hk'; simp at hk'
    · intro hg; simp at hg
    · intro w hw; simp at hw
  have := QInv_nextSpawn h1 (by simp) (by simp) hqo1 (k + 1) rfl
  have e := nextSpawn_mpc_irrel i { s with nsp := k + 1, reg := s.reg ++ [k] } .done (k + 1)
  rw [e] at this
  exact this

/-- `queue.get()` returns item `x` -/
theorem QInv_pop {i : SInput} {s : CSt} {x : Item} {q : List Item} (h : QInv i s) (hq : s.base.queue = x :: q)
    (hmpc : s.mpc = .get) (ng : Nat) :
    (x.plain = true → ∀ m : MainPc, (∀ w, m ≠ .join w) → (∀ k, m ≠ .spawn k) → (∀ k, m ≠ .announce k) → m ≠ .get →
        QInv i { s with base := { s.base with queue := q }, ngets := ng, mpc := m })
    ∧ (x.plain = false →
        QInv i { s with base := { s.base with queue := q }, ngets := ng, reg := s.reg.erase x.owner, mpc := .join x.owner }) := by
  have hqo : ∀ y ∈ s.base.queue, y.owner < s.nsp := by
    intro y hy; rcases h.qowner y hy with h1 | h1
    · exact h1
    · rw [hmpc] at h1; cases h1
  have hw0 : x.owner < s.nsp := hqo x (by rw [hq]; exact List.mem_cons_self)
  have hw0n : x.owner < i.workers.length := Nat.lt_of_lt_of_le hw0 (Nat.le_trans h.nsp_le (spawnCount_le i))
  -- the two shapes of new state share everything that depends on base only
  have hT0 : ∀ s' : CSt, s'.base = { s.base with queue := q } → todoItems s x.owner = x :: todoItems s' x.owner := by
    intro s' hb; simp [todoItems, wpc, hb, hq, projQ]
  have hTne : ∀ s' : CSt, s'.base = { s.base with queue := q } → ∀ w, w ≠ x.owner → todoItems s' w = todoItems s w := by
    intro s' hb w hw
    have : (x.owner == w) = false := by simp; exact fun hc => hw hc.symm
    simp [todoItems, wpc, hb, hq, projQ, this]
  have hwpc : ∀ s' : CSt, s'.base = { s.base with queue := q } → ∀ w, wpc s' w = wpc s w := by
    intro s' hb w; simp [wpc, hb]
  have hgood : ∀ s' : CSt, s'.base = { s.base with queue := q } → ∀ w, w < i.workers.length →
      GoodT (lastItem i w) w (todoItems s' w) := by
    intro s' hb w hw
    by_cases hwx : w = x.owner
    · subst hwx
      have := h.goodT _ hw
      rw [hT0 s' hb] at this
      exact GoodT_tail this
    · rw [hTne s' hb w hwx]; exact h.goodT w hw
  have hqo' : ∀ y ∈ q, y.owner < s.nsp := fun y hy => hqo y (by rw [hq]; exact List.mem_cons_of_mem _ hy)
  have hgx := h.goodT x.owner hw0n
  constructor
  · intro hpl m hm1 hm2 hm2' hm3
    have hb : ({ s with base := { s.base with queue := q }, ngets := ng, mpc := m } : CSt).base = { s.base with queue := q } := rfl
    have hne' := GoodT_head_plain (by rw [hT0 _ hb] at hgx; exact hgx) (lastItem_not_plain i _) hpl
    refine ⟨h.n_pcs, h.nsp_le, hgood _ hb, ?_, ?_, fun y hy => Or.inl (hqo' y hy), h.main_noput, ?_, h.reg_nodup, h.joined_lt, ?_, ?_, ?_, ?_, ?_⟩
    · intro w hw; rw [hwpc _ hb]; exact h.lastPut w hw
    · intro w h1 h2; rw [hTne _ hb w (by have : s.nsp ≤ w := h1; omega)]; exact h.unspawned w h1 h2
    · intro w
      by_cases hwx : w = x.owner
      · subst hwx
        rw [h.reg_iff]
        constructor
        · intro hh; exact ⟨hh.1, hne'⟩
        · intro hh; exact ⟨hh.1, by rw [hT0 _ hb]; simp⟩
      · rw [hTne _ hb w hwx]; exact h.reg_iff w
    · intro w hw
      by_cases hwx : w = x.owner
      · subst hwx
        have := h.joined_iff _ hw
        rw [hT0 _ hb, hmpc] at this
        simp at this
        simp [this, hm1, hne']
      · rw [hTne _ hb w hwx]
        have := h.joined_iff w hw
        rw [hmpc] at this
        simp at this
        simp [hm1, this]
    · intro k hk; exact absurd hk (hm2 k)
    · intro k hk; exact absurd hk (hm2' k)
    · intro hg; exact absurd hg hm3
    · intro w hw; exact absurd hw (hm1 w)
  · intro hpl
    have hb : ({ s with base := { s.base with queue := q }, ngets := ng, reg := s.reg.erase x.owner, mpc := .join x.owner } : CSt).base
        = { s.base with queue := q } := rfl
    have hfin := GoodT_head_final (by rw [hT0 _ hb] at hgx; exact hgx) hpl
    refine ⟨h.n_pcs, h.nsp_le, hgood _ hb, ?_, ?_, fun y hy => Or.inl (hqo' y hy), h.main_noput, ?_, h.reg_nodup.erase _, h.joined_lt, ?_, ?_, ?_, ?_, ?_⟩
    · intro w hw; rw [hwpc _ hb]; exact h.lastPut w hw
    · intro w h1 h2; rw [hTne _ hb w (by have : s.nsp ≤ w := h1; omega)]; exact h.unspawned w h1 h2
    · intro w
      show w ∈ s.reg.erase x.owner ↔ _
      rw [h.reg_nodup.mem_erase_iff]
      by_cases hwx : w = x.owner
      · subst hwx; simp [hfin.1]
      · rw [hTne _ hb w hwx, h.reg_iff]; simp [hwx]
    · intro w hw
      by_cases hwx : w = x.owner
      · subst hwx; simp [hfin.1]
      · rw [hTne _ hb w hwx]
        have := h.joined_iff w hw
        rw [hmpc] at this
        simp at this
        have hne : ¬ (x.owner = w) := fun hc => hwx hc.symm
        simp [this, hne]
    · intro k hk; simp at hk
    · intro k hk; simp at hk
    · intro hg; simp at hg
    · intro w hw; simp at hw; subst hw; exact hw0

/-- `join()` of worker `w` returns -/
theorem QInv_join {i : SInput} {s : CSt} (h : QInv i s) (w : Nat) (hw : s.mpc = .join w) :
    QInv i (loopHead { s with joined := s.joined ++ [w] }) := by
  have h1 : QInv i { s with joined := s.joined ++ [w], mpc := .done } := by
    refine ⟨h.n_pcs, h.nsp_le, h.goodT, h.lastPut, h.unspawned, ?_, h.main_noput, h.reg_iff, h.reg_nodup, ?_, ?_, ?_, ?_, ?_, ?_⟩
    · intro x hx; rcases h.qowner x hx with h1 | h1
      · exact Or.inl h1
      · rw [hw] at h1; cases h1
    · intro w' hw'
      rcases List.mem_append.mp hw' with h1 | h1
      · exact h.joined_lt w' h1
      · simp at h1; subst h1; exact h.mpc_join _ hw
    · intro w' hw'
      have := h.joined_iff w' hw'
      rw [hw] at this
      show (w' ∈ s.joined ++ [w] ∨ MainPc.done = .join w') ↔ todoItems s w' = []
      rw [← this]
      simp only [List.mem_append, List.mem_singleton, MainPc.join.injEq, reduceCtorEq, or_false]
      constructor <;> rintro (h1 | h1) <;> simp [h1]
    · intro k hk; simp at hk
    · intro k hk; simp at hk
    · intro hg; simp at hg
    · intro w' hw'; simp at hw'
  have := QInv_loopHead h1 (by simp) (by simp)
  have e := loopHead_mpc_irrel { s with joined := s.joined ++ [w] } .done
  rw [e] at this
  exact this

theorem stepItems_nil_cons {a : Step} {rest : List Step} (h : stepItems (a :: rest) = []) :
    (∀ x, a ≠ .put x) ∧ stepItems rest = [] := by
  cases a <;> simp_all [stepItems]

/-- a step of main inside the abort path (`process_result.stop()` of the suite flavour) -/
theorem QInv_abortStep {i : SInput} {s : CSt} (h : QInv i s) (hm : s.mpc = .abort) :
    QInv i { s with base := stepThread s.base 0 } := by
  rcases stepThread_cases s.base 0 with he | ⟨a, rest, hpc, hpcs, hqu⟩
  · rw [he]; exact h
  · have h0 := h.main_noput
    rw [hpc] at h0
    obtain ⟨hnp, hrest⟩ := stepItems_nil_cons (by simpa using h0)
    have hq : (stepThread s.base 0).queue = s.base.queue := by
      rw [hqu]; cases a <;> simp_all
    have hlt : 0 < s.base.pcs.length := by rw [h.n_pcs]; omega
    refine h.transfer (by simp [hpcs]) (fun w => by simp [hpcs]) hq (by simp [hpcs, hlt, hrest]) rfl rfl rfl
      (fun w => by simp) (fun w hw => by simp [hm] at hw) (fun k hk => by simp [hm] at hk) (fun k hk => by simp [hm] at hk) (fun hg => by simp [hm] at hg)

/-- the next step of worker `w`'s item list is taken: by the started worker itself (`m = s.mpc`), or - its first
step, the `startTestRun` item - by main on its behalf before it is started (`announce w` becomes `spawn w`) -/
theorem QInv_baseStep {i : SInput} {s : CSt} (h : QInv i s) (w : Nat) (hwn : w < i.workers.length) (fl : List Bool) (m : MainPc)
    (hm : (m = s.mpc ∧ w < s.nsp) ∨ (s.mpc = .announce w ∧ m = .spawn w)) :
    QInv i { s with base := stepThread s.base (w + 1), flags := fl, mpc := m } := by
  have hjoin : ∀ w', m = .join w' ↔ s.mpc = .join w' := by
    intro w'; rcases hm with ⟨rfl, _⟩ | ⟨h1, rfl⟩
    · exact Iff.rfl
    · simp [h1]
  have hsp : ∀ k, m = .spawn k → k = s.nsp ∧ k < spawnCount i := by
    intro k hk; rcases hm with ⟨rfl, _⟩ | ⟨h1, rfl⟩
    · exact h.mpc_spawn k hk
    · simp at hk; subst hk; exact h.mpc_announce _ h1
  have han : ∀ k, m = .announce k → k = s.nsp ∧ k < spawnCount i := by
    intro k hk; rcases hm with ⟨rfl, _⟩ | ⟨h1, rfl⟩
    · exact h.mpc_announce k hk
    · simp at hk
  have hget : m = .get → s.reg ≠ [] := by
    intro hk; rcases hm with ⟨rfl, _⟩ | ⟨h1, rfl⟩
    · exact h.mpc_get hk
    · simp at hk
  have hqold : ∀ x ∈ s.base.queue, x.owner < s.nsp ∨ m = .spawn x.owner := by
    intro x hx
    rcases h.qowner x hx with h1 | h1
    · exact Or.inl h1
    · rcases hm with ⟨rfl, _⟩ | ⟨h2, _⟩
      · exact Or.inr h1
      · rw [h2] at h1; cases h1
  have hown : w < s.nsp ∨ m = .spawn w := by
    rcases hm with ⟨_, h1⟩ | ⟨_, h1⟩
    · exact Or.inl h1
    · exact Or.inr h1
  rcases stepThread_cases s.base (w + 1) with he | ⟨a, rest, hpc, hpcs, hqu⟩
  · rw [he]
    exact ⟨h.n_pcs, h.nsp_le, h.goodT, h.lastPut, h.unspawned, hqold, h.main_noput, h.reg_iff, h.reg_nodup, h.joined_lt,
      fun w' hw' => by rw [hjoin]; exact h.joined_iff w' hw', hsp, han, hget, fun w' hw' => h.mpc_join w' ((hjoin w').mp hw')⟩
  · have hlt : w + 1 < s.base.pcs.length := lt_of_getElem?_some hpc
    have hwpc : wpc s w = a :: rest := by simp [wpc, hpc]
    have hwpc' : ∀ s' : CSt, s'.base = stepThread s.base (w + 1) → wpc s' w = rest := by
      intro s' hb; simp [wpc, hb, hpcs, hlt]
    have hwpc_ne : ∀ s' : CSt, s'.base = stepThread s.base (w + 1) → ∀ w', w' ≠ w → wpc s' w' = wpc s w' := by
      intro s' hb w' hw'
      have : ¬ (w = w') := fun hc => hw' hc.symm
      simp [wpc, hb, hpcs, this]
    -- the items still to deliver are unchanged, for every worker
    have hT : ∀ s' : CSt, s'.base = stepThread s.base (w + 1) → ∀ w', todoItems s' w' = todoItems s w' := by
      intro s' hb w'
      by_cases hww : w' = w
      · subst hww
        unfold todoItems
        rw [hwpc' s' hb, hwpc, hb, hqu]
        cases a with
        | put x =>
          have hx : x.owner = w' := (h.goodT w' hwn).2 x (by simp [todoItems, hwpc, stepItems_cons_put])
          simp [stepItems_cons_put, projQ, hx]
        | acq => simp [stepItems]
        | tryAcq => simp [stepItems]
        | rel => simp [stepItems]
        | call c r => simp [stepItems]
      · unfold todoItems
        rw [hwpc_ne s' hb w' hww, hb, hqu]
        cases a with
        | put x =>
          have hx : x.owner = w := (h.goodT w hwn).2 x (by simp [todoItems, hwpc, stepItems_cons_put])
          have : (x.owner == w') = false := by simp [hx]; exact fun hc => hww hc.symm
          simp [projQ, this]
        | acq => rfl
        | tryAcq => rfl
        | rel => rfl
        | call c r => rfl
    have hb : ({ s with base := stepThread s.base (w + 1), flags := fl, mpc := m } : CSt).base = stepThread s.base (w + 1) := rfl
    refine ⟨by simp [hpcs]; exact h.n_pcs, h.nsp_le, ?_, ?_, ?_, ?_, ?_, ?_, h.reg_nodup, h.joined_lt, ?_, hsp, han, hget,
      fun w' hw' => h.mpc_join w' ((hjoin w').mp hw')⟩
    · intro w' hw'; rw [hT _ hb]; exact h.goodT w' hw'
    · intro w' hw'
      by_cases hww : w' = w
      · subst hww
        rw [hwpc' _ hb]
        have := h.lastPut w' hw'
        rw [hwpc] at this
        exact LastIsPut_tail this
      · rw [hwpc_ne _ hb w' hww]; exact h.lastPut w' hw'
    · intro w' h1 h2
      rw [hT _ hb]; exact h.unspawned w' h1 h2
    · intro x hx
      simp only [hqu] at hx
      cases a with
      | put y =>
        simp at hx
        rcases hx with hx | rfl
        · exact hqold x hx
        · have hy : x.owner = w := (h.goodT w hwn).2 x (by simp [todoItems, hwpc, stepItems_cons_put])
          rw [hy]; exact hown
      | acq => exact hqold x hx
      | tryAcq => exact hqold x hx
      | rel => exact hqold x hx
      | call c r => exact hqold x hx
    · show stepItems (((stepThread s.base (w + 1)).pcs[0]?).getD []) = []
      rw [hpcs]
      simp
      exact h.main_noput
    · intro w'; rw [hT _ hb]; exact h.reg_iff w'
    · intro w' hw'; rw [hT _ hb, hjoin]; exact h.joined_iff w' hw'

/-- a step of a started worker -/
theorem QInv_worker {i : SInput} {s : CSt} (h : QInv i s) (w : Nat) (hw : w < s.nsp) (fl : List Bool) :
    QInv i { s with base := stepThread s.base (w + 1), flags := fl } :=
  QInv_baseStep h w (Nat.lt_of_lt_of_le hw (Nat.le_trans h.nsp_le (spawnCount_le i))) fl s.mpc (Or.inl ⟨rfl, hw⟩)

/-- fields the invariant does not mention may change freely -/
theorem QInv_counters {i : SInput} {s : CSt} (h : QInv i s) (a b : Nat) (sk : List (SEv × Bool)) :
    QInv i { s with ngets := a, nstatus := b, sink := sk } :=
  h.transfer rfl (fun _ => rfl) rfl h.main_noput rfl rfl rfl (fun _ => Iff.rfl) (fun _ hw => hw) h.mpc_spawn h.mpc_announce h.mpc_get

/-- **every step of the concurrent-suite machine preserves the queue / registration invariant** -/
theorem QInv_stepC {i : SInput} {s : CSt} (h : QInv i s) (t : Nat) : QInv i (stepC i s t) := by
  unfold stepC
  split
  · split
    · rename_i hen
      unfold stepMain
      split
      · rename_i k hk
        obtain ⟨hk1, hk2⟩ := h.mpc_announce k hk
        exact QInv_baseStep h k (Nat.lt_of_lt_of_le hk2 (spawnCount_le i)) _ _ (Or.inr ⟨hk, rfl⟩)
      · rename_i k hk; exact QInv_spawn h k hk
      · rename_i hg
        split
        · exact QInv_abortMain (QInv_counters h (s.ngets + 1) s.nstatus s.sink) _ (by simp [hg]) (by simp [hg])
        · split
          · exact h
          · rename_i x q hq
            split
            · rename_i w
              exact (QInv_pop (x := .fin w) h hq hg (s.ngets + 1)).2 rfl
            · rename_i w
              exact (QInv_pop (x := .stopRun w) h hq hg (s.ngets + 1)).2 rfl
            · rename_i w
              have h1 := (QInv_pop (x := .startRun w) h hq hg (s.ngets + 1)).1 rfl .done (by simp) (by simp) (by simp) (by simp)
              have h2 := QInv_loopHead h1 (by simp) (by simp)
              have e := loopHead_mpc_irrel { s with base := { s.base with queue := q }, ngets := s.ngets + 1 } .done
              rw [e] at h2
              exact h2
            · rename_i e
              exact (QInv_pop (x := .status e) h hq hg (s.ngets + 1)).1 rfl (.fwd e) (by simp) (by simp) (by simp) (by simp)
      · rename_i w hw
        split
        · exact QInv_join h w hw
        · exact h
      · rename_i e he
        have h1 := QInv_counters h s.ngets (s.nstatus + 1) (s.sink ++ [(e, i.mfaults.contains s.nstatus)])
        dsimp only
        split
        · exact QInv_abortMain h1 _ (by simp [he]) (by simp [he])
        · exact QInv_loopHead h1 (by simp [he]) (by simp [he])
      · rename_i ha
        have h1 := QInv_abortStep h ha
        dsimp only
        split
        · exact QInv_finishMain h1 _ (by simp [ha]) (by simp [ha])
        · exact h1
      · exact h
    · exact h
  · split
    · rename_i ht hlt
      have : t = (t - 1) + 1 := by omega
      rw [this]
      exact QInv_worker h (t - 1) hlt _
    · exact h

theorem QInv_runC {i : SInput} (sched : List Nat) : ∀ {s : CSt}, QInv i s → QInv i (runC i s sched) := by
  induction sched with
  | nil => intro s h; exact h
  | cons t rest ih => intro s h; exact ih (QInv_stepC h t)

theorem QInv_drainC {i : SInput} : ∀ (fuel : Nat) {s : CSt}, QInv i s → QInv i (drainC i fuel s) := by
  intro fuel
  induction fuel with
  | zero => intro s h; exact h
  | succ f ih =>
    intro s h
    unfold drainC
    split
    · exact h
    · exact ih (QInv_stepC h _)

/-! ## worker programs, statically -/

theorem progsFrom_length (i : SInput) : ∀ (ws : List Worker) (k : Nat), (progsFrom i k ws).length = ws.length
  | [], _ => rfl
  | _ :: ws, k => by simp [progsFrom, progsFrom_length i ws]

theorem progsFrom_getElem? (i : SInput) : ∀ (ws : List Worker) (k j : Nat),
    (progsFrom i k ws)[j]? = (ws[j]?).map (progOf i (k + j))
  | [], _, _ => by simp [progsFrom]
  | w :: ws, k, 0 => by simp [progsFrom]
  | w :: ws, k, j + 1 => by
      simp only [progsFrom, List.getElem?_cons_succ]
      rw [progsFrom_getElem? i ws (k + 1) j]
      congr 2; omega

theorem progs_getElem? (i : SInput) (w : Nat) : (progs i)[w]? = (i.workers[w]?).map (progOf i w) := by
  unfold progs; simpa using progsFrom_getElem? i i.workers 0 w

theorem segSteps_append (a b : List Seg) : segSteps (a ++ b) = segSteps a ++ segSteps b := by
  induction a with
  | nil => rfl
  | cons x a ih => cases x <;> simp [segSteps, ih]

theorem stepItems_append (a b : List Step) : stepItems (a ++ b) = stepItems a ++ stepItems b := by
  simp [stepItems]

theorem stepItems_segSteps_secs (p : List Section) : stepItems (segSteps (p.map Seg.sec)) = [] := by
  rw [← progSteps_eq_segSteps]; exact stepItems_progSteps p

theorem stepItems_segSteps_puts (xs : List Item) : stepItems (segSteps (xs.map Seg.put)) = xs := by
  induction xs with
  | nil => rfl
  | cons x xs ih => simp [segSteps, stepItems_cons_put, ih]

theorem items_suite (wi : Nat) (w : Worker) : stepItems (segSteps (suiteProg wi w).segs) = [.fin wi] := by
  unfold suiteProg
  dsimp only
  split <;> simp [segSteps_append, stepItems_append, stepItems_segSteps_secs, segSteps, stepItems_cons_put] <;> rfl

theorem items_stream (wi tb : Nat) (w : Worker) :
    stepItems (segSteps (streamProg wi tb w).segs) = .startRun wi :: ((streamEvents wi tb w).map .status ++ [.stopRun wi]) := by
  unfold streamProg
  have : (List.map (fun e => Seg.put (Item.status e)) (streamEvents wi tb w)) = ((streamEvents wi tb w).map Item.status).map Seg.put := by
    simp
  simp only [segSteps, stepItems_cons_put, this, segSteps_append, stepItems_append, stepItems_segSteps_puts]
  rfl

theorem testEvents_owner (wi j : Nat) (t : WTest) : ∀ e ∈ testEvents wi j t, e.w = wi := by
  intro e h
  unfold testEvents at h
  split at h
  · obtain ⟨ne, _, rfl⟩ := List.mem_map.mp h; rfl
  · simp only [List.mem_cons, List.not_mem_nil, or_false] at h
    rcases h with rfl | rfl <;> rfl

theorem testsEvents_owner (wi : Nat) : ∀ (ts : List WTest) (j : Nat), ∀ e ∈ testsEvents wi j ts, e.w = wi
  | [], _, e, h => by simp [testsEvents] at h
  | t :: ts, j, e, h => by
      simp only [testsEvents, List.mem_append] at h
      rcases h with h | h
      · exact testEvents_owner wi j t e h
      · exact testsEvents_owner wi ts (j + 1) e h

theorem fileEvents_owner (wi : Nat) : ∀ (n : Nat), ∀ e ∈ fileEvents wi n, e.w = wi
  | 0, e, h => by simp [fileEvents] at h; subst h; rfl
  | 1, e, h => by simp [fileEvents] at h; subst h; rfl
  | n + 2, e, h => by
      simp only [fileEvents, List.mem_cons] at h
      rcases h with rfl | h
      · rfl
      · exact fileEvents_owner wi (n + 1) e h

theorem streamEvents_owner (wi tb : Nat) (w : Worker) : ∀ e ∈ streamEvents wi tb w, e.w = wi := by
  intro e h
  unfold streamEvents at h
  rcases List.mem_append.mp h with h | h
  · exact testsEvents_owner wi _ _ e h
  · split at h
    · simp only [brokenEvents, List.mem_cons, List.mem_append] at h
      rcases h with rfl | h | h
      · rfl
      · exact fileEvents_owner wi tb e h
      · simp at h; subst h; rfl
    · cases h

/-- the items of worker `wi`: plain items followed by its final item, all its own -/
theorem items_good (i : SInput) (wi : Nat) (w : Worker) :
    GoodT (lastItem i wi) wi (stepItems (segSteps (progOf i wi w).segs)) := by
  cases hf : i.flavour with
  | suite =>
    simp only [progOf, lastItem, hf]
    rw [items_suite]
    exact ⟨Or.inr ⟨[], rfl, by simp⟩, by intro x hx; simp at hx; subst hx; rfl⟩
  | stream =>
    simp only [progOf, lastItem, hf]
    rw [items_stream]
    refine ⟨Or.inr ⟨.startRun wi :: (streamEvents wi i.tb w).map .status, by simp, ?_⟩, ?_⟩
    · intro y hy
      simp at hy
      rcases hy with rfl | ⟨e, _, rfl⟩ <;> rfl
    · intro x hx
      simp at hx
      rcases hx with rfl | ⟨e, he, rfl⟩ | rfl
      · rfl
      · exact streamEvents_owner wi i.tb w e he
      · rfl

theorem segs_lastIsPut (i : SInput) (wi : Nat) (w : Worker) : LastIsPut (segSteps (progOf i wi w).segs) ∧ segSteps (progOf i wi w).segs ≠ [] := by
  have : ∃ pre x, (progOf i wi w).segs = pre ++ [Seg.put x] := by
    cases hf : i.flavour with
    | suite =>
      simp only [progOf, hf]
      unfold suiteProg; dsimp only; split <;> exact ⟨_, _, rfl⟩
    | stream =>
      simp only [progOf, hf]
      unfold streamProg
      exact ⟨.put (.startRun wi) :: (streamEvents wi i.tb w).map (fun e => Seg.put (.status e)), .stopRun wi, by simp⟩
  obtain ⟨pre, x, h⟩ := this
  rw [h, segSteps_append]
  exact ⟨Or.inr ⟨segSteps pre, x, by simp [segSteps]⟩, by simp [segSteps]⟩

theorem wpc_init (i : SInput) (b : St) (hb : b.pcs = [] :: (progs i).map fun p => segSteps p.segs) (s : CSt) (hs : s.base = b)
    (w : Nat) (wk : Worker) (hw : i.workers[w]? = some wk) : wpc s w = segSteps (progOf i w wk).segs := by
  simp [wpc, hs, hb, progs_getElem?, hw]

theorem QInv_init (i : SInput) : QInv i (initC i) := by
  unfold initC
  refine QInv_nextSpawn ?_ (by simp) (by simp) (fun x hx => by cases hx) 0 rfl
  have hwk : ∀ w, w < i.workers.length → ∃ wk, i.workers[w]? = some wk := fun w hw => ⟨i.workers[w], by simp [hw]⟩
  refine ⟨by simp [progs, progsFrom_length], Nat.zero_le _, ?_, ?_, ?_, ?_, rfl, ?_, List.nodup_nil, ?_, ?_, ?_, ?_, ?_, ?_⟩
  · intro w hw
    obtain ⟨wk, hwk⟩ := hwk w hw
    have := wpc_init i _ rfl { base := { pcs := [] :: (progs i).map fun p => segSteps p.segs }, flags := i.workers.map fun _ => false } rfl w wk hwk
    simp only [todoItems, this, projQ, List.filter_nil, List.nil_append]
    exact items_good i w wk
  · intro w hw
    obtain ⟨wk, hwk⟩ := hwk w hw
    rw [wpc_init i _ rfl _ rfl w wk hwk]
    exact (segs_lastIsPut i w wk).1
  · intro w _ hw
    obtain ⟨wk, hwk⟩ := hwk w hw
    have := wpc_init i _ rfl { base := { pcs := [] :: (progs i).map fun p => segSteps p.segs }, flags := i.workers.map fun _ => false } rfl w wk hwk
    simp only [todoItems, this, projQ, List.filter_nil, List.nil_append]
    exact stepItems_ne_nil (segs_lastIsPut i w wk).1 (segs_lastIsPut i w wk).2
  · intro x hx; cases hx
  · intro w; simp
  · intro w hw; cases hw
  · intro w hw; exact absurd hw (Nat.not_lt_zero _)
  · intro k hk; simp at hk
  · intro k hk; simp at hk
  · intro hg; simp at hg
  · intro w hw; simp at hw

/-- the invariant holds in every state the model's run passes through -/
theorem QInv_final (i : SInput) : QInv i (finalC i) :=
  QInv_drainC _ (QInv_runC _ (QInv_init i))

/-! ## the semaphore / log invariant of the embedded M-Conc state -/

/-- the sections of each thread: main's are the `stop()` sections of its abort path, a worker's those of its program -/
def secsC (i : SInput) (ms : List Section) : Nat → List Section
  | 0 => ms
  | w + 1 => match i.workers[w]? with
    | some wk => segSecs (progOf i w wk).segs
    | none => []

/-- thread `t` may have taken steps: main, a started worker, or the worker main is just about to start (whose
`startTestRun` item main has put on its behalf) -/
def LiveT (nsp : Nat) (m : MainPc) (t : Nat) : Prop := t = 0 ∨ t - 1 < nsp ∨ m = .spawn (t - 1)

structure BInv (i : SInput) (s : CSt) (closed : List (Nat × Section)) (cur todo : Section) (rem : Nat → List Seg) : Prop where
  inv : Inv (i.workers.length + 1) (secsC i s.msecs) s.base closed cur todo rem
  holder : ∀ h, s.base.sem = some h → LiveT s.nsp s.mpc h
  owners_live : ∀ p ∈ closed, LiveT s.nsp s.mpc p.1
  main_idle : s.mpc ≠ .abort → s.base.pcs[0]? = some []
  msecs_nil : s.mpc ≠ .abort → s.mpc ≠ .done → s.msecs = []
  abort_busy : s.mpc = .abort → (s.base.pcs[0]?).getD [] ≠ []

def BI (i : SInput) (s : CSt) : Prop := ∃ c cu t r, BInv i s c cu t r

/-- main-side transitions outside the abort path: semaphore, program counters, log and `msecs` untouched -/
theorem BI.transfer {i : SInput} {s s' : CSt} (h : BI i s) (hm1 : s.mpc ≠ .abort)
    (hsem : s'.base.sem = s.base.sem) (hpcs : s'.base.pcs = s.base.pcs) (hlog : s'.base.log = s.base.log)
    (hms : s'.msecs = s.msecs) (hnsp : s.nsp ≤ s'.nsp) (hm' : s'.mpc ≠ .abort)
    (hmd : s'.mpc ≠ .done → s.mpc ≠ .done) (hsp : ∀ w, s.mpc = .spawn w → w < s'.nsp ∨ s'.mpc = .spawn w)
    (hv : s'.base.semv = s.base.semv := by rfl) (hl : s'.base.semLog = s.base.semLog := by rfl) : BI i s' := by
  obtain ⟨c, cu, t, r, h⟩ := h
  have hlive : ∀ k, LiveT s.nsp s.mpc k → LiveT s'.nsp s'.mpc k := by
    intro k hk
    rcases hk with h1 | h1 | h1
    · exact Or.inl h1
    · exact Or.inr (Or.inl (by omega))
    · rcases hsp _ h1 with h2 | h2
      · exact Or.inr (Or.inl h2)
      · exact Or.inr (Or.inr h2)
  refine ⟨c, cu, t, r, ?_, ?_, ?_, ?_, ?_, ?_⟩
  · rw [hms]; exact Inv_congr h.inv hsem hpcs hlog hv hl
  · intro k hk; rw [hsem] at hk; exact hlive k (h.holder k hk)
  · intro p hp; exact hlive _ (h.owners_live p hp)
  · intro _; rw [hpcs]; exact h.main_idle hm1
  · intro _ h2; rw [hms]; exact h.msecs_nil hm1 (hmd h2)
  · intro hc; exact absurd hc hm'

theorem BI_finishMain {i : SInput} {s : CSt} (h : BI i s) (r : MainRes) (hm : s.mpc ≠ .abort)
    (hsp : ∀ w, s.mpc = .spawn w → w < s.nsp) : BI i (finishMain s r) :=
  h.transfer hm rfl rfl rfl rfl (Nat.le_refl _) (by simp) (by simp) (fun w hw => Or.inl (hsp w hw))

theorem BI_loopHead {i : SInput} {s : CSt} (h : BI i s) (hm : s.mpc ≠ .abort) (hd : s.mpc ≠ .done)
    (hsp : ∀ w, s.mpc = .spawn w → w < s.nsp) : BI i (loopHead s) := by
  unfold loopHead
  split
  · exact BI_finishMain h _ hm hsp
  · exact h.transfer hm rfl rfl rfl rfl (Nat.le_refl _) (by simp) (fun _ => hd) (fun w hw => Or.inl (hsp w hw))

theorem secsC_update (i : SInput) (p : List Section) :
    (fun t => if t = 0 then p else secsC i [] t) = secsC i p := by
  funext t
  cases t <;> simp [secsC]

/-- entering the `except:` clause -/
theorem BI_abortMain {i : SInput} {s : CSt} (h : BI i s) (c : Cause) (hm : s.mpc ≠ .abort) (hd : s.mpc ≠ .done)
    (hsp : ∀ w, s.mpc = .spawn w → w < s.nsp) : BI i (abortMain i s c) := by
  unfold abortMain
  split
  · exact (BI_finishMain (r := .raised c)
      (h.transfer (s' := { s with flags := setFlags s.flags s.reg })
        hm rfl rfl rfl rfl (Nat.le_refl _) hm (fun _ => hd) (fun w hw => Or.inr hw)) hm hsp)
  · split
    · exact BI_finishMain h _ hm hsp
    · obtain ⟨cl, cu, t, r, h⟩ := h
      have hms := h.msecs_nil hm hd
      have hinv := h.inv
      rw [hms] at hinv
      have := inv_extend hinv 0 (by omega) rfl (h.main_idle hm) (stopSections i.mfaults 0 s.reg.length)
      rw [secsC_update] at this
      rename_i hne
      have hlt : 0 < s.base.pcs.length := by have := h.inv.len; omega
      have hlive : ∀ k, LiveT s.nsp s.mpc k → LiveT s.nsp .abort k := by
        intro k hk
        rcases hk with h1 | h1 | h1
        · exact Or.inl h1
        · exact Or.inr (Or.inl h1)
        · exact Or.inr (Or.inl (hsp _ h1))
      refine ⟨cl, cu, t, _, this, fun k hk => hlive k (h.holder k hk), fun p hp => hlive _ (h.owners_live p hp), by simp, by simp, ?_⟩
      intro _
      have : ∃ m, s.reg.length = m + 1 := by
        cases hr : s.reg with
        | nil => simp [hr] at hne
        | cons a l => exact ⟨l.length, by simp⟩
      obtain ⟨m, hm'⟩ := this
      simp only [List.getElem?_set, hlt, if_true, Option.getD_some, hm', stopSections]
      split <;> simp [progSteps, secSteps]

theorem BI_nextSpawn {i : SInput} {s : CSt} (h : BI i s) (hm : s.mpc ≠ .abort) (hd : s.mpc ≠ .done)
    (hsp : ∀ w, s.mpc = .spawn w → w < s.nsp) (k : Nat) : BI i (nextSpawn i s k) := by
  unfold nextSpawn
  split
  · rcases parkPc_cases i k with hp | hp <;> rw [hp]
    · exact h.transfer hm rfl rfl rfl rfl (Nat.le_refl _) (by simp) (fun _ => hd) (fun w hw => Or.inl (hsp w hw))
    · exact h.transfer hm rfl rfl rfl rfl (Nat.le_refl _) (by simp) (fun _ => hd) (fun w hw => Or.inl (hsp w hw))
  · split
    · exact BI_abortMain h _ hm hd hsp
    · exact BI_loopHead h hm hd hsp

theorem stepThread_pcs_other (s : St) (t j : Nat) (hne : j ≠ t) : (stepThread s t).pcs[j]? = s.pcs[j]? := by
  rcases stepThread_cases s t with he | ⟨a, rest, _, hpcs, _⟩
  · rw [he]
  · rw [hpcs, List.getElem?_set]
    have : ¬ t = j := fun hc => hne hc.symm
    simp [this]

/-- the part of the invariant that a step of the embedded M-Conc state re-establishes by itself -/
theorem BInv_baseStep {i : SInput} {s : CSt} {c cu td r} (h : BInv i s c cu td r) (t : Nat) (L : Nat → Prop)
    (hold : ∀ k, LiveT s.nsp s.mpc k → L k) (ht : L t) :
    ∃ c' cu' td' r', Inv (i.workers.length + 1) (secsC i s.msecs) (stepThread s.base t) c' cu' td' r'
      ∧ (∀ k, (stepThread s.base t).sem = some k → L k)
      ∧ (∀ p ∈ c', L p.1) := by
  obtain ⟨c', cu', td', r', hinv, hcl⟩ := step_preserves' t h.inv
  refine ⟨c', cu', td', r', hinv, ?_, ?_⟩
  · intro k hk
    rcases stepThread_sem s.base t k hk with h1 | h1
    · exact hold k (h.holder k h1)
    · subst h1; exact ht
  · intro p hp
    rcases hcl with rfl | rfl
    · exact hold _ (h.owners_live p hp)
    · rcases List.mem_append.mp hp with hp | hp
      · exact hold _ (h.owners_live p hp)
      · simp at hp; subst hp; exact ht

/-- a step of a started worker -/
theorem BI_workerStep {i : SInput} {s : CSt} (h : BI i s) (t : Nat) (ht0 : t ≠ 0) (ht : t - 1 < s.nsp) (fl : List Bool) :
    BI i { s with base := stepThread s.base t, flags := fl } := by
  obtain ⟨c, cu, td, r, h⟩ := h
  obtain ⟨c', cu', td', r', hinv, hh, ho⟩ := BInv_baseStep h t (LiveT s.nsp s.mpc) (fun _ hk => hk) (Or.inr (Or.inl ht))
  have hpc0 : (stepThread s.base t).pcs[0]? = s.base.pcs[0]? := stepThread_pcs_other s.base t 0 (fun hc => ht0 hc.symm)
  refine ⟨c', cu', td', r', hinv, hh, ho, ?_, h.msecs_nil, ?_⟩
  · intro hm; show (stepThread s.base t).pcs[0]? = some []; rw [hpc0]; exact h.main_idle hm
  · intro hm; show ((stepThread s.base t).pcs[0]?).getD [] ≠ []; rw [hpc0]; exact h.abort_busy hm

/-- a step of main inside the abort path -/
theorem BI_abortStep {i : SInput} {s : CSt} (h : BI i s) (ha : s.mpc = .abort) (r : MainRes) :
    BI i (if (((stepThread s.base 0).pcs[0]?).getD []).isEmpty then finishMain { s with base := stepThread s.base 0 } r
          else { s with base := stepThread s.base 0 }) := by
  obtain ⟨c, cu, td, rm, h⟩ := h
  obtain ⟨c', cu', td', r', hinv, hh, ho⟩ := BInv_baseStep h 0 (fun k => ∀ m, LiveT s.nsp m k)
    (fun k hk m => by
      rcases hk with h1 | h1 | h1
      · exact Or.inl h1
      · exact Or.inr (Or.inl h1)
      · rw [ha] at h1; cases h1)
    (fun m => Or.inl rfl)
  have hlen : 0 < (stepThread s.base 0).pcs.length := by have := hinv.len; omega
  split
  · rename_i hemp
    have hpc0 : (stepThread s.base 0).pcs[0]? = some [] := by
      simp only [List.getElem?_eq_getElem hlen] at hemp ⊢
      simpa using hemp
    exact ⟨c', cu', td', r', hinv, fun k hk => hh k hk _, fun p hp => ho p hp _, fun _ => hpc0, by simp, by simp⟩
  · rename_i hemp
    refine ⟨c', cu', td', r', hinv, fun k hk => hh k hk _, fun p hp => ho p hp _, ?_, h.msecs_nil, ?_⟩
    · intro hm
      -- outside the abort path main has no steps, so nothing changed
      have h0 := h.main_idle hm
      have : stepThread s.base 0 = s.base := by simp [stepThread, h0]
      show (stepThread s.base 0).pcs[0]? = some []
      rw [this]; exact h0
    · intro _
      show ((stepThread s.base 0).pcs[0]?).getD [] ≠ []
      intro hc; simp [hc] at hemp

/-- main puts worker `k`'s `startTestRun` item (`process_result.startTestRun()` in the calling thread) -/
theorem BI_announce {i : SInput} {s : CSt} (h : BI i s) (k : Nat) (hk : s.mpc = .announce k) (fl : List Bool) :
    BI i { s with base := stepThread s.base (k + 1), flags := fl, mpc := .spawn k } := by
  obtain ⟨c, cu, td, r, h⟩ := h
  obtain ⟨c', cu', td', r', hinv, hh, ho⟩ := BInv_baseStep h (k + 1) (LiveT s.nsp (.spawn k))
    (fun j hj => by
      rcases hj with h1 | h1 | h1
      · exact Or.inl h1
      · exact Or.inr (Or.inl h1)
      · rw [hk] at h1; cases h1)
    (Or.inr (Or.inr rfl))
  have hpc0 : (stepThread s.base (k + 1)).pcs[0]? = s.base.pcs[0]? := stepThread_pcs_other s.base (k + 1) 0 (by omega)
  refine ⟨c', cu', td', r', hinv, hh, ho, ?_, ?_, ?_⟩
  · intro _; show (stepThread s.base (k + 1)).pcs[0]? = some []; rw [hpc0]; exact h.main_idle (by simp [hk])
  · intro _ _; exact h.msecs_nil (by simp [hk]) (by simp [hk])
  · intro hc; simp at hc

/-- **every step preserves the semaphore / log invariant** -/
theorem BI_stepC {i : SInput} {s : CSt} (h : BI i s) (hq : QInv i s) (t : Nat) : BI i (stepC i s t) := by
  unfold stepC
  split
  · split
    · unfold stepMain
      split
      · rename_i k hk
        exact BI_announce h k hk _
      · rename_i k hk
        have hk1 := (hq.mpc_spawn k hk).1
        exact BI_nextSpawn (h.transfer (s' := { s with nsp := k + 1, reg := s.reg ++ [k] }) (by simp [hk]) rfl rfl rfl rfl
          (by show s.nsp ≤ k + 1; omega) (by simp [hk]) (fun _ => by simp [hk]) (fun w hw => Or.inr hw))
          (by simp [hk]) (by simp [hk]) (fun w hw => by simp [hk] at hw; subst hw; show k < k + 1; omega) _
      · rename_i hg
        split
        · exact BI_abortMain (h.transfer (s' := { s with ngets := s.ngets + 1 }) (by simp [hg]) rfl rfl rfl rfl (Nat.le_refl _) (by simp [hg]) (fun _ => by simp [hg]) (fun w hw => Or.inr hw))
            _ (by simp [hg]) (by simp [hg]) (by simp [hg])
        · split
          · exact h
          · rename_i x q hq
            have h1 : BI i { s with base := { s.base with queue := q }, ngets := s.ngets + 1 } :=
              h.transfer (by simp [hg]) rfl rfl rfl rfl (Nat.le_refl _) (by simp [hg]) (fun _ => by simp [hg]) (fun w hw => Or.inr hw)
            split
            · exact h1.transfer (by simp [hg]) rfl rfl rfl rfl (Nat.le_refl _) (by simp) (fun _ => by simp [hg]) (by simp [hg])
            · exact h1.transfer (by simp [hg]) rfl rfl rfl rfl (Nat.le_refl _) (by simp) (fun _ => by simp [hg]) (by simp [hg])
            · exact BI_loopHead h1 (by simp [hg]) (by simp [hg]) (by simp [hg])
            · exact h1.transfer (by simp [hg]) rfl rfl rfl rfl (Nat.le_refl _) (by simp) (fun _ => by simp [hg]) (by simp [hg])
      · rename_i w hw
        split
        · exact BI_loopHead (h.transfer (s' := { s with joined := s.joined ++ [w] }) (by simp [hw]) rfl rfl rfl rfl (Nat.le_refl _) (by simp [hw]) (fun _ => by simp [hw]) (fun w hw => Or.inr hw))
            (by simp [hw]) (by simp [hw]) (by simp [hw])
        · exact h
      · rename_i e he
        have h1 : BI i { s with sink := s.sink ++ [(e, i.mfaults.contains s.nstatus)], nstatus := s.nstatus + 1 } :=
          h.transfer (by simp [he]) rfl rfl rfl rfl (Nat.le_refl _) (by simp [he]) (fun _ => by simp [he]) (fun w hw => Or.inr hw)
        dsimp only
        split
        · exact BI_abortMain h1 _ (by simp [he]) (by simp [he]) (by simp [he])
        · exact BI_loopHead h1 (by simp [he]) (by simp [he]) (by simp [he])
      · rename_i ha; exact BI_abortStep h ha _
      · exact h
    · exact h
  · split
    · rename_i ht hlt
      exact BI_workerStep h t ht hlt _
    · exact h

theorem BI_runC {i : SInput} (sched : List Nat) : ∀ {s : CSt}, BI i s → QInv i s → BI i (runC i s sched) := by
  induction sched with
  | nil => intro s h _; exact h
  | cons t rest ih => intro s h hq; exact ih (BI_stepC h hq t) (QInv_stepC hq t)

theorem BI_drainC {i : SInput} : ∀ (fuel : Nat) {s : CSt}, BI i s → QInv i s → BI i (drainC i fuel s) := by
  intro fuel
  induction fuel with
  | zero => intro s h _; exact h
  | succ f ih =>
    intro s h hq
    unfold drainC
    split
    · exact h
    · exact ih (BI_stepC h hq _) (QInv_stepC hq _)

theorem BI_init (i : SInput) : BI i (initC i) := by
  unfold initC
  have e := nextSpawn_mpc_irrel i { base := { pcs := [] :: (progs i).map fun p => segSteps p.segs },
                                    flags := i.workers.map fun _ => false } .get 0
  rw [← e]
  refine BI_nextSpawn ?_ (by simp) (by simp) (by simp) 0
  refine ⟨[], [], [], fun t => match t with | 0 => [] | w + 1 => (((progs i)[w]?).map (·.segs)).getD [], ?_, ?_, ?_, ?_, ?_, ?_⟩
  · refine ⟨by simp [progs, progsFrom_length], ?_, ?_, by simp [flatLog, openLog], ?_, (by intro p hp; cases hp), ⟨by simp, by simp [readings]⟩⟩
    · intro t ht _
      cases t with
      | zero => simp [segSteps]
      | succ w =>
        have hw : w < i.workers.length := by omega
        simp [progs_getElem?, hw]
    · intro k hk; simp at hk
    · intro t ht
      cases t with
      | zero => simp [secsC, ownedBy, segSecs]
      | succ w =>
        have hw : w < i.workers.length := by omega
        simp [secsC, ownedBy, progs_getElem?, hw]
  · intro k hk; simp at hk
  · intro p hp; cases hp
  · intro _; simp
  · intro _ _; rfl
  · intro hc; simp at hc

theorem BI_final (i : SInput) : BI i (finalC i) :=
  BI_drainC _ (BI_runC _ (BI_init i) (QInv_init i)) (QInv_runC _ (QInv_init i))

/-! ## progress -/

theorem stepC_of_not_enabled {i : SInput} {s : CSt} {t : Nat} (h : enabledC i s t = false) : stepC i s t = s := by
  unfold enabledC at h
  unfold stepC
  split
  · rename_i ht; simp [ht] at h; simp [h]
  · rename_i ht
    simp [ht] at h
    split
    · rename_i hlt
      have he := h hlt
      have := stepThread_of_not_enabled he
      rw [this]
      -- the flags are untouched as well: a blocked or finished thread is not about to put
      have hfl : flagsAfter s t = s.flags := by
        unfold enabled at he
        unfold flagsAfter
        split at he <;> simp_all
      rw [hfl]
    · rfl

/-- potential of main: what it may still do before it is done -/
def mainPot (i : SInput) (s : CSt) : Nat :=
  match s.mpc with
  | .announce k => 11 * (spawnCount i - k) + 9 * s.reg.length + 4
  | .spawn k => 11 * (spawnCount i - k) + 9 * s.reg.length + 3
  | .get => 9 * s.reg.length + 2
  | .join _ => 9 * s.reg.length + 3
  | .fwd _ => 9 * s.reg.length + 3
  | .abort => 0
  | .done => 0

/-- termination measure: every enabled step makes it smaller -/
def pot (i : SInput) (s : CSt) : Nat := 3 * remaining s.base + 2 * s.base.queue.length + mainPot i s

theorem pot_finishMain (i : SInput) (s : CSt) (r : MainRes) :
    pot i (finishMain s r) = 3 * remaining s.base + 2 * s.base.queue.length := by
  simp [pot, mainPot]

theorem pot_loopHead_le (i : SInput) (s : CSt) :
    pot i (loopHead s) ≤ 3 * remaining s.base + 2 * s.base.queue.length + 9 * s.reg.length + 2 := by
  unfold loopHead
  split
  · rw [pot_finishMain]; omega
  · simp [pot, mainPot]; omega

theorem stopSections_steps (mf : List Nat) : ∀ (n k : Nat), (progSteps (stopSections mf k n)).length ≤ 3 * n
  | 0, _ => by simp [stopSections, progSteps]
  | n + 1, k => by
      simp only [stopSections]
      split
      · simp [progSteps, secSteps]; omega
      · have := stopSections_steps mf n (k + 1)
        have e : ∀ (a : Section) (p : List Section), progSteps (a :: p) = secSteps a ++ progSteps p := by
          intro a p; simp [progSteps]
        rw [e, List.length_append]
        simp [secSteps]; omega

theorem remaining_set_nil {b : St} {j : Nat} (x : List Step) (h : b.pcs[j]? = some []) :
    remaining { b with pcs := b.pcs.set j x } = remaining b + x.length := by
  unfold remaining
  have : ∀ (l : List (List Step)) (j : Nat), l[j]? = some [] →
      ((l.set j x).map List.length).sum = (l.map List.length).sum + x.length := by
    intro l
    induction l with
    | nil => intro j h; simp at h
    | cons a l ih =>
      intro j h
      cases j with
      | zero => simp at h; subst h; simp; omega
      | succ j =>
        simp at h
        have := ih j h
        simp only [List.set_cons_succ, List.map_cons, List.sum_cons]; omega
  exact this _ _ h

theorem pot_abortMain_le (i : SInput) (s : CSt) (c : Cause) (h0 : s.base.pcs[0]? = some []) :
    pot i (abortMain i s c) ≤ 3 * remaining s.base + 2 * s.base.queue.length + 9 * s.reg.length := by
  unfold abortMain
  split
  · rw [pot_finishMain]
    show 3 * remaining s.base + 2 * s.base.queue.length ≤ _
    omega
  · split
    · rw [pot_finishMain]; omega
    · simp only [pot, mainPot]
      rw [remaining_set_nil _ h0]
      have := stopSections_steps i.mfaults s.reg.length 0
      simp; omega

theorem pot_nextSpawn_le (i : SInput) (s : CSt) (k : Nat) (h0 : s.base.pcs[0]? = some []) :
    pot i (nextSpawn i s k) ≤ 3 * remaining s.base + 2 * s.base.queue.length + 9 * s.reg.length + 11 * (spawnCount i - k) + 4 := by
  unfold nextSpawn
  split
  · rcases parkPc_cases i k with hp | hp <;> simp [pot, mainPot, hp] <;> omega
  · split
    · have := pot_abortMain_le i s .makeTests h0; omega
    · have := pot_loopHead_le i s; omega

theorem stepThread_queue_le (b : St) (t : Nat) : (stepThread b t).queue.length ≤ b.queue.length + 1 := by
  rcases stepThread_cases b t with he | ⟨a, rest, _, _, hq⟩
  · rw [he]; omega
  · rw [hq]; cases a <;> simp

theorem stepThread_pot_le (b : St) (t : Nat) :
    3 * remaining (stepThread b t) + 2 * (stepThread b t).queue.length ≤ 3 * remaining b + 2 * b.queue.length := by
  cases he : enabled b t with
  | true =>
    have h1 := remaining_step he
    have h2 := stepThread_queue_le b t
    omega
  | false => rw [stepThread_of_not_enabled he]; exact Nat.le_refl _

/-- **every enabled step decreases the measure** -/
theorem pot_step_lt {i : SInput} {s : CSt} (hq : QInv i s) (hb : BI i s) {t : Nat} (he : enabledC i s t = true) :
    pot i (stepC i s t) < pot i s := by
  obtain ⟨c, cu, td, r, hb⟩ := hb
  unfold enabledC at he
  unfold stepC
  split
  · rename_i ht
    simp only [ht, if_true] at he
    simp only [he, if_true]
    unfold mainEnabled at he
    unfold stepMain
    split
    · rename_i k hk
      have := stepThread_pot_le s.base (k + 1)
      simp only [pot, mainPot, hk]
      omega
    · rename_i k hk
      obtain ⟨hk1, hk2⟩ := hq.mpc_spawn k hk
      have h0 := hb.main_idle (by simp [hk])
      have := pot_nextSpawn_le i { s with nsp := k + 1, reg := s.reg ++ [k] } (k + 1) h0
      simp only [List.length_append, List.length_singleton] at this
      simp only [pot, mainPot, hk] at this ⊢
      omega
    · rename_i hg
      have h0 := hb.main_idle (by simp [hg])
      split
      · have := pot_abortMain_le i { s with ngets := s.ngets + 1 } .interrupt h0
        simp only [pot, mainPot, hg] at this ⊢
        omega
      · rename_i hni
        simp only [hg, hni, Bool.false_or, Bool.not_eq_true', List.isEmpty_eq_false_iff] at he
        split
        · rename_i hemp; exact absurd hemp he
        · rename_i x q hqq
          have hle := List.length_erase_le (a := x.owner) (l := s.reg)
          split
          · simp only [pot, mainPot, hg, hqq, List.length_cons, remaining] at hle ⊢
            show _ < _
            simp only [Item.owner] at hle
            omega
          · simp only [pot, mainPot, hg, hqq, List.length_cons, remaining] at hle ⊢
            show _ < _
            simp only [Item.owner] at hle
            omega
          · have := pot_loopHead_le i { s with base := { s.base with queue := q }, ngets := s.ngets + 1 }
            simp only [pot, mainPot, hg, hqq, List.length_cons, remaining] at this ⊢
            omega
          · simp only [pot, mainPot, hg, hqq, List.length_cons, remaining]
            omega
    · rename_i w hw
      simp only [hw] at he
      simp only [he, if_true]
      have := pot_loopHead_le i { s with joined := s.joined ++ [w] }
      simp only [pot, mainPot, hw] at this ⊢
      omega
    · rename_i e hfw
      have h0 := hb.main_idle (by simp [hfw])
      dsimp only
      split
      · have := pot_abortMain_le i { s with sink := s.sink ++ [(e, i.mfaults.contains s.nstatus)], nstatus := s.nstatus + 1 } .injected h0
        simp only [pot, mainPot, hfw] at this ⊢
        omega
      · have := pot_loopHead_le i { s with sink := s.sink ++ [(e, i.mfaults.contains s.nstatus)], nstatus := s.nstatus + 1 }
        simp only [pot, mainPot, hfw] at this ⊢
        omega
    · rename_i ha
      simp only [ha] at he
      have h1 := remaining_step he
      have h2 := stepThread_queue_le s.base 0
      dsimp only
      split
      · rw [pot_finishMain]; simp only [pot, mainPot, ha]; omega
      · simp only [pot, mainPot, ha]; omega
    · rename_i hd; simp [hd] at he
  · rename_i ht
    simp only [ht, if_false, Bool.and_eq_true, decide_eq_true_eq] at he
    simp only [he.1, if_true]
    have h1 := remaining_step he.2
    have h2 := stepThread_queue_le s.base t
    simp only [pot, mainPot]
    omega

theorem enabled_of_cons {b : St} {t : Nat} {a : Step} {rest : List Step} (hv : b.semv = 1) (h : b.pcs[t]? = some (a :: rest)) :
    enabled b t = true := by
  unfold enabled
  rw [h]
  cases a <;> simp [hv]

theorem workerDone_of_unfinished_nil {s : CSt} (hu : unfinished s = []) {w : Nat} (hw : w < s.nsp) : workerDone s w = true := by
  unfold unfinished at hu
  have := List.filter_eq_nil_iff.mp hu w (List.mem_range.mpr hw)
  simpa using this

/-- **no reachable state is stuck**: while `run()` has not ended or a started worker is unfinished, some
thread is enabled -/
theorem exists_enabledC {i : SInput} {s : CSt} (hq : QInv i s) (hb : BI i s) (hnf : finishedC s = false) :
    ∃ t, t < s.base.pcs.length ∧ enabledC i s t = true := by
  obtain ⟨c, cu, td, r, hb⟩ := hb
  cases hsem : s.base.sem with
  | some k =>
    obtain ⟨hk, hpc⟩ := hb.inv.ins k hsem
    have hen : enabled s.base k = true := by
      unfold enabled
      cases td with
      | nil => simp [callSteps] at hpc; simp [hpc]
      | cons x xs => simp [callSteps] at hpc; simp [hpc]
    have hklt : k < s.base.pcs.length := by rw [hb.inv.len]; exact hk
    by_cases hk0 : k = 0
    · subst hk0
      have hab : s.mpc = .abort := by
        by_cases hc : s.mpc = .abort
        · exact hc
        · have := hb.main_idle hc
          rw [this] at hpc
          cases td <;> simp [callSteps] at hpc
      exact ⟨0, hklt, by simp [enabledC, mainEnabled, hab, hen]⟩
    · rcases hb.holder k hsem with h1 | h1 | h1
      · exact absurd h1 hk0
      · exact ⟨k, hklt, by simp [enabledC, hk0, h1, hen]⟩
      · exact ⟨0, by omega, by simp [enabledC, mainEnabled, h1]⟩
  | none =>
    by_cases hu : unfinished s = []
    · -- every started worker is finished: main is not done
      have hnd : s.mpc ≠ .done := by
        intro hc; simp [finishedC, hc, hu] at hnf
      refine ⟨0, by rw [hq.n_pcs]; omega, ?_⟩
      unfold enabledC mainEnabled
      simp only [if_true]
      split
      · rfl
      · rfl
      · rename_i hg
        have hreg := hq.mpc_get hg
        obtain ⟨w, hw⟩ := List.exists_mem_of_ne_nil _ hreg
        obtain ⟨hw1, hw2⟩ := (hq.reg_iff w).mp hw
        have hdone := workerDone_of_unfinished_nil hu hw1
        have hwpc : wpc s w = [] := by
          unfold workerDone at hdone
          simp [wpc, beq_iff_eq.mp hdone]
        have : projQ w s.base.queue ≠ [] := by
          intro hc; apply hw2; simp [todoItems, hc, hwpc, stepItems]
        have hqne : s.base.queue ≠ [] := by
          intro hc; apply this; simp [projQ, hc]
        simp [hqne]
      · rename_i w hw
        exact workerDone_of_unfinished_nil hu (hq.mpc_join w hw)
      · rfl
      · rename_i ha
        have hbusy := hb.abort_busy ha
        have hlt : 0 < s.base.pcs.length := by rw [hq.n_pcs]; omega
        cases hp : s.base.pcs[0]? with
        | none => simp [hp] at hbusy
        | some x =>
          cases x with
          | nil => simp [hp] at hbusy
          | cons a rest => exact enabled_of_cons (by simp [hb.inv.cnt.1, hsem]) hp
      · rename_i hd; exact absurd hd hnd
    · -- some started worker still has steps; the semaphore is free, so it can take one
      obtain ⟨w, hw⟩ := List.exists_mem_of_ne_nil _ hu
      unfold unfinished at hw
      obtain ⟨hw1, hw2⟩ := List.mem_filter.mp hw
      have hw1 := List.mem_range.mp hw1
      have hwn : w + 1 < s.base.pcs.length := by
        rw [hq.n_pcs]; have := Nat.le_trans hq.nsp_le (spawnCount_le i); omega
      refine ⟨w + 1, hwn, ?_⟩
      have hpc : ∃ a rest, s.base.pcs[w + 1]? = some (a :: rest) := by
        unfold workerDone at hw2
        cases hp : s.base.pcs[w + 1]? with
        | none => simp at hp; omega
        | some x =>
          cases x with
          | nil => simp [hp] at hw2
          | cons a rest => exact ⟨a, rest, rfl⟩
      obtain ⟨a, rest, hpc⟩ := hpc
      unfold enabledC
      simp [hw1, enabled_of_cons (b := s.base) (by simp [hb.inv.cnt.1, hsem]) hpc]

theorem firstEnabledC_some {i : SInput} {s : CSt} {t : Nat} (h : firstEnabledC i s = some t) : enabledC i s t = true := by
  unfold firstEnabledC at h
  exact List.find?_some h

theorem firstEnabledC_none {i : SInput} {s : CSt} (h : firstEnabledC i s = none) :
    ∀ t, t < s.base.pcs.length → enabledC i s t = false := by
  unfold firstEnabledC at h
  intro t ht
  have := List.find?_eq_none.mp h t (List.mem_range.mpr ht)
  simpa using this

/-- with enough fuel the run ends: `run()` has returned or raised and every started thread has ended -/
theorem drainC_finishes {i : SInput} : ∀ (fuel : Nat) {s : CSt}, QInv i s → BI i s → pot i s ≤ fuel →
    finishedC (drainC i fuel s) = true := by
  intro fuel
  induction fuel with
  | zero =>
    intro s hq hb hp
    simp only [drainC]
    cases hf : finishedC s with
    | true => rfl
    | false =>
      obtain ⟨t, _, he⟩ := exists_enabledC hq hb hf
      have := pot_step_lt hq hb he
      omega
  | succ f ih =>
    intro s hq hb hp
    unfold drainC
    cases hfe : firstEnabledC i s with
    | none =>
      simp only
      cases hf : finishedC s with
      | true => rfl
      | false =>
        obtain ⟨t, ht, he⟩ := exists_enabledC hq hb hf
        rw [firstEnabledC_none hfe t ht] at he
        cases he
    | some t =>
      simp only
      have he := firstEnabledC_some hfe
      have := pot_step_lt hq hb he
      exact ih (QInv_stepC hq t) (BI_stepC hb hq t) (by omega)

theorem pot_stepC_le {i : SInput} {s : CSt} (hq : QInv i s) (hb : BI i s) (t : Nat) : pot i (stepC i s t) ≤ pot i s := by
  cases he : enabledC i s t with
  | true => exact Nat.le_of_lt (pot_step_lt hq hb he)
  | false => rw [stepC_of_not_enabled he]; exact Nat.le_refl _

theorem pot_runC_le {i : SInput} (sched : List Nat) : ∀ {s : CSt}, QInv i s → BI i s → pot i (runC i s sched) ≤ pot i s := by
  induction sched with
  | nil => intro s _ _; exact Nat.le_refl _
  | cons t rest ih =>
    intro s hq hb
    exact Nat.le_trans (ih (QInv_stepC hq t) (BI_stepC hb hq t)) (pot_stepC_le hq hb t)

theorem initC_base (i : SInput) : (initC i).base = { pcs := [] :: (progs i).map fun p => segSteps p.segs } := by
  unfold initC nextSpawn
  split
  · rfl
  · split
    · unfold abortMain
      split
      · rfl
      · rfl
    · simp

theorem pot_init_le (i : SInput) : pot i (initC i) ≤ fuelC i := by
  have hb := initC_base i
  have := pot_nextSpawn_le i { base := { pcs := [] :: (progs i).map fun p => segSteps p.segs },
                               flags := i.workers.map fun _ => false } 0 (by simp)
  unfold fuelC
  rw [hb]
  unfold initC at hb ⊢
  have hs := spawnCount_le i
  simp at this
  omega

/-- **the model's run always ends** -/
theorem finalC_finished (i : SInput) : finishedC (finalC i) = true := by
  unfold finalC
  have hq := QInv_runC i.sched (QInv_init i)
  have hbb := BI_runC i.sched (BI_init i) (QInv_init i)
  exact drainC_finishes _ hq hbb (Nat.le_trans (pot_runC_le i.sched (QInv_init i) (BI_init i)) (pot_init_le i))

/-! ## how `run()` ends -/

def causeOk (i : SInput) : Cause → Bool
  | .interrupt => i.intr.isSome
  | .makeTests => i.mkRaise.isSome
  | .injected => !i.mfaults.isEmpty

def inLoop (s : CSt) : Prop := s.mpc = .get ∨ (∃ w, s.mpc = .join w) ∨ ∃ e, s.mpc = .fwd e

structure RInv (i : SInput) (s : CSt) : Prop where
  r_done : s.mpc = .done ↔ s.result.isSome
  r_loop : inLoop s → s.nsp = spawnCount i ∧ i.mkRaise = none
  r_clean : s.mpc ≠ .abort → (s.result = none ∨ s.result = some .returned) →
    s.msecs = [] ∧ (∀ b ∈ s.flags, b = false) ∧ (∀ p ∈ s.sink, p.2 = false)
  r_returned : s.result = some .returned → s.reg = [] ∧ s.nsp = i.workers.length ∧ s.liveAtReturn = []
  r_cause : ∀ c, (s.result = some (.raised c) ∨ (s.mpc = .abort ∧ s.pending = c)) → causeOk i c = true
  r_msecs : (s.mpc = .abort ∨ ∃ c, s.result = some (.raised c)) → i.flavour = .suite →
    s.msecs = stopSections i.mfaults 0 s.reg.length

theorem stopsRaise_faults (mf : List Nat) : ∀ (n k : Nat), stopsRaise mf k n = true → mf ≠ []
  | 0, _, h => by simp [stopsRaise] at h
  | n + 1, k, h => by
      simp only [stopsRaise, Bool.or_eq_true] at h
      rcases h with h | h
      · intro hc; subst hc; simp at h
      · exact stopsRaise_faults mf n (k + 1) h

/-- a started worker whose items are all delivered has no steps left -/
theorem workerDone_of_todo_nil {i : SInput} {s : CSt} (hq : QInv i s) {w : Nat} (hw : w < s.nsp)
    (ht : todoItems s w = []) : workerDone s w = true := by
  have hwn : w < i.workers.length := Nat.lt_of_lt_of_le hw (Nat.le_trans hq.nsp_le (spawnCount_le i))
  have hsi : stepItems (wpc s w) = [] := by
    unfold todoItems at ht
    exact (List.append_eq_nil_iff.mp ht).2
  have hnil : wpc s w = [] := by
    by_cases hc : wpc s w = []
    · exact hc
    · exact absurd hsi (stepItems_ne_nil (hq.lastPut w hwn) hc)
  have hlt : w + 1 < s.base.pcs.length := by rw [hq.n_pcs]; omega
  unfold workerDone
  unfold wpc at hnil
  simp only [List.getElem?_eq_getElem hlt, Option.getD_some] at hnil ⊢
  simp [hnil]

theorem unfinished_nil_of_reg_nil {i : SInput} {s : CSt} (hq : QInv i s) (hr : s.reg = []) : unfinished s = [] := by
  unfold unfinished
  rw [List.filter_eq_nil_iff]
  intro w hw
  have hw := List.mem_range.mp hw
  have : todoItems s w = [] := by
    by_cases hc : todoItems s w = []
    · exact hc
    · have := (hq.reg_iff w).mpr ⟨hw, hc⟩
      rw [hr] at this; cases this
  simp [workerDone_of_todo_nil hq hw this]

theorem RInv_loopHead {i : SInput} {s : CSt} (h : RInv i s) (hunf : s.reg = [] → unfinished s = []) (hm : s.mpc ≠ .abort) (hd : s.mpc ≠ .done)
    (hn : s.nsp = spawnCount i ∧ i.mkRaise = none) : RInv i (loopHead s) := by
  have hres : s.result = none := by
    cases hr : s.result with
    | none => rfl
    | some r => exact absurd (h.r_done.mpr (by simp [hr])) hd
  have hcl := h.r_clean hm (Or.inl hres)
  unfold loopHead
  split
  · rename_i hemp
    have hreg : s.reg = [] := by simpa using hemp
    refine ⟨by simp, fun hc => by rcases hc with hc | ⟨w, hc⟩ | ⟨e, hc⟩ <;> simp at hc, fun _ _ => hcl, ?_, ?_, ?_⟩
    · intro _
      refine ⟨hreg, ?_, ?_⟩
      · simp only [finishMain_nsp]; rw [hn.1]; unfold spawnCount; rw [hn.2]
      · simp only [finishMain_live]; exact hunf hreg
    · intro c hc; simp at hc
    · intro hc; simp at hc
  · refine ⟨by simp [hres], fun _ => hn, fun _ _ => hcl, by simp [hres], ?_, ?_⟩
    · intro c hc; simp [hres] at hc
    · intro hc; simp [hres] at hc

theorem RInv_abortMain {i : SInput} {s : CSt} (c : Cause) (hres : s.result = none) (hms : s.msecs = [])
    (hc : causeOk i c = true) : RInv i (abortMain i s c) := by
  unfold abortMain
  split
  · rename_i hst
    refine ⟨by simp, fun hc => by rcases hc with hc | ⟨w, hc⟩ | ⟨e, hc⟩ <;> simp at hc, ?_, by simp, ?_, ?_⟩
    · intro _ hr; simp at hr
    · intro c' hc'; simp at hc'; rw [← hc']; exact hc
    · intro _ hsu; rw [hst] at hsu; cases hsu
  · rename_i hfl
    split
    · rename_i hemp
      refine ⟨by simp, fun hc => by rcases hc with hc | ⟨w, hc⟩ | ⟨e, hc⟩ <;> simp at hc, ?_, by simp, ?_, ?_⟩
      · intro _ hr; simp at hr
      · intro c' hc'; simp at hc'; rw [← hc']; exact hc
      · intro _ _
        have : s.reg = [] := by simpa using hemp
        show s.msecs = stopSections i.mfaults 0 s.reg.length
        simp [hms, this, stopSections]
    · refine ⟨by simp [hres], fun hc => by rcases hc with hc | ⟨w, hc⟩ | ⟨e, hc⟩ <;> simp at hc, ?_, by simp [hres], ?_, fun _ _ => rfl⟩
      · intro hc; simp at hc
      · intro c' hc'
        simp [hres] at hc'
        rw [← hc']
        split
        · rename_i hsr
          have := stopsRaise_faults _ _ _ hsr
          simp [causeOk, this]
        · exact hc

theorem RInv.result_none {i : SInput} {s : CSt} (h : RInv i s) (hd : s.mpc ≠ .done) : s.result = none := by
  cases hr : s.result with
  | none => rfl
  | some r => exact absurd (h.r_done.mpr (by simp [hr])) hd

theorem RInv_nextSpawn {i : SInput} {s : CSt} (h : RInv i s) (hle : s.nsp ≤ spawnCount i) (hunf : s.reg = [] → unfinished s = [])
    (hm : s.mpc ≠ .abort) (hd : s.mpc ≠ .done) (k : Nat) (hk : k = s.nsp) : RInv i (nextSpawn i s k) := by
  have hres := h.result_none hd
  unfold nextSpawn
  split
  · rcases parkPc_cases i k with hp | hp <;> rw [hp]
    · refine ⟨by simp [hres], fun hc => by rcases hc with hc | ⟨w, hc⟩ | ⟨e, hc⟩ <;> simp at hc, fun _ _ => h.r_clean hm (Or.inl hres),
        by simp [hres], ?_, ?_⟩
      · intro c hc; simp [hres] at hc
      · intro hc; simp [hres] at hc
    · refine ⟨by simp [hres], fun hc => by rcases hc with hc | ⟨w, hc⟩ | ⟨e, hc⟩ <;> simp at hc, fun _ _ => h.r_clean hm (Or.inl hres),
        by simp [hres], ?_, ?_⟩
      · intro c hc; simp [hres] at hc
      · intro hc; simp [hres] at hc
  · rename_i hge
    split
    · rename_i hmk
      exact RInv_abortMain _ hres (h.r_clean hm (Or.inl hres)).1 (by simpa [causeOk] using hmk)
    · rename_i hmk
      have : s.nsp = spawnCount i := by omega
      exact RInv_loopHead h hunf hm hd ⟨this, by simpa using hmk⟩

theorem flagsAfter_all_false {s : CSt} {t : Nat} (h : ∀ b ∈ s.flags, b = false) : ∀ b ∈ flagsAfter s t, b = false := by
  unfold flagsAfter
  split
  · intro b hb
    rcases List.mem_or_eq_of_mem_set hb with h1 | h1
    · exact h b h1
    · exact h1
  · exact h

/-- a non-terminal update of main that leaves `result`, `msecs`, `flags`, `reg`, `nsp` and the sink's raised marks alone -/
theorem RInv.transfer {i : SInput} {s s' : CSt} (h : RInv i s) (hd : s.mpc ≠ .done) (hm : s.mpc ≠ .abort)
    (hres : s'.result = s.result) (hms : s'.msecs = s.msecs) (hfl : ∀ b ∈ s'.flags, b = false)
    (hsk : ∀ p ∈ s'.sink, p.2 = false) (hd' : s'.mpc ≠ .done) (hm' : s'.mpc ≠ .abort)
    (hloop : inLoop s' → s'.nsp = spawnCount i ∧ i.mkRaise = none) : RInv i s' := by
  have hr := h.result_none hd
  have hcl := h.r_clean hm (Or.inl hr)
  refine ⟨by simp [hres, hr, hd'], hloop, fun _ _ => ⟨by rw [hms]; exact hcl.1, hfl, hsk⟩, by simp [hres, hr], ?_, ?_⟩
  · intro c hc
    simp [hres, hr, hm'] at hc
  · intro hc; simp [hres, hr, hm'] at hc

/-- **every step preserves the facts about how `run()` ends** -/
theorem RInv_stepC {i : SInput} {s : CSt} (h : RInv i s) (hq : QInv i s) (t : Nat) : RInv i (stepC i s t) := by
  have hunf : s.reg = [] → unfinished s = [] := unfinished_nil_of_reg_nil hq
  unfold stepC
  split
  · split
    · unfold stepMain
      split
      · rename_i k hk
        have hcl := h.r_clean (by simp [hk]) (Or.inl (h.result_none (by simp [hk])))
        exact h.transfer (by simp [hk]) (by simp [hk]) rfl rfl (flagsAfter_all_false hcl.2.1) hcl.2.2 (by simp) (by simp)
          (fun hc => by rcases hc with hc | ⟨w, hc⟩ | ⟨e, hc⟩ <;> simp at hc)
      · rename_i k hk
        obtain ⟨hk1, hk2⟩ := hq.mpc_spawn k hk
        have hcl := h.r_clean (by simp [hk]) (Or.inl (h.result_none (by simp [hk])))
        have h1 : RInv i { s with nsp := k + 1, reg := s.reg ++ [k] } :=
          h.transfer (by simp [hk]) (by simp [hk]) rfl rfl hcl.2.1 hcl.2.2 (by simp [hk]) (by simp [hk])
            (fun hc => by rcases hc with hc | ⟨w, hc⟩ | ⟨e, hc⟩ <;> simp [hk] at hc)
        exact RInv_nextSpawn h1 (by show k + 1 ≤ spawnCount i; omega) (fun hc => by simp at hc) (by simp [hk]) (by simp [hk]) _ rfl
      · rename_i hg
        have hr := h.result_none (by simp [hg])
        have hcl := h.r_clean (by simp [hg]) (Or.inl hr)
        have hlp := h.r_loop (Or.inl hg)
        split
        · rename_i hi
          refine RInv_abortMain _ hr hcl.1 ?_
          simp only [causeOk]
          have : i.intr = some s.ngets := by simpa using hi
          simp [this]
        · split
          · exact h
          · rename_i x q hqq
            split
            · exact h.transfer (by simp [hg]) (by simp [hg]) rfl rfl hcl.2.1 hcl.2.2 (by simp) (by simp) (fun _ => hlp)
            · exact h.transfer (by simp [hg]) (by simp [hg]) rfl rfl hcl.2.1 hcl.2.2 (by simp) (by simp) (fun _ => hlp)
            · have h1 : RInv i { s with base := { s.base with queue := q }, ngets := s.ngets + 1 } :=
                h.transfer (by simp [hg]) (by simp [hg]) rfl rfl hcl.2.1 hcl.2.2 (by simp [hg]) (by simp [hg]) (fun _ => hlp)
              exact RInv_loopHead h1 hunf (by simp [hg]) (by simp [hg]) hlp
            · exact h.transfer (by simp [hg]) (by simp [hg]) rfl rfl hcl.2.1 hcl.2.2 (by simp) (by simp) (fun _ => hlp)
      · rename_i w hw
        have hr := h.result_none (by simp [hw])
        have hcl := h.r_clean (by simp [hw]) (Or.inl hr)
        have hlp := h.r_loop (Or.inr (Or.inl ⟨w, hw⟩))
        split
        · have h1 : RInv i { s with joined := s.joined ++ [w] } :=
            h.transfer (by simp [hw]) (by simp [hw]) rfl rfl hcl.2.1 hcl.2.2 (by simp [hw]) (by simp [hw]) (fun _ => hlp)
          exact RInv_loopHead h1 hunf (by simp [hw]) (by simp [hw]) hlp
        · exact h
      · rename_i e he
        have hr := h.result_none (by simp [he])
        have hcl := h.r_clean (by simp [he]) (Or.inl hr)
        have hlp := h.r_loop (Or.inr (Or.inr ⟨e, he⟩))
        dsimp only
        split
        · rename_i hrs
          refine RInv_abortMain _ hr hcl.1 ?_
          simp only [causeOk]
          have : i.mfaults ≠ [] := by intro hc; rw [hc] at hrs; simp at hrs
          simp [this]
        · rename_i hrs
          have h1 : RInv i { s with sink := s.sink ++ [(e, i.mfaults.contains s.nstatus)], nstatus := s.nstatus + 1 } := by
            refine h.transfer (by simp [he]) (by simp [he]) rfl rfl hcl.2.1 ?_ (by simp [he]) (by simp [he]) (fun _ => hlp)
            intro p hp
            rcases List.mem_append.mp hp with hp | hp
            · exact hcl.2.2 p hp
            · simp at hp; subst hp; simpa using hrs
          exact RInv_loopHead h1 hunf (by simp [he]) (by simp [he]) hlp
      · rename_i ha
        have hr := h.result_none (by simp [ha])
        dsimp only
        split
        · refine ⟨by simp, fun hc => by rcases hc with hc | ⟨w, hc⟩ | ⟨e, hc⟩ <;> simp at hc, ?_, by simp, ?_, fun _ => h.r_msecs (Or.inl ha)⟩
          · intro _ hc; simp at hc
          · intro c hc
            simp at hc
            exact h.r_cause c (Or.inr ⟨ha, hc⟩)
        · refine ⟨by simp [ha, hr], fun hc => by rcases hc with hc | ⟨w, hc⟩ | ⟨e, hc⟩ <;> simp [ha] at hc, ?_, by simp [hr], ?_, fun _ => h.r_msecs (Or.inl ha)⟩
          · intro hc; simp [ha] at hc
          · intro c hc
            simp [hr] at hc
            exact h.r_cause c (Or.inr ⟨ha, hc.2⟩)
      · exact h
    · exact h
  · split
    · refine ⟨h.r_done, h.r_loop, ?_, h.r_returned, h.r_cause, h.r_msecs⟩
      intro hm hres
      have := h.r_clean hm hres
      exact ⟨this.1, flagsAfter_all_false this.2.1, this.2.2⟩
    · exact h

theorem RInv_runC {i : SInput} (sched : List Nat) : ∀ {s : CSt}, RInv i s → QInv i s → RInv i (runC i s sched) := by
  induction sched with
  | nil => intro s h _; exact h
  | cons t rest ih => intro s h hq; exact ih (RInv_stepC h hq t) (QInv_stepC hq t)

theorem RInv_drainC {i : SInput} : ∀ (fuel : Nat) {s : CSt}, RInv i s → QInv i s → RInv i (drainC i fuel s) := by
  intro fuel
  induction fuel with
  | zero => intro s h _; exact h
  | succ f ih =>
    intro s h hq
    unfold drainC
    split
    · exact h
    · exact ih (RInv_stepC h hq _) (QInv_stepC hq _)

theorem RInv_init (i : SInput) : RInv i (initC i) := by
  unfold initC
  have e := nextSpawn_mpc_irrel i { base := { pcs := [] :: (progs i).map fun p => segSteps p.segs },
                                    flags := i.workers.map fun _ => false } (.spawn 0) 0
  rw [← e]
  refine RInv_nextSpawn ?_ (Nat.zero_le _) (fun _ => by simp [unfinished]) (by simp) (by simp) 0 rfl
  refine ⟨by simp, fun hc => by rcases hc with hc | ⟨w, hc⟩ | ⟨e, hc⟩ <;> simp at hc, ?_, by simp, ?_, ?_⟩
  · intro _ _
    refine ⟨rfl, ?_, by simp⟩
    intro b hb; simp at hb; exact hb.2
  · intro c hc; simp at hc
  · intro hc; simp at hc

theorem RInv_final (i : SInput) : RInv i (finalC i) :=
  RInv_drainC _ (RInv_runC _ (RInv_init i) (QInv_init i)) (QInv_runC _ (QInv_init i))

/-! ## delivery: the caller's StreamResult gets every event once, in the worker's order -/

def statusesOf (l : List Item) : List SEv := l.filterMap fun | .status e => some e | _ => none

def sinkOf (w : Nat) (sink : List (SEv × Bool)) : List SEv := (sink.filter fun p => p.1.w == w).map (·.1)

/-- the event main has taken out of the queue and is about to forward -/
def hand (s : CSt) (w : Nat) : List SEv :=
  match s.mpc with
  | .fwd e => if e.w = w then [e] else []
  | _ => []

/-- the status events worker `w` emits, in its program order -/
def eventsOf (i : SInput) (w : Nat) : List SEv :=
  match i.workers[w]? with
  | some wk => statusesOf (stepItems (segSteps (progOf i w wk).segs))
  | none => []

structure SInv (i : SInput) (s : CSt) : Prop where
  acct : ∀ w, w < i.workers.length → sinkOf w s.sink ++ hand s w ++ statusesOf (todoItems s w) = eventsOf i w
  sink_owner : ∀ p ∈ s.sink, p.1.w < s.nsp
  fwd_owner : ∀ e, s.mpc = .fwd e → e.w < s.nsp

theorem hand_nil {s : CSt} (h : ∀ e, s.mpc ≠ .fwd e) (w : Nat) : hand s w = [] := by
  unfold hand; split
  · rename_i e he; exact absurd he (h e)
  · rfl

/-- transitions that do not touch sink, queue or workers and neither start nor finish a forward -/
theorem SInv.transfer {i : SInput} {s s' : CSt} (h : SInv i s) (hs : ∀ e, s.mpc ≠ .fwd e) (hs' : ∀ e, s'.mpc ≠ .fwd e)
    (hsink : s'.sink = s.sink) (hq : s'.base.queue = s.base.queue) (hpc : ∀ w, s'.base.pcs[w + 1]? = s.base.pcs[w + 1]?)
    (hnsp : s.nsp ≤ s'.nsp) : SInv i s' := by
  refine ⟨?_, ?_, fun e he => absurd he (hs' e)⟩
  · intro w hw
    rw [hsink, hand_nil hs', todoItems_congr (hpc w) hq]
    have := h.acct w hw
    rw [hand_nil hs] at this
    exact this
  · intro p hp; rw [hsink] at hp; have := h.sink_owner p hp; omega

theorem SInv_finishMain {i : SInput} {s : CSt} (h : SInv i s) (r : MainRes) (hs : ∀ e, s.mpc ≠ .fwd e) : SInv i (finishMain s r) :=
  h.transfer hs (by simp) rfl rfl (fun _ => rfl) (Nat.le_refl _)

theorem SInv_loopHead {i : SInput} {s : CSt} (h : SInv i s) (hs : ∀ e, s.mpc ≠ .fwd e) : SInv i (loopHead s) := by
  unfold loopHead; split
  · exact SInv_finishMain h _ hs
  · exact h.transfer hs (by simp) rfl rfl (fun _ => rfl) (Nat.le_refl _)

theorem SInv_abortMain {i : SInput} {s : CSt} (h : SInv i s) (c : Cause) (hs : ∀ e, s.mpc ≠ .fwd e) : SInv i (abortMain i s c) := by
  refine h.transfer hs ?_ (by simp) (by simp) (fun w => by simp) (by simp)
  intro e; rcases abortMain_mpc i s c with h1 | h1 <;> simp [h1]

theorem SInv_nextSpawn {i : SInput} {s : CSt} (h : SInv i s) (hs : ∀ e, s.mpc ≠ .fwd e) (k : Nat) : SInv i (nextSpawn i s k) := by
  unfold nextSpawn; split
  · refine h.transfer hs ?_ rfl rfl (fun _ => rfl) (Nat.le_refl _)
    intro e; rcases parkPc_cases i k with hp | hp <;> simp [hp]
  · split
    · exact SInv_abortMain h _ hs
    · exact SInv_loopHead h hs

/-- a started worker's step does not change what is still to be delivered, for any worker -/
theorem todoItems_workerStep {i : SInput} {s : CSt} (h : QInv i s) (w : Nat) (hwn : w < i.workers.length) (s' : CSt)
    (hb : s'.base = stepThread s.base (w + 1)) (w' : Nat) : todoItems s' w' = todoItems s w' := by
  rcases stepThread_cases s.base (w + 1) with he | ⟨a, rest, hpc, hpcs, hqu⟩
  · simp [todoItems, wpc, hb, he]
  · have hlt : w + 1 < s.base.pcs.length := lt_of_getElem?_some hpc
    have hwpc : wpc s w = a :: rest := by simp [wpc, hpc]
    by_cases hww : w' = w
    · subst hww
      have : wpc s' w' = rest := by simp [wpc, hb, hpcs, hlt]
      unfold todoItems
      rw [this, hwpc, hb, hqu]
      cases a with
      | put x =>
        have hx : x.owner = w' := (h.goodT w' hwn).2 x (by simp [todoItems, hwpc, stepItems_cons_put])
        simp [stepItems_cons_put, projQ, hx]
      | acq => simp [stepItems]
      | tryAcq => simp [stepItems]
      | rel => simp [stepItems]
      | call c r => simp [stepItems]
    · have : wpc s' w' = wpc s w' := by
        have : ¬ (w = w') := fun hc => hww hc.symm
        simp [wpc, hb, hpcs, this]
      unfold todoItems
      rw [this, hb, hqu]
      cases a with
      | put x =>
        have hx : x.owner = w := (h.goodT w hwn).2 x (by simp [todoItems, hwpc, stepItems_cons_put])
        have : (x.owner == w') = false := by simp [hx]; exact fun hc => hww hc.symm
        simp [projQ, this]
      | acq => rfl
      | tryAcq => rfl
      | rel => rfl
      | call c r => rfl

theorem sinkOf_append (w : Nat) (a b : List (SEv × Bool)) : sinkOf w (a ++ b) = sinkOf w a ++ sinkOf w b := by
  simp [sinkOf]

/-- **every step preserves the delivery accounting** -/
theorem SInv_stepC {i : SInput} {s : CSt} (h : SInv i s) (hq : QInv i s) (t : Nat) : SInv i (stepC i s t) := by
  unfold stepC
  split
  · split
    · unfold stepMain
      split
      · rename_i k hk
        obtain ⟨_, hk2⟩ := hq.mpc_announce k hk
        refine ⟨?_, h.sink_owner, fun e he => by simp at he⟩
        intro w hw
        have hT := todoItems_workerStep hq k (Nat.lt_of_lt_of_le hk2 (spawnCount_le i))
          { s with base := stepThread s.base (k + 1), flags := flagsAfter s (k + 1), mpc := .spawn k } rfl w
        rw [hT, hand_nil (by simp)]
        have := h.acct w hw
        rw [hand_nil (by simp [hk])] at this
        exact this
      · rename_i k hk
        have hk1 := (hq.mpc_spawn k hk).1
        have h1 : SInv i { s with nsp := k + 1, reg := s.reg ++ [k] } :=
          h.transfer (by simp [hk]) (by simp [hk]) rfl rfl (fun _ => rfl) (by show s.nsp ≤ k + 1; omega)
        exact SInv_nextSpawn h1 (by simp [hk]) _
      · rename_i hg
        split
        · exact SInv_abortMain (h.transfer (s' := { s with ngets := s.ngets + 1 }) (by simp [hg]) (by simp [hg]) rfl rfl (fun _ => rfl) (Nat.le_refl _))
            _ (by simp [hg])
        · split
          · exact h
          · rename_i x q hqq
            have hw0 : x.owner < s.nsp := (hq.qowner x (by rw [hqq]; exact List.mem_cons_self)).resolve_right (by simp [hg])
            -- what is still to deliver, after the pop
            have hT0 : ∀ s' : CSt, s'.base = { s.base with queue := q } → todoItems s x.owner = x :: todoItems s' x.owner := by
              intro s' hb; simp [todoItems, wpc, hb, hqq, projQ]
            have hTne : ∀ s' : CSt, s'.base = { s.base with queue := q } → ∀ w, w ≠ x.owner → todoItems s' w = todoItems s w := by
              intro s' hb w hw
              have : (x.owner == w) = false := by simp; exact fun hc => hw hc.symm
              simp [todoItems, wpc, hb, hqq, projQ, this]
            have hnofwd : ∀ e, s.mpc ≠ .fwd e := by simp [hg]
            -- generic: popping a non-status item and moving to a non-forwarding state
            have hplain : ∀ s' : CSt, s'.base = { s.base with queue := q } → s'.sink = s.sink → s'.nsp = s.nsp →
                (∀ e, s'.mpc ≠ .fwd e) → statusesOf [x] = [] → SInv i s' := by
              intro s' hb hsk hn hm' hx
              refine ⟨?_, by rw [hsk, hn]; exact h.sink_owner, fun e he => absurd he (hm' e)⟩
              intro w hw
              have := h.acct w hw
              rw [hand_nil hnofwd] at this
              rw [hsk, hand_nil hm']
              by_cases hwx : w = x.owner
              · subst hwx
                rw [hT0 s' hb] at this
                have e1 : statusesOf (x :: todoItems s' x.owner) = statusesOf [x] ++ statusesOf (todoItems s' x.owner) := by
                  unfold statusesOf; rw [← List.filterMap_append]; rfl
                rw [e1, hx] at this
                simpa using this
              · rw [hTne s' hb w hwx]; exact this
            split
            · exact hplain _ rfl rfl rfl (by simp) rfl
            · exact hplain _ rfl rfl rfl (by simp) rfl
            · have h1 : SInv i { s with base := { s.base with queue := q }, ngets := s.ngets + 1 } :=
                hplain _ rfl rfl rfl (by simp [hg]) rfl
              exact SInv_loopHead h1 (by simp [hg])
            · rename_i e
              refine ⟨?_, h.sink_owner, ?_⟩
              · intro w hw
                have := h.acct w hw
                rw [hand_nil hnofwd] at this
                by_cases hwx : w = e.w
                · subst hwx
                  have hT := hT0 { s with base := { s.base with queue := q }, ngets := s.ngets + 1, mpc := .fwd e } rfl
                  simp only [Item.owner] at hT
                  rw [hT] at this
                  simp only [hand, if_true]
                  simpa [statusesOf] using this
                · have hT := hTne { s with base := { s.base with queue := q }, ngets := s.ngets + 1, mpc := .fwd e } rfl w hwx
                  rw [hT]
                  have hne : ¬ e.w = w := fun hc => hwx hc.symm
                  simp only [hand, hne, if_false]
                  exact this
              · intro e' he'
                simp at he'; subst he'
                exact hw0
      · rename_i w hw
        split
        · exact SInv_loopHead (h.transfer (s' := { s with joined := s.joined ++ [w] }) (by simp [hw]) (by simp [hw]) rfl rfl (fun _ => rfl) (Nat.le_refl _))
            (by simp [hw])
        · exact h
      · rename_i e he
        have hew := h.fwd_owner e he
        -- the forwarded event moves from main's hand into the sink
        have h1 : SInv i { s with sink := s.sink ++ [(e, i.mfaults.contains s.nstatus)], nstatus := s.nstatus + 1, mpc := .done } := by
          refine ⟨?_, ?_, fun e' he' => by simp at he'⟩
          · intro w hw
            have := h.acct w hw
            rw [hand_nil (by simp)]
            show sinkOf w (s.sink ++ [(e, i.mfaults.contains s.nstatus)]) ++ [] ++ statusesOf (todoItems s w) = _
            rw [sinkOf_append]
            by_cases hwx : e.w = w
            · simp only [hand, he, hwx, if_true] at this
              simpa [sinkOf, hwx] using this
            · simp only [hand, he, hwx, if_false] at this
              have hne : (e.w == w) = false := by simp [hwx]
              simpa [sinkOf, hne] using this
          · intro p hp
            rcases List.mem_append.mp hp with hp | hp
            · exact h.sink_owner p hp
            · simp at hp; subst hp; exact hew
        dsimp only
        split
        · have := SInv_abortMain h1 .injected (by simp)
          have e1 := abortMain_mpc_irrel i { s with sink := s.sink ++ [(e, i.mfaults.contains s.nstatus)], nstatus := s.nstatus + 1 } .done .injected
          rw [e1] at this
          exact this
        · have := SInv_loopHead h1 (by simp)
          have e1 := loopHead_mpc_irrel { s with sink := s.sink ++ [(e, i.mfaults.contains s.nstatus)], nstatus := s.nstatus + 1 } .done
          rw [e1] at this
          exact this
      · rename_i ha
        have hqs := QInv_abortStep hq ha
        have h1 : SInv i { s with base := stepThread s.base 0 } := by
          refine ⟨?_, h.sink_owner, h.fwd_owner⟩
          intro w hw
          have hT : todoItems { s with base := stepThread s.base 0 } w = todoItems s w := by
            rcases stepThread_cases s.base 0 with he | ⟨a, rest, hpc, hpcs, hqu⟩
            · rw [he]
            · have h0 := hq.main_noput
              rw [hpc] at h0
              obtain ⟨hnp, _⟩ := stepItems_nil_cons (by simpa using h0)
              have hq' : (stepThread s.base 0).queue = s.base.queue := by
                rw [hqu]; cases a <;> simp_all
              exact todoItems_congr (by simp [hpcs]) hq'
          rw [hT]
          have := h.acct w hw
          simpa [hand, ha] using this
        dsimp only
        split
        · exact SInv_finishMain h1 _ (by simp [ha])
        · exact h1
      · exact h
    · exact h
  · split
    · rename_i ht hlt
      have ht' : t = (t - 1) + 1 := by omega
      refine ⟨?_, h.sink_owner, h.fwd_owner⟩
      intro w hw
      have hT := todoItems_workerStep hq (t - 1) (Nat.lt_of_lt_of_le hlt (Nat.le_trans hq.nsp_le (spawnCount_le i))) { s with base := stepThread s.base t, flags := flagsAfter s t } (by rw [← ht']) w
      rw [hT]
      exact h.acct w hw
    · exact h

theorem SInv_runC {i : SInput} (sched : List Nat) : ∀ {s : CSt}, SInv i s → QInv i s → SInv i (runC i s sched) := by
  induction sched with
  | nil => intro s h _; exact h
  | cons t rest ih => intro s h hq; exact ih (SInv_stepC h hq t) (QInv_stepC hq t)

theorem SInv_drainC {i : SInput} : ∀ (fuel : Nat) {s : CSt}, SInv i s → QInv i s → SInv i (drainC i fuel s) := by
  intro fuel
  induction fuel with
  | zero => intro s h _; exact h
  | succ f ih =>
    intro s h hq
    unfold drainC
    split
    · exact h
    · exact ih (SInv_stepC h hq _) (QInv_stepC hq _)

theorem SInv_init (i : SInput) : SInv i (initC i) := by
  unfold initC
  refine SInv_nextSpawn ?_ (by simp) 0
  refine ⟨?_, fun p hp => (by cases hp), fun e he => (by simp at he)⟩
  intro w hw
  have hwk : i.workers[w]? = some i.workers[w] := by simp [hw]
  have := wpc_init i _ rfl { base := { pcs := [] :: (progs i).map fun p => segSteps p.segs }, flags := i.workers.map fun _ => false } rfl w _ hwk
  simp [sinkOf, hand, todoItems, this, projQ, eventsOf, hwk]

theorem SInv_final (i : SInput) : SInv i (finalC i) :=
  SInv_drainC _ (SInv_runC _ (SInv_init i) (QInv_init i)) (QInv_runC _ (QInv_init i))

/-! ## the stop flags of the stream flavour -/

def Item.isStartRun : Item → Bool
  | .startRun _ => true
  | _ => false

/-- `clean`: the item list of a worker that is started, or that main is just about to start, no longer contains a
`startTestRun` item (main has put it) - so no step of a started worker clears a stop flag.
`f_set`: once `run()` has raised in the stream flavour every registered worker's flag is set, and stays set. -/
structure FInv (i : SInput) (s : CSt) : Prop where
  f_len : s.flags.length = i.workers.length
  tail_clean : ∀ w, w < i.workers.length → ∀ a rest, wpc s w = a :: rest → ∀ x ∈ stepItems rest, x.isStartRun = false
  clean : ∀ w, w < i.workers.length → (w < s.nsp ∨ s.mpc = .spawn w ∨ i.flavour = .suite) →
    ∀ x ∈ stepItems (wpc s w), x.isStartRun = false
  abort_suite : s.mpc = .abort → i.flavour = .suite
  f_set : ∀ c, s.result = some (.raised c) → i.flavour = .stream → ∀ w ∈ s.reg, s.flags[w]? = some true

theorem setFlags_length : ∀ (ws : List Nat) (f : List Bool), (setFlags f ws).length = f.length
  | [], _ => rfl
  | w :: ws, f => by simp [setFlags, setFlags_length ws]

theorem setFlags_keeps_true : ∀ (ws : List Nat) (f : List Bool) (w : Nat), f[w]? = some true → (setFlags f ws)[w]? = some true
  | [], _, _, h => h
  | v :: ws, f, w, h => by
      simp only [setFlags]
      apply setFlags_keeps_true ws
      rw [List.getElem?_set]
      split
      · rename_i hvw; subst hvw
        have : v < f.length := lt_of_getElem?_some h
        simp [this]
      · exact h

theorem setFlags_get : ∀ (ws : List Nat) (f : List Bool) (w : Nat), w ∈ ws → w < f.length → (setFlags f ws)[w]? = some true
  | [], _, _, h, _ => by cases h
  | v :: ws, f, w, h, hl => by
      simp only [setFlags]
      rcases List.mem_cons.mp h with rfl | h
      · exact setFlags_keeps_true ws _ _ (by simp [hl])
      · exact setFlags_get ws _ w h (by simpa using hl)

theorem parkPc_spawn {i : SInput} {k w : Nat} (h : parkPc i k = .spawn w) : i.flavour = .suite := by
  unfold parkPc at h
  split at h
  · cases h
  · assumption

/-- main-side transitions that neither touch workers nor flags and do not end `run()` with an exception in the
stream flavour -/
theorem FInv.transfer {i : SInput} {s s' : CSt} (h : FInv i s) (hfl : s'.flags = s.flags)
    (hpc : ∀ w, s'.base.pcs[w + 1]? = s.base.pcs[w + 1]?) (hab : s'.mpc = .abort → i.flavour = .suite)
    (hprem : ∀ w, (w < s'.nsp ∨ s'.mpc = .spawn w) → (w < s.nsp ∨ s.mpc = .spawn w ∨ i.flavour = .suite))
    (hres : ∀ c, s'.result = some (.raised c) → i.flavour = .suite) : FInv i s' := by
  refine ⟨by rw [hfl]; exact h.f_len, ?_, ?_, hab, ?_⟩
  · intro w hw a rest hwp; rw [wpc_congr (hpc w)] at hwp; exact h.tail_clean w hw a rest hwp
  · intro w hw hp
    rw [wpc_congr (hpc w)]
    apply h.clean w hw
    rcases hp with h1 | h1 | h1
    · exact hprem w (Or.inl h1)
    · exact hprem w (Or.inr h1)
    · exact Or.inr (Or.inr h1)
  · intro c hc hs; have := hres c hc; rw [hs] at this; cases this

theorem FInv_finishMain_ok {i : SInput} {s : CSt} (h : FInv i s) : FInv i (finishMain s .returned) :=
  h.transfer rfl (fun _ => rfl) (by simp) (fun w hw => by rcases hw with h1 | h1; exact Or.inl h1; simp at h1) (by simp)

theorem FInv_loopHead {i : SInput} {s : CSt} (h : FInv i s) (hres : s.result = none) : FInv i (loopHead s) := by
  unfold loopHead; split
  · exact FInv_finishMain_ok h
  · exact h.transfer rfl (fun _ => rfl) (by simp) (fun w hw => by rcases hw with h1 | h1; exact Or.inl h1; simp at h1) (by simp [hres])

/-- entering the `except:` clause: in the stream flavour every registered worker's flag is set -/
theorem FInv_abortMain {i : SInput} {s : CSt} (h : FInv i s) (hreg : ∀ w ∈ s.reg, w < i.workers.length) (c : Cause) :
    FInv i (abortMain i s c) := by
  unfold abortMain
  split
  · rename_i hf
    refine ⟨by simp [setFlags_length, h.f_len], h.tail_clean, ?_, by simp, ?_⟩
    · intro w hw hp
      apply h.clean w hw
      rcases hp with h1 | h1 | h1
      · exact Or.inl h1
      · simp at h1
      · exact Or.inr (Or.inr h1)
    · intro c' _ _ w hw
      have hw' : w ∈ s.reg := hw
      exact setFlags_get s.reg s.flags w hw' (by rw [h.f_len]; exact hreg w hw')
  · rename_i hf
    split
    · exact h.transfer rfl (fun _ => rfl) (by simp) (fun w hw => by rcases hw with h1 | h1; exact Or.inl h1; simp at h1) (fun _ _ => hf)
    · exact h.transfer rfl (fun w => by simp) (fun _ => hf) (fun w hw => Or.inr (Or.inr hf)) (fun _ _ => hf)

theorem FInv_nextSpawn {i : SInput} {s : CSt} (h : FInv i s) (hreg : ∀ w ∈ s.reg, w < i.workers.length) (hres : s.result = none) (k : Nat) :
    FInv i (nextSpawn i s k) := by
  unfold nextSpawn; split
  · refine h.transfer rfl (fun _ => rfl) ?_ ?_ (by simp [hres])
    · intro hc; rcases parkPc_cases i k with hp | hp <;> simp [hp] at hc
    · intro w hw
      rcases hw with h1 | h1
      · exact Or.inl h1
      · exact Or.inr (Or.inr (parkPc_spawn h1))
  · split
    · exact FInv_abortMain h hreg _
    · exact FInv_loopHead h hres

theorem reg_lt {i : SInput} {s : CSt} (hq : QInv i s) : ∀ w ∈ s.reg, w < i.workers.length := by
  intro w hw
  exact Nat.lt_of_lt_of_le ((hq.reg_iff w).mp hw).1 (Nat.le_trans hq.nsp_le (spawnCount_le i))

theorem stepItems_tail_subset {a : Step} {rest : List Step} : ∀ x ∈ stepItems rest, x ∈ stepItems (a :: rest) := by
  intro x hx
  cases a <;> simp_all [stepItems]

theorem flagsAfter_length (s : CSt) (t : Nat) : (flagsAfter s t).length = s.flags.length := by
  unfold flagsAfter; split <;> simp

/-- the stepping thread's remaining steps are the old ones, or the old ones without their head -/
theorem pcs_after (b : St) (t : Nat) :
    ((stepThread b t).pcs[t]?).getD [] = (b.pcs[t]?).getD [] ∨ ∃ a, (b.pcs[t]?).getD [] = a :: ((stepThread b t).pcs[t]?).getD [] := by
  rcases stepThread_cases b t with he | ⟨a, rest, hpc, hpcs, _⟩
  · left; rw [he]
  · right
    have hlt : t < b.pcs.length := lt_of_getElem?_some hpc
    refine ⟨a, ?_⟩
    rw [hpcs, hpc]; simp [hlt]

/-- the step that consumes the head of a list whose tail is clean leaves a clean list - whatever that head was
(a blocked `acquire` leaves the list as it is, and an `acquire` is no item) -/
theorem stepItems_new_clean {b : St} {t : Nat} {P : Item → Prop}
    (htail : ∀ a rest, (b.pcs[t]?).getD [] = a :: rest → ∀ x ∈ stepItems rest, P x) :
    ∀ x ∈ stepItems (((stepThread b t).pcs[t]?).getD []), P x := by
  cases hpc : b.pcs[t]? with
  | none => simp [stepThread, hpc, stepItems]
  | some l =>
    have hlt : t < b.pcs.length := lt_of_getElem?_some hpc
    cases l with
    | nil => simp [stepThread, hpc, stepItems]
    | cons a rest =>
      have ht := htail a rest (by simp [hpc])
      have hset : (b.pcs.set t rest)[t]?.getD [] = rest := by simp [hlt]
      cases a with
      | acq =>
        by_cases hs : b.semv = 0
        · have e : stepThread b t = b := by simp only [stepThread, hpc, hs, if_true]
          have : stepItems (Step.acq :: rest) = stepItems rest := rfl
          rw [e, hpc]; simpa [this] using ht
        · have e : (stepThread b t).pcs = b.pcs.set t rest := by simp only [stepThread, hpc, hs, if_false]
          rw [e, hset]; exact ht
      | tryAcq =>
        have e : (stepThread b t).pcs = b.pcs.set t rest := by
          by_cases hs : b.semv = 0
          · simp only [stepThread, hpc, hs, if_true]
          · simp only [stepThread, hpc, hs, if_false]
        rw [e, hset]; exact ht
      | rel =>
        have e : (stepThread b t).pcs = b.pcs.set t rest := by simp only [stepThread, hpc]
        rw [e, hset]; exact ht
      | call c r =>
        have e : (stepThread b t).pcs = b.pcs.set t rest := by simp only [stepThread, hpc]
        rw [e, hset]; exact ht
      | put x =>
        have e : (stepThread b t).pcs = b.pcs.set t rest := by simp only [stepThread, hpc]
        rw [e, hset]; exact ht

theorem flagsAfter_eq_of_clean {s : CSt} {w : Nat} (h : ∀ x ∈ stepItems (wpc s w), x.isStartRun = false) :
    flagsAfter s (w + 1) = s.flags := by
  unfold flagsAfter
  split
  · rename_i w' tl hpc
    have := h (.startRun w') (by simp [wpc, hpc, stepItems_cons_put])
    simp [Item.isStartRun] at this
  · rfl

/-- thread `w+1`'s next step is taken: by the started worker (`m = s.mpc`), or - the `startTestRun` item - by main
on its behalf (`announce w` becomes `spawn w`) -/
theorem FInv_baseStep {i : SInput} {s : CSt} (h : FInv i s) (w : Nat) (hwn : w < i.workers.length) (m : MainPc)
    (hm : (m = s.mpc ∧ w < s.nsp) ∨ (s.mpc = .announce w ∧ m = .spawn w ∧ s.result = none)) :
    FInv i { s with base := stepThread s.base (w + 1), flags := flagsAfter s (w + 1), mpc := m } := by
  have hother : ∀ w', w' ≠ w → (stepThread s.base (w + 1)).pcs[w' + 1]? = s.base.pcs[w' + 1]? :=
    fun w' hw' => stepThread_pcs_other s.base (w + 1) (w' + 1) (by omega)
  have hwo : ∀ w', w' ≠ w → wpc { s with base := stepThread s.base (w + 1), flags := flagsAfter s (w + 1), mpc := m } w' = wpc s w' := by
    intro w' hw'; simp [wpc, hother w' hw']
  have hnew : wpc { s with base := stepThread s.base (w + 1), flags := flagsAfter s (w + 1), mpc := m } w
      = ((stepThread s.base (w + 1)).pcs[w + 1]?).getD [] := rfl
  refine ⟨by simp [flagsAfter_length, h.f_len], ?_, ?_, ?_, ?_⟩
  · intro w' hw' a rest hwp
    by_cases hww : w' = w
    · subst hww
      rw [hnew] at hwp
      rcases pcs_after s.base (w' + 1) with he | ⟨a0, he⟩
      · rw [he] at hwp; exact h.tail_clean w' hw' a rest hwp
      · intro x hx
        exact h.tail_clean w' hw' a0 _ he x (by rw [hwp]; exact stepItems_tail_subset x hx)
    · rw [hwo w' hww] at hwp; exact h.tail_clean w' hw' a rest hwp
  · intro w' hw' hp
    by_cases hww : w' = w
    · subst hww
      rw [hnew]
      exact stepItems_new_clean (fun a rest he => h.tail_clean w' hw' a rest he)
    · rw [hwo w' hww]
      apply h.clean w' hw'
      rcases hm with ⟨rfl, _⟩ | ⟨h1, rfl, _⟩
      · exact hp
      · rcases hp with h2 | h2 | h2
        · exact Or.inl h2
        · simp at h2; exact absurd h2.symm hww
        · exact Or.inr (Or.inr h2)
  · intro hc
    rcases hm with ⟨rfl, _⟩ | ⟨_, rfl, _⟩
    · exact h.abort_suite hc
    · simp at hc
  · intro c hc hs w0 hw0
    rcases hm with ⟨rfl, hlt⟩ | ⟨_, _, hres⟩
    · show (flagsAfter s (w + 1))[w0]? = some true
      rw [flagsAfter_eq_of_clean (h.clean w hwn (Or.inl hlt))]
      exact h.f_set c hc hs w0 hw0
    · have : s.result = some (.raised c) := hc
      rw [hres] at this; cases this

/-- **every step preserves the facts about the stop flags** -/
theorem FInv_stepC {i : SInput} {s : CSt} (h : FInv i s) (hq : QInv i s) (hr : RInv i s) (t : Nat) : FInv i (stepC i s t) := by
  have hreg := reg_lt hq
  have hkeep : ∀ {s' : CSt}, s'.nsp = s.nsp → (∀ w, s'.mpc ≠ .spawn w) → ∀ w, (w < s'.nsp ∨ s'.mpc = .spawn w) →
      (w < s.nsp ∨ s.mpc = .spawn w ∨ i.flavour = .suite) := by
    intro s' hn hm w hw
    rcases hw with h1 | h1
    · exact Or.inl (by omega)
    · exact absurd h1 (hm w)
  unfold stepC
  split
  · split
    · unfold stepMain
      split
      · rename_i k hk
        obtain ⟨_, hk2⟩ := hq.mpc_announce k hk
        exact FInv_baseStep h k (Nat.lt_of_lt_of_le hk2 (spawnCount_le i)) _ (Or.inr ⟨hk, rfl, hr.result_none (by simp [hk])⟩)
      · rename_i k hk
        obtain ⟨hk1, hk2⟩ := hq.mpc_spawn k hk
        have hres := hr.result_none (by simp [hk])
        have h1 : FInv i { s with nsp := k + 1, reg := s.reg ++ [k] } := by
          refine h.transfer rfl (fun _ => rfl) (by simp [hk]) ?_ (by simp [hres])
          intro w hw
          rcases hw with h1 | h1
          · by_cases hwk : w = k
            · subst hwk; exact Or.inr (Or.inl hk)
            · exact Or.inl (by have : w < k + 1 := h1; omega)
          · exact Or.inr (Or.inl h1)
        refine FInv_nextSpawn h1 ?_ hres _
        intro w hw
        rcases List.mem_append.mp hw with hw | hw
        · exact hreg w hw
        · simp at hw; subst hw; exact Nat.lt_of_lt_of_le hk2 (spawnCount_le i)
      · rename_i hg
        have hres := hr.result_none (by simp [hg])
        split
        · exact FInv_abortMain (h.transfer (s' := { s with ngets := s.ngets + 1 }) rfl (fun _ => rfl) (by simp [hg]) (hkeep rfl (by simp [hg])) (by simp [hres])) hreg _
        · split
          · exact h
          · rename_i x q hqq
            have h1 : FInv i { s with base := { s.base with queue := q }, ngets := s.ngets + 1 } :=
              h.transfer rfl (fun _ => rfl) (by simp [hg]) (hkeep rfl (by simp [hg])) (by simp [hres])
            split
            · exact h1.transfer rfl (fun _ => rfl) (by simp) (fun w hw => by rcases hw with h2 | h2; exact Or.inl h2; simp at h2) (by simp [hres])
            · exact h1.transfer rfl (fun _ => rfl) (by simp) (fun w hw => by rcases hw with h2 | h2; exact Or.inl h2; simp at h2) (by simp [hres])
            · exact FInv_loopHead h1 hres
            · exact h1.transfer rfl (fun _ => rfl) (by simp) (fun w hw => by rcases hw with h2 | h2; exact Or.inl h2; simp at h2) (by simp [hres])
      · rename_i w hw
        have hres := hr.result_none (by simp [hw])
        split
        · exact FInv_loopHead (h.transfer (s' := { s with joined := s.joined ++ [w] }) rfl (fun _ => rfl) (by simp [hw]) (hkeep rfl (by simp [hw])) (by simp [hres])) hres
        · exact h
      · rename_i e he
        have hres := hr.result_none (by simp [he])
        have h1 : FInv i { s with sink := s.sink ++ [(e, i.mfaults.contains s.nstatus)], nstatus := s.nstatus + 1 } :=
          h.transfer rfl (fun _ => rfl) (by simp [he]) (hkeep rfl (by simp [he])) (by simp [hres])
        dsimp only
        split
        · exact FInv_abortMain h1 hreg _
        · exact FInv_loopHead h1 hres
      · rename_i ha
        have hsu := h.abort_suite ha
        have h1 : FInv i { s with base := stepThread s.base 0 } :=
          h.transfer rfl (fun w => stepThread_pcs_other s.base 0 (w + 1) (by omega)) (fun _ => hsu) (fun _ _ => Or.inr (Or.inr hsu)) (fun _ _ => hsu)
        dsimp only
        split
        · exact h1.transfer rfl (fun _ => rfl) (by simp) (fun _ _ => Or.inr (Or.inr hsu)) (fun _ _ => hsu)
        · exact h1
      · exact h
    · exact h
  · split
    · rename_i ht hlt
      have ht' : t = (t - 1) + 1 := by omega
      rw [ht']
      exact FInv_baseStep h (t - 1) (Nat.lt_of_lt_of_le hlt (Nat.le_trans hq.nsp_le (spawnCount_le i))) s.mpc (Or.inl ⟨rfl, hlt⟩)
    · exact h

theorem FInv_runC {i : SInput} (sched : List Nat) : ∀ {s : CSt}, FInv i s → QInv i s → RInv i s → FInv i (runC i s sched) := by
  induction sched with
  | nil => intro s h _ _; exact h
  | cons t rest ih => intro s h hq hr; exact ih (FInv_stepC h hq hr t) (QInv_stepC hq t) (RInv_stepC hr hq t)

theorem FInv_drainC {i : SInput} : ∀ (fuel : Nat) {s : CSt}, FInv i s → QInv i s → RInv i s → FInv i (drainC i fuel s) := by
  intro fuel
  induction fuel with
  | zero => intro s h _ _; exact h
  | succ f ih =>
    intro s h hq hr
    unfold drainC
    split
    · exact h
    · exact ih (FInv_stepC h hq hr _) (QInv_stepC hq _) (RInv_stepC hr hq _)

theorem FInv_init (i : SInput) : FInv i (initC i) := by
  unfold initC
  refine FInv_nextSpawn ?_ (by intro w hw; cases hw) rfl 0
  refine ⟨by simp, ?_, ?_, by simp, by intro c hc; simp at hc⟩
  · intro w hw a rest hwp
    rw [wpc_init i _ rfl _ rfl w _ (by simp [hw] : i.workers[w]? = some i.workers[w])] at hwp
    cases hf : i.flavour with
    | suite =>
      have hit := items_suite w i.workers[w]
      simp only [progOf, hf] at hwp
      rw [hwp] at hit
      intro x hx
      have := stepItems_tail_subset (a := a) x hx
      rw [hit] at this
      simp at this; subst this; rfl
    | stream =>
      simp only [progOf, hf, streamProg, segSteps] at hwp
      have hrest : rest = segSteps ((streamEvents w i.tb i.workers[w]).map (fun e => Seg.put (.status e)) ++ [.put (.stopRun w)]) := by
        simp at hwp; exact hwp.2.symm
      have e1 : (List.map (fun e => Seg.put (Item.status e)) (streamEvents w i.tb i.workers[w])) = ((streamEvents w i.tb i.workers[w]).map Item.status).map Seg.put := by
        simp
      intro x hx
      rw [hrest, segSteps_append, stepItems_append, e1, stepItems_segSteps_puts] at hx
      simp [segSteps, stepItems_cons_put] at hx
      rcases hx with ⟨e, _, rfl⟩ | hx
      · rfl
      · have : x = .stopRun w := by simpa [stepItems] using hx
        subst this; rfl
  · intro w hw hp
    rcases hp with h1 | h1 | h1
    · simp at h1
    · simp at h1
    · rw [wpc_init i _ rfl _ rfl w _ (by simp [hw] : i.workers[w]? = some i.workers[w])]
      simp only [progOf, h1]
      rw [items_suite]
      intro x hx; simp at hx; subst hx; rfl

theorem FInv_final (i : SInput) : FInv i (finalC i) :=
  FInv_drainC _ (FInv_runC _ (FInv_init i) (QInv_init i) (RInv_init i)) (QInv_runC _ (QInv_init i)) (RInv_runC _ (RInv_init i) (QInv_init i))

/-! ## the stream flavour never enters the semaphore -/

@[simp] theorem finishMain_msecs (s : CSt) (r : MainRes) : (finishMain s r).msecs = s.msecs := rfl
@[simp] theorem loopHead_msecs (s : CSt) : (loopHead s).msecs = s.msecs := by unfold loopHead; split <;> rfl

theorem abortMain_msecs_stream (i : SInput) (s : CSt) (c : Cause) (hf : i.flavour = .stream) : (abortMain i s c).msecs = s.msecs := by
  unfold abortMain; rw [hf]; rfl

theorem nextSpawn_msecs_stream (i : SInput) (s : CSt) (k : Nat) (hf : i.flavour = .stream) : (nextSpawn i s k).msecs = s.msecs := by
  unfold nextSpawn; split
  · rfl
  · split
    · exact abortMain_msecs_stream i s _ hf
    · simp

theorem stepC_msecs_stream (i : SInput) (s : CSt) (t : Nat) (hf : i.flavour = .stream) : (stepC i s t).msecs = s.msecs := by
  unfold stepC
  split
  · split
    · unfold stepMain
      split
      · rfl
      · rw [nextSpawn_msecs_stream _ _ _ hf]
      · split
        · rw [abortMain_msecs_stream _ _ _ hf]
        · split
          · rfl
          · split
            · rfl
            · rfl
            · simp
            · rfl
      · split
        · simp
        · rfl
      · dsimp only
        split
        · rw [abortMain_msecs_stream _ _ _ hf]
        · simp
      · dsimp only
        split <;> rfl
      · rfl
    · rfl
  · split <;> rfl

theorem msecs_stream_nil (i : SInput) (hf : i.flavour = .stream) : (finalC i).msecs = [] := by
  have hrun : ∀ (sched : List Nat) (s : CSt), (runC i s sched).msecs = s.msecs := by
    intro sched
    induction sched with
    | nil => intro s; rfl
    | cons t rest ih => intro s; simp only [runC, List.foldl_cons] at ih ⊢; rw [ih, stepC_msecs_stream i s t hf]
  have hdrain : ∀ (fuel : Nat) (s : CSt), (drainC i fuel s).msecs = s.msecs := by
    intro fuel
    induction fuel with
    | zero => intro s; rfl
    | succ f ih =>
      intro s
      unfold drainC
      split
      · rfl
      · rw [ih, stepC_msecs_stream i s _ hf]
  unfold finalC
  rw [hdrain, hrun]
  unfold initC
  rw [nextSpawn_msecs_stream _ _ _ hf]

end TTV.Conc
