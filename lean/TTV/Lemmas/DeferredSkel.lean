import TTV.Model.DeferredSkel
/-! The reference terms mean the hand-written model functions. -/
namespace TTV.DeferredSkel
open TTV.Deferred

theorem add_cases (d : D) (cb : Cb) :
    (∃ r, d.st = .fired r ∧ add d cb = (runCbs [cb] r d.seen, some r)) ∨
    ((∀ r, d.st ≠ .fired r) ∧ add d cb = ({ d with cbs := d.cbs ++ [cb] }, none)) := by
  unfold add
  cases h : d.st with
  | fired r => exact Or.inl ⟨r, rfl, rfl⟩
  | unfired => exact Or.inr ⟨by simp, rfl⟩
  | paused => exact Or.inr ⟨by simp, rfl⟩

theorem matchI_ref_noResult (d : D) : matchI refOdr refNoResult (fun _ => false) d = some (matchOp .noResult d) := by
  rcases add_cases d captureCb with ⟨r, _, h⟩ | ⟨_, h⟩
  · cases r <;> simp [matchI, matchOp, refOdr, refNoResult, h, firstArm, Guard.holds, runHandler]
  · simp [matchI, matchOp, refOdr, refNoResult, h, firstArm, Guard.holds, runHandler]

theorem matchI_ref_succeeded (vm : VM) (d : D) :
    matchI refOdr refSucceeded (innerV vm) d = some (matchOp (.succeeded vm) d) := by
  rcases add_cases d captureCb with ⟨r, _, h⟩ | ⟨_, h⟩
  · cases r <;> simp [matchI, matchOp, refOdr, refSucceeded, h, firstArm, Guard.holds, runHandler, innerV]
  · simp [matchI, matchOp, refOdr, refSucceeded, h, firstArm, Guard.holds, runHandler]

theorem matchI_ref_failed (fm : FM) (d : D) :
    matchI refOdr refFailed (innerF fm) d = some (matchOp (.failed fm) d) := by
  rcases add_cases d captureCb with ⟨r, _, h⟩ | ⟨_, h⟩
  · cases r <;> simp [matchI, matchOp, refOdr, refFailed, h, firstArm, Guard.holds, runHandler, innerF]
  · simp [matchI, matchOp, refOdr, refFailed, h, firstArm, Guard.holds, runHandler]

theorem extractI_ref (d : D) : extractI refExtract d = some (extractOp d) := by
  rcases add_cases d extractCb with ⟨r, _, h⟩ | ⟨_, h⟩
  · cases r <;> simp [extractI, extractOp, refExtract, h, firstArm, Guard.holds]
  · simp [extractI, extractOp, refExtract, h, firstArm, Guard.holds]

theorem runUserI_ref (b : Beh) : runUserI refRunUserSig refRunUser refGotUserFailure b = some (runUser b) := by
  simp [runUserI, refRunUserSig, refRunUser, refGotUserFailure]

end TTV.DeferredSkel
