import TTV.Model.DecoSrc
/-! The reference terms mean the steps of the hand-written decorator model. -/
namespace TTV.DecoSrc
open TTV.Stream TTV.Stream.Deco

theorem stampInterp_ref {TG : Type} (e : EventOf TG) :
    stampInterp refStamp e = some { e with timestamp := fillNow e.timestamp } := by
  cases h : e.timestamp <;> simp [stampInterp, refStamp, deval, h, fillNow]

theorem queueRoute_ref {TG : Type} (code : Str) (e : EventOf TG) :
    valRoute (deval code e refQueueRoute) = prefixRoute code e.route := by
  cases h : e.route <;> simp [refQueueRoute, deval, valRoute, prefixRoute, h]

theorem qInterp_ref {TG : Type} (code : Str) (e : EventOf TG) :
    qInterp refQueueDict refQueueRoute code e = some { e with route := prefixRoute code e.route } := by
  have h1 : (refQueueDict.length == 10 && canonical.all (fun f => f == .route || lookupField refQueueDict f == some (.param f))) = true := by decide
  have h2 : lookupField refQueueDict .route = some .routed := by decide
  simp only [qInterp, h1, h2, if_true, queueRoute_ref]

theorem cInterp_ref (n : Nat) (ts : List Dec) (h : Heap) (m : Msg) : cInterp n ts h m refCopy none = some (deliverL n ts h m) := rfl

theorem ffInterp_ref (st : Option Status) : ffInterp st refFailFast = some (fires st) := by
  cases st with
  | none => rfl
  | some s => cases s <;> rfl

end TTV.DecoSrc
