import TTV.Model.Result
import TTV.Spec.C08
/-! What an `ExtendedToOriginalDecorator` sends to its target for one call: the call itself (degraded for
the target's capabilities, or nothing when the target lacks the method) followed by some `stop()`s
(fail-fast).  Shared by C17 and C04. -/
namespace TTV.Lemmas.ResEmit
open TTV.Result TTV.Spec.C08

/-- the forwarded form of a call -/
def etodMain (caps : Caps) (c : Call) : List Call :=
  match c with
  | .add .. => [degradeCall caps c]
  | .startTest _ | .stopTest _ => [c]
  | .startTestRun | .stopTestRun => if caps.startRun then [c] else []
  | .tags _ _ => if caps.tags then [c] else []
  | .time _ => if caps.time then [c] else []
  | .progress => if caps.progress then [c] else []
  | .done => if caps.done then [c] else []
  | .stop => []
  | .setFailfast _ => if caps.failfast then [c] else []

variable {σ : Type} (I : Iface σ)

theorem foldl_replicate_add (f : σ → Call → σ) (s : σ) (a b : Nat) (x : Call) :
    (List.replicate (a + b) x).foldl f s = (List.replicate b x).foldl f ((List.replicate a x).foldl f s) := by
  rw [← List.replicate_append_replicate, List.foldl_append]

theorem stop_emits (own : EtodOwn) (inner : σ) :
    ∃ k, (etodStop I own inner).2 = (List.replicate k Call.stop).foldl I.step inner := by
  unfold etodStop
  split
  · exact ⟨1, rfl⟩
  · exact ⟨0, rfl⟩

theorem finally_emits (p : EtodOwn × σ) :
    ∃ k, (etodFinally I p).2 = (List.replicate k Call.stop).foldl I.step p.2 := by
  unfold etodFinally
  split
  · exact stop_emits I p.1 p.2
  · exact ⟨0, rfl⟩

theorem finally_after (own : EtodOwn) (inner : σ) (cs : List Call) (k0 : Nat) :
    ∃ k, (etodFinally I (own, (cs ++ List.replicate k0 Call.stop).foldl I.step inner)).2
      = (cs ++ List.replicate k Call.stop).foldl I.step inner := by
  obtain ⟨k, h⟩ := finally_emits I (own, (cs ++ List.replicate k0 Call.stop).foldl I.step inner)
  refine ⟨k0 + k, ?_⟩
  rw [h]
  simp only [List.foldl_append, foldl_replicate_add]

theorem finally_after' (p : EtodOwn × σ) (inner : σ) (cs : List Call) (k0 : Nat)
    (hp : p.2 = (cs ++ List.replicate k0 Call.stop).foldl I.step inner) :
    ∃ k, (etodFinally I p).2 = (cs ++ List.replicate k Call.stop).foldl I.step inner := by
  obtain ⟨k, h⟩ := finally_emits I p
  refine ⟨k0 + k, ?_⟩
  rw [h, hp]
  simp only [List.foldl_append, foldl_replicate_add]

/-- **emission of an `ExtendedToOriginalDecorator`** -/
theorem etodStep_emits (own : EtodOwn) (inner : σ) (c : Call) :
    ∃ k, (etodStep I own inner c).2 = (etodMain I.caps c ++ List.replicate k Call.stop).foldl I.step inner := by
  cases c with
  | add k t a =>
    cases k <;> simp only [etodStep, etodMain]
    · -- success
      refine ⟨0, ?_⟩
      cases a <;> simp [degradeCall, degradeKind, degradeArg]
    · -- error
      refine finally_after' I _ inner _ 0 ?_
      cases a <;> simp [degradeCall, degradeKind, degradeArg]
    · -- failure
      refine finally_after' I _ inner _ 0 ?_
      cases a <;> simp [degradeCall, degradeKind, degradeArg]
    · -- skip
      by_cases hs : I.caps.skip
      · refine ⟨0, ?_⟩
        cases a <;> simp [degradeCall, degradeKind, degradeArg, hs]
      · refine ⟨0, ?_⟩
        simp [degradeCall, degradeKind, degradeArg, hs]
    · -- xfail
      by_cases hs : I.caps.xfail
      · refine ⟨0, ?_⟩
        cases a <;> simp [degradeCall, degradeKind, degradeArg, hs]
      · refine ⟨0, ?_⟩
        simp [degradeCall, degradeKind, degradeArg, hs]
    · -- uxsuccess
      by_cases hs : I.caps.uxs
      · simp only [hs]
        refine finally_after' I _ inner _ 0 ?_
        cases a <;> simp [degradeCall, degradeKind, degradeArg, hs]
      · simp only [hs]
        obtain ⟨k1, h1⟩ := finally_after' I (own, I.step inner (.add .failure t (.exc .synth))) inner
          [.add .failure t (.exc .synth)] 0 (by simp)
        obtain ⟨k2, h2⟩ := finally_after' I (etodFinally I (own, I.step inner (.add .failure t (.exc .synth)))) inner
          [.add .failure t (.exc .synth)] k1 h1
        refine ⟨k2, ?_⟩
        simp only [Bool.not_false, ite_true]
        rw [h2]
        simp [degradeCall, degradeKind, degradeArg, hs]
  | startTest t => exact ⟨0, rfl⟩
  | stopTest t => exact ⟨0, rfl⟩
  | startTestRun => simp only [etodStep, etodMain]; split <;> exact ⟨0, rfl⟩
  | stopTestRun => simp only [etodStep, etodMain]; split <;> exact ⟨0, rfl⟩
  | tags n g => simp only [etodStep, etodMain]; split <;> exact ⟨0, rfl⟩
  | time d => simp only [etodStep, etodMain]; split <;> exact ⟨0, rfl⟩
  | progress => simp only [etodStep, etodMain]; split <;> exact ⟨0, rfl⟩
  | done => simp only [etodStep, etodMain]; split <;> exact ⟨0, rfl⟩
  | stop => simp only [etodStep, etodMain]; exact stop_emits I own inner
  | setFailfast b => simp only [etodStep, etodMain]; split <;> exact ⟨0, rfl⟩

/-- the tag context of the decorator itself -/
theorem etodStop_tags (own : EtodOwn) (inner : σ) : (etodStop I own inner).1.tags = own.tags := by
  unfold etodStop; split <;> rfl

theorem etodFinally_tags (p : EtodOwn × σ) : (etodFinally I p).1.tags = p.1.tags := by
  unfold etodFinally; split
  · exact etodStop_tags I _ _
  · rfl

/-- what a `ThreadsafeForwardingResult` with `failfast` set on itself adds after a bad outcome: at most one `stop()` -/
theorem mem_tfrStops (own : TfrOwn) (k : Kind) : ∀ x ∈ tfrStops own k, x = Call.stop := by
  unfold tfrStops; split <;> simp

theorem tfrStops_off (own : TfrOwn) (k : Kind) (h : own.tt.failfast = false ∨ k.passing = true) : tfrStops own k = [] := by
  unfold tfrStops; rcases h with h | h <;> simp [h]

theorem tfrStops_on (own : TfrOwn) (k : Kind) (h1 : own.tt.failfast = true) (h2 : k.passing = false) :
    tfrStops own k = [Call.stop] := by
  unfold tfrStops; simp [h1, h2]

end TTV.Lemmas.ResEmit

namespace TTV.Result
/- Bookkeeping for recursions that stop at stream decorators: the recursion scheme of `Shape.noStream`, but every graph
is accepted (`cutS_all` in `Props/C04.lean`). -/
mutual
def Shape.cutS : Shape → Bool
  | .e2s _ => true
  | .etod c | .deco c | .tagger _ _ c | .tfr c => c.cutS
  | .multi cs => Shape.cutSL cs
  | _ => true
def Shape.cutSL : List Shape → Bool
  | [] => true
  | c :: cs => c.cutS && Shape.cutSL cs
end
end TTV.Result
