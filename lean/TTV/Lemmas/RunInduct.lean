import TTV.Lemmas.RunHandlers
/-! An induction principle for `runCore`: a state predicate that holds initially and is preserved by
executing a stage of the program, by popping and running one cleanup entry, and by recording the forced
failure, holds of the final state.  The run invariant `Inv` is supplied to every step for free. -/
namespace TTV.Run
open TTV.Spec.Run

theorem runCleanups_nil (s : RS) (h : s.stack = []) : runCleanups s = s := by
  rw [runCleanups]; split
  · rfl
  · rename_i c rest hc; rw [h] at hc; cases hc

theorem runCleanups_cons (s : RS) (c : Cl) (rest : List Cl) (h : s.stack = c :: rest) :
    runCleanups s = runCleanups (runCl c { s with stack := rest }) := by
  rw [runCleanups]; split
  · rename_i hc; rw [h] at hc; cases hc
  · rename_i c' rest' hc; rw [h] at hc; cases hc; rfl

theorem Inv.pop {p : Program} {ff0 : Bool} {s : RS} (h : Inv p ff0 s) (c : Cl) (rest : List Cl)
    (hs : s.stack = c :: rest) : Inv p ff0 { s with stack := rest } :=
  { h with stackIn := fun x hx => h.stackIn x (by rw [hs]; exact List.mem_cons_of_mem _ hx) }

/-- the decorator flag with which a stage of the program is run -/
def decoOf (p : Program) (st : Stage) : Bool := p.xfailDeco && st.id == p.body.id

theorem excsD_decoOf (p : Program) (st : Stage) : excsD (decoOf p st) st.term = stageExcs p st := by
  simp [excsD, stageExcs, decoOf]

theorem decoOf_nested (p : Program) (hwf : wf p = true) (st : Stage) (h : st ∈ nested p) : decoOf p st = false := by
  simp [decoOf, nested_id_ne_body p hwf st h]

/-- what a step of the induction may assume about the stage being executed -/
structure StageOk (p : Program) (st : Stage) : Prop where
  mem      : st ∈ allStages p
  children : ∀ c, childOf c st.acts → c ∈ nested p

theorem StageOk.nested {p : Program} {st : Stage} (h : st ∈ nested p) : StageOk p st :=
  ⟨nested_sub_all p st h, fun c hc => nested_closed p st c h hc⟩

theorem runCleanups_induct {p : Program} {ff0 : Bool} (hwf : wf p = true) (I : RS → Prop)
    (hpop : ∀ (s : RS) (c : Cl) (rest : List Cl), Inv p ff0 s → I s → s.stack = c :: rest →
        I (runCl c { s with stack := rest }))
    (s : RS) (hinv : Inv p ff0 s) (h : I s) : I (runCleanups s) := by
  fun_induction runCleanups s with
  | case1 s hs => exact h
  | case2 s c rest hs ih => exact ih (Inv.stepCl hwf hinv c rest hs) (hpop s c rest hinv h hs)

/-- what a main-phase step of the induction may assume: the stage is setUp, the test method or tearDown, has
not run yet, and no cleanup has run yet -/
structure MainStep (p : Program) (st : Stage) (s : RS) : Prop where
  ok    : StageOk p st
  root  : st = p.setUp ∨ st = p.body ∨ st = p.tearDown
  fresh : st.id ∉ s.execd.map Stage.id
  noRan : s.ran = []

theorem runCore_induct (p : Program) (ff0 : Bool) (hwf : wf p = true) (I : RS → Prop)
    (h0 : I (initRS p ff0))
    (hstage : ∀ (st : Stage) (s : RS), Inv p ff0 s → I s → MainStep p st s → I (runStage st (decoOf p st) s).1)
    (hpop : ∀ (s : RS) (c : Cl) (rest : List Cl), Inv p ff0 s → I s → s.stack = c :: rest →
        I (runCl c { s with stack := rest }))
    (hgot : ∀ s : RS, Inv p ff0 s → I s → s.stack = [] → s.ff = true → I (got s forcedFailure)) :
    I (runCore p ff0).1 := by
  have hi0 := Inv.init p ff0
  have hsu : StageOk p p.setUp := ⟨by rw [allStages_eq]; simp,
    fun c hc => by simp only [nested, List.mem_append]; exact Or.inl (Or.inl (child_mem_stagesOfActs hc))⟩
  have hbo : StageOk p p.body := ⟨by rw [allStages_eq]; simp,
    fun c hc => by simp only [nested, List.mem_append]; exact Or.inl (Or.inr (child_mem_stagesOfActs hc))⟩
  have htd : StageOk p p.tearDown := ⟨by rw [allStages_eq]; simp,
    fun c hc => by simp only [nested, List.mem_append]; exact Or.inr (child_mem_stagesOfActs hc)⟩
  have d1 : decoOf p p.setUp = false := by simp [decoOf, setUp_id_ne_body p hwf]
  have d2 : decoOf p p.body = p.xfailDeco := by simp [decoOf]
  have d3 : decoOf p p.tearDown = false := by simp [decoOf, tearDown_id_ne_body p hwf]
  have hsb := setUp_id_ne_body p hwf
  have htb := tearDown_id_ne_body p hwf
  have hts : p.tearDown.id ≠ p.setUp.id := by
    have hn := wf_nodup p hwf
    rw [allStages_eq] at hn
    simp only [List.map_append, List.map_cons, List.cons_append, List.nodup_cons, List.mem_append, List.mem_cons,
      List.mem_map] at hn
    intro he
    exact hn.1 (Or.inr (Or.inl he.symm))
  have e1 := runStage_effect p.setUp false (initRS p ff0)
  have i1 : Inv p ff0 (runStage p.setUp false (initRS p ff0)).1 := by
    have := Inv.step hi0 p.setUp (decoOf p p.setUp) hsu.mem hsu.children (excsD_decoOf p _)
    rwa [d1] at this
  have j1 : I (runStage p.setUp false (initRS p ff0)).1 := by
    have := hstage p.setUp _ hi0 h0 ⟨hsu, Or.inl rfl, by simp [initRS], by simp [initRS]⟩
    rwa [d1] at this
  have hok1 : (runStage p.setUp false (initRS p ff0)).2 = setUpOk p := by
    rw [e1.ok]; simp [setUpOk]
  have hx1 : (runStage p.setUp false (initRS p ff0)).1.execd = [p.setUp] := by rw [e1.execd]; simp [initRS]
  have hr1 : (runStage p.setUp false (initRS p ff0)).1.ran = [] := by rw [e1.ran]; simp [initRS]
  unfold runCore
  generalize runStage p.setUp false (initRS p ff0) = r1 at i1 j1 hok1 hx1 hr1
  obtain ⟨s1, ok1⟩ := r1
  simp only at i1 j1 hok1 hx1 hr1 ⊢
  subst hok1
  cases hsok : setUpOk p with
  | false =>
    simp only [Bool.false_eq_true, if_false]
    have ic := Inv.cleanups hwf s1 i1
    have jc := runCleanups_induct hwf I hpop s1 i1 j1
    split
    · rename_i hff
      exact hgot _ ic jc (runCleanups_stack s1) hff
    · exact jc
  | true =>
    simp only [if_true]
    have e2 := runStage_effect p.body p.xfailDeco s1
    have i2 : Inv p ff0 (runStage p.body p.xfailDeco s1).1 := by
      have := Inv.step i1 p.body (decoOf p p.body) hbo.mem hbo.children (excsD_decoOf p _)
      rwa [d2] at this
    have j2 : I (runStage p.body p.xfailDeco s1).1 := by
      have := hstage p.body _ i1 j1 ⟨hbo, Or.inr (Or.inl rfl), by simp [hx1, Ne.symm hsb], hr1⟩
      rwa [d2] at this
    have hx2 : (runStage p.body p.xfailDeco s1).1.execd = [p.setUp, p.body] := by rw [e2.execd, hx1]; rfl
    have hr2 : (runStage p.body p.xfailDeco s1).1.ran = [] := by rw [e2.ran, hr1]
    generalize runStage p.body p.xfailDeco s1 = r2 at i2 j2 hx2 hr2
    obtain ⟨s2, ok2⟩ := r2
    simp only at i2 j2 hx2 hr2 ⊢
    have i3 : Inv p ff0 (runStage p.tearDown false s2).1 := by
      have := Inv.step i2 p.tearDown (decoOf p p.tearDown) htd.mem htd.children (excsD_decoOf p _)
      rwa [d3] at this
    have j3 : I (runStage p.tearDown false s2).1 := by
      have := hstage p.tearDown _ i2 j2 ⟨htd, Or.inr (Or.inr rfl), by simp [hx2, hts, htb], hr2⟩
      rwa [d3] at this
    generalize runStage p.tearDown false s2 = r3 at i3 j3
    obtain ⟨s3, ok3⟩ := r3
    simp only at i3 j3 ⊢
    have ic := Inv.cleanups hwf s3 i3
    have jc := runCleanups_induct hwf I hpop s3 i3 j3
    split
    · rename_i hff
      exact hgot _ ic jc (runCleanups_stack s3) hff
    · exact jc

/-! ### `runCore` = main phase (setUp, test method, tearDown), cleanup loop, forced-failure test -/
def mainPhase (p : Program) (ff0 : Bool) : RS :=
  let r1 := runStage p.setUp false (initRS p ff0)
  if setUpOk p then (runStage p.tearDown false (runStage p.body p.xfailDeco r1.1).1).1 else r1.1

/-- the stages of the main phase -/
def mainStages (p : Program) : List Stage := if setUpOk p then [p.setUp, p.body, p.tearDown] else [p.setUp]

theorem setUp_ok_eq (p : Program) (s : RS) : (runStage p.setUp false s).2 = setUpOk p := by
  rw [(runStage_effect p.setUp false s).ok]; simp [setUpOk]

theorem runCore_fst (p : Program) (ff0 : Bool) :
    (runCore p ff0).1 =
      if (runCleanups (mainPhase p ff0)).ff then got (runCleanups (mainPhase p ff0)) forcedFailure
      else runCleanups (mainPhase p ff0) := by
  unfold runCore mainPhase
  have hok1 := setUp_ok_eq p (initRS p ff0)
  generalize runStage p.setUp false (initRS p ff0) = r1 at hok1
  obtain ⟨s1, ok1⟩ := r1
  simp only at hok1 ⊢
  subst hok1
  cases hsok : setUpOk p with
  | false =>
    simp only [Bool.false_eq_true, if_false]
    split <;> rfl
  | true =>
    simp only [if_true]
    split <;> rfl

theorem mainPhase_inv (p : Program) (ff0 : Bool) (hwf : wf p = true) : Inv p ff0 (mainPhase p ff0) := by
  have hi0 := Inv.init p ff0
  have i1 : Inv p ff0 (runStage p.setUp false (initRS p ff0)).1 :=
    Inv.step hi0 p.setUp false (by rw [allStages_eq]; simp)
      (fun c hc => by simp only [nested, List.mem_append]; exact Or.inl (Or.inl (child_mem_stagesOfActs hc)))
      (by simp [excsD, stageExcs, setUp_id_ne_body p hwf])
  unfold mainPhase
  split
  · have i2 : Inv p ff0 (runStage p.body p.xfailDeco (runStage p.setUp false (initRS p ff0)).1).1 :=
      Inv.step i1 p.body p.xfailDeco (by rw [allStages_eq]; simp)
        (fun c hc => by simp only [nested, List.mem_append]; exact Or.inl (Or.inr (child_mem_stagesOfActs hc)))
        (by simp [excsD, stageExcs])
    exact Inv.step i2 p.tearDown false (by rw [allStages_eq]; simp)
      (fun c hc => by simp only [nested, List.mem_append]; exact Or.inr (child_mem_stagesOfActs hc))
      (by simp [excsD, stageExcs, tearDown_id_ne_body p hwf])
  · exact i1

theorem mainPhase_execd (p : Program) (ff0 : Bool) : (mainPhase p ff0).execd = mainStages p := by
  unfold mainPhase mainStages
  split
  · rw [(runStage_effect _ _ _).execd, (runStage_effect _ _ _).execd, (runStage_effect _ _ _).execd]; simp [initRS]
  · rw [(runStage_effect _ _ _).execd]; simp [initRS]

/-- the cleanup loop executes nested stages only -/
theorem runCleanups_execd_nested {p : Program} {ff0 : Bool} (hwf : wf p = true) (s : RS) (h : Inv p ff0 s) :
    ∃ l, (runCleanups s).execd = s.execd ++ l ∧ ∀ x ∈ l, x ∈ nested p := by
  apply runCleanups_induct hwf (fun s' => ∃ l, s'.execd = s.execd ++ l ∧ ∀ x ∈ l, x ∈ nested p) ?_ s h
    ⟨[], by simp, by simp⟩
  intro s' c rest hinv ⟨l, hl, hn⟩ hs
  cases c with
  | stage st =>
    refine ⟨l ++ [st], ?_, ?_⟩
    · simp only [runCl]; rw [(runStage_effect _ _ _).execd]; simp [hl]
    · intro x hx
      simp only [List.mem_append, List.mem_singleton] at hx
      rcases hx with hx | hx
      · exact hn x hx
      · subst hx; exact hinv.stackIn x (by rw [hs]; exact List.mem_cons_self)
  | gather f ds => exact ⟨l, by simp [runCl, hl], hn⟩
  | unpatch a o => exact ⟨l, by simp [runCl, hl], hn⟩

/-- the stages a run executes: the main phase, then nested (cleanup) stages -/
theorem runCore_execd (p : Program) (ff0 : Bool) (hwf : wf p = true) :
    ∃ l, (runCore p ff0).1.execd = mainStages p ++ l ∧ ∀ x ∈ l, x ∈ nested p := by
  obtain ⟨l, hl, hn⟩ := runCleanups_execd_nested hwf (mainPhase p ff0) (mainPhase_inv p ff0 hwf)
  refine ⟨l, ?_, hn⟩
  rw [runCore_fst, ← mainPhase_execd p ff0, ← hl]
  split <;> simp

/-- `runCore` when no cleanup is registered (used to evaluate concrete witnesses: the cleanup loop is defined
by well-founded recursion and does not reduce by `decide`) -/
def runCoreNC (p : Program) (ff0 : Bool) : RS × Bool :=
  let (s1, ok1) := runStage p.setUp false (initRS p ff0)
  if ok1 then
    let (s2, ok2) := runStage p.body p.xfailDeco s1
    let (s3, ok3) := runStage p.tearDown false s2
    if s3.ff then (got s3 forcedFailure, false) else (s3, ok2 && ok3)
  else
    if s1.ff then (got s1 forcedFailure, false) else (s1, false)

theorem runCore_noCleanups (p : Program) (ff0 : Bool) (h : (mainPhase p ff0).stack = []) :
    runCore p ff0 = runCoreNC p ff0 := by
  unfold runCore runCoreNC
  unfold mainPhase at h
  have hok1 := setUp_ok_eq p (initRS p ff0)
  generalize runStage p.setUp false (initRS p ff0) = r1 at hok1 h
  obtain ⟨s1, ok1⟩ := r1
  simp only at hok1 h ⊢
  subst hok1
  cases hsok : setUpOk p with
  | false =>
    simp only [hsok, Bool.false_eq_true, if_false] at h ⊢
    rw [runCleanups_nil _ h]
  | true =>
    simp only [hsok, if_true] at h ⊢
    generalize runStage p.body p.xfailDeco s1 = r2 at h
    obtain ⟨s2, ok2⟩ := r2
    simp only at h ⊢
    generalize runStage p.tearDown false s2 = r3 at h
    obtain ⟨s3, ok3⟩ := r3
    simp only at h ⊢
    rw [runCleanups_nil _ h]
    simp

end TTV.Run
