import TTV.Model.Result
/-! `_details_to_str` keeps the text of every non-empty text attachment (helper lemmas for C08). -/
namespace TTV.Lemmas.DetailsStr
open TTV.Result

theorem mem_joinNl_infix {x : Text} : ∀ {l : List Text}, x ∈ l → x <:+: joinNl l
  | [y], h => by
      simp only [List.mem_singleton] at h; subst h; exact List.infix_rfl
  | y :: z :: l, h => by
      simp only [joinNl]
      rcases List.mem_cons.mp h with rfl | h
      · exact (List.prefix_append _ _).isInfix
      · exact (mem_joinNl_infix h).trans ((List.suffix_cons nl _).isInfix.trans (List.suffix_append _ _).isInfix)

theorem infix_formatText (name t : Text) : t <:+: formatText name t := by
  unfold formatText
  split
  · exact ⟨name ++ ": {{{\n".toList, "\n}}}\n".toList, by simp⟩
  · exact ⟨name ++ ": {{{".toList, "}}}".toList, by simp⟩

/-- the part of `detailsToStr` that holds the text attachments -/
theorem textPart_infix (details : Details) (special : Option Text) (x : Text)
    (h : x ∈ textAtts special (sortDetails details) ∨ specialContent special (sortDetails details) = some x) :
    x <:+: detailsToStr details special := by
  unfold detailsToStr
  simp only []
  refine List.IsInfix.trans ?_ (List.suffix_append _ _).isInfix
  apply mem_joinNl_infix
  rcases h with h | h
  · split <;> split <;> simp [h]
  · rw [h]; simp

theorem mem_sortDetails {p : Text × Content} {d : Details} : p ∈ sortDetails d ↔ p ∈ d :=
  (List.mergeSort_perm d _).mem_iff

/-- **`_details_to_str` keeps every text.**  If `(n, text t)` is an attachment, its name is unique and the
stripped text is not empty, then the stripped text occurs in the rendering. -/
theorem detailsToStr_contains (details : Details) (special : Option Text) (n t : Text)
    (hm : (n, Content.text t) ∈ details) (hu : ∀ p ∈ details, p.1 = n → p = (n, Content.text t))
    (hne : strip t ≠ []) : strip t <:+: detailsToStr details special := by
  have hm' := mem_sortDetails.mpr hm
  by_cases hs : some n = special
  · -- the special attachment
    have hL : ∀ y ∈ (sortDetails details).filterMap (specialLine special), y = strip t ++ [nl] := by
      intro y hy
      obtain ⟨p, hp, hpy⟩ := List.mem_filterMap.mp hy
      have hp' := mem_sortDetails.mp hp
      simp only [specialLine] at hpy
      cases hto : textOf p.2 with
      | none => simp [hto] at hpy
      | some u =>
        cases u with
        | nil => simp [hto] at hpy
        | cons a u =>
          simp only [hto] at hpy
          split at hpy
          · rename_i hsp
            have : p.1 = n := by
              rw [← hs] at hsp; exact (Option.some.inj hsp)
            have := hu p hp' this
            subst this
            simp [textOf] at hto
            simp at hpy
            rw [← hpy, hto]; rfl
          · simp at hpy
    have hin : strip t ++ [nl] ∈ (sortDetails details).filterMap (specialLine special) := by
      refine List.mem_filterMap.mpr ⟨_, hm', ?_⟩
      cases hst : strip t with
      | nil => exact absurd hst hne
      | cons a u => simp [specialLine, textOf, hst, hs]
    have : specialContent special (sortDetails details) = some (strip t ++ [nl]) := by
      unfold specialContent
      cases hg : List.getLast? _ with
      | none => rw [List.getLast?_eq_none_iff] at hg; rw [hg] at hin; simp at hin
      | some y => rw [hL y (List.mem_of_getLast? hg)]
    exact (List.prefix_append _ _).isInfix.trans (textPart_infix details special _ (.inr this))
  · -- an ordinary attachment
    have : formatText n (strip t) ∈ textAtts special (sortDetails details) := by
      refine List.mem_filterMap.mpr ⟨_, hm', ?_⟩
      cases hst : strip t with
      | nil => exact absurd hst hne
      | cons a u => simp [textAtt, textOf, hst, hs]
    exact (infix_formatText n _).trans (textPart_infix details special _ (.inl this))

end TTV.Lemmas.DetailsStr
