import TTV.Spec.C13
/-! Interleavings (`Spec.C13.mergeStates`): the breadth-first search of the executable specification finds exactly the
accounts of an observed list as an interleaving of streams (`Path`); with a single non-empty stream an interleaving is a
prefix; an interleaving of whole streams has, for every predicate, as many hits as the streams together. -/
namespace TTV.Merge
open TTV.Spec.C13

variable {α : Type} [BEq α] [LawfulBEq α]

/-- `Path l ss ss'`: consuming the observed list `l` event by event, each from the head of some stream of `ss` (streams are
consumed in their own order), leaves `ss'` -/
inductive Path : List α → List (List α) → List (List α) → Prop
  | nil (ss : List (List α)) : Path [] ss ss
  | cons {e : α} {l : List α} {ss ss' : List (List α)} (k : Nat) (x : α) (xs : List α) :
      ss[k]? = some (x :: xs) → (x == e) = true → Path l (ss.set k xs) ss' → Path (e :: l) ss ss'

theorem mem_addNew (x y : List (List α)) (l : List (List (List α))) : y ∈ addNew x l ↔ y = x ∨ y ∈ l := by
  unfold addNew
  split
  · rename_i h
    have hx : x ∈ l := by simpa using h
    constructor
    · intro hy; exact Or.inr hy
    · rintro (rfl | hy)
      · exact hx
      · exact hy
  · simp

theorem mem_dedupe (y : List (List α)) : ∀ l : List (List (List α)), y ∈ dedupe l ↔ y ∈ l
  | [] => by simp [dedupe]
  | x :: l => by
      have ih := mem_dedupe y l
      simp only [dedupe, List.foldr_cons] at ih ⊢
      rw [mem_addNew, ih]
      simp

theorem mem_takeHead (e : α) (ss st : List (List α)) :
    st ∈ takeHead e ss ↔ ∃ k x xs, ss[k]? = some (x :: xs) ∧ (x == e) = true ∧ st = ss.set k xs := by
  unfold takeHead
  simp only [List.mem_filterMap, List.mem_range]
  constructor
  · rintro ⟨k, _, h⟩
    split at h
    · rename_i x xs hk
      split at h
      · rename_i hxe
        exact ⟨k, x, xs, hk, hxe, by simpa using h.symm⟩
      · cases h
    · cases h
  · rintro ⟨k, x, xs, hk, hxe, rfl⟩
    have hlt : k < ss.length := by
      rcases Nat.lt_or_ge k ss.length with h | h
      · exact h
      · rw [List.getElem?_eq_none h] at hk; cases hk
    exact ⟨k, hlt, by simp [hk, hxe]⟩

/-- completeness of the search: every account is found -/
theorem mem_mergeStates_of_path : ∀ (l : List α) (sts : List (List (List α))) (st st' : List (List α)),
    st ∈ sts → Path l st st' → st' ∈ mergeStates l sts
  | [], sts, st, st', hm, hp => by cases hp; exact hm
  | e :: l, sts, st, st', hm, hp => by
      cases hp with
      | cons k x xs hk hxe hrest =>
        apply mem_mergeStates_of_path l _ (st.set k xs) st' _ hrest
        rw [mem_dedupe, List.mem_flatMap]
        exact ⟨st, hm, (mem_takeHead e st _).mpr ⟨k, x, xs, hk, hxe, rfl⟩⟩

/-- soundness of the search: every state it reports is an account -/
theorem path_of_mem_mergeStates : ∀ (l : List α) (sts : List (List (List α))) (st' : List (List α)),
    st' ∈ mergeStates l sts → ∃ st ∈ sts, Path l st st'
  | [], sts, st', h => ⟨st', h, .nil _⟩
  | e :: l, sts, st', h => by
      obtain ⟨st1, h1, hp⟩ := path_of_mem_mergeStates l _ st' h
      rw [mem_dedupe, List.mem_flatMap] at h1
      obtain ⟨st, hst, h2⟩ := h1
      obtain ⟨k, x, xs, hk, hxe, rfl⟩ := (mem_takeHead e st st1).mp h2
      exact ⟨st, hst, .cons k x xs hk hxe hp⟩

theorem isMergePrefix_iff (l : List α) (ss : List (List α)) : isMergePrefix l ss = true ↔ ∃ ss', Path l ss ss' := by
  unfold isMergePrefix
  constructor
  · intro h
    cases hm : mergeStates l [ss] with
    | nil => simp [hm] at h
    | cons st' rest =>
      obtain ⟨st, hst, hp⟩ := path_of_mem_mergeStates l [ss] st' (by simp [hm])
      simp only [List.mem_singleton] at hst
      exact ⟨st', hst ▸ hp⟩
  · rintro ⟨ss', hp⟩
    have := mem_mergeStates_of_path l [ss] ss ss' (by simp) hp
    cases hm : mergeStates l [ss] with
    | nil => rw [hm] at this; cases this
    | cons _ _ => rfl

theorem isMerge_iff (l : List α) (ss : List (List α)) :
    isMerge l ss = true ↔ ∃ ss', Path l ss ss' ∧ ∀ s ∈ ss', s = [] := by
  unfold isMerge
  simp only [List.any_eq_true, List.all_eq_true, List.isEmpty_iff]
  constructor
  · rintro ⟨st', hm, he⟩
    obtain ⟨st, hst, hp⟩ := path_of_mem_mergeStates l [ss] st' hm
    simp only [List.mem_singleton] at hst
    exact ⟨st', hst ▸ hp, he⟩
  · rintro ⟨ss', hp, he⟩
    exact ⟨ss', mem_mergeStates_of_path l [ss] ss ss' (by simp) hp, he⟩

/-! ## one non-empty stream: an interleaving is a prefix -/

theorem path_single (pre post : List (List α)) (hpre : ∀ s ∈ pre, s = []) (hpost : ∀ s ∈ post, s = []) :
    ∀ (l s : List α) (ss' : List (List α)), Path l (pre ++ s :: post) ss' → ∃ rest, s = l ++ rest ∧ ss' = pre ++ rest :: post
  | [], s, ss', hp => by cases hp; exact ⟨s, rfl, rfl⟩
  | e :: l, s, ss', hp => by
      cases hp with
      | cons k x xs hk hxe hrest =>
        have hxe' : x = e := by simpa using hxe
        subst hxe'
        rcases Nat.lt_trichotomy k pre.length with hlt | heq | hgt
        · rw [List.getElem?_append_left hlt] at hk
          have := hpre _ (List.mem_of_getElem? hk)
          cases this
        · subst heq
          have hs : s = x :: xs := by simpa using hk
          subst hs
          have hset : (pre ++ (x :: xs) :: post).set pre.length xs = pre ++ xs :: post := by
            simp [List.set_append]
          rw [hset] at hrest
          obtain ⟨rest, h1, h2⟩ := path_single pre post hpre hpost l xs ss' hrest
          exact ⟨rest, by simp [h1], h2⟩
        · have hge : pre.length ≤ k := Nat.le_of_lt hgt
          rw [List.getElem?_append_right hge] at hk
          have hpos : k - pre.length = (k - pre.length - 1) + 1 := by omega
          rw [hpos, List.getElem?_cons_succ] at hk
          have := hpost _ (List.mem_of_getElem? hk)
          cases this

theorem path_single_of_prefix (pre post : List (List α)) :
    ∀ (l rest : List α), Path l (pre ++ (l ++ rest) :: post) (pre ++ rest :: post)
  | [], rest => .nil _
  | e :: l, rest => by
      refine .cons pre.length e (l ++ rest) (by simp) (by simp) ?_
      have hset : (pre ++ (e :: l ++ rest) :: post).set pre.length (l ++ rest) = pre ++ (l ++ rest) :: post := by
        simp [List.set_append]
      rw [hset]
      exact path_single_of_prefix pre post l rest

/-- with one stream that is not empty - in particular with distinct route codes - "interleaving of prefixes" is "prefix" -/
theorem isMergePrefix_single (pre post : List (List α)) (hpre : ∀ s ∈ pre, s = []) (hpost : ∀ s ∈ post, s = [])
    (l s : List α) : isMergePrefix l (pre ++ s :: post) = true ↔ ∃ rest, s = l ++ rest := by
  rw [isMergePrefix_iff]
  constructor
  · rintro ⟨ss', hp⟩
    obtain ⟨rest, h, _⟩ := path_single pre post hpre hpost l s ss' hp
    exact ⟨rest, h⟩
  · rintro ⟨rest, rfl⟩
    exact ⟨_, path_single_of_prefix pre post l rest⟩

/-- … and "interleaving of the whole streams" is equality -/
theorem isMerge_single (pre post : List (List α)) (hpre : ∀ s ∈ pre, s = []) (hpost : ∀ s ∈ post, s = [])
    (l s : List α) : isMerge l (pre ++ s :: post) = true ↔ s = l := by
  rw [isMerge_iff]
  constructor
  · rintro ⟨ss', hp, he⟩
    obtain ⟨rest, h, rfl⟩ := path_single pre post hpre hpost l s ss' hp
    have : rest = [] := he rest (by simp)
    simp [h, this]
  · rintro rfl
    refine ⟨pre ++ [] :: post, ?_, ?_⟩
    · simpa using path_single_of_prefix pre post s []
    · intro s' hs'
      simp only [List.mem_append, List.mem_cons] at hs'
      rcases hs' with h | rfl | h
      · exact hpre _ h
      · rfl
      · exact hpost _ h

/-! ## counting -/

def total (p : α → Bool) (ss : List (List α)) : Nat := (ss.map (List.countP p)).sum

theorem total_set (p : α → Bool) (ss : List (List α)) (k : Nat) (x : α) (xs : List α) (hk : ss[k]? = some (x :: xs)) :
    total p ss = total p (ss.set k xs) + (if p x then 1 else 0) := by
  have hlt : k < ss.length := by
    rcases Nat.lt_or_ge k ss.length with h | h
    · exact h
    · rw [List.getElem?_eq_none h] at hk; cases hk
  have hget : ss[k] = x :: xs := by
    rw [List.getElem?_eq_getElem hlt] at hk; exact Option.some.inj hk
  have h1 : ss = ss.take k ++ (x :: xs) :: ss.drop (k + 1) := by
    conv => lhs; rw [← List.take_append_drop k ss]
    rw [List.drop_eq_getElem_cons hlt, hget]
  have h2 : ss.set k xs = ss.take k ++ xs :: ss.drop (k + 1) := by
    rw [List.set_eq_take_append_cons_drop]; simp [hlt]
  rw [h2]
  conv => lhs; rw [h1]
  simp only [total, List.map_append, List.map_cons, List.sum_append, List.sum_cons, List.countP_cons]
  omega

/-- an interleaving neither loses nor invents: for every predicate, hits in the observed list + hits left = hits in the streams -/
theorem path_count (p : α → Bool) : ∀ (l : List α) (ss ss' : List (List α)), Path l ss ss' →
    l.countP p + total p ss' = total p ss
  | [], ss, ss', hp => by cases hp; simp
  | e :: l, ss, ss', hp => by
      cases hp with
      | cons k x xs hk hxe hrest =>
        have hxe' : x = e := by simpa using hxe
        subst hxe'
        have ih := path_count p l _ ss' hrest
        rw [total_set p ss k x xs hk, List.countP_cons]
        omega

theorem total_empty (p : α → Bool) (ss : List (List α)) (h : ∀ s ∈ ss, s = []) : total p ss = 0 := by
  induction ss with
  | nil => rfl
  | cons s ss ih =>
    have hs : s = [] := h s (by simp)
    have := ih (fun s' hs' => h s' (by simp [hs']))
    simp only [total, List.map_cons, List.sum_cons] at this ⊢
    simp [hs, this]

end TTV.Merge
