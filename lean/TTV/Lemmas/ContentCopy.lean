import TTV.Model.Content
import TTV.Spec.C16
/-! Lemmas for C16: `_copy_content` histories. -/
namespace TTV.Lemmas.ContentCopy
open TTV.Content TTV.Spec.C16

theorem copyRun_length : ∀ (ops : List CopyOp) (s : CopySt), (copyRun s ops).length = ops.length
  | [], _ => rfl
  | op :: ops, s => by simp [copyRun, copyRun_length ops]

/-- invariant: the copies held are the snapshots taken so far; `S` = all snapshots of the whole history -/
theorem copyRun_ok : ∀ (ops : List CopyOp) (cur : List Bytes) (copies S : List (List Bytes)),
    S = copies ++ snapshots cur ops →
    (zip4 ops (curAt cur ops) (copiesBefore copies.length ops) (copyRun ⟨cur, copies⟩ ops)).all
      (fun q => obsOk S q.1 q.2.1 q.2.2.1 q.2.2.2) = true := by
  intro ops
  induction ops with
  | nil => intro _ _ _ _; rfl
  | cons op ops ih =>
    intro cur copies S hS
    cases op with
    | set cs =>
      simp only [snapshots] at hS
      simp only [curAt, copiesBefore, copyRun, copyStep, zip4, List.all_cons, Bool.and_eq_true]
      exact ⟨by simp [obsOk], ih cs copies S hS⟩
    | copy =>
      simp only [snapshots] at hS
      simp only [curAt, copiesBefore, copyRun, copyStep, zip4, List.all_cons, Bool.and_eq_true]
      refine ⟨by simp [obsOk], ?_⟩
      have := ih cur (copies ++ [cur]) S (by simp [hS])
      simpa using this
    | readOrig =>
      simp only [snapshots] at hS
      simp only [curAt, copiesBefore, copyRun, copyStep, zip4, List.all_cons, Bool.and_eq_true]
      exact ⟨by simp [obsOk], ih cur copies S hS⟩
    | readCopy k =>
      simp only [snapshots] at hS
      simp only [curAt, copiesBefore, copyRun, copyStep, zip4, List.all_cons, Bool.and_eq_true]
      refine ⟨?_, ih cur copies S hS⟩
      by_cases hk : k < copies.length
      · simp [obsOk, hk, hS, List.getElem?_append_left hk]
      · simp [obsOk, hk, List.getElem?_eq_none (Nat.le_of_not_lt hk)]

/-- clause `snapshot` on the model -/
theorem model_snapshot (init : List Bytes) (ops : List CopyOp) :
    cSnapshot (.copy init ops) (.copy (copyRun ⟨init, []⟩ ops)) = true := by
  simp only [cSnapshot, copyRun_length, beq_self_eq_true, Bool.true_and]
  exact copyRun_ok ops init [] _ (by simp)

end TTV.Lemmas.ContentCopy
