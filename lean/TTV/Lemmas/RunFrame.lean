import TTV.Model.RunTest
/-! Frame lemmas for M-Run: which fields each primitive touches. -/
namespace TTV.Run

@[simp] theorem reportTb_log (s : RS) (e : Exc) : (reportTb s e).log = s.log := by simp [reportTb]
@[simp] theorem reportTb_excs (s : RS) (e : Exc) : (reportTb s e).excs = s.excs := by simp [reportTb]
@[simp] theorem reportTb_ff (s : RS) (e : Exc) : (reportTb s e).ff = s.ff := by simp [reportTb]
@[simp] theorem reportTb_execd (s : RS) (e : Exc) : (reportTb s e).execd = s.execd := by simp [reportTb]
@[simp] theorem reportTb_nOnExc (s : RS) (e : Exc) : (reportTb s e).nOnExc = s.nOnExc := by simp [reportTb]
@[simp] theorem reportTb_attrs (s : RS) (e : Exc) : (reportTb s e).attrs = s.attrs := by simp [reportTb]
@[simp] theorem reportTb_clock (s : RS) (e : Exc) : (reportTb s e).clock = s.clock := by simp [reportTb]
@[simp] theorem reportTb_ran (s : RS) (e : Exc) : (reportTb s e).ran = s.ran := by simp [reportTb]
@[simp] theorem reportTb_regd (s : RS) (e : Exc) : (reportTb s e).regd = s.regd := by simp [reportTb]
@[simp] theorem reportTb_stack' (s : RS) (e : Exc) : (reportTb s e).stack = s.stack := by simp [reportTb]

def onExcCalls (n : Nat) (e : Exc) : List Ev := (List.range n).map (fun h => Ev.onExc h e)

@[simp] theorem got_log (s : RS) (e : Exc) : (got s e).log = s.log ++ onExcCalls s.nOnExc e := by
  simp only [got, onExcCalls]; split <;> simp
@[simp] theorem got_excs (s : RS) (e : Exc) : (got s e).excs = s.excs ++ [e] := by
  simp only [got]; split <;> simp
@[simp] theorem got_ff (s : RS) (e : Exc) : (got s e).ff = s.ff := by simp only [got]; split <;> simp
@[simp] theorem got_execd (s : RS) (e : Exc) : (got s e).execd = s.execd := by simp only [got]; split <;> simp
@[simp] theorem got_nOnExc (s : RS) (e : Exc) : (got s e).nOnExc = s.nOnExc := by simp only [got]; split <;> simp
@[simp] theorem got_attrs (s : RS) (e : Exc) : (got s e).attrs = s.attrs := by simp only [got]; split <;> simp
@[simp] theorem got_clock (s : RS) (e : Exc) : (got s e).clock = s.clock := by simp only [got]; split <;> simp
@[simp] theorem got_ran (s : RS) (e : Exc) : (got s e).ran = s.ran := by simp only [got]; split <;> simp
@[simp] theorem got_regd (s : RS) (e : Exc) : (got s e).regd = s.regd := by simp only [got]; split <;> simp
@[simp] theorem got_stack' (s : RS) (e : Exc) : (got s e).stack = s.stack := got_stack s e

@[simp] theorem gotAll_nOnExc (s : RS) (es : List Exc) : (gotAll s es).nOnExc = s.nOnExc := by
  induction es generalizing s with
  | nil => rfl
  | cons e es ih => simp [gotAll, ih]
@[simp] theorem gotAll_log (s : RS) (es : List Exc) :
    (gotAll s es).log = s.log ++ es.flatMap (onExcCalls s.nOnExc) := by
  induction es generalizing s with
  | nil => simp [gotAll]
  | cons e es ih => simp [gotAll, ih]
@[simp] theorem gotAll_excs (s : RS) (es : List Exc) : (gotAll s es).excs = s.excs ++ es := by
  induction es generalizing s with
  | nil => simp [gotAll]
  | cons e es ih => simp [gotAll, ih]
@[simp] theorem gotAll_ff (s : RS) (es : List Exc) : (gotAll s es).ff = s.ff := by
  induction es generalizing s with
  | nil => rfl
  | cons e es ih => simp [gotAll, ih]
@[simp] theorem gotAll_execd (s : RS) (es : List Exc) : (gotAll s es).execd = s.execd := by
  induction es generalizing s with
  | nil => rfl
  | cons e es ih => simp [gotAll, ih]
@[simp] theorem gotAll_attrs (s : RS) (es : List Exc) : (gotAll s es).attrs = s.attrs := by
  induction es generalizing s with
  | nil => rfl
  | cons e es ih => simp [gotAll, ih]
@[simp] theorem gotAll_clock (s : RS) (es : List Exc) : (gotAll s es).clock = s.clock := by
  induction es generalizing s with
  | nil => rfl
  | cons e es ih => simp [gotAll, ih]
@[simp] theorem gotAll_ran (s : RS) (es : List Exc) : (gotAll s es).ran = s.ran := by
  induction es generalizing s with
  | nil => rfl
  | cons e es ih => simp [gotAll, ih]
@[simp] theorem gotAll_regd (s : RS) (es : List Exc) : (gotAll s es).regd = s.regd := by
  induction es generalizing s with
  | nil => rfl
  | cons e es ih => simp [gotAll, ih]
@[simp] theorem gotAll_stack' (s : RS) (es : List Exc) : (gotAll s es).stack = s.stack := gotAll_stack s es

/-! `runActs` touches neither the log, nor the exceptions, nor the clock -/
@[simp] theorem runActs_log (as : List Act) (s : RS) : (runActs as s).log = s.log := by
  induction as generalizing s with
  | nil => rfl
  | cons a as ih => cases a <;> simp [runActs, ih]
@[simp] theorem runActs_excs (as : List Act) (s : RS) : (runActs as s).excs = s.excs := by
  induction as generalizing s with
  | nil => rfl
  | cons a as ih => cases a <;> simp [runActs, ih]
@[simp] theorem runActs_execd (as : List Act) (s : RS) : (runActs as s).execd = s.execd := by
  induction as generalizing s with
  | nil => rfl
  | cons a as ih => cases a <;> simp [runActs, ih]
@[simp] theorem runActs_nOnExc (as : List Act) (s : RS) : (runActs as s).nOnExc = s.nOnExc := by
  induction as generalizing s with
  | nil => rfl
  | cons a as ih => cases a <;> simp [runActs, ih]
@[simp] theorem runActs_clock (as : List Act) (s : RS) : (runActs as s).clock = s.clock := by
  induction as generalizing s with
  | nil => rfl
  | cons a as ih => cases a <;> simp [runActs, ih]
@[simp] theorem runActs_ran (as : List Act) (s : RS) : (runActs as s).ran = s.ran := by
  induction as generalizing s with
  | nil => rfl
  | cons a as ih => cases a <;> simp [runActs, ih]

def actIsExpect' : Act → Bool
  | .expect _ _ => true
  | _ => false

theorem runActs_ff (as : List Act) (s : RS) : (runActs as s).ff = (s.ff || as.any actIsExpect') := by
  induction as generalizing s with
  | nil => simp [runActs]
  | cons a as ih => cases a <;> simp [runActs, ih, actIsExpect']

/-- the cleanup entries a list of actions pushes, top first -/
def pushed : List Act → List Cl
  | [] => []
  | .cleanup c :: as => pushed as ++ [.stage c]
  | .patch a _ :: as => pushed as ++ [.unpatch a none]   -- (the saved value is irrelevant for what follows)
  | .useFixture f ds cu :: as => pushed as ++ [.gather f ds, .stage cu]
  | _ :: as => pushed as

/-- ids of the stage entries of a cleanup stack -/
def stackIds : List Cl → List Nat
  | [] => []
  | .stage s :: r => s.id :: stackIds r
  | _ :: r => stackIds r

theorem stackIds_append (a b : List Cl) : stackIds (a ++ b) = stackIds a ++ stackIds b := by
  induction a with
  | nil => rfl
  | cons c a ih => cases c <;> simp [stackIds, ih]

/-- stage cleanups registered by a list of actions, in registration order -/
def regIds : List Act → List Nat
  | [] => []
  | .cleanup s :: as => s.id :: regIds as
  | .useFixture _ _ s :: as => s.id :: regIds as
  | _ :: as => regIds as

theorem runActs_stackIds (as : List Act) (s : RS) :
    stackIds (runActs as s).stack = (regIds as).reverse ++ stackIds s.stack := by
  induction as generalizing s with
  | nil => simp [runActs, regIds]
  | cons a as ih => cases a <;> simp [runActs, ih, regIds, stackIds]

/-- the stage entries on the stack after the actions: those pushed plus those already there -/
theorem runActs_stack_stages (as : List Act) (s : RS) (st : Stage) :
    Cl.stage st ∈ (runActs as s).stack ↔
      (Act.cleanup st ∈ as ∨ ∃ f ds, Act.useFixture f ds st ∈ as) ∨ Cl.stage st ∈ s.stack := by
  induction as generalizing s with
  | nil => simp [runActs]
  | cons a as ih =>
    cases a with
    | cleanup c =>
      simp only [runActs, ih, List.mem_cons]
      constructor
      · rintro ((h | ⟨f, ds, h⟩) | h)
        · exact Or.inl (Or.inl (Or.inr h))
        · exact Or.inl (Or.inr ⟨f, ds, Or.inr h⟩)
        · rcases h with h | h
          · cases h; exact Or.inl (Or.inl (Or.inl rfl))
          · exact Or.inr h
      · rintro ((h | ⟨f, ds, h⟩) | h)
        · rcases h with h | h
          · cases h; exact Or.inr (Or.inl rfl)
          · exact Or.inl (Or.inl h)
        · rcases h with h | h
          · cases h
          · exact Or.inl (Or.inr ⟨f, ds, h⟩)
        · exact Or.inr (Or.inr h)
    | addDetail n c => simp [runActs, ih]
    | expect m ds => simp [runActs, ih]
    | patch a v => simp [runActs, ih]
    | useFixture f ds cu =>
      simp only [runActs, ih, List.mem_cons]
      constructor
      · rintro ((h | ⟨f', ds', h⟩) | h)
        · exact Or.inl (Or.inl (Or.inr h))
        · exact Or.inl (Or.inr ⟨f', ds', Or.inr h⟩)
        · rcases h with h | h | h
          · cases h
          · cases h; exact Or.inl (Or.inr ⟨f, ds, Or.inl rfl⟩)
          · exact Or.inr h
      · rintro ((h | ⟨f', ds', h⟩) | h)
        · rcases h with h | h
          · cases h
          · exact Or.inl (Or.inl h)
        · rcases h with h | h
          · cases h; exact Or.inr (Or.inr (Or.inl rfl))
          · exact Or.inl (Or.inr ⟨f', ds', h⟩)
        · exact Or.inr (Or.inr (Or.inr h))

end TTV.Run
