import TTV.Lemmas.RunKeys
/-! Every detail handed over by a mismatch or a fixture of an executed stage has been stored (ghost list `U`),
with the bytes due: fixture details are gathered right before the fixture's cleanUp stage runs. -/
namespace TTV.Run
open TTV.Spec.Run TTV.Spec.C05

/-- what gathering the details `ds` at logical time `t` stores -/
def gatherU (t : Nat) (ds : List (DName × UC)) : List (DName × Content) := ds.map fun x => (x.1, freeze t (.user x.2))

theorem runActs_stack_app (as : List Act) (s : RS) :
    ∃ pu, (runActs as s).stack = pu ++ s.stack ∧
      ∀ f ds cu, Act.useFixture f ds cu ∈ as → ∃ pre post, pu = pre ++ Cl.gather f ds :: Cl.stage cu :: post := by
  induction as generalizing s with
  | nil => exact ⟨[], rfl, by intro f ds cu h; simp at h⟩
  | cons a as ih =>
    cases a with
    | cleanup c =>
      have hih := ih { s with stack := .stage c :: s.stack, regd := s.regd ++ [.stage c.id] }
      obtain ⟨pu, h1, h2⟩ := hih
      refine ⟨pu ++ [.stage c], by simp only [runActs, h1]; simp, ?_⟩
      intro f ds cu hm
      simp only [List.mem_cons, reduceCtorEq, false_or] at hm
      obtain ⟨pre, post, e⟩ := h2 f ds cu hm
      exact ⟨pre, post ++ [.stage c], by rw [e]; simp⟩
    | addDetail n c =>
      have key : ∀ X : RS, X.stack = s.stack → ∃ pu, (runActs as X).stack = pu ++ s.stack ∧
          ∀ f ds cu, Act.useFixture f ds cu ∈ Act.addDetail n c :: as →
            ∃ pre post, pu = pre ++ Cl.gather f ds :: Cl.stage cu :: post := by
        intro X hX
        obtain ⟨pu, h1, h2⟩ := ih X
        refine ⟨pu, by rw [h1, hX], ?_⟩
        intro f ds cu hm
        simp only [List.mem_cons, reduceCtorEq, false_or] at hm
        exact h2 f ds cu hm
      simp only [runActs]
      exact key _ rfl
    | expect mid ds' =>
      have key : ∀ X : RS, X.stack = s.stack → ∃ pu, (runActs as X).stack = pu ++ s.stack ∧
          ∀ f ds cu, Act.useFixture f ds cu ∈ Act.expect mid ds' :: as →
            ∃ pre post, pu = pre ++ Cl.gather f ds :: Cl.stage cu :: post := by
        intro X hX
        obtain ⟨pu, h1, h2⟩ := ih X
        refine ⟨pu, by rw [h1, hX], ?_⟩
        intro f ds cu hm
        simp only [List.mem_cons, reduceCtorEq, false_or] at hm
        exact h2 f ds cu hm
      simp only [runActs]
      exact key _ rfl
    | patch a v =>
      have hih := ih { s with attrs := aset s.attrs a v, stack := .unpatch a (aget s.attrs a) :: s.stack, regd := s.regd ++ [.unpatch a] }
      obtain ⟨pu, h1, h2⟩ := hih
      refine ⟨pu ++ [.unpatch a (aget s.attrs a)], by simp only [runActs, h1]; simp, ?_⟩
      intro f ds cu hm
      simp only [List.mem_cons, reduceCtorEq, false_or] at hm
      obtain ⟨pre, post, e⟩ := h2 f ds cu hm
      exact ⟨pre, post ++ [.unpatch a (aget s.attrs a)], by rw [e]; simp⟩
    | useFixture f' ds' cu' =>
      have hih := ih { s with stack := .gather f' ds' :: .stage cu' :: s.stack, regd := s.regd ++ [.stage cu'.id, .gather f'] }
      obtain ⟨pu, h1, h2⟩ := hih
      refine ⟨pu ++ [.gather f' ds', .stage cu'], by simp only [runActs, h1]; simp, ?_⟩
      intro f ds cu hm
      simp only [List.mem_cons] at hm
      rcases hm with hm | hm
      · cases hm
        exact ⟨pu, [], rfl⟩
      · obtain ⟨pre, post, e⟩ := h2 f ds cu hm
        exact ⟨pre, post ++ [.gather f' ds', .stage cu'], by rw [e]; simp⟩

/-- where the details of a fixture used by an executed stage are -/
def FixState (s : RS) (U : List (DName × Content)) (f : Nat) (ds : List (DName × UC)) (cu : Stage) : Prop :=
  (∃ pre post, s.stack = pre ++ Cl.gather f ds :: Cl.stage cu :: post) ∨
  (∃ post, s.stack = Cl.stage cu :: post ∧ s.ran ≠ [] ∧ ∀ x ∈ gatherU s.execd.length ds, x ∈ U) ∨
  (∃ t, s.execd[t]? = some cu ∧ ∀ x ∈ gatherU t ds, x ∈ U)

structure Cov (s : RS) (U : List (DName × Content)) : Prop where
  acts : ∀ st ∈ s.execd, ∀ x ∈ uqActs st.acts, x ∈ U
  term : ∀ i st, s.execd[i]? = some st → ∀ x ∈ uqTerm (i + 1) st.term, x ∈ U
  fix  : ∀ st ∈ s.execd, ∀ f ds cu, Act.useFixture f ds cu ∈ st.acts → FixState s U f ds cu

theorem Cov.stageStep {s0 : RS} {U : List (DName × Content)} (st : Stage) (d : Bool)
    (hacts : ∀ x ∈ s0.execd, ∀ y ∈ uqActs x.acts, y ∈ U)
    (hterm : ∀ i x, s0.execd[i]? = some x → ∀ y ∈ uqTerm (i + 1) x.term, y ∈ U)
    (hfix : ∀ x ∈ s0.execd, ∀ f ds cu, Act.useFixture f ds cu ∈ x.acts →
      (∃ pre post, s0.stack = pre ++ Cl.gather f ds :: Cl.stage cu :: post) ∨
      (cu = st ∧ ∀ y ∈ gatherU s0.execd.length ds, y ∈ U) ∨
      (∃ t, s0.execd[t]? = some cu ∧ ∀ y ∈ gatherU t ds, y ∈ U))
    (hclock : s0.clock = s0.execd.length) :
    Cov (runStage st d s0).1 (U ++ uqActs st.acts ++ uqTerm (s0.clock + 1) st.term) := by
  have e := runStage_effect st d s0
  obtain ⟨pu, hpu, hpf⟩ := runActs_stack_app st.acts (stage0 st s0)
  have hstack : (runStage st d s0).1.stack = pu ++ s0.stack := by rw [runStage_stack]; exact hpu
  have hsub : ∀ y ∈ U, y ∈ U ++ uqActs st.acts ++ uqTerm (s0.clock + 1) st.term := by
    intro y hy; simp only [List.mem_append]; exact Or.inl (Or.inl hy)
  constructor
  · intro x hx y hy
    rw [e.execd] at hx
    simp only [List.mem_append, List.mem_singleton] at hx
    rcases hx with hx | rfl
    · exact hsub y (hacts x hx y hy)
    · simp only [List.mem_append]; exact Or.inl (Or.inr hy)
  · intro i x hi y hy
    rw [e.execd] at hi
    by_cases hlt : i < s0.execd.length
    · rw [List.getElem?_append_left hlt] at hi
      exact hsub y (hterm i x hi y hy)
    · have hge : s0.execd.length ≤ i := by omega
      rw [List.getElem?_append_right hge] at hi
      have hi0 : i - s0.execd.length = 0 := by
        cases h : i - s0.execd.length with
        | zero => rfl
        | succ k => rw [h] at hi; simp at hi
      rw [hi0] at hi
      simp only [List.getElem?_cons_zero, Option.some.injEq] at hi
      subst hi
      have : i = s0.execd.length := by omega
      subst this
      rw [hclock]
      simp only [List.mem_append]; exact Or.inr hy
  · intro x hx f ds cu hm
    rw [e.execd] at hx
    simp only [List.mem_append, List.mem_singleton] at hx
    rcases hx with hx | rfl
    · rcases hfix x hx f ds cu hm with ⟨pre, post, hp⟩ | ⟨rfl, hg⟩ | ⟨t, ht, hg⟩
      · exact Or.inl ⟨pu ++ pre, post, by rw [hstack, hp]; simp⟩
      · refine Or.inr (Or.inr ⟨s0.execd.length, ?_, fun y hy => hsub y (hg y hy)⟩)
        rw [e.execd]; simp
      · refine Or.inr (Or.inr ⟨t, ?_, fun y hy => hsub y (hg y hy)⟩)
        rw [e.execd]
        have hlt : t < s0.execd.length := by
          rcases Nat.lt_or_ge t s0.execd.length with h | h
          · exact h
          · rw [List.getElem?_eq_none h] at ht; cases ht
        rw [List.getElem?_append_left hlt]; exact ht
    · obtain ⟨pre, post, hp⟩ := hpf f ds cu hm
      exact Or.inl ⟨pre, post ++ s0.stack, by rw [hstack, hp]; simp⟩

theorem Cov.main {s : RS} {U : List (DName × Content)} (h : Cov s U) (st : Stage) (d : Bool) (hran : s.ran = [])
    (hclock : s.clock = s.execd.length) :
    Cov (runStage st d s).1 (U ++ uqActs st.acts ++ uqTerm (s.clock + 1) st.term) := by
  apply Cov.stageStep st d h.acts h.term ?_ hclock
  intro x hx f ds cu hm
  rcases h.fix x hx f ds cu hm with hp | ⟨post, _, hr, _⟩ | hd
  · exact Or.inl hp
  · exact absurd hran hr
  · exact Or.inr (Or.inr hd)

theorem Cov.pop {s : RS} {U : List (DName × Content)} (h : Cov s U) (c : Cl) (rest : List Cl) (hs : s.stack = c :: rest)
    (hclock : s.clock = s.execd.length) : Cov (runCl c { s with stack := rest }) (U ++ clUq s.clock c) := by
  cases c with
  | stage st =>
    have hc : Cov (runStage st false { s with stack := rest }).1 (U ++ uqActs st.acts ++ uqTerm (s.clock + 1) st.term) := by
      apply Cov.stageStep (s0 := { s with stack := rest }) st false h.acts h.term ?_ hclock
      intro x hx f ds cu hm
      rcases h.fix x hx f ds cu hm with ⟨pre, post, hp⟩ | ⟨post, hp, _, hg⟩ | hd
      · left
        rw [hs] at hp
        cases pre with
        | nil => simp at hp
        | cons c' pre' =>
          simp only [List.cons_append, List.cons.injEq] at hp
          exact ⟨pre', post, hp.2⟩
      · right; left
        rw [hs] at hp
        simp only [List.cons.injEq, Cl.stage.injEq] at hp
        exact ⟨hp.1.symm, hg⟩
      · exact Or.inr (Or.inr hd)
    simp only [runCl, clUq]
    rw [← List.append_assoc]
    refine ⟨hc.acts, hc.term, ?_⟩
    intro x hx f ds cu hm
    rcases hc.fix x hx f ds cu hm with hp | ⟨post, hp, hr, hg⟩ | hd
    · exact Or.inl hp
    · exact Or.inr (Or.inl ⟨post, hp, by simp, hg⟩)
    · exact Or.inr (Or.inr hd)
  | gather f0 ds0 =>
    have hsub : ∀ y ∈ U, y ∈ U ++ clUq s.clock (.gather f0 ds0) := fun y hy => List.mem_append_left _ hy
    simp only [runCl]
    refine ⟨fun x hx y hy => hsub y (h.acts x hx y hy), fun i x hi y hy => hsub y (h.term i x hi y hy), ?_⟩
    intro x hx f ds cu hm
    rcases h.fix x hx f ds cu hm with ⟨pre, post, hp⟩ | ⟨post, hp, _, _⟩ | ⟨t, ht, hg⟩
    · rw [hs] at hp
      cases pre with
      | nil =>
        simp only [List.nil_append, List.cons.injEq, Cl.gather.injEq] at hp
        obtain ⟨⟨rfl, rfl⟩, hrest⟩ := hp
        refine Or.inr (Or.inl ⟨post, hrest, by simp, ?_⟩)
        intro y hy
        apply List.mem_append_right
        rw [hclock]
        exact hy
      | cons c' pre' =>
        simp only [List.cons_append, List.cons.injEq] at hp
        exact Or.inl ⟨pre', post, hp.2⟩
    · rw [hs] at hp; simp at hp
    · exact Or.inr (Or.inr ⟨t, ht, fun y hy => hsub y (hg y hy)⟩)
  | unpatch a o =>
    simp only [runCl, clUq, List.append_nil]
    refine ⟨h.acts, h.term, ?_⟩
    intro x hx f ds cu hm
    rcases h.fix x hx f ds cu hm with ⟨pre, post, hp⟩ | ⟨post, hp, _, _⟩ | hd
    · rw [hs] at hp
      cases pre with
      | nil => simp at hp
      | cons c' pre' =>
        simp only [List.cons_append, List.cons.injEq] at hp
        exact Or.inl ⟨pre', post, hp.2⟩
    · rw [hs] at hp; simp at hp
    · exact Or.inr (Or.inr hd)

theorem Cov.forced {s : RS} {U : List (DName × Content)} (h : Cov s U) : Cov (got s forcedFailure) U := by
  refine ⟨by rw [got_execd]; exact h.acts, by rw [got_execd]; exact h.term, ?_⟩
  intro x hx f ds cu hm
  rw [got_execd] at hx
  simpa [FixState] using h.fix x hx f ds cu hm

end TTV.Run
