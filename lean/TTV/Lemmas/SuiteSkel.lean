import TTV.Model.SuiteSkel
/-! The reference skeletons of `_run_test` mean the hand-written worker programs `suiteProg` / `streamProg`. -/
namespace TTV.SuiteSkel
open TTV.Conc

theorem interp_refSuiteRunTest (wi tb : Nat) (w : Worker) :
    interp .suite wi tb w refSuiteRunTest {} =
      { segs := (suiteProg wi w).segs, loc := (interp .suite wi tb w refSuiteRunTest {}).loc,
        raised := (suiteProg wi w).died, bad := false } := by
  cases h1 : (sectionsAbort w.faults {} (workerOps w)).2.2 <;> cases h2 : w.boom <;>
    simp [refSuiteRunTest, interp, doAct, suiteProg, h1, h2]

theorem interp_refStreamRunTest (wi tb : Nat) (w : Worker) :
    let s := interp .stream wi tb w refStreamRunTest {}
    (.put (.startRun wi) :: s.segs = (streamProg wi tb w).segs) ∧ s.raised = (streamProg wi tb w).died ∧ s.bad = false := by
  cases h2 : w.boom <;> simp [refStreamRunTest, interp, doAct, streamProg, streamEvents, h2]

end TTV.SuiteSkel
