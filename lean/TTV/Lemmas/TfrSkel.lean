import TTV.Model.TfrSkel
/-! The reference skeletons of `ThreadsafeForwardingResult` mean the hand-written block semantics `Conc.stepOp`
(proved once and for all; the property files only compare the generated terms with the reference terms). -/
namespace TTV.TfrSkel
open TTV.Conc

/-- `_add_result_with_semaphore`: the micro-steps are `acquire · the calls of the model's section · release`, the
exception leaves the method exactly when the model says the operation raised, the local state is the model's -/
theorem interp_refAddResult (f : List Nat) (l : Loc) (k : Kind) (id : TId) :
    interp f { kind := k, id := id } refAddResult { loc := l } =
      { loc := (stepOp f l (.outcome k id)).loc, steps := secSteps ((stepOp f l (.outcome k id)).sec.getD []),
        raised := (stepOp f l (.outcome k id)).raised, bad := false } := by
  by_cases hg : anyTags l.gtags = true <;> by_cases ht : anyTags l.ttags = true <;>
  (by_cases h0 : l.n ∈ f
   · simp [refAddResult, interp, doAct, call, stepOp, preCalls, emit, secSteps, Loc.nowT, *]
   · by_cases h1 : (l.n + 1) ∈ f
     · simp [refAddResult, interp, doAct, call, stepOp, preCalls, emit, secSteps, Loc.nowT, *]
     · by_cases h2 : (l.n + 2) ∈ f
       · simp [refAddResult, interp, doAct, call, stepOp, preCalls, emit, secSteps, Loc.nowT, *]
       · by_cases h3 : (l.n + 3) ∈ f
         · by_cases h4 : (l.n + 4) ∈ f <;> by_cases h5 : (l.n + 5) ∈ f <;>
             by_cases h6 : (l.n + 6) ∈ f <;>
             simp [refAddResult, interp, doAct, call, stepOp, preCalls, emit, secSteps, Loc.nowT, *]
         · by_cases h4 : (l.n + 4) ∈ f
           · by_cases h5 : (l.n + 5) ∈ f <;> by_cases h6 : (l.n + 6) ∈ f <;>
               simp [refAddResult, interp, doAct, call, stepOp, preCalls, emit, secSteps, Loc.nowT, *]
           · by_cases h5 : (l.n + 5) ∈ f <;> by_cases h6 : (l.n + 6) ∈ f <;>
               simp [refAddResult, interp, doAct, call, stepOp, preCalls, emit, secSteps, Loc.nowT, *])

/-- `stopTestRun` / `stop` / `done` / the getter of `shouldStop`: `acquire · the call · release`, whatever the call does -/
theorem interp_refCtl (f : List Nat) (l : Loc) (a : Args) (c : Ctl) (hc : c ≠ .startTestRun) :
    interp f a (refCtl c) { loc := l } =
      { loc := (stepOp f l (.ctl c)).loc, steps := secSteps ((stepOp f l (.ctl c)).sec.getD []),
        raised := (stepOp f l (.ctl c)).raised, bad := false } := by
  by_cases h0 : l.n ∈ f <;> cases c <;> simp [refCtl, interp, doAct, call, stepOp, secSteps, *] at hc ⊢

/-- `startTestRun`: the buffers and the clock are reset before the semaphore is touched -/
theorem interp_refStartTestRun (f : List Nat) (l : Loc) (a : Args) :
    interp f a refStartTestRun { loc := l } =
      { loc := (stepOp f l (.ctl .startTestRun)).loc, steps := secSteps ((stepOp f l (.ctl .startTestRun)).sec.getD []),
        raised := (stepOp f l (.ctl .startTestRun)).raised, bad := false } := by
  by_cases h0 : l.n ∈ f <;> simp [refStartTestRun, refCtl, interp, doAct, call, stepOp, secSteps, *]

/-- the operations that only touch the forwarder: no step on a shared object, no exception, the model's local state -/
theorem interp_refStartTest (f : List Nat) (l : Loc) (id : TId) :
    interp f { id := id } refStartTest { loc := l } = { loc := (stepOp f l (.startTest id)).loc } := by
  simp [refStartTest, interp, doAct, stepOp, Loc.nowT]

theorem interp_refStopTest (f : List Nat) (l : Loc) (id : TId) :
    interp f { id := id } refStopTest { loc := l } = { loc := (stepOp f l (.stopTest id)).loc } := by
  simp [refStopTest, interp, doAct, stepOp]

theorem interp_refTags (f : List Nat) (l : Loc) (new gone : List Nat) :
    interp f { new := new, gone := gone } refTags { loc := l } = { loc := (stepOp f l (.tags new gone)).loc } := by
  cases h : l.inTest <;> simp [refTags, interp, doAct, stepOp, h]

theorem interp_refTime (f : List Nat) (l : Loc) (t : Option Nat) :
    interp f { time := t } refTime { loc := l } = { loc := (stepOp f l (.time t)).loc } := by
  simp [refTime, interp, doAct, stepOp]

/-- the local operations have no section and do not raise in the model -/
theorem stepOp_local (f : List Nat) (l : Loc) :
    (∀ id, (stepOp f l (.startTest id)).sec = none ∧ (stepOp f l (.startTest id)).raised = false)
    ∧ (∀ id, (stepOp f l (.stopTest id)).sec = none ∧ (stepOp f l (.stopTest id)).raised = false)
    ∧ (∀ a b, (stepOp f l (.tags a b)).sec = none ∧ (stepOp f l (.tags a b)).raised = false)
    ∧ (∀ t, (stepOp f l (.time t)).sec = none ∧ (stepOp f l (.time t)).raised = false) := by
  simp [stepOp]

end TTV.TfrSkel
