import TTV.Lemmas.RunDetailsInv
/-! The details invariant along every primitive of M-Run. -/
namespace TTV.Run
open TTV.Spec.Run TTV.Spec.C05

/-- `J` on a run-time state -/
def JS (s : RS) (T : List Exc) (A : List (DName × UC)) (U : List (DName × Content)) : Prop :=
  J s.details s.plain s.clobbered T A U

theorem JS.frame {s s' : RS} {T : List Exc} {A : List (DName × UC)} {U : List (DName × Content)} (h : JS s T A U)
    (h1 : s'.details = s.details) (h2 : s'.plain = s.plain) (h3 : s'.clobbered = s.clobbered) : JS s' T A U := by
  unfold JS; rw [h1, h2, h3]; exact h

def storedAs (t : Nat) (frozen : Bool) (c : UC) : Content := if frozen then freeze t (.user c) else .user c

theorem isUq_storedAs (t : Nat) (frozen : Bool) (c : UC) : isUq (storedAs t frozen c) = true := by
  obtain ⟨i, l⟩ := c
  cases frozen <;> cases l <;> simp [storedAs, freeze, isUq]

theorem J.uniqueAll {pl : List DName} {cl : Bool} {T : List Exc} {A : List (DName × UC)} (t : Nat) (frozen : Bool) :
    ∀ (ds : List (DName × UC)) {d : Details} {U : List (DName × Content)}, J d pl cl T A U →
      (∀ x ∈ ds, x.1 ≠ nmReason) →
      J (addUniqueAll d t frozen ds) pl cl T A (U ++ ds.map fun x => (x.1, storedAs t frozen x.2))
  | [], d, U, h, _ => by simpa [addUniqueAll] using h
  | (n, c) :: rest, d, U, h, hn => by
    have h1 := h.unique n (storedAs t frozen c) (hn (n, c) List.mem_cons_self) (isUq_storedAs t frozen c)
    have h2 := J.uniqueAll t frozen rest h1 (fun x hx => hn x (List.mem_cons_of_mem _ hx))
    simpa [addUniqueAll, storedAs] using h2

/-! ### what a stage contributes to the accumulators -/
def plainOf : List Act → List (DName × UC)
  | [] => []
  | .addDetail n c :: as => (n, c) :: plainOf as
  | .cleanup _ :: as => plainOf as
  | .expect _ _ :: as => plainOf as
  | .patch _ _ :: as => plainOf as
  | .useFixture _ _ _ :: as => plainOf as

def uqActs : List Act → List (DName × Content)
  | [] => []
  | .expect mid ds :: as => ds.map (fun x => (x.1, Content.user x.2)) ++ [(nmExpectation, .expectation mid)] ++ uqActs as
  | .addDetail _ _ :: as => uqActs as
  | .cleanup _ :: as => uqActs as
  | .patch _ _ :: as => uqActs as
  | .useFixture _ _ _ :: as => uqActs as

def tbTerm : Term → List Exc
  | .expectFailure _ (some e) _ => [e]
  | .expectFailure _ none _ => []
  | .ret => []
  | .raise1 _ => []
  | .raiseMulti _ _ => []
  | .assertFail _ _ => []
  | .fixtureFail _ _ _ _ => []

def uqTerm (k : Nat) : Term → List (DName × Content)
  | .assertFail _ ds => ds.map fun x => (x.1, Content.user x.2)
  | .fixtureFail ds _ _ _ => ds.map fun x => (x.1, freeze k (.user x.2))
  | .ret => []
  | .raise1 _ => []
  | .raiseMulti _ _ => []
  | .expectFailure _ _ _ => []

/-- the failure caught by the expectedFailure decorator -/
def decoTb (d : Bool) (t : Term) : List Exc :=
  if d then (match termObj t with
    | some obj => if isSub obj.cls .exc then [obj] else []
    | none => []) else []

def tbFilter (es : List Exc) : List Exc := es.filter fun e => !noTraceback e.cls

theorem plainNames_eq (as : List Act) : plainNames as = (plainOf as).map (·.1) := by
  induction as with
  | nil => rfl
  | cons a as ih => cases a <;> simp [plainNames, plainOf, ih]

theorem nmExpectation_ne : nmExpectation ≠ nmReason := by decide

/-! ### the walk -/
section walk
variable {T : List Exc} {A : List (DName × UC)} {U : List (DName × Content)}

theorem JS.onReportTb {s : RS} (h : JS s T A U) (e : Exc) : JS (reportTb s e) (T ++ [e]) A U := by
  have := J.tbAdd h (tbName s) e (tbName_fresh s) (tbName_ne_reason s)
  have e1 : (reportTb s e).plain = s.plain := by simp [reportTb]
  have e2 : (reportTb s e).clobbered = s.clobbered := by simp [reportTb]
  unfold JS
  rw [reportTb_details, e1, e2]
  exact this

theorem JS.onGot {s : RS} (h : JS s T A U) (e : Exc) : JS (got s e) (T ++ tbFilter [e]) A U := by
  unfold got tbFilter
  split
  · rename_i hn
    simp only [List.filter_cons, hn, Bool.not_true, Bool.false_eq_true, if_false, List.filter_nil, List.append_nil]
    exact h.frame rfl rfl rfl
  · rename_i hn
    simp only [List.filter_cons, hn, Bool.not_false, if_true, List.filter_nil]
    exact (h.onReportTb e).frame rfl rfl rfl

theorem JS.onGotAll : ∀ (es : List Exc) {s : RS} {T : List Exc}, JS s T A U → JS (gotAll s es) (T ++ tbFilter es) A U
  | [], s, T, h => by simpa [gotAll, tbFilter] using h
  | e :: es, s, T, h => by
    have := JS.onGotAll es (h.onGot e)
    simp only [gotAll]
    have e1 : tbFilter (e :: es) = tbFilter [e] ++ tbFilter es := by
      simp only [tbFilter, List.filter_cons, List.filter_nil]; split <;> simp
    rw [e1, ← List.append_assoc]; exact this

theorem JS.onActs : ∀ (as : List Act) {s : RS} {A : List (DName × UC)} {U : List (DName × Content)}, JS s T A U →
    (∀ n ∈ plainNames as, n ≠ nmReason) →
    (∀ mid ds, Act.expect mid ds ∈ as → ∀ x ∈ ds, x.1 ≠ nmReason) →
    JS (runActs as s) T (A ++ plainOf as) (U ++ uqActs as)
  | [], s, A, U, h, _, _ => by simpa [runActs, plainOf, uqActs] using h
  | .cleanup c :: as, s, A, U, h, hp, he => by
    simp only [runActs, plainOf, uqActs]
    exact JS.onActs as (h.frame rfl rfl rfl) (fun n hn => hp n (by simpa [plainNames] using hn))
      (fun mid ds hm => he mid ds (List.mem_cons_of_mem _ hm))
  | .addDetail n c :: as, s, A, U, h, hp, he => by
    have h1 := J.plain h n c (hp n (by simp [plainNames]))
    simp only [runActs, plainOf, uqActs]
    have e : A ++ (n, c) :: plainOf as = (A ++ [(n, c)]) ++ plainOf as := by simp
    rw [e]
    exact JS.onActs as h1 (fun m hm => hp m (by simp [plainNames, hm]))
      (fun mid ds hm => he mid ds (List.mem_cons_of_mem _ hm))
  | .expect mid ds :: as, s, A, U, h, hp, he => by
    have h1 := J.uniqueAll s.clock false ds h (he mid ds List.mem_cons_self)
    have h2 := h1.unique nmExpectation (.expectation mid) nmExpectation_ne rfl
    simp only [runActs, plainOf, uqActs]
    have e : U ++ (ds.map (fun x => (x.1, Content.user x.2)) ++ [(nmExpectation, Content.expectation mid)] ++ uqActs as) =
        (U ++ ds.map (fun x => (x.1, storedAs s.clock false x.2)) ++ [(nmExpectation, Content.expectation mid)]) ++ uqActs as := by
      simp [storedAs]
    rw [e]
    exact JS.onActs as h2 (fun m hm => hp m (by simpa [plainNames] using hm))
      (fun mid ds hm => he mid ds (List.mem_cons_of_mem _ hm))
  | .patch a v :: as, s, A, U, h, hp, he => by
    simp only [runActs, plainOf, uqActs]
    exact JS.onActs as (h.frame rfl rfl rfl) (fun n hn => hp n (by simpa [plainNames] using hn))
      (fun mid ds hm => he mid ds (List.mem_cons_of_mem _ hm))
  | .useFixture fid ds cu :: as, s, A, U, h, hp, he => by
    simp only [runActs, plainOf, uqActs]
    exact JS.onActs as (h.frame rfl rfl rfl) (fun n hn => hp n (by simpa [plainNames] using hn))
      (fun mid ds hm => he mid ds (List.mem_cons_of_mem _ hm))

/-- names in the details dict a terminal hands over -/
def termDict : Term → List (DName × UC)
  | .assertFail _ ds => ds
  | .fixtureFail ds _ _ _ => ds
  | .ret => []
  | .raise1 _ => []
  | .raiseMulti _ _ => []
  | .expectFailure _ _ _ => []

theorem JS.onTerm (t : Term) {s : RS} (h : JS s T A U) (hn : ∀ x ∈ termDict t, x.1 ≠ nmReason) :
    JS (runTerm t s).1 (T ++ tbTerm t) A (U ++ uqTerm s.clock t) := by
  cases t with
  | ret => simpa [runTerm, tbTerm, uqTerm] using h
  | raise1 e => simpa [runTerm, tbTerm, uqTerm] using h
  | raiseMulti es me => simpa [runTerm, tbTerm, uqTerm] using h
  | assertFail e ds =>
    have := J.uniqueAll s.clock false ds h hn
    simpa [runTerm, tbTerm, uqTerm, storedAs, JS] using this
  | fixtureFail ds e ces se =>
    have := J.uniqueAll s.clock true ds h hn
    simpa [runTerm, tbTerm, uqTerm, storedAs, JS] using this
  | expectFailure r eo x =>
    have h1 : JS { s with details := dset s.details nmReason (.reason r) } T A U := J.reasonSet h r
    cases eo with
    | none => simpa [runTerm, tbTerm, uqTerm] using h1
    | some e => simpa [runTerm, tbTerm, uqTerm] using h1.onReportTb e

theorem JS.onFinish (d : Bool) (t : Term) {s : RS} (h : JS s T A U) :
    JS (finish d t s).1 (T ++ decoTb d t ++ tbFilter (excsD d t)) A U := by
  unfold finish decoTb excsD decoExcs
  cases d <;> cases ho : termObj t <;> simp only [if_true, Bool.false_eq_true, if_false, List.append_nil]
  · have := (termObj_none_iff t).mp ho; subst this
    simpa [termExcs, tbFilter] using h
  · exact h.onGotAll _
  · exact h.onGot _
  · split
    · exact (h.onReportTb _).onGot ⟨.xfail, 0⟩
    · simpa using h.onGotAll (termExcs t)

/-- tracebacks a stage execution reports, in order -/
def stageTbs (d : Bool) (st : Stage) : List Exc := tbTerm st.term ++ decoTb d st.term ++ tbFilter (excsD d st.term)

/-- no user-supplied name of the stage is `reason` -/
structure NamesOk (st : Stage) : Prop where
  plain  : ∀ n ∈ plainNames st.acts, n ≠ nmReason
  expect : ∀ mid ds, Act.expect mid ds ∈ st.acts → ∀ x ∈ ds, x.1 ≠ nmReason
  term   : ∀ x ∈ termDict st.term, x.1 ≠ nmReason

theorem JS.onStage (st : Stage) (d : Bool) {s : RS} (h : JS s T A U) (hn : NamesOk st) :
    JS (runStage st d s).1 (T ++ stageTbs d st) (A ++ plainOf st.acts)
      (U ++ uqActs st.acts ++ uqTerm (s.clock + 1) st.term) := by
  rw [runStage_eq]
  have h0 : JS (stage0 st s) T A U := h.frame rfl rfl rfl
  have h1 := JS.onActs st.acts h0 hn.plain hn.expect
  have h2 := JS.onTerm st.term h1 hn.term
  have h3 := JS.onFinish d st.term h2
  have hc : (runActs st.acts (stage0 st s)).clock = s.clock + 1 := by simp [stage0]
  rw [hc] at h3
  simpa [stageTbs, List.append_assoc] using h3

def clTbs : Cl → List Exc
  | .stage st => stageTbs false st
  | .gather _ _ => []
  | .unpatch _ _ => []

def clPlain : Cl → List (DName × UC)
  | .stage st => plainOf st.acts
  | .gather _ _ => []
  | .unpatch _ _ => []

def clUq (k : Nat) : Cl → List (DName × Content)
  | .stage st => uqActs st.acts ++ uqTerm (k + 1) st.term
  | .gather _ ds => ds.map fun x => (x.1, freeze k (.user x.2))
  | .unpatch _ _ => []

theorem JS.onCl (c : Cl) {s : RS} (h : JS s T A U)
    (hp : ∀ st, c = .stage st → NamesOk st) (hg : ∀ f ds, c = .gather f ds → ∀ x ∈ ds, x.1 ≠ nmReason) :
    JS (runCl c s) (T ++ clTbs c) (A ++ clPlain c) (U ++ clUq s.clock c) := by
  cases c with
  | stage st =>
    have := JS.onStage st false h (hp st rfl)
    rw [List.append_assoc] at this
    exact this.frame rfl rfl rfl
  | gather f ds =>
    have := J.uniqueAll s.clock true ds h (hg f ds rfl)
    simpa [runCl, JS, clTbs, clPlain, clUq, storedAs] using this
  | unpatch a o =>
    simpa [clTbs, clPlain, clUq] using (h.frame (s' := runCl (.unpatch a o) s) rfl rfl rfl)

end walk
end TTV.Run
