import TTV.Model.RouterSrc
/-! The reference terms mean the hand-written router model. -/
namespace TTV.RouterSrc
open TTV.Stream TTV.Stream.Router

theorem event_eta (e : Event) (r : Option Str) (h : e.route = r) : { e with route := r } = e := by
  cases e; simp_all

theorem statusInterp_ref (s : State) (e : Event) : statusInterp s e refStatusTarget refStatusRoute = route s e := by
  obtain ⟨tid, st, tg, rn, fn, fb, eof, mi, rt, ts⟩ := e
  cases rt with
  | none =>
    cases tid with
    | none =>
      cases hf : s.fallback <;> cases hi : dictGet s.ids none <;>
        simp [statusInterp, refStatusTarget, refStatusRoute, refPrefix, eval, route, valRoute, hf, hi]
    | some n =>
      cases hf : s.fallback <;> cases hi : dictGet s.ids (some n) <;>
        simp [statusInterp, refStatusTarget, refStatusRoute, refPrefix, eval, route, valRoute, hf, hi]
  | some rc =>
    cases hp : dictGet s.prefixes (firstSeg rc) with
    | some p =>
      obtain ⟨sink, consume⟩ := p
      cases consume with
      | false => simp [statusInterp, refStatusTarget, refStatusRoute, refPrefix, eval, route, valRoute, hp]
      | true =>
        cases hd : rc.drop ((firstSeg rc).length + 1) with
        | nil => simp [statusInterp, refStatusTarget, refStatusRoute, refPrefix, eval, route, valRoute, hp, stripSeg, hd]
        | cons c cs => simp [statusInterp, refStatusTarget, refStatusRoute, refPrefix, eval, route, valRoute, hp, stripSeg, hd]
    | none =>
      cases tid with
      | none =>
        cases hf : s.fallback <;> cases hi : dictGet s.ids none <;>
          simp [statusInterp, refStatusTarget, refStatusRoute, refPrefix, eval, route, valRoute, hp, hf, hi]
      | some n =>
        cases hf : s.fallback <;> cases hi : dictGet s.ids (some n) <;>
          simp [statusInterp, refStatusTarget, refStatusRoute, refPrefix, eval, route, valRoute, hp, hf, hi]

theorem ctlInterp_refStart (s : State) :
    step s .start = ((ctlInterp s refStart).1, (ctlInterp s refStart).2.1, resOf (ctlInterp s refStart).2.2) := by
  simp only [step, refStart, ctlInterp, if_true]
  cases (loop .start (fuelOf s) s 0).2.2 <;> simp [resOf, ctlInterp]

theorem ctlInterp_refStop (s : State) :
    step s .stop = ((ctlInterp s refStop).1, (ctlInterp s refStop).2.1, resOf (ctlInterp s refStop).2.2) := by
  simp only [step, refStop, ctlInterp, Bool.false_eq_true, if_false]
  cases (loop .stop (fuelOf s) s 0).2.2 <;> simp [resOf, ctlInterp]

/-- the three `add_rule` operations -/
def isAdd : Op → Bool
  | .addPrefix _ _ _ _ => true | .addId _ _ _ => true | .addBad _ _ => true | _ => false

theorem aInterp_ref (s : State) (o : Op) (h : isAdd o = true) :
    regStep s o = ((aInterp refPolicies o refAddRule { s := s }).s, (aInterp refPolicies o refAddRule { s := s }).started,
      resOf (aInterp refPolicies o refAddRule { s := s }).err) := by
  cases o with
  | addPrefix k p c f =>
    have hl : lookup refPolicies "route_code_prefix" = some [.raiseIfSlash, .setPrefix] := by decide
    by_cases hp : '/' ∈ p
    · simp [regStep, refAddRule, aInterp, policyName, hl, pInterp, hp, resOf]
    · cases f <;> cases hr : s.inRun <;> cases hc : s.sinks.contains k <;>
        simp_all [regStep, refAddRule, aInterp, policyName, hl, pInterp, hp, resOf, flagOf, sinkOf, hr]
  | addId k t f =>
    have hl : lookup refPolicies "test_id" = some [.setId] := by decide
    cases f <;> cases hr : s.inRun <;> cases hc : s.sinks.contains k <;>
      simp_all [regStep, refAddRule, aInterp, policyName, hl, pInterp, resOf, flagOf, sinkOf, hr]
  | addBad k f =>
    have hl : lookup refPolicies "no-such-policy" = none := by decide
    simp [regStep, refAddRule, aInterp, policyName, hl, resOf]
  | start => simp [isAdd] at h
  | stop => simp [isAdd] at h
  | status e => simp [isAdd] at h
  | roundTrip cs e => simp [isAdd] at h

end TTV.RouterSrc
