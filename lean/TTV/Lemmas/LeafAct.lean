import TTV.Model.Result
import TTV.Spec.C08
import TTV.Lemmas.ResEmit
/-! A generic fact about adapter graphs: if an abstraction `abs` of leaf states moves under every call `c` by
`act c`, and all calls other than `startTestRun`, `stopTestRun`, `startTest` and outcomes are neutral for it, then
one call on the root moves the abstraction of **every** leaf by `act c` — whatever adapters are in between.
(Used for C04: verdict, text summary.) -/
namespace TTV.Lemmas.LeafAct
open TTV.Result TTV.Spec.C08 TTV.Lemmas.ResEmit

/-- the calls that may be non-neutral -/
def Call.key : Call → Bool
  | .startTestRun | .stopTestRun | .startTest _ | .add .. => true
  | _ => false

structure Action (α : Type) where
  abs : LeafSt → α
  act : Call → α → α
  /-- other calls do not matter -/
  neutral : ∀ c, Call.key c = false → ∀ a, act c a = a
  /-- a leaf moves by `act` -/
  leaf_sink : ∀ f (st : Sink) c, abs (.sink f (sinkStep f st c)) = act c (abs (.sink f st))
  leaf_tt : ∀ (st : TT) c, abs (.tt (ttStep st c)) = act c (abs (.tt st))
  leaf_text : ∀ (st : TextSt) c, abs (.text (textStep st c)) = act c (abs (.text st))
  leaf_tbt : ∀ (st : TbtSt) c, abs (.tbt (tbtStep st c)) = act c (abs (.tbt st))
  /-- the targets of `ExtendedToOriginalDecorator`s the action can cope with -/
  capsOk : Caps → Bool
  capsRun : ∀ caps, capsOk caps = true → caps.startRun = true
  /-- the degradation for such a target does not matter -/
  degrade : ∀ caps, capsOk caps = true → ∀ k t x a, act (degradeCall caps (.add k t x)) a = act (.add k t x) a
  /-- `startTest` is neutral unless no `ThreadsafeForwardingResult` is around -/
  tfrFree : Bool
  startNeutral : tfrFree = false → ∀ t a, act (.startTest t) a = a

/- the shapes covered: no stream pipeline; every target of an `ExtendedToOriginalDecorator` has `startTestRun`;
no `ThreadsafeForwardingResult` if the action counts `startTest` -/
mutual
def okShapeG (capsOk : Caps → Bool) (tfrFree : Bool) : Shape → Bool
  | .sink _ | .fsink _ _ _ | .tt _ | .text _ | .tbt => true
  | .etod c => capsOk (caps c) && okShapeG capsOk tfrFree c
  | .deco c | .tagger _ _ c => okShapeG capsOk tfrFree c
  | .tfr c => !tfrFree && okShapeG capsOk tfrFree c
  | .multi cs => okShapeGL capsOk tfrFree cs
  | .e2s _ | .sff => false
def okShapeGL (capsOk : Caps → Bool) (tfrFree : Bool) : List Shape → Bool
  | [] => true
  | c :: cs => okShapeG capsOk tfrFree c && okShapeGL capsOk tfrFree cs
end

variable {α : Type} (A : Action α)

def okShape (s : Shape) : Bool := okShapeG A.capsOk A.tfrFree s
def okShapeL (ss : List Shape) : Bool := okShapeGL A.capsOk A.tfrFree ss

theorem foldl_neutral (cs : List Call) (h : ∀ c ∈ cs, Call.key c = false) (a : α) :
    cs.foldl (fun a c => A.act c a) a = a := by
  induction cs generalizing a with
  | nil => rfl
  | cons c cs ih =>
    simp only [List.foldl_cons]
    rw [A.neutral c (h c List.mem_cons_self), ih (fun x hx => h x (List.mem_cons_of_mem _ hx))]

theorem foldl_stops (k : Nat) (a : α) : (List.replicate k Call.stop).foldl (fun a c => A.act c a) a = a :=
  foldl_neutral A _ (by intro c hc; rw [List.eq_of_mem_replicate hc]; rfl) a

theorem act_main (caps : Caps) (hc : A.capsOk caps = true) (c : Call) (a : α) :
    (etodMain caps c).foldl (fun a c => A.act c a) a = A.act c a := by
  have hr := A.capsRun caps hc
  cases c with
  | add k t x => simp [etodMain, A.degrade caps hc]
  | startTest t => rfl
  | stopTest t => rfl
  | startTestRun => simp [etodMain, hr]
  | stopTestRun => simp [etodMain, hr]
  | tags n g => simp only [etodMain]; split <;> simp [A.neutral (.tags n g) rfl]
  | time d => simp only [etodMain]; split <;> simp [A.neutral (.time d) rfl]
  | progress => simp only [etodMain]; split <;> simp [A.neutral .progress rfl]
  | done => simp only [etodMain]; split <;> simp [A.neutral .done rfl]
  | stop => simp [etodMain, A.neutral .stop rfl]
  | setFailfast b => simp only [etodMain]; split <;> simp [A.neutral (.setFailfast b) rfl]

theorem tfrBlock_act (hs : ∀ t a, A.act (.startTest t) a = a) (own : TfrOwn) (k : Kind) (t : Nat) (x : Arg) (a : α) :
    (tfrBlock own k t x).foldl (fun a c => A.act c a) a = A.act (.add k t x) a := by
  unfold tfrBlock
  simp only [List.foldl_append, List.foldl_cons, List.foldl_nil]
  rw [A.neutral (.time own.testStart) rfl, hs, A.neutral (.time own.tt.clock) rfl]
  have h1 : ∀ (p : TagSet × TagSet) (a : α),
      (if anyTags p = true then [Call.tags p.1 p.2] else []).foldl (fun a c => A.act c a) a = a := by
    intro p a; split <;> simp [A.neutral (.tags p.1 p.2) rfl]
  rw [h1, h1, A.neutral (.stopTest t) rfl]

/-- the abstraction of every leaf, left to right -/
def leavesAbs (s : Shape) (st : St s) : List α := (leaves s st).map A.abs

mutual
theorem act_steps : ∀ (s : Shape), okShape A s = true → ∀ (cs : List Call) (st : St s),
    leavesAbs A s (cs.foldl (step s) st) = (leavesAbs A s st).map (fun a => cs.foldl (fun a c => A.act c a) a)
  | s, hs, [], st => by simp
  | .sink f, _, c :: cs, st => by
      rw [List.foldl_cons, act_steps (.sink f) rfl cs]
      simp [leavesAbs, leaves, step, A.leaf_sink]
  | .fsink l b f, _, c :: cs, st => by
      rw [List.foldl_cons, act_steps (.fsink l b f) rfl cs]
      simp [leavesAbs, leaves, step, A.leaf_sink]
  | .tt ff, _, c :: cs, st => by
      rw [List.foldl_cons, act_steps (.tt ff) rfl cs]
      simp [leavesAbs, leaves, step, A.leaf_tt]
  | .text ff, _, c :: cs, st => by
      rw [List.foldl_cons, act_steps (.text ff) rfl cs]
      simp [leavesAbs, leaves, step, A.leaf_text]
  | .tbt, _, c :: cs, st => by
      rw [List.foldl_cons, act_steps .tbt rfl cs]
      simp [leavesAbs, leaves, step, A.leaf_tbt]
  | .etod ch, hs, c :: cs, (own, inner) => by
      rw [List.foldl_cons, act_steps (.etod ch) hs cs]
      simp only [okShape, okShapeG, Bool.and_eq_true] at hs
      obtain ⟨k, hk⟩ := etodStep_emits ⟨caps ch, step ch, failfastOf ch⟩ own inner c
      have hstep : leavesAbs A (.etod ch) (step (.etod ch) (own, inner) c)
          = leavesAbs A ch ((etodMain (caps ch) c ++ List.replicate k Call.stop).foldl (step ch) inner) := by
        show leavesAbs A ch (etodStep ⟨caps ch, step ch, failfastOf ch⟩ own inner c).2 = _
        rw [hk]
      rw [hstep, act_steps ch hs.2]
      simp only [leavesAbs, leaves, List.map_map, List.foldl_append, Function.comp_def, foldl_stops,
        act_main A _ hs.1, List.foldl_cons]
  | .tfr ch, hs, c :: cs, (own, inner) => by
      rw [List.foldl_cons, act_steps (.tfr ch) hs cs]
      simp only [okShape, okShapeG, Bool.and_eq_true, Bool.not_eq_true'] at hs
      have hsn := A.startNeutral hs.1
      have hstep : ∃ em : List Call, leavesAbs A (.tfr ch) (step (.tfr ch) (own, inner) c) = leavesAbs A ch (em.foldl (step ch) inner)
          ∧ ∀ a, em.foldl (fun a c => A.act c a) a = A.act c a := by
        cases c with
        | add k t x =>
          refine ⟨tfrBlock own k t x ++ tfrStops own k, rfl, fun a => ?_⟩
          rw [List.foldl_append, tfrBlock_act A hsn own k t x,
            foldl_neutral A _ (fun c hc => by rw [mem_tfrStops own k c hc]; rfl)]
        | startTestRun => exact ⟨[.startTestRun], rfl, fun _ => rfl⟩
        | stopTestRun => exact ⟨[.stopTestRun], rfl, fun _ => rfl⟩
        | stop => exact ⟨[.stop], rfl, fun _ => rfl⟩
        | done => exact ⟨[.done], rfl, fun _ => rfl⟩
        | startTest t => exact ⟨[], rfl, fun a => (hsn t a).symm⟩
        | stopTest t => exact ⟨[], rfl, fun a => (A.neutral _ rfl a).symm⟩
        | tags n g => exact ⟨[], by simp only [step, tfrStep]; split <;> rfl, fun a => (A.neutral _ rfl a).symm⟩
        | time d => exact ⟨[], rfl, fun a => (A.neutral _ rfl a).symm⟩
        | setFailfast b => exact ⟨[], rfl, fun a => (A.neutral _ rfl a).symm⟩
        | progress => exact ⟨[], rfl, fun a => (A.neutral _ rfl a).symm⟩
      obtain ⟨em, h1, h2⟩ := hstep
      rw [h1, act_steps ch hs.2]
      simp only [leavesAbs, leaves, List.map_map, Function.comp_def, h2, List.foldl_cons]
  | .deco ch, hs, c :: cs, st => by
      have hs' : okShape A ch = true := by simpa [okShape, okShapeL, okShapeG] using hs
      rw [List.foldl_cons, act_steps (.deco ch) hs cs]
      have hstep : ∃ em : List Call, leavesAbs A (.deco ch) (step (.deco ch) st c) = leavesAbs A ch (em.foldl (step ch) st)
          ∧ ∀ a, em.foldl (fun a c => A.act c a) a = A.act c a := by
        cases c with
        | done => exact ⟨[], rfl, fun a => (A.neutral _ rfl a).symm⟩
        | _ => exact ⟨[_], rfl, fun _ => rfl⟩
      obtain ⟨em, h1, h2⟩ := hstep
      rw [h1, act_steps ch hs']
      simp only [leavesAbs, leaves, List.map_map, Function.comp_def, h2, List.foldl_cons]
  | .tagger n g ch, hs, c :: cs, st => by
      have hs' : okShape A ch = true := by simpa [okShape, okShapeL, okShapeG] using hs
      rw [List.foldl_cons, act_steps (.tagger n g ch) hs cs]
      have hstep : ∃ em : List Call, leavesAbs A (.tagger n g ch) (step (.tagger n g ch) st c) = leavesAbs A ch (em.foldl (step ch) st)
          ∧ ∀ a, em.foldl (fun a c => A.act c a) a = A.act c a := by
        cases c with
        | done => exact ⟨[], rfl, fun a => (A.neutral _ rfl a).symm⟩
        | startTest t => exact ⟨[.startTest t, .tags n g], rfl, fun a => by simp [A.neutral (.tags n g) rfl]⟩
        | _ => exact ⟨[_], rfl, fun _ => rfl⟩
      obtain ⟨em, h1, h2⟩ := hstep
      rw [h1, act_steps ch hs']
      simp only [leavesAbs, leaves, List.map_map, Function.comp_def, h2, List.foldl_cons]
  | .multi ss, hs, c :: cs, (own, inner) => by
      have hs' : okShapeL A ss = true := by simpa [okShape, okShapeL, okShapeG] using hs
      rw [List.foldl_cons, act_steps (.multi ss) hs cs]
      have hstep : leavesAbs A (.multi ss) (step (.multi ss) (own, inner) c)
          = (leavesAbs A (.multi ss) (own, inner)).map (A.act c) := by
        simp only [leavesAbs, leaves]
        cases c with
        | progress => simp [step, A.neutral .progress rfl]
        | _ => simp only [step]; exact act_stepL ss hs' _ _
      rw [hstep]
      simp [List.map_map, Function.comp_def]
  | .e2s _, hs, _ :: _, _ => by simp [okShape, okShapeG] at hs
theorem act_stepL : ∀ (ss : List Shape), okShapeL A ss = true → ∀ (st : StL ss) (c : Call),
    (leavesL ss (stepL ss st c)).map A.abs = ((leavesL ss st).map A.abs).map (A.act c)
  | [], _, _, _ => rfl
  | s :: ss, hs, (x, xs), c => by
      simp only [okShapeL, okShapeGL, Bool.and_eq_true] at hs
      have := act_steps s hs.1 [c] x
      simp only [leavesAbs, List.foldl_cons, List.foldl_nil] at this
      simp only [leavesL, stepL, List.map_append, this, act_stepL ss hs.2 xs c]
end

end TTV.Lemmas.LeafAct
