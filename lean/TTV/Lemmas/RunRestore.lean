import TTV.Lemmas.RunInduct
/-! The cleanup stack as an undo log: attribute patches are restored, every registered cleanup runs
exactly once (invariant `Inv2`, used by C02). -/
namespace TTV.Run
open TTV.Spec.Run

/-! ### the attribute store as a finite map -/
theorem aget_cons (x : Nat × Nat) (a : List (Nat × Nat)) (k : Nat) :
    aget (x :: a) k = if x.1 = k then some x.2 else aget a k := by
  simp only [aget, List.find?_cons]
  by_cases h : x.1 = k
  · simp [h]
  · have : (x.1 == k) = false := by simpa using h
    simp [this, h]

theorem aget_filter_ne (a : List (Nat × Nat)) (k k' : Nat) :
    aget (a.filter (·.1 != k)) k' = if k' = k then none else aget a k' := by
  induction a with
  | nil => simp [aget]
  | cons x a ih =>
    simp only [List.filter_cons]
    by_cases hx : x.1 = k
    · simp only [hx, bne_self_eq_false, Bool.false_eq_true, if_false, ih, aget_cons]
      by_cases hk : k' = k
      · simp [hk]
      · have : ¬ k = k' := fun h => hk h.symm
        simp [hk, this]
    · have : (x.1 != k) = true := by simpa using hx
      simp only [this, if_true, aget_cons, ih]
      by_cases hk : k' = k
      · subst hk; simp [hx]
      · simp [hk]

theorem aget_aset (a : List (Nat × Nat)) (k v k' : Nat) :
    aget (aset a k v) k' = if k' = k then some v else aget a k' := by
  simp only [aset, aget_cons, aget_filter_ne]
  by_cases hk : k' = k
  · subst hk; simp
  · have : ¬ k = k' := fun h => hk h.symm
    simp [hk, this]

theorem aget_adel (a : List (Nat × Nat)) (k k' : Nat) :
    aget (adel a k) k' = if k' = k then none else aget a k' := by
  simp only [adel, aget_filter_ne]

/-- put back what `patch` saved: the old value, or absence -/
def restore (a : List (Nat × Nat)) (k : Nat) : Option Nat → List (Nat × Nat)
  | some v => aset a k v
  | none => adel a k

theorem aget_restore (a : List (Nat × Nat)) (k : Nat) (old : Option Nat) (k' : Nat) :
    aget (restore a k old) k' = if k' = k then old else aget a k' := by
  cases old <;> simp [restore, aget_aset, aget_adel]

def keysNodup (a : List (Nat × Nat)) : Prop := (a.map (·.1)).Nodup

theorem keysNodup_filter (a : List (Nat × Nat)) (q : Nat × Nat → Bool) (h : keysNodup a) : keysNodup (a.filter q) :=
  List.Nodup.sublist (List.Sublist.map _ List.filter_sublist) h

theorem keysNodup_aset (a : List (Nat × Nat)) (k v : Nat) (h : keysNodup a) : keysNodup (aset a k v) := by
  simp only [keysNodup, aset, List.map_cons, List.nodup_cons]
  refine ⟨?_, keysNodup_filter a _ h⟩
  simp

theorem keysNodup_adel (a : List (Nat × Nat)) (k : Nat) (h : keysNodup a) : keysNodup (adel a k) :=
  keysNodup_filter a _ h

theorem keysNodup_restore (a : List (Nat × Nat)) (k : Nat) (old : Option Nat) (h : keysNodup a) :
    keysNodup (restore a k old) := by
  cases old
  · exact keysNodup_adel a k h
  · exact keysNodup_aset a k _ h

theorem mem_iff_aget (a : List (Nat × Nat)) (h : keysNodup a) (k v : Nat) : (k, v) ∈ a ↔ aget a k = some v := by
  induction a with
  | nil => simp [aget]
  | cons x a ih =>
    simp only [keysNodup, List.map_cons, List.nodup_cons] at h
    rw [aget_cons, List.mem_cons]
    by_cases hx : x.1 = k
    · simp only [hx, if_true, Option.some.injEq]
      constructor
      · rintro (h1 | h1)
        · rw [← h1]
        · exfalso; apply h.1; rw [hx]; exact List.mem_map_of_mem (f := (·.1)) h1
      · intro h1; left; rw [← hx, ← h1]
    · simp only [hx, if_false]
      rw [← ih h.2]
      constructor
      · rintro (h1 | h1)
        · rw [← h1] at hx; exact absurd rfl hx
        · exact h1
      · exact Or.inr

theorem keysNodup_nodup (a : List (Nat × Nat)) (h : keysNodup a) : a.Nodup := by
  have := List.pairwise_map.mp h
  exact this.imp (fun hne heq => hne (by rw [heq]))

theorem perm_of_aget_eq (a b : List (Nat × Nat)) (ha : keysNodup a) (hb : keysNodup b)
    (h : ∀ k, aget a k = aget b k) : a.Perm b := by
  rw [List.perm_ext_iff_of_nodup (keysNodup_nodup a ha) (keysNodup_nodup b hb)]
  rintro ⟨k, v⟩
  rw [mem_iff_aget a ha, mem_iff_aget b hb, h]

theorem sortAttrs_eq_of_aget_eq (a b : List (Nat × Nat)) (ha : keysNodup a) (hb : keysNodup b)
    (h : ∀ k, aget a k = aget b k) : sortAttrs a = sortAttrs b := by
  have hp := perm_of_aget_eq a b ha hb h
  have hpa := List.mergeSort_perm a (fun x y => decide (x.1 ≤ y.1))
  have hpb := List.mergeSort_perm b (fun x y => decide (x.1 ≤ y.1))
  have tr : ∀ (x y z : Nat × Nat), decide (x.1 ≤ y.1) = true → decide (y.1 ≤ z.1) = true → decide (x.1 ≤ z.1) = true := by
    intro x y z h1 h2; simp only [decide_eq_true_eq] at *; omega
  have tot : ∀ (x y : Nat × Nat), (decide (x.1 ≤ y.1) || decide (y.1 ≤ x.1)) = true := by
    intro x y; simp only [Bool.or_eq_true, decide_eq_true_eq]; omega
  unfold sortAttrs
  apply List.Perm.eq_of_pairwise (le := fun x y => decide (x.1 ≤ y.1)) ?_
    (List.pairwise_mergeSort tr tot a) (List.pairwise_mergeSort tr tot b) (hpa.trans (hp.trans hpb.symm))
  intro x y hx hy h1 h2
  have hxa : x ∈ a := hpa.subset hx
  have hya : y ∈ a := hp.symm.subset (hpb.subset hy)
  have hk : x.1 = y.1 := by simp only [decide_eq_true_eq] at h1 h2; omega
  obtain ⟨k, v⟩ := x
  obtain ⟨k', v'⟩ := y
  simp only at hk; subst hk
  have e1 := (mem_iff_aget a ha k v).mp hxa
  have e2 := (mem_iff_aget a ha k v').mp hya
  rw [e1] at e2; cases e2; rfl

/-! ### undoing the pending patches -/
def undo : List Cl → List (Nat × Nat) → List (Nat × Nat)
  | [], a => a
  | .unpatch k old :: r, a => undo r (restore a k old)
  | .stage _ :: r, a => undo r a
  | .gather _ _ :: r, a => undo r a

theorem undo_congr (st : List Cl) (a b : List (Nat × Nat)) (h : ∀ k, aget a k = aget b k) :
    ∀ k, aget (undo st a) k = aget (undo st b) k := by
  induction st generalizing a b with
  | nil => exact h
  | cons c st ih =>
    cases c with
    | stage s => exact ih a b h
    | gather f ds => exact ih a b h
    | unpatch k old =>
      apply ih
      intro k'
      rw [aget_restore, aget_restore, h]

/-- the ghost tag of a cleanup entry -/
def Cl.tag : Cl → Ran
  | .stage s => .stage s.id
  | .gather f _ => .gather f
  | .unpatch a _ => .unpatch a

def pendingRan (st : List Cl) : List Ran := st.map Cl.tag

/-! ### frames -/
@[simp] theorem runTerm_attrs (t : Term) (s : RS) : (runTerm t s).1.attrs = s.attrs := by
  cases t <;> simp [runTerm]
  case expectFailure r eo x => cases eo <;> simp
@[simp] theorem runTerm_regd (t : Term) (s : RS) : (runTerm t s).1.regd = s.regd := by
  cases t <;> simp [runTerm]
  case expectFailure r eo x => cases eo <;> simp

theorem finish_regd (d : Bool) (t : Term) (s2 : RS) : (finish d t s2).1.regd = s2.regd := by
  unfold finish
  cases d <;> cases termObj t <;> simp
  · split <;> simp

/-- what a list of actions does to attributes, stack and registration ghost -/
structure ActsEffect (s s' : RS) : Prop where
  keys : keysNodup s.attrs → keysNodup s'.attrs
  undo : ∀ k, aget (undo s'.stack s'.attrs) k = aget (undo s.stack s.attrs) k
  regd : ∃ l, s'.regd = s.regd ++ l ∧ pendingRan s'.stack = l.reverse ++ pendingRan s.stack

theorem runActs_effect2 (as : List Act) (s : RS) : ActsEffect s (runActs as s) := by
  induction as generalizing s with
  | nil => exact ⟨id, fun _ => rfl, [], by simp [runActs]⟩
  | cons a as ih =>
    cases a with
    | cleanup c =>
      have := ih { s with stack := .stage c :: s.stack, regd := s.regd ++ [.stage c.id] }
      obtain ⟨l, h1, h2⟩ := this.regd
      refine ⟨this.keys, fun k => by rw [runActs, this.undo]; rfl, ⟨Ran.stage c.id :: l, ?_, ?_⟩⟩
      · rw [runActs, h1]; simp
      · rw [runActs, h2]; simp [pendingRan, Cl.tag]
    | addDetail n c =>
      have := ih { s with details := dset s.details n (.user c), plain := n :: s.plain,
                          clobbered := s.clobbered || (dmem s.details n && !s.plain.contains n) }
      exact ⟨this.keys, fun k => by rw [runActs, this.undo], this.regd⟩
    | expect mid ds =>
      have := ih { s with details := addUnique (addUniqueAll s.details s.clock false ds) nmExpectation (.expectation mid), ff := true }
      exact ⟨this.keys, fun k => by rw [runActs, this.undo], this.regd⟩
    | patch a v =>
      have := ih { s with attrs := aset s.attrs a v, stack := .unpatch a (aget s.attrs a) :: s.stack,
                          regd := s.regd ++ [.unpatch a] }
      obtain ⟨l, h1, h2⟩ := this.regd
      refine ⟨fun h => this.keys (keysNodup_aset _ _ _ h), fun k => ?_, ⟨Ran.unpatch a :: l, ?_, ?_⟩⟩
      · rw [runActs, this.undo]
        simp only [undo]
        apply undo_congr
        intro k'
        rw [aget_restore, aget_aset]
        by_cases hk : k' = a
        · simp [hk]
        · simp [hk]
      · rw [runActs, h1]; simp
      · rw [runActs, h2]; simp [pendingRan, Cl.tag]
    | useFixture fid ds cu =>
      have := ih { s with stack := .gather fid ds :: .stage cu :: s.stack,
                          regd := s.regd ++ [.stage cu.id, .gather fid] }
      obtain ⟨l, h1, h2⟩ := this.regd
      refine ⟨this.keys, fun k => by rw [runActs, this.undo]; rfl, ⟨Ran.stage cu.id :: Ran.gather fid :: l, ?_, ?_⟩⟩
      · rw [runActs, h1]; simp
      · rw [runActs, h2]; simp [pendingRan, Cl.tag]

theorem runStage_effect2 (st : Stage) (d : Bool) (s : RS) : ActsEffect s (runStage st d s).1 := by
  rw [runStage_eq]
  obtain ⟨_, _, _, _, _, h6, h7⟩ := finish_frame d st.term (runTerm st.term (runActs st.acts (stage0 st s))).1
  have hr := finish_regd d st.term (runTerm st.term (runActs st.acts (stage0 st s))).1
  have e := runActs_effect2 st.acts (stage0 st s)
  refine ⟨?_, ?_, ?_⟩
  · rw [h7, runTerm_attrs]; exact e.keys
  · intro k; rw [h6, h7, runTerm_attrs, runTerm_stack', e.undo]; rfl
  · rw [hr, h6, runTerm_regd, runTerm_stack']; exact e.regd

/-! ### the invariant -/
structure Inv2 (p : Program) (s : RS) : Prop where
  keys : keysNodup s.attrs
  undo : ∀ k, aget (undo s.stack s.attrs) k = aget p.attrs0 k
  once : (s.ran ++ pendingRan s.stack).Perm s.regd

theorem Inv2.stage {p : Program} {s : RS} (h : Inv2 p s) (st : Stage) (d : Bool) : Inv2 p (runStage st d s).1 := by
  have e := runStage_effect2 st d s
  have e1 := runStage_effect st d s
  obtain ⟨l, h1, h2⟩ := e.regd
  refine ⟨e.keys h.keys, fun k => by rw [e.undo, h.undo], ?_⟩
  rw [e1.ran, h1, h2]
  have : (s.ran ++ (l.reverse ++ pendingRan s.stack)).Perm (s.ran ++ pendingRan s.stack ++ l) := by
    rw [List.append_assoc]
    apply List.Perm.append_left
    exact ((List.reverse_perm l).append_right _).trans List.perm_append_comm
  exact this.trans (h.once.append_right l)

theorem Inv2.pop {p : Program} {s : RS} (h : Inv2 p s) (c : Cl) (rest : List Cl) (hs : s.stack = c :: rest) :
    Inv2 p (runCl c { s with stack := rest }) := by
  have hperm : (s.ran ++ Cl.tag c :: pendingRan rest).Perm s.regd := by
    have := h.once; rw [hs] at this; simpa [pendingRan] using this
  cases c with
  | stage st =>
    have hu : ∀ k, aget (TTV.Run.undo rest s.attrs) k = aget p.attrs0 k := by
      intro k; have := h.undo k; rw [hs] at this; exact this
    -- first run the stage on the popped state, carrying the popped entry on the side
    have e := runStage_effect2 st false { s with stack := rest }
    have e1 := runStage_effect st false { s with stack := rest }
    obtain ⟨l, h1, h2⟩ := e.regd
    simp only [runCl]
    refine ⟨e.keys h.keys, fun k => by rw [e.undo]; exact hu k, ?_⟩
    simp only [e1.ran, h1, h2]
    simp only [Cl.tag] at hperm
    have : (s.ran ++ [Ran.stage st.id] ++ (l.reverse ++ pendingRan rest)).Perm
        (s.ran ++ Ran.stage st.id :: pendingRan rest ++ l) := by
      simp only [List.append_assoc, List.cons_append]
      apply List.Perm.append_left
      apply List.Perm.cons
      exact ((List.reverse_perm l).append_right _).trans List.perm_append_comm
    exact this.trans (hperm.append_right l)
  | gather fid ds =>
    simp only [runCl]
    refine ⟨h.keys, fun k => by have := h.undo k; rw [hs] at this; exact this, ?_⟩
    simp only [Cl.tag] at hperm
    simpa using hperm
  | unpatch a old =>
    simp only [Cl.tag] at hperm
    cases old with
    | none =>
      simp only [runCl]
      exact ⟨keysNodup_restore _ _ none h.keys, fun k => by have := h.undo k; rw [hs] at this; exact this,
        by simpa using hperm⟩
    | some v =>
      simp only [runCl]
      exact ⟨keysNodup_restore _ _ (some v) h.keys, fun k => by have := h.undo k; rw [hs] at this; exact this,
        by simpa using hperm⟩

/-- the state `runCore` ends in: attributes as before the run, executed cleanups = registered cleanups -/
theorem runCore_inv2 (p : Program) (ff0 : Bool) (hwf : wf p = true) : Inv2 p (runCore p ff0).1 := by
  apply runCore_induct p ff0 hwf (Inv2 p)
  · refine ⟨?_, fun k => rfl, by simp [initRS, pendingRan]⟩
    exact wf_attrs p hwf
  · intro st s _ h _; exact h.stage st _
  · intro s c rest _ h hs; exact h.pop c rest hs
  · intro s _ h _ _
    exact ⟨by rw [got_attrs]; exact h.keys, fun k => by rw [got_attrs, got_stack']; exact h.undo k,
      by rw [got_ran, got_regd, got_stack']; exact h.once⟩

end TTV.Run
