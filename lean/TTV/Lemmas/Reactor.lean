import TTV.Model.Reactor
/-! Helper lemmas about the shared reactor model (used by `Props/C14.lean`, `Props/C15.lean`). -/
namespace TTV.Reactor
variable {A U : Type}

/-! ## `insert` (Clock.callLater) -/

theorem insert_perm (c : DCall A) : ∀ q : List (DCall A), (insert c q).Perm (c :: q)
  | [] => by simp [insert]
  | d :: ds => by
      simp only [insert]
      split
      · exact ((insert_perm c ds).cons d).trans (List.Perm.swap c d ds)
      · exact List.Perm.refl _

theorem mem_insert {c x : DCall A} {q : List (DCall A)} : x ∈ insert c q ↔ x = c ∨ x ∈ q := by
  rw [(insert_perm c q).mem_iff]; simp

theorem insert_length (c : DCall A) (q : List (DCall A)) : (insert c q).length = q.length + 1 := by
  rw [(insert_perm c q).length_eq]; simp

theorem insert_all (p : DCall A → Bool) (c : DCall A) (q : List (DCall A)) :
    (insert c q).all p = (p c && q.all p) := by
  induction q with
  | nil => simp [insert]
  | cons d ds ih =>
    simp only [insert]
    split
    · simp only [List.all_cons, ih]
      cases p d <;> cases p c <;> simp
    · simp

theorem insert_count_map {β : Type} [BEq β] [LawfulBEq β] (f : DCall A → β) (b : β) (c : DCall A)
    (q : List (DCall A)) : ((insert c q).map f).count b = ((c :: q).map f).count b :=
  ((insert_perm c q).map f).count_eq b

/-- the queue is sorted by time -/
def Sorted (q : List (DCall A)) : Prop := q.Pairwise (fun a b => a.time ≤ b.time)

theorem insert_sorted (c : DCall A) : ∀ q : List (DCall A), Sorted q → Sorted (insert c q)
  | [], _ => by simp [insert, Sorted]
  | d :: ds, h => by
      simp only [insert]
      have h' := List.pairwise_cons.mp h
      split
      · rename_i hle
        refine List.pairwise_cons.mpr ⟨?_, insert_sorted c ds h'.2⟩
        intro x hx
        rcases mem_insert.mp hx with rfl | hx
        · exact hle
        · exact h'.1 x hx
      · rename_i hgt
        refine List.pairwise_cons.mpr ⟨?_, h⟩
        intro x hx
        rcases List.mem_cons.mp hx with rfl | hx
        · omega
        · have := h'.1 x hx; omega

theorem Sorted.tail {c : DCall A} {q : List (DCall A)} (h : Sorted (c :: q)) : Sorted q :=
  (List.pairwise_cons.mp h).2

theorem Sorted.head_le {c : DCall A} {q : List (DCall A)} (h : Sorted (c :: q)) : ∀ x ∈ q, c.time ≤ x.time :=
  (List.pairwise_cons.mp h).1

theorem Sorted.filter {q : List (DCall A)} (p : DCall A → Bool) (h : Sorted q) : Sorted (q.filter p) :=
  List.Pairwise.filter p h

/-- where `insert` puts the first element satisfying `p`: a new call wins only if it is due strictly
earlier than the current first one -/
theorem insert_find (p : DCall A → Bool) (c : DCall A) : ∀ q : List (DCall A), Sorted q →
    (insert c q).find? p =
      if p c then (match q.find? p with
        | some w => if w.time ≤ c.time then some w else some c
        | none => some c)
      else q.find? p
  | [], _ => by simp [insert]
  | d :: ds, h => by
      have ih := insert_find p c ds h.tail
      simp only [insert]
      by_cases hle : d.time ≤ c.time
      · simp only [hle, if_true, List.find?_cons]
        cases hd : p d
        · simp only [ih]
        · simp [hle]
      · simp only [hle, if_false, List.find?_cons]
        cases hc : p c
        · simp
        · simp only [if_true]
          cases hd : p d
          · simp only
            cases hf : ds.find? p with
            | none => simp
            | some w =>
              have hw : w ∈ ds := List.mem_of_find?_eq_some hf
              have := h.head_le w hw
              have : ¬ w.time ≤ c.time := by omega
              simp [this]
          · simp [hle]

/-! ## frame lemmas -/

section frames
variable (w : World A U) (r : Res) (l : Lbl) (t : Nat) (q : QAct A)

@[simp] theorem stopReactor_calls : (stopReactor w).calls = w.calls := by unfold stopReactor; split <;> rfl
@[simp] theorem stopReactor_events : (stopReactor w).events = w.events := by unfold stopReactor; split <;> rfl
@[simp] theorem stopReactor_sels : (stopReactor w).sels = w.sels := by unfold stopReactor; split <;> rfl
@[simp] theorem stopReactor_sigs : (stopReactor w).sigs = w.sigs := by unfold stopReactor; split <;> rfl
@[simp] theorem stopReactor_u : (stopReactor w).u = w.u := by unfold stopReactor; split <;> rfl
@[simp] theorem stopReactor_now : (stopReactor w).now = w.now := by unfold stopReactor; split <;> rfl
@[simp] theorem stopReactor_t0 : (stopReactor w).t0 = w.t0 := by unfold stopReactor; split <;> rfl
@[simp] theorem stopReactor_running : (stopReactor w).running = w.running := by unfold stopReactor; split <;> rfl
@[simp] theorem stopReactor_stopPatched : (stopReactor w).stopPatched = w.stopPatched := by unfold stopReactor; split <;> rfl
@[simp] theorem stopReactor_success : (stopReactor w).sp.success = w.sp.success := by unfold stopReactor; split <;> rfl
@[simp] theorem stopReactor_failure : (stopReactor w).sp.failure = w.sp.failure := by unfold stopReactor; split <;> rfl
@[simp] theorem stopReactor_tcall : (stopReactor w).sp.tcall = w.sp.tcall := by unfold stopReactor; split <;> rfl
@[simp] theorem stopReactor_junk : (stopReactor w).sp.junk = w.sp.junk := by unfold stopReactor; split <;> rfl
@[simp] theorem stopReactor_saved : (stopReactor w).sp.saved = w.sp.saved := by unfold stopReactor; split <;> rfl

theorem stopReactor_crashed : (stopReactor w).crashed = (w.crashed || w.sp.spinning) := by
  unfold stopReactor; split <;> simp_all

theorem stopReactor_spinning : (stopReactor w).sp.spinning = false := by
  unfold stopReactor; split <;> simp_all

@[simp] theorem logEvent_calls : (logEvent l w).calls = w.calls := rfl
@[simp] theorem logEvent_events : (logEvent l w).events = w.events ++ [(w.now - w.t0, l)] := rfl
@[simp] theorem logEvent_sels : (logEvent l w).sels = w.sels := rfl
@[simp] theorem logEvent_sigs : (logEvent l w).sigs = w.sigs := rfl
@[simp] theorem logEvent_u : (logEvent l w).u = w.u := rfl
@[simp] theorem logEvent_now : (logEvent l w).now = w.now := rfl
@[simp] theorem logEvent_t0 : (logEvent l w).t0 = w.t0 := rfl
@[simp] theorem logEvent_sp : (logEvent l w).sp = w.sp := rfl
@[simp] theorem logEvent_crashed : (logEvent l w).crashed = w.crashed := rfl
@[simp] theorem logEvent_running : (logEvent l w).running = w.running := rfl
@[simp] theorem logEvent_stopPatched : (logEvent l w).stopPatched = w.stopPatched := rfl

@[simp] theorem schedule_calls : (schedule t q w).calls = insert ⟨t, q⟩ w.calls := rfl
@[simp] theorem schedule_events : (schedule t q w).events = w.events := rfl
@[simp] theorem schedule_sels : (schedule t q w).sels = w.sels := rfl
@[simp] theorem schedule_sigs : (schedule t q w).sigs = w.sigs := rfl
@[simp] theorem schedule_u : (schedule t q w).u = w.u := rfl
@[simp] theorem schedule_now : (schedule t q w).now = w.now := rfl
@[simp] theorem schedule_t0 : (schedule t q w).t0 = w.t0 := rfl
@[simp] theorem schedule_sp : (schedule t q w).sp = w.sp := rfl
@[simp] theorem schedule_crashed : (schedule t q w).crashed = w.crashed := rfl
@[simp] theorem schedule_running : (schedule t q w).running = w.running := rfl
@[simp] theorem schedule_stopPatched : (schedule t q w).stopPatched = w.stopPatched := rfl

@[simp] theorem deliver_events : (deliver r w).events = w.events := by
  unfold deliver; simp only [stopReactor_events]; split <;> rfl
@[simp] theorem deliver_sels : (deliver r w).sels = w.sels := by
  unfold deliver; simp only [stopReactor_sels]; split <;> rfl
@[simp] theorem deliver_sigs : (deliver r w).sigs = w.sigs := by
  unfold deliver; simp only [stopReactor_sigs]; split <;> rfl
@[simp] theorem deliver_u : (deliver r w).u = w.u := by
  unfold deliver; simp only [stopReactor_u]; split <;> rfl
@[simp] theorem deliver_now : (deliver r w).now = w.now := by
  unfold deliver; simp only [stopReactor_now]; split <;> rfl
@[simp] theorem deliver_t0 : (deliver r w).t0 = w.t0 := by
  unfold deliver; simp only [stopReactor_t0]; split <;> rfl
@[simp] theorem deliver_running : (deliver r w).running = w.running := by
  unfold deliver; simp only [stopReactor_running]; split <;> rfl
@[simp] theorem deliver_stopPatched : (deliver r w).stopPatched = w.stopPatched := by
  unfold deliver; simp only [stopReactor_stopPatched]; split <;> rfl
@[simp] theorem deliver_junk : (deliver r w).sp.junk = w.sp.junk := by
  unfold deliver; simp only [stopReactor_junk]; split
  · cases r <;> rfl
  · rfl

@[simp] theorem deliver_saved : (deliver r w).sp.saved = w.sp.saved := by
  unfold deliver; simp only [stopReactor_saved]; split
  · cases r <;> rfl
  · rfl

theorem deliver_calls : (deliver r w).calls =
    if w.sp.tcall = .pending then w.calls.filter (fun c => !c.act.isTimeout) else w.calls := by
  unfold deliver; simp only [stopReactor_calls]
  split <;> simp_all

theorem deliver_of_not_pending (h : w.sp.tcall ≠ .pending) : deliver r w = stopReactor w := by
  unfold deliver
  split
  · contradiction
  · rfl

@[simp] theorem execTimeout_calls : (execTimeout w).calls = w.calls := by simp [execTimeout]
@[simp] theorem execTimeout_events : (execTimeout w).events = w.events ++ [(w.now - w.t0, .timeout)] := by
  simp [execTimeout]
@[simp] theorem execTimeout_sels : (execTimeout w).sels = w.sels := by simp [execTimeout]
@[simp] theorem execTimeout_sigs : (execTimeout w).sigs = w.sigs := by simp [execTimeout]
@[simp] theorem execTimeout_u : (execTimeout w).u = w.u := by simp [execTimeout]
@[simp] theorem execTimeout_now : (execTimeout w).now = w.now := by simp [execTimeout]
@[simp] theorem execTimeout_t0 : (execTimeout w).t0 = w.t0 := by simp [execTimeout]
@[simp] theorem execTimeout_running : (execTimeout w).running = w.running := by simp [execTimeout]
@[simp] theorem execTimeout_stopPatched : (execTimeout w).stopPatched = w.stopPatched := by simp [execTimeout]
@[simp] theorem execTimeout_junk : (execTimeout w).sp.junk = w.sp.junk := by simp [execTimeout]
@[simp] theorem execTimeout_saved : (execTimeout w).sp.saved = w.sp.saved := by simp [execTimeout]
@[simp] theorem execTimeout_failure : (execTimeout w).sp.failure = some .timeout := by simp [execTimeout]
@[simp] theorem execTimeout_success : (execTimeout w).sp.success = w.sp.success := by simp [execTimeout]
@[simp] theorem execTimeout_tcall : (execTimeout w).sp.tcall = .called := by simp [execTimeout]
end frames

/-! ## invariants through the loops -/

/-- an invariant kept by every "pop the head and run it" step is kept by `drain` -/
theorem drain_inv (exec : Nat → A → World A U → World A U) (P : World A U → Prop)
    (hpop : ∀ w c rest, P w → w.calls = c :: rest → c.time ≤ w.now → P (execCall exec c { w with calls := rest })) :
    ∀ n w, P w → P (drain exec n w)
  | 0, _, h => h
  | n + 1, w, h => by
      unfold drain
      split
      · exact h
      · rename_i c rest hc
        split
        · rename_i hle
          exact drain_inv exec P hpop n _ (hpop w c rest h hc hle)
        · exact h

/-- … and, if it also survives the clock moving to the time of the earliest call, by `spin` -/
theorem spin_inv (exec : Nat → A → World A U → World A U) (fuelD : World A U → Nat) (P : World A U → Prop)
    (hpop : ∀ w c rest, P w → w.calls = c :: rest → c.time ≤ w.now → P (execCall exec c { w with calls := rest }))
    (hadv : ∀ w c rest, P w → w.calls = c :: rest → w.crashed = false → P { w with now := max w.now c.time }) :
    ∀ n w, P w → P (spin exec fuelD n w)
  | 0, _, h => h
  | n + 1, w, h => by
      unfold spin
      split
      · exact h
      · rename_i hcr
        split
        · exact h
        · rename_i c rest hc
          have hcr' : w.crashed = false := by simpa using hcr
          exact spin_inv exec fuelD P hpop hadv n _ (drain_inv exec P hpop _ _ (hadv w c rest h hc hcr'))

end TTV.Reactor
