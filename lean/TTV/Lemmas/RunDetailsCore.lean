import TTV.Lemmas.RunDetailsWalk
/-! The details invariant over a whole run (`runCore`). -/
namespace TTV.Run
open TTV.Spec.Run TTV.Spec.C05

/-- tracebacks a stage reports besides those of the exceptions it hands to the runner: the assertion
behind `expectFailure`, the failure caught by the expectedFailure decorator -/
def extraTbs (p : Program) (st : Stage) : List Exc := tbTerm st.term ++ decoTb (decoOf p st) st.term

theorem mem_dictsOf_expect (st : Stage) (mid : Nat) (ds : List (DName × UC)) (h : Act.expect mid ds ∈ st.acts) :
    ds ∈ dictsOf st :=
  List.mem_append_left _ (List.mem_filterMap.mpr ⟨_, h, rfl⟩)

theorem mem_dictsOf_fixture (st : Stage) (f : Nat) (ds : List (DName × UC)) (cu : Stage)
    (h : Act.useFixture f ds cu ∈ st.acts) : ds ∈ dictsOf st :=
  List.mem_append_left _ (List.mem_filterMap.mpr ⟨_, h, rfl⟩)

theorem mem_dictsOf_term (st : Stage) (x : DName × UC) (h : x ∈ termDict st.term) : ∃ ds ∈ dictsOf st, x ∈ ds := by
  unfold dictsOf
  cases ht : st.term <;> rw [ht] at h <;> simp [termDict] at h
  · exact ⟨_, List.mem_append_right _ (by simp), h⟩
  · exact ⟨_, List.mem_append_right _ (by simp), h⟩

theorem namesOk_of_wf (p : Program) (hwf : wf p = true) (st : Stage) (hst : st ∈ allStages p) : NamesOk st := by
  refine ⟨?_, ?_, ?_⟩
  · intro n hn
    exact wf_names p hwf st hst n (List.mem_append_left _ hn)
  · intro mid ds hm x hx
    exact wf_names p hwf st hst x.1 (List.mem_append_right _
      (List.mem_flatMap.mpr ⟨ds, mem_dictsOf_expect st mid ds hm, List.mem_map_of_mem hx⟩))
  · intro x hx
    obtain ⟨ds, hds, hxd⟩ := mem_dictsOf_term st x hx
    exact wf_names p hwf st hst x.1 (List.mem_append_right _ (List.mem_flatMap.mpr ⟨ds, hds, List.mem_map_of_mem hxd⟩))

/-- the gather entries on the stack after the actions: those pushed plus those already there -/
theorem runActs_stack_gathers (as : List Act) (s : RS) (f : Nat) (ds : List (DName × UC))
    (h : Cl.gather f ds ∈ (runActs as s).stack) : (∃ cu, Act.useFixture f ds cu ∈ as) ∨ Cl.gather f ds ∈ s.stack := by
  induction as generalizing s with
  | nil => exact Or.inr h
  | cons a as ih =>
    cases a with
    | cleanup c =>
      rcases ih _ h with ⟨cu, hc⟩ | hc
      · exact Or.inl ⟨cu, List.mem_cons_of_mem _ hc⟩
      · simp only [List.mem_cons] at hc
        rcases hc with hc | hc
        · cases hc
        · exact Or.inr hc
    | addDetail n c =>
      rcases ih _ h with ⟨cu, hc⟩ | hc
      · exact Or.inl ⟨cu, List.mem_cons_of_mem _ hc⟩
      · exact Or.inr hc
    | expect m ds' =>
      rcases ih _ h with ⟨cu, hc⟩ | hc
      · exact Or.inl ⟨cu, List.mem_cons_of_mem _ hc⟩
      · exact Or.inr hc
    | patch a v =>
      rcases ih _ h with ⟨cu, hc⟩ | hc
      · exact Or.inl ⟨cu, List.mem_cons_of_mem _ hc⟩
      · simp only [List.mem_cons] at hc
        rcases hc with hc | hc
        · cases hc
        · exact Or.inr hc
    | useFixture f' ds' cu' =>
      rcases ih _ h with ⟨cu, hc⟩ | hc
      · exact Or.inl ⟨cu, List.mem_cons_of_mem _ hc⟩
      · simp only [List.mem_cons] at hc
        rcases hc with hc | hc | hc
        · cases hc; exact Or.inl ⟨cu', List.mem_cons_self⟩
        · cases hc
        · exact Or.inr hc

theorem perm_shuffle {α : Type} {T a b x f : List α} (h : T.Perm (a ++ b)) :
    (T ++ (x ++ f)).Perm ((a ++ f) ++ (b ++ x)) := by
  have h1 : (T ++ (x ++ f)).Perm ((a ++ b) ++ (x ++ f)) := h.append_right _
  refine h1.trans ?_
  simp only [List.append_assoc]
  apply List.Perm.append_left
  -- b ++ (x ++ f) ~ f ++ (b ++ x)
  rw [← List.append_assoc]
  exact List.perm_append_comm

theorem tbFilter_append (a b : List Exc) : tbFilter (a ++ b) = tbFilter a ++ tbFilter b := by
  simp [tbFilter]

/-- gather entries waiting on the stack hand over well-named details -/
def GatherOk (s : RS) : Prop := ∀ f ds, Cl.gather f ds ∈ s.stack → ∀ x ∈ ds, x.1 ≠ nmReason

structure InvD (p : Program) (s : RS) (T : List Exc) (A : List (DName × UC)) (U : List (DName × Content)) : Prop where
  js     : JS s T A U
  tperm  : T.Perm (tbFilter s.excs ++ s.execd.flatMap (extraTbs p))
  adds   : A = s.execd.flatMap fun st => plainOf st.acts
  gather : GatherOk s
  clock  : s.clock = s.execd.length

theorem stageTbs_eq (p : Program) (st : Stage) :
    stageTbs (decoOf p st) st = extraTbs p st ++ tbFilter (stageExcs p st) := by
  simp [stageTbs, extraTbs, excsD_decoOf]

theorem InvD.stage {p : Program} {s : RS} {T : List Exc} {A : List (DName × UC)} {U : List (DName × Content)}
    (hwf : wf p = true) (h : InvD p s T A U) (st : Stage) (hok : StageOk p st) :
    InvD p (runStage st (decoOf p st) s).1 (T ++ stageTbs (decoOf p st) st) (A ++ plainOf st.acts)
      (U ++ uqActs st.acts ++ uqTerm (s.clock + 1) st.term) := by
  have e := runStage_effect st (decoOf p st) s
  refine ⟨JS.onStage st _ h.js (namesOk_of_wf p hwf st hok.mem), ?_, ?_, ?_, ?_⟩
  · rw [e.excs, e.execd, stageTbs_eq, excsD_decoOf, tbFilter_append, List.flatMap_append]
    simp only [List.flatMap_cons, List.flatMap_nil, List.append_nil]
    exact perm_shuffle h.tperm
  · rw [e.execd, h.adds]; simp
  · intro f ds hm x hx
    rw [runStage_stack] at hm
    rcases runActs_stack_gathers _ _ f ds hm with ⟨cu, hc⟩ | hc
    · exact wf_names p hwf st hok.mem x.1 (List.mem_append_right _
        (List.mem_flatMap.mpr ⟨ds, mem_dictsOf_fixture st f ds cu hc, List.mem_map_of_mem hx⟩))
    · exact h.gather f ds hc x hx
  · rw [e.clock, e.execd, h.clock]; simp

theorem InvD.popFrame {p : Program} {s : RS} {T : List Exc} {A : List (DName × UC)} {U : List (DName × Content)}
    (h : InvD p s T A U) (c : Cl) (rest : List Cl) (hs : s.stack = c :: rest) : InvD p { s with stack := rest } T A U :=
  ⟨h.js.frame rfl rfl rfl, h.tperm, h.adds, fun f ds hm => h.gather f ds (by rw [hs]; exact List.mem_cons_of_mem _ hm),
    h.clock⟩

theorem InvD.pop {p : Program} {ff0 : Bool} {s : RS} {T : List Exc} {A : List (DName × UC)} {U : List (DName × Content)}
    (hwf : wf p = true) (hinv : Inv p ff0 s) (h : InvD p s T A U) (c : Cl) (rest : List Cl) (hs : s.stack = c :: rest) :
    InvD p (runCl c { s with stack := rest }) (T ++ clTbs c) (A ++ clPlain c) (U ++ clUq s.clock c) := by
  have h0 := h.popFrame c rest hs
  cases c with
  | stage st =>
    have hn : st ∈ nested p := hinv.stackIn st (by rw [hs]; exact List.mem_cons_self)
    have hd := decoOf_nested p hwf st hn
    have := h0.stage hwf st (StageOk.nested hn)
    rw [hd] at this
    simp only [runCl, clTbs, clPlain, clUq]
    rw [← List.append_assoc]
    exact ⟨this.js.frame rfl rfl rfl, this.tperm, this.adds, this.gather, this.clock⟩
  | gather f ds =>
    have hj := JS.onCl (.gather f ds) h0.js (fun st hc => by cases hc)
      (fun f' ds' hc => by cases hc; exact h.gather f ds (by rw [hs]; exact List.mem_cons_self))
    refine ⟨hj, ?_, ?_, h0.gather, h0.clock⟩
    · simpa [runCl, clTbs] using h0.tperm
    · simpa [runCl, clPlain] using h0.adds
  | unpatch a o =>
    have hj := JS.onCl (.unpatch a o) h0.js (fun st hc => by cases hc) (fun f' ds' hc => by cases hc)
    refine ⟨hj, ?_, ?_, h0.gather, h0.clock⟩
    · simpa [runCl, clTbs] using h0.tperm
    · simpa [runCl, clPlain] using h0.adds

theorem InvD.forced {p : Program} {s : RS} {T : List Exc} {A : List (DName × UC)} {U : List (DName × Content)}
    (h : InvD p s T A U) : InvD p (got s forcedFailure) (T ++ tbFilter [forcedFailure]) A U := by
  refine ⟨h.js.onGot _, ?_, ?_, ?_, ?_⟩
  · rw [got_excs, got_execd, tbFilter_append]
    have := perm_shuffle (x := []) (f := tbFilter [forcedFailure]) h.tperm
    simpa using this
  · rw [got_execd]; exact h.adds
  · intro f ds hm; rw [got_stack'] at hm; exact h.gather f ds hm
  · rw [got_clock, got_execd]; exact h.clock

/-- the details invariant holds of the state `runCore` ends in -/
theorem runCore_invD (p : Program) (ff0 : Bool) (hwf : wf p = true) :
    ∃ T A U, InvD p (runCore p ff0).1 T A U := by
  apply runCore_induct p ff0 hwf (fun s => ∃ T A U, InvD p s T A U)
  · refine ⟨[], [], [], ⟨?_, ?_, ?_, ?_, ?_⟩⟩
    · exact J.init
    · simp [initRS, tbFilter]
    · simp [initRS]
    · intro f ds hm; simp [initRS] at hm
    · simp [initRS]
  · rintro st s _ ⟨T, A, U, h⟩ hok
    exact ⟨_, _, _, h.stage hwf st hok.ok⟩
  · rintro s c rest hinv ⟨T, A, U, h⟩ hs
    exact ⟨_, _, _, h.pop hwf hinv c rest hs⟩
  · rintro s _ ⟨T, A, U, h⟩ _ _
    exact ⟨_, _, _, h.forced⟩

end TTV.Run

namespace TTV.Run
open TTV.Spec.Run TTV.Spec.C05

/-- the details dict handed to the result: the run's details, plus the reason when the case's own skip
reporter reports -/
def finalDetails (hs : Handlers) (s : RS) : Option Exc → Details
  | some e => if handlerFor hs e = some (.std .skip) then dset s.details nmReason (.reason e.tag) else s.details
  | none => s.details

/-- `runOnce_shape` with the reported details made explicit -/
theorem runOnce_shape_d (p : Program) (ff0 : Bool) (hwf : wf p = true) (hskip : p.skipDeco = none) :
    ∃ (o : Outcome) (r sel : Option Exc),
      Decided (handlers p) (runCore p ff0).1.excs o r sel ∧
      runOnce p ff0 =
        { events := wrapRun p.flavour ([.startTest] ++ (runCore p ff0).1.log ++
            [.outcome (degrade p.flavour o) (visibleDetails p.flavour o
              (frozenDetails (runCore p ff0).1 (finalDetails (handlers p) (runCore p ff0).1 sel)))] ++ stopEv p.flavour)
          raised := r, ffAfter := (runCore p ff0).1.ff, stackAfter := 0,
          attrsAfter := sortAttrs (runCore p ff0).1.attrs } := by
  have cf := runCore_facts p ff0 hwf hskip
  unfold runOnce
  simp only [hskip]
  generalize hrc : runCore p ff0 = rc at cf
  obtain ⟨s, succ⟩ := rc
  simp only at cf ⊢
  cases hsel : select (handlers p) s.excs with
  | none =>
    have hnil := (select_none_iff _ _).mp hsel
    have hs : succ = true := cf.succ.mpr hnil
    simp only [hs, if_true]
    exact ⟨.success, none, none, .success hnil, by simp [cf.stack, frozenDetails, finalDetails]⟩
  | some e =>
    simp only
    cases hh : handlerFor (handlers p) e with
    | none => exact ⟨.error, some e, some e, .lastResort e hsel hh, by simp [cf.stack, frozenDetails, finalDetails, hh]⟩
    | some r =>
      by_cases hr : r = .std .skip
      · subst hr
        exact ⟨.skip, none, some e, .handled e (.std .skip) hsel hh, by simp [cf.stack, frozenDetails, finalDetails, hh]⟩
      · refine ⟨r.outcome, none, some e, .handled e r hsel hh, ?_⟩
        cases r with
        | std o => cases o <;> simp_all [cf.stack, Reporter.outcome, frozenDetails, finalDetails]
        | user i o => simp [cf.stack, Reporter.outcome, frozenDetails, finalDetails, hh]

/-- `J` also holds of the dict handed to the result -/
theorem JS.final {s : RS} {T : List Exc} {A : List (DName × UC)} {U : List (DName × Content)} (h : JS s T A U)
    (hs : Handlers) (sel : Option Exc) : J (finalDetails hs s sel) s.plain s.clobbered T A U := by
  cases sel with
  | none => exact h
  | some e =>
    simp only [finalDetails]
    split
    · exact J.reasonSet h e.tag
    · exact h

end TTV.Run
