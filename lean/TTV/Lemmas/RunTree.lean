import TTV.Lemmas.RunInv
/-! Static facts about the stage tree of a well-formed program (distinct ids): every stage has at most one
parent, registers each child once, the three main stages are nobody's children, no stage is its own child. -/
namespace TTV.Spec.Run
open TTV.Run

def idsOf (l : List Stage) : List Nat := l.map Stage.id

/-- number of registrations of id `c` by the stages of `l` -/
def regCount (c : Nat) (l : List Stage) : Nat := (l.map fun x => (regsOf x.acts).count c).sum

theorem regCount_append (c : Nat) (a b : List Stage) : regCount c (a ++ b) = regCount c a + regCount c b := by
  simp [regCount]

theorem regCount_cons (c : Nat) (x : Stage) (l : List Stage) :
    regCount c (x :: l) = (regsOf x.acts).count c + regCount c l := by
  simp [regCount]

/- every registration of `c` below a stage shows up as an occurrence of `c` among the ids of the subtree -/
mutual
theorem count_stagesOf (c : Nat) : ∀ st : Stage,
    (if st.id = c then 1 else 0) + regCount c (stagesOf st) ≤ (idsOf (stagesOf st)).count c
  | .mk i acts t => by
    have := count_stagesOfActs c acts
    simp only [stagesOf, regCount_cons, idsOf, List.map_cons, List.count_cons, Stage.id, Stage.acts, beq_iff_eq] at this ⊢
    by_cases hic : i = c <;> simp only [hic, if_true, if_false] <;> omega
theorem count_stagesOfActs (c : Nat) : ∀ acts : List Act,
    (regsOf acts).count c + regCount c (stagesOfActs acts) ≤ (idsOf (stagesOfActs acts)).count c
  | [] => by simp [regsOf, stagesOfActs, regCount, idsOf]
  | .cleanup s :: as => by
    have h1 := count_stagesOf c s
    have h2 := count_stagesOfActs c as
    simp only [regsOf, stagesOfActs, regCount_append, idsOf, List.map_append, List.count_append, List.count_cons,
      beq_iff_eq] at h1 h2 ⊢
    omega
  | .useFixture _ _ s :: as => by
    have h1 := count_stagesOf c s
    have h2 := count_stagesOfActs c as
    simp only [regsOf, stagesOfActs, regCount_append, idsOf, List.map_append, List.count_append, List.count_cons,
      beq_iff_eq] at h1 h2 ⊢
    omega
  | .addDetail _ _ :: as => by
    have h2 := count_stagesOfActs c as
    simpa only [regsOf, stagesOfActs] using h2
  | .expect _ _ :: as => by
    have h2 := count_stagesOfActs c as
    simpa only [regsOf, stagesOfActs] using h2
  | .patch _ _ :: as => by
    have h2 := count_stagesOfActs c as
    simpa only [regsOf, stagesOfActs] using h2
end

def isRoot (p : Program) (c : Nat) : Nat :=
  (if p.setUp.id = c then 1 else 0) + (if p.body.id = c then 1 else 0) + (if p.tearDown.id = c then 1 else 0)

/-- with distinct ids: root-ness plus the number of registrations of an id is at most one -/
theorem regCount_le_one (p : Program) (hwf : wf p = true) (c : Nat) : isRoot p c + regCount c (allStages p) ≤ 1 := by
  have hn := (List.nodup_iff_count.mp (wf_nodup p hwf)) c
  have h1 := count_stagesOf c p.setUp
  have h2 := count_stagesOf c p.body
  have h3 := count_stagesOf c p.tearDown
  simp only [allStages, List.map_append, List.count_append, regCount_append, isRoot, idsOf] at *
  omega

theorem regCount_mem (c : Nat) (l : List Stage) (x : Stage) (hx : x ∈ l) : (regsOf x.acts).count c ≤ regCount c l := by
  induction l with
  | nil => simp at hx
  | cons y l ih =>
    rw [regCount_cons]
    simp only [List.mem_cons] at hx
    rcases hx with rfl | hx
    · omega
    · have := ih hx; omega

theorem regCount_mem2 (c : Nat) (l : List Stage) (x y : Stage) (hx : x ∈ l) (hy : y ∈ l) (hne : x ≠ y) :
    (regsOf x.acts).count c + (regsOf y.acts).count c ≤ regCount c l := by
  induction l with
  | nil => simp at hx
  | cons z l ih =>
    rw [regCount_cons]
    simp only [List.mem_cons] at hx hy
    rcases hx with rfl | hx
    · rcases hy with rfl | hy
      · exact absurd rfl hne
      · have := regCount_mem c l y hy; omega
    · rcases hy with rfl | hy
      · have := regCount_mem c l x hx; omega
      · have := ih hx hy; omega

/-- each stage registers a child at most once -/
theorem regs_nodup (p : Program) (hwf : wf p = true) (x : Stage) (hx : x ∈ allStages p) : (regsOf x.acts).Nodup := by
  rw [List.nodup_iff_count]
  intro c
  have := regCount_le_one p hwf c
  have := regCount_mem c _ x hx
  omega

/-- a stage has at most one parent -/
theorem parent_unique (p : Program) (hwf : wf p = true) (x y : Stage) (hx : x ∈ allStages p) (hy : y ∈ allStages p)
    (c : Nat) (hcx : c ∈ regsOf x.acts) (hcy : c ∈ regsOf y.acts) : x = y := by
  apply Classical.byContradiction
  intro hne
  have := regCount_le_one p hwf c
  have := regCount_mem2 c _ x y hx hy hne
  have h1 := List.one_le_count_iff.mpr hcx
  have h2 := List.one_le_count_iff.mpr hcy
  omega

/-- setUp, the test method and tearDown are not registered by anybody -/
theorem root_not_child (p : Program) (hwf : wf p = true) (r : Stage)
    (hr : r = p.setUp ∨ r = p.body ∨ r = p.tearDown) (x : Stage) (hx : x ∈ allStages p) : r.id ∉ regsOf x.acts := by
  intro hc
  have := regCount_le_one p hwf r.id
  have := regCount_mem r.id _ x hx
  have h1 := List.one_le_count_iff.mpr hc
  have : 1 ≤ isRoot p r.id := by
    unfold isRoot
    rcases hr with rfl | rfl | rfl <;> simp <;> omega
  omega

/-- a registered stage is strictly smaller than the registering one -/
theorem regs_size (acts : List Act) (c : Stage) (h : childOf c acts) : c.size < 1 + Act.sizeList acts := by
  induction acts with
  | nil => rcases h with h | ⟨_, _, h⟩ <;> simp at h
  | cons a as ih =>
    have step : childOf c as → c.size < 1 + Act.sizeList (a :: as) := by
      intro h'; have := ih h'; simp only [Act.sizeList]; omega
    rcases h with h | ⟨f, ds, h⟩
    · simp only [List.mem_cons] at h
      rcases h with rfl | h
      · simp only [Act.sizeList, Act.size]; omega
      · exact step (Or.inl h)
    · simp only [List.mem_cons] at h
      rcases h with rfl | h
      · simp only [Act.sizeList, Act.size]; omega
      · exact step (Or.inr ⟨f, ds, h⟩)

theorem not_self_child (st : Stage) : ¬ childOf st st.acts := by
  intro h
  have := regs_size st.acts st h
  cases st with
  | mk i acts t => simp [Stage.size, Stage.acts] at this

theorem child_mem_regs (c : Stage) : ∀ (acts : List Act), childOf c acts → c.id ∈ regsOf acts
  | [], h => by rcases h with h | ⟨_, _, h⟩ <;> simp at h
  | a :: as, h => by
    have ih := child_mem_regs c as
    have step : childOf c as → c.id ∈ regsOf (a :: as) := by
      intro h'; have := ih h'; cases a <;> simp [regsOf, this]
    rcases h with h | ⟨f, ds, h⟩
    · simp only [List.mem_cons] at h
      rcases h with rfl | h
      · simp [regsOf]
      · exact step (Or.inl h)
    · simp only [List.mem_cons] at h
      rcases h with rfl | h
      · simp [regsOf]
      · exact step (Or.inr ⟨f, ds, h⟩)

/-- with distinct ids, a stage of the program is determined by its id -/
theorem stage_eq_of_id (p : Program) (hwf : wf p = true) (x y : Stage) (hx : x ∈ allStages p) (hy : y ∈ allStages p)
    (h : x.id = y.id) : x = y := by
  have h1 := findStage_of_mem p hwf x hx
  have h2 := findStage_of_mem p hwf y hy
  rw [h, h2] at h1
  cases h1; rfl

/-- ids of nested stages differ from the ids of the three main stages -/
theorem nested_id_ne_root (p : Program) (hwf : wf p = true) (x : Stage) (hx : x ∈ nested p) (r : Stage)
    (hr : r = p.setUp ∨ r = p.body ∨ r = p.tearDown) : x.id ≠ r.id := by
  intro he
  have hn := (List.nodup_iff_count.mp (wf_nodup p hwf)) r.id
  -- `x` occurs among the nested ids, `r` as a root: two occurrences of the same id
  have hx' : 1 ≤ (idsOf (nested p)).count r.id := by
    rw [List.one_le_count_iff, ← he]; exact List.mem_map_of_mem hx
  have hroot : 1 ≤ isRoot p r.id := by
    unfold isRoot
    rcases hr with rfl | rfl | rfl <;> simp <;> omega
  have : (idsOf (allStages p)).count r.id = isRoot p r.id + (idsOf (nested p)).count r.id := by
    simp only [allStages_eq, nested, idsOf, List.map_append, List.map_cons, List.count_append, List.count_cons, isRoot,
      List.cons_append, beq_iff_eq]
    omega
  simp only [idsOf] at this hx'
  omega

end TTV.Spec.Run
