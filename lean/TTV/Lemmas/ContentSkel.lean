import TTV.Model.ContentSkel
/-! The reference terms mean the hand-written model functions. -/
namespace TTV.ContentSkel
open TTV.Content

/-! ### `_iter_text` -/
theorem iterTextFrom_feedAll {σ : Type} (D : Decoder σ) : ∀ (chunks : List Bytes) (s : σ),
    iterTextFrom D s chunks = (match feedAll D s chunks with
      | none => none
      | some (s', ps) => (D.flush s').map fun f => ps ++ (if f.isEmpty then [] else [f])) := by
  intro chunks
  induction chunks with
  | nil => intro s; simp [iterTextFrom, feedAll]
  | cons c cs ih =>
    intro s
    simp only [iterTextFrom, feedAll]
    cases D.feed s c with
    | none => rfl
    | some r =>
      obtain ⟨s', o⟩ := r
      simp only [ih s']
      cases feedAll D s' cs with
      | none => rfl
      | some r2 =>
        obtain ⟨s'', ps⟩ := r2
        simp only [Option.map_some]
        cases D.flush s'' <;> simp

theorem iterTextI_ref {σ : Type} (D : Decoder σ) (chunks : List Bytes) :
    iterTextI D chunks refIterText = some (iterText D chunks) := by
  cases hfa : feedAll D D.init chunks with
  | none => simp [iterTextI, refIterText, List.foldl, textStep, iterText, iterTextFrom_feedAll, hfa]
  | some r =>
    obtain ⟨s', ps⟩ := r
    cases hfl : D.flush s' with
    | none => simp [iterTextI, refIterText, List.foldl, textStep, iterText, iterTextFrom_feedAll, hfa, hfl]
    | some f => simp [iterTextI, refIterText, List.foldl, textStep, iterText, iterTextFrom_feedAll, hfa, hfl]

theorem defaultOf_ref : defaultOf refIterText = some .iso8859_1 := rfl

/-! ### `content_from_reader` -/
theorem readerI_ref (bufferNow : Bool) (cs : List Bytes) :
    readerI bufferNow cs refReader .evaluateEachTime = some (if bufferNow then .buffered cs else .evaluateEachTime) := by
  simp [readerI, refReader]

/-! ### `_iter_chunks` -/
theorem loopI_ref (n : Nat) : ∀ (f : Nat) (rem : Bytes) (caps : List Nat) (out : List Bytes),
    let c := rem.take (readLimit n caps)
    loopI n refChunks.body f { rem := rem.drop c.length, caps := caps.tail, cur := some c, out := out }
      = { rem := (loopI n refChunks.body f { rem := rem.drop c.length, caps := caps.tail, cur := some c, out := out }).rem,
          caps := (loopI n refChunks.body f { rem := rem.drop c.length, caps := caps.tail, cur := some c, out := out }).caps,
          cur := (loopI n refChunks.body f { rem := rem.drop c.length, caps := caps.tail, cur := some c, out := out }).cur,
          out := out ++ chunksF f n caps rem, bad := false } := by
  intro f
  induction f with
  | zero => intro rem caps out; simp [loopI, chunksF]
  | succ f ih =>
    intro rem caps out
    simp only [loopI, chunksF]
    by_cases h : (List.take (readLimit n caps) rem).isEmpty = true
    · simp [h]
    · simp only [h, Bool.false_eq_true, if_false, refChunks, List.foldl, bodyStep, cRead]
      have := ih (rem.drop (List.take (readLimit n caps) rem).length) caps.tail (out ++ [List.take (readLimit n caps) rem])
      simp only [refChunks] at this
      rw [this]
      simp

theorem chunksI_ref (n : Nat) (caps : List Nat) (rem : Bytes) : chunksI refChunks n caps rem = some (chunks n caps rem) := by
  have h := loopI_ref n (rem.length + 1) rem caps []
  simp only [chunksI, refChunks, List.foldl, preStep, cRead, Option.isSome_none, Bool.false_eq_true, if_false] at h ⊢
  rw [h]
  simp [chunks]

theorem loopTrueI_ref (n : Nat) : ∀ (f : Nat) (rem : Bytes) (caps : List Nat) (cur : Option Bytes) (out : List Bytes),
    (loopTrueI n refChunksRotated.body f { rem := rem, caps := caps, cur := cur, out := out }).out = out ++ chunksF f n caps rem
    ∧ (loopTrueI n refChunksRotated.body f { rem := rem, caps := caps, cur := cur, out := out }).bad = false := by
  intro f
  induction f with
  | zero => intro rem caps cur out; simp [loopTrueI, chunksF]
  | succ f ih =>
    intro rem caps cur out
    simp only [loopTrueI, chunksF, refChunksRotated, List.foldl, bodyStep, cRead, Bool.false_eq_true, if_false]
    by_cases h : (List.take (readLimit n caps) rem).isEmpty = true
    · simp [h]
    · simp only [h, Bool.false_eq_true, if_false]
      have := ih (rem.drop (List.take (readLimit n caps) rem).length) caps.tail (some (List.take (readLimit n caps) rem))
        (out ++ [List.take (readLimit n caps) rem])
      simp only [refChunksRotated] at this
      simpa using this

theorem chunksI_refRotated (n : Nat) (caps : List Nat) (rem : Bytes) :
    chunksI refChunksRotated n caps rem = some (chunks n caps rem) := by
  have h := loopTrueI_ref n (rem.length + 1) rem caps none []
  simp only [refChunksRotated] at h
  simp only [chunksI, refChunksRotated, List.foldl, preStep, Option.isSome_none, Bool.false_eq_true, if_false, h.2]
  simp [h.1, chunks]

/-! ### `__repr__` -/
theorem replace1_append (c : Nat) (rep a b : Text) : replace1 c rep (a ++ b) = replace1 c rep a ++ replace1 c rep b := by
  simp [replace1]

theorem quoteI_ref (v : Text) : quoteI refRepr.quote v = quoteValue v := by
  simp only [refRepr, quoteI, List.foldl]
  induction v with
  | nil => rfl
  | cons c cs ih =>
    have hc : replace1 92 [92, 92] (c :: cs) = (if c = 92 then [92, 92] else [c]) ++ replace1 92 [92, 92] cs := by
      simp [replace1]
    rw [hc, replace1_append, ih]
    simp only [quoteValue, chBackslash, chQuote]
    by_cases h1 : c = 92
    · subst h1; simp [replace1]
    · by_cases h2 : c = 34
      · subst h2; simp [replace1]
      · simp [replace1, h1, h2]

theorem itemI_ref (p : Text × Text) : itemI refRepr p = renderParam p := by
  have := quoteI_ref p.2
  simp only [itemI, renderParam, chEq, chQuote]
  simp only [refRepr] at this ⊢
  simp [this]

theorem joinI_ref : ∀ xs : List Text, xs ≠ [] → [59, 32] ++ joinI [59, 32] xs = joinParams xs
  | [], h => absurd rfl h
  | [x], _ => by simp [joinI, joinParams, chSemi, chSpace]
  | x :: y :: xs, _ => by
      have ih := joinI_ref (y :: xs) (by simp)
      rw [joinI, joinParams, ← ih]
      simp [chSemi, chSpace]

theorem renderI_ref (ct : CT) : renderI refRepr ct = render ct := by
  have hmap : ct.params.map (itemI refRepr) = ct.params.map renderParam := List.map_congr_left (fun p _ => itemI_ref p)
  simp only [renderI, render, hmap]
  simp only [refRepr, if_true, Bool.true_and, chSlash]
  cases hps : ct.params with
  | nil => simp [joinParams]
  | cons p ps =>
    have hne : (List.map renderParam (p :: ps)).mergeSort lexLe ≠ [] := by
      intro h0
      have := (List.mergeSort_perm (List.map renderParam (p :: ps)) lexLe).length_eq
      rw [h0] at this
      simp at this
    have hj := joinI_ref _ hne
    simp only [List.map_cons] at hj ⊢
    simp [← hj]

/-! ### the charset work-around -/
theorem fixI_ref (ps : List (Text × Text)) : fixI refFix ps = fixCharset ps := by
  by_cases h : (ps.any fun x => x.1 == charsetName) = true
  · simp [fixI, refFix, fixCharset, cutAt, h]
  · have h' : ∀ p ∈ ps, ¬ p.1 = charsetName := by
      simpa only [Bool.not_eq_true, List.any_eq_false, beq_iff_eq] using h
    have e : fixI refFix ps = ps := by simp [fixI, refFix, h]
    rw [e, fixCharset]
    conv => lhs; rw [← List.map_id ps]
    apply List.map_congr_left
    intro p hp
    simp [h' p hp]

end TTV.ContentSkel
