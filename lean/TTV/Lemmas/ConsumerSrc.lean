import TTV.Model.ConsumerSrc
/-! The reference terms mean the hand-written consumer model. -/
namespace TTV.ConsumerSrc
open TTV.Stream

theorem updInterp_ref (r : Report) (e : Event) :
    updInterp refUpdStatus refUpdTs1 refUpdDetails refUpdTags r e = some (upd r e) := by
  obtain ⟨tid, st, tg, rn, fn, fb, eof, mi, rt, ts⟩ := e
  rcases fb with _ | _ | ⟨b, bs⟩ <;> cases st <;> cases tg <;> cases ts <;> cases fn <;> cases mi <;>
    simp [updInterp, refUpdStatus, refUpdTs1, refUpdDetails, refUpdTags, ueval, ofOpt, upd]

/-! table facts -/
theorem get_set_self (t : Tbl) (k : Key) (a : Report) : (t.set k a).get k = some a := by
  induction t with
  | nil => simp [Tbl.set, Tbl.get]
  | cons p t ih =>
    obtain ⟨k2, a2⟩ := p
    simp only [Tbl.set]
    split
    · simp [Tbl.get]
    · simp [Tbl.get, *]

theorem set_set (t : Tbl) (k : Key) (a b : Report) : (t.set k a).set k b = t.set k b := by
  induction t with
  | nil => simp [Tbl.set]
  | cons p t ih =>
    obtain ⟨k2, a2⟩ := p
    simp only [Tbl.set]
    split
    · simp [Tbl.set]
    · simp [Tbl.set, *]

theorem del_set (t : Tbl) (k : Key) (a : Report) : (t.set k a).del k = t.del k := by
  induction t with
  | nil => simp [Tbl.set, Tbl.del]
  | cons p t ih =>
    obtain ⟨k2, a2⟩ := p
    simp only [Tbl.set]
    split
    · rename_i h; subst h; simp [Tbl.del]
    · simp [Tbl.del, *]

theorem set_get_self (t : Tbl) (k : Key) (a : Report) (h : t.get k = some a) : t.set k a = t := by
  induction t with
  | nil => simp [Tbl.get] at h
  | cons p t ih =>
    obtain ⟨k2, a2⟩ := p
    simp only [Tbl.get] at h
    simp only [Tbl.set]
    split
    · rename_i hk; subst hk; simp at h; subst h; rfl
    · rename_i hk; simp only [hk, if_false] at h; rw [ih h]

/-- `status()` as found in the source, with `_update_case` as found in the source, is the model's `statusF` -/
theorem sInterp_ref (faults : List Nat) (s : FSt) (e : Event) :
    let r := sInterp faults (updInterp refUpdStatus refUpdTs1 refUpdDetails refUpdTags) refEnsureKey e refRecordStatus
      { tbl := s.tbl, n := s.n }
    r.bad = false ∧ (({ tbl := r.tbl, n := r.n } : FSt), r.handed, r.raised) = statusF faults s e := by
  have hupd : ∀ r, (updInterp refUpdStatus refUpdTs1 refUpdDetails refUpdTags r e) = some (upd r e) := fun r => updInterp_ref r e
  cases hid : e.testId with
  | none =>
    have hk : key e = none := by simp [key, hid]
    simp [refRecordStatus, refEnsureKey, sInterp, eInterp, hid, statusF, step, hk]
  | some id =>
    have hk : key e = some (id, e.route) := by simp [key, hid]
    cases hg : s.tbl.get (id, e.route) with
    | none =>
      by_cases hf : isFinal e = true
      · by_cases hm : s.n ∈ faults <;>
          simp [refRecordStatus, refEnsureKey, sInterp, eInterp, hid, statusF, step, hk, hg, get_set_self, hupd, hf, hInterp,
            set_set, del_set, hm]
      · simp [refRecordStatus, refEnsureKey, sInterp, eInterp, hid, statusF, step, hk, hg, get_set_self, hupd, hf, set_set]
    | some rec =>
      by_cases hf : isFinal e = true
      · by_cases hm : s.n ∈ faults <;>
          simp [refRecordStatus, refEnsureKey, sInterp, eInterp, hid, statusF, step, hk, hg, get_set_self, hupd, hf, hInterp,
            del_set, hm]
      · simp [refRecordStatus, refEnsureKey, sInterp, eInterp, hid, statusF, step, hk, hg, hupd, hf]

theorem dInterp_ref (faults : List Nat) (l : List (Key × Report)) (n : Nat) :
    dInterp faults refRecordStop l n = stopLoop faults l n := by
  simp only [refRecordStop, dInterp]
  rcases h : stopLoop faults l n with ⟨a, b, c, d⟩
  cases d <;> simp

theorem fStatus_refExt (es : List Event) :
    es.filterMap (fStatus · refExtStatus) = es.filter fun e => e.status != some .exist := by
  induction es with
  | nil => rfl
  | cons e es ih =>
    rw [List.filterMap_cons, List.filter_cons, ih]
    by_cases h : e.status = some .exist
    · simp [fStatus, refExtStatus, h]
    · have : (e.status == some .exist) = false := by simpa using h
      have h2 : (e.status != some .exist) = true := by simpa using h
      simp [fStatus, refExtStatus, this, h2]

theorem fStatus_refDict (es : List Event) : es.filterMap (fStatus · refDictStatus) = es := by
  induction es with
  | nil => rfl
  | cons e es ih => rw [List.filterMap_cons, ih]; simp [fStatus, refDictStatus]

theorem bracketsG_ref (faults : List Nat) : ∀ (rs : List Report) (n : Nat),
    bracketsG refExtHandle faults n rs = bracketsF faults n rs
  | [], _ => rfl
  | r :: rs, n => by
      rw [bracketsG, bracketsF, bracketsG_ref faults rs (n + 1)]
      simp [gExt, refExtHandle]

theorem bracketsF_append (faults : List Nat) : ∀ (a b : List Report) (n : Nat),
    bracketsF faults n (a ++ b) = bracketsF faults n a ++ bracketsF faults (n + a.length) b
  | [], b, n => by simp [bracketsF]
  | r :: a, b, n => by
      simp only [List.cons_append, bracketsF, bracketsF_append faults a b (n + 1), List.append_assoc, List.length_cons]
      congr 3; omega

theorem extInterp_ref (faults : List Nat) (es : List Event) :
    extInterp refExtStatus refExtStart refExtStop refExtHandle faults es = toExtendedF faults es := by
  simp only [extInterp, toExtendedF, consumeF, fStatus_refExt, refExtStart, refExtStop, fCtl, bracketsG_ref,
    bracketsF_append, List.append_nil, Nat.zero_add]
  simp

end TTV.ConsumerSrc
