import TTV.Lemmas.RunTrace
/-! Facts about the handler table (incl. the rows generated from the source) and exception selection. -/
namespace TTV.Run
open TTV.Spec.Run

theorem ancestors_self (c : Cls) : c ∈ c.ancestors := by
  cases c <;> simp [Cls.ancestors]

theorem ancestors_trans : ∀ (a b : Cls), b ∈ a.ancestors → ∀ c, c ∈ b.ancestors → c ∈ a.ancestors
  | .base, b, hb, c, hc => by simp [Cls.ancestors] at hb; subst hb; exact hc
  | .exc, b, hb, c, hc => by
      simp [Cls.ancestors] at hb; rcases hb with rfl | rfl <;> simp_all [Cls.ancestors]
  | .skip, b, hb, c, hc => by
      simp [Cls.ancestors] at hb; rcases hb with rfl | rfl | rfl <;> simp_all [Cls.ancestors]
  | .failure, b, hb, c, hc => by
      simp [Cls.ancestors] at hb; rcases hb with rfl | rfl | rfl <;> simp_all [Cls.ancestors]
  | .xfail, b, hb, c, hc => by
      simp [Cls.ancestors] at hb; rcases hb with rfl | rfl | rfl <;> simp_all [Cls.ancestors]
  | .uxs, b, hb, c, hc => by
      simp [Cls.ancestors] at hb; rcases hb with rfl | rfl | rfl <;> simp_all [Cls.ancestors]
  | .ki, b, hb, c, hc => by
      simp [Cls.ancestors] at hb; rcases hb with rfl | rfl <;> simp_all [Cls.ancestors]
  | .sysexit, b, hb, c, hc => by
      simp [Cls.ancestors] at hb; rcases hb with rfl | rfl <;> simp_all [Cls.ancestors]
  | .user i p, b, hb, c, hc => by
      simp only [Cls.ancestors, List.mem_cons] at hb ⊢
      rcases hb with rfl | hb
      · simpa [Cls.ancestors] using hc
      · exact Or.inr (ancestors_trans p b hb c hc)

/-- `isinstance` is transitive along the class hierarchy -/
theorem isSub_trans {a b c : Cls} (h1 : isSub a b = true) (h2 : isSub b c = true) : isSub a c = true := by
  simp only [isSub, decide_eq_true_eq] at *
  exact ancestors_trans a b h1 c h2

theorem claimed_iff (hs : Handlers) (e : Exc) : claimed hs e = hs.any (fun h => isSub e.cls h.1) := by
  simp only [claimed, handlerFor, Option.isSome_map]
  induction hs with
  | nil => rfl
  | cons h hs ih =>
    simp only [List.find?_cons, List.any_cons]
    cases isSub e.cls h.1 <;> simp [ih]

/-- from the generated table: every default handler class derives from `Exception` … -/
theorem default_classes_exc : defaultHandlers.all (fun h => isSub h.1 .exc) = true := by decide
/-- … and `Exception` itself is handled (the catch-all row) -/
theorem default_has_exc : defaultHandlers.any (fun h => h.1 == Cls.exc) = true := by decide

/-- with user handlers only for `Exception` subclasses: claimed ⇔ derives from `Exception` -/
theorem claimed_iff_exc (p : Program) (hwf : wf p = true) (e : Exc) :
    claimed (handlers p) e = isSub e.cls .exc := by
  have hu : p.userHandlers.all (fun h => isSub h.1 .exc) = true := wf_handlers p hwf
  rw [claimed_iff]
  cases hsub : isSub e.cls .exc with
  | true =>
    simp only [handlers, List.any_append, Bool.or_eq_true]
    right
    have := default_has_exc
    simp only [List.any_eq_true] at this ⊢
    obtain ⟨h, hm, hc⟩ := this
    exact ⟨h, hm, by simpa [beq_iff_eq.mp hc] using hsub⟩
  | false =>
    rw [Bool.eq_false_iff]
    intro hany
    simp only [handlers, List.any_append, Bool.or_eq_true, List.any_eq_true] at hany
    have hall : ∀ h ∈ p.userHandlers ++ defaultHandlers, isSub h.1 .exc = true := by
      intro h hm
      simp only [List.mem_append] at hm
      rcases hm with hm | hm
      · exact List.all_eq_true.mp hu h hm
      · exact List.all_eq_true.mp default_classes_exc h hm
    rcases hany with ⟨h, hm, hc⟩ | ⟨h, hm, hc⟩
    · have := isSub_trans hc (hall h (List.mem_append_left _ hm)); simp [hsub] at this
    · have := isSub_trans hc (hall h (List.mem_append_right _ hm)); simp [hsub] at this

/-- if the selected exception has a handler, every exception of the run has one -/
theorem select_handled_all (hs : Handlers) (es : List Exc) (e : Exc) (r : Reporter)
    (hsel : select hs es = some e) (hh : handlerFor hs e = some r) : ∀ x ∈ es, claimed hs x = true := by
  unfold select at hsel
  split at hsel
  · rename_i x hx
    cases hsel
    have := List.find?_some hx
    simp [claimed, hh] at this
  · rename_i hnone
    intro x hx
    have := List.find?_eq_none.mp hnone x hx
    simpa using this

/-- an unclaimed exception, if there is one, is what gets selected (the first such) -/
theorem select_unclaimed (hs : Handlers) (es : List Exc) (h : ∃ e ∈ es, claimed hs e = false) :
    ∃ e, select hs es = some e ∧ claimed hs e = false := by
  unfold select
  split
  · rename_i e he
    exact ⟨e, rfl, by simpa using List.find?_some he⟩
  · rename_i hnone
    obtain ⟨e, hmem, hc⟩ := h
    have := List.find?_eq_none.mp hnone e hmem
    simp [hc] at this

end TTV.Run
