import TTV.Lemmas.RunFrame
import TTV.Spec.RunCommon
/-! What one stage execution does to the control part of the state. -/
namespace TTV.Run
open TTV.Spec.Run

theorem runTerm_snd (t : Term) (s : RS) :
    (runTerm t s).2 = (termObj t).map (fun o => (termExcs t, o)) := by
  cases t <;> simp [runTerm, termObj, termExcs]
  case expectFailure r eo x => cases eo <;> simp

@[simp] theorem runTerm_log (t : Term) (s : RS) : (runTerm t s).1.log = s.log := by
  cases t <;> simp [runTerm]
  case expectFailure r eo x => cases eo <;> simp
@[simp] theorem runTerm_excs (t : Term) (s : RS) : (runTerm t s).1.excs = s.excs := by
  cases t <;> simp [runTerm]
  case expectFailure r eo x => cases eo <;> simp
@[simp] theorem runTerm_ff (t : Term) (s : RS) : (runTerm t s).1.ff = s.ff := by
  cases t <;> simp [runTerm]
  case expectFailure r eo x => cases eo <;> simp
@[simp] theorem runTerm_execd (t : Term) (s : RS) : (runTerm t s).1.execd = s.execd := by
  cases t <;> simp [runTerm]
  case expectFailure r eo x => cases eo <;> simp
@[simp] theorem runTerm_nOnExc (t : Term) (s : RS) : (runTerm t s).1.nOnExc = s.nOnExc := by
  cases t <;> simp [runTerm]
  case expectFailure r eo x => cases eo <;> simp
@[simp] theorem runTerm_clock (t : Term) (s : RS) : (runTerm t s).1.clock = s.clock := by
  cases t <;> simp [runTerm]
  case expectFailure r eo x => cases eo <;> simp
@[simp] theorem runTerm_ran (t : Term) (s : RS) : (runTerm t s).1.ran = s.ran := by
  cases t <;> simp [runTerm]
  case expectFailure r eo x => cases eo <;> simp
@[simp] theorem runTerm_stack' (t : Term) (s : RS) : (runTerm t s).1.stack = s.stack := runTerm_stack t s

/-- exceptions a stage hands to the runner, with (`d = true`) or without the expectedFailure decorator -/
def excsD (d : Bool) (t : Term) : List Exc := if d then decoExcs t else termExcs t

theorem termObj_none_iff (t : Term) : termObj t = none ↔ t = .ret := by
  cases t <;> simp [termObj]

theorem termExcs_nil_iff (t : Term) : termExcs t = [] ↔ t = .ret := by
  cases t <;> simp [termExcs]
  case raiseMulti es me => split <;> simp_all

theorem excsD_ne_nil (d : Bool) (t : Term) (h : d = true ∨ t ≠ .ret) : excsD d t ≠ [] := by
  unfold excsD
  cases d with
  | true =>
    simp only [if_true, decoExcs]
    cases ho : termObj t with
    | none => simp
    | some o =>
      simp only
      split
      · simp
      · intro hn
        have := (termExcs_nil_iff t).mp hn
        rw [this] at ho; simp [termObj] at ho
  | false =>
    simp only [Bool.false_eq_true, if_false]
    intro hn
    rcases h with h | h
    · cases h
    · exact h ((termExcs_nil_iff t).mp hn)

/-- what `runStage` does once actions and terminal have run -/
def finish (d : Bool) (t : Term) (s2 : RS) : RS × Bool :=
  match d, termObj t with
  | true, none => (got s2 ⟨.uxs, 0⟩, false)
  | true, some obj =>
    if isSub obj.cls .exc then (got (reportTb s2 obj) ⟨.xfail, 0⟩, false) else (gotAll s2 (termExcs t), false)
  | false, none => (s2, true)
  | false, some _ => (gotAll s2 (termExcs t), false)

def stage0 (st : Stage) (s : RS) : RS :=
  { s with log := s.log ++ [.stage st.id], clock := s.clock + 1, execd := s.execd ++ [st] }

theorem runStage_eq (st : Stage) (d : Bool) (s : RS) :
    runStage st d s = finish d st.term (runTerm st.term (runActs st.acts (stage0 st s))).1 := by
  simp only [runStage, finish, stage0]
  have h := runTerm_snd st.term (runActs st.acts { s with log := s.log ++ [.stage st.id], clock := s.clock + 1, execd := s.execd ++ [st] })
  generalize runTerm st.term _ = pr at h ⊢
  obtain ⟨s2, r⟩ := pr
  simp only at h
  subst h
  cases d <;> cases termObj st.term <;> simp

theorem finish_snd (d : Bool) (t : Term) (s2 : RS) :
    (finish d t s2).2 = (!d && (termExcs t).isEmpty) := by
  unfold finish
  cases d <;> cases ho : termObj t <;> simp
  · have := (termObj_none_iff t).mp ho; subst this; simp [termExcs]
  · intro hn
    have := (termExcs_nil_iff t).mp hn
    subst this; simp [termObj] at ho
  · split <;> rfl

theorem finish_log (d : Bool) (t : Term) (s2 : RS) :
    (finish d t s2).1.log = s2.log ++ (excsD d t).flatMap (onExcCalls s2.nOnExc) := by
  unfold finish excsD decoExcs
  cases d <;> cases ho : termObj t <;> simp
  · have := (termObj_none_iff t).mp ho; subst this; simp [termExcs]
  · split <;> simp

theorem finish_excs (d : Bool) (t : Term) (s2 : RS) :
    (finish d t s2).1.excs = s2.excs ++ excsD d t := by
  unfold finish excsD decoExcs
  cases d <;> cases ho : termObj t <;> simp
  · have := (termObj_none_iff t).mp ho; subst this; simp [termExcs]
  · split <;> simp

theorem finish_frame (d : Bool) (t : Term) (s2 : RS) :
    (finish d t s2).1.execd = s2.execd ∧ (finish d t s2).1.ff = s2.ff ∧ (finish d t s2).1.nOnExc = s2.nOnExc ∧
    (finish d t s2).1.clock = s2.clock ∧ (finish d t s2).1.ran = s2.ran ∧ (finish d t s2).1.stack = s2.stack ∧
    (finish d t s2).1.attrs = s2.attrs := by
  unfold finish
  cases d <;> cases termObj t <;> simp
  · split <;> simp

/-- the result of `runStage` on the control fields -/
structure StageEffect (st : Stage) (d : Bool) (s s' : RS) (ok : Bool) : Prop where
  log    : s'.log = s.log ++ [.stage st.id] ++ (excsD d st.term).flatMap (onExcCalls s.nOnExc)
  excs   : s'.excs = s.excs ++ excsD d st.term
  ok     : ok = (!d && (termExcs st.term).isEmpty)
  execd  : s'.execd = s.execd ++ [st]
  ff     : s'.ff = (s.ff || st.acts.any actIsExpect')
  nOnExc : s'.nOnExc = s.nOnExc
  clock  : s'.clock = s.clock + 1
  ran    : s'.ran = s.ran
  sids   : stackIds s'.stack = (regIds st.acts).reverse ++ stackIds s.stack
  stages : ∀ c, Cl.stage c ∈ s'.stack ↔
      (Act.cleanup c ∈ st.acts ∨ ∃ f ds, Act.useFixture f ds c ∈ st.acts) ∨ Cl.stage c ∈ s.stack

theorem runStage_effect (st : Stage) (d : Bool) (s : RS) :
    StageEffect st d s (runStage st d s).1 (runStage st d s).2 := by
  rw [runStage_eq]
  obtain ⟨h1, h2, h3, h4, h5, h6, _⟩ := finish_frame d st.term (runTerm st.term (runActs st.acts (stage0 st s))).1
  constructor
  · rw [finish_log]; simp [stage0]
  · rw [finish_excs]; simp [stage0]
  · rw [finish_snd]
  · rw [h1]; simp [stage0]
  · rw [h2]; simp [stage0, runActs_ff]
  · rw [h3]; simp [stage0]
  · rw [h4]; simp [stage0]
  · rw [h5]; simp [stage0]
  · rw [h6]; simp [stage0, runActs_stackIds]
  · intro c; rw [h6]; simp [stage0, runActs_stack_stages]

end TTV.Run
