import TTV.Lemmas.RunCover
/-! All details invariants over a whole run, with shared ghost accumulators. -/
namespace TTV.Run
open TTV.Spec.Run TTV.Spec.C05

structure InvAll (p : Program) (s : RS) (T : List Exc) (A : List (DName × UC)) (U : List (DName × Content)) : Prop where
  d    : InvD p s T A U
  keys : KeyInv s A U
  cov  : Cov s U
  once : Once p s

theorem runCore_invAll (p : Program) (ff0 : Bool) (hwf : wf p = true) :
    ∃ T A U, InvAll p (runCore p ff0).1 T A U := by
  apply runCore_induct p ff0 hwf (fun s => ∃ T A U, InvAll p s T A U)
  · refine ⟨[], [], [], ⟨?_, ?_, ?_, ?_⟩⟩
    · refine ⟨J.init, ?_, ?_, ?_, ?_⟩
      · simp [initRS, tbFilter]
      · simp [initRS]
      · intro f ds hm; simp [initRS] at hm
      · simp [initRS]
    · constructor <;> simp [initRS, keysU, keysA, pendingKeys]
    · constructor <;> simp [initRS]
    · constructor
      · simp [initRS, stackIds]
      · intro x _ _ c _; simp [initRS, stackIds]
  · rintro st s hinv ⟨T, A, U, h⟩ hm
    refine ⟨_, _, _, ⟨h.d.stage hwf st hm.ok, h.keys.stage hwf st _ hm.ok.mem hm.fresh hinv.execdIn,
      h.cov.main st _ hm.noRan h.d.clock, ?_⟩⟩
    apply h.once.step hwf st _ hm.ok.mem hm.fresh
    · intro hc
      obtain ⟨x, hx, he⟩ := stackIds_mem _ _ hc
      exact nested_id_ne_root p hwf x (hinv.stackIn x hx) st hm.root he
    · intro x hx _
      exact root_not_child p hwf st hm.root x hx
  · rintro s c rest hinv ⟨T, A, U, h⟩ hs
    refine ⟨_, _, _, ⟨h.d.pop hwf hinv c rest hs, h.keys.pop hwf c rest hs ?_ hinv.execdIn, h.cov.pop c rest hs h.d.clock,
      h.once.pop hwf (fun x hx => nested_sub_all p x (hinv.stackIn x hx)) c rest hs⟩⟩
    intro st hc
    subst hc
    refine ⟨nested_sub_all p st (hinv.stackIn st (by rw [hs]; exact List.mem_cons_self)), ?_⟩
    have hnd := h.once.nodup
    rw [hs] at hnd
    simp only [stackIds] at hnd
    exact fun hm => (List.nodup_append.mp hnd).2.2 _ hm _ List.mem_cons_self rfl
  · rintro s _ ⟨T, A, U, h⟩ _ _
    refine ⟨_, _, _, ⟨h.d.forced, ?_, h.cov.forced, ?_⟩⟩
    · exact ⟨by rw [got_stack']; exact h.keys.nodup, by rw [got_stack', got_execd]; exact h.keys.origin⟩
    · exact ⟨by rw [got_execd, got_stack']; exact h.once.nodup, by rw [got_execd, got_stack']; exact h.once.fresh⟩

end TTV.Run
