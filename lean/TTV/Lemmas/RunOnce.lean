import TTV.Lemmas.RunInduct
import TTV.Lemmas.RunTree
/-! Every stage runs at most once: executed stages and stages waiting on the cleanup stack are pairwise
distinct, and nothing registered by a stage that has not run yet is executed or waiting. -/
namespace TTV.Run
open TTV.Spec.Run

theorem allStages_closed (p : Program) (x c : Stage) (hx : x ∈ allStages p) (hc : childOf c x.acts) : c ∈ allStages p := by
  simp only [allStages, List.mem_append] at hx ⊢
  rcases hx with (hx | hx) | hx
  · exact Or.inl (Or.inl (stagesOf_closed _ x c hx hc))
  · exact Or.inl (Or.inr (stagesOf_closed _ x c hx hc))
  · exact Or.inr (stagesOf_closed _ x c hx hc)

theorem regs_mem_child : ∀ (acts : List Act) (c : Nat), c ∈ regsOf acts → ∃ x, childOf x acts ∧ x.id = c
  | [], c, h => by simp [regsOf] at h
  | a :: as, c, h => by
    have ih := regs_mem_child as c
    have lift : (∃ x, childOf x as ∧ x.id = c) → ∃ x, childOf x (a :: as) ∧ x.id = c := by
      rintro ⟨x, hx, he⟩
      refine ⟨x, ?_, he⟩
      rcases hx with hx | ⟨f, ds, hx⟩
      · exact Or.inl (List.mem_cons_of_mem _ hx)
      · exact Or.inr ⟨f, ds, List.mem_cons_of_mem _ hx⟩
    cases a with
    | cleanup s =>
      simp only [regsOf, List.mem_cons] at h
      rcases h with rfl | h
      · exact ⟨s, Or.inl List.mem_cons_self, rfl⟩
      · exact lift (ih h)
    | useFixture f ds s =>
      simp only [regsOf, List.mem_cons] at h
      rcases h with rfl | h
      · exact ⟨s, Or.inr ⟨f, ds, List.mem_cons_self⟩, rfl⟩
      · exact lift (ih h)
    | addDetail n u => exact lift (ih (by simpa [regsOf] using h))
    | expect m ds => exact lift (ih (by simpa [regsOf] using h))
    | patch a v => exact lift (ih (by simpa [regsOf] using h))

theorem self_not_reg (p : Program) (hwf : wf p = true) (st : Stage) (hst : st ∈ allStages p) : st.id ∉ regsOf st.acts := by
  intro h
  obtain ⟨x, hx, he⟩ := regs_mem_child _ _ h
  have := stage_eq_of_id p hwf x st (allStages_closed p st x hst hx) hst he
  subst this
  exact not_self_child x hx

theorem stackIds_mem : ∀ (st : List Cl) (c : Nat), c ∈ stackIds st → ∃ x, Cl.stage x ∈ st ∧ x.id = c
  | [], c, h => by simp [stackIds] at h
  | .stage s :: r, c, h => by
    simp only [stackIds, List.mem_cons] at h
    rcases h with rfl | h
    · exact ⟨s, List.mem_cons_self, rfl⟩
    · obtain ⟨x, hx, he⟩ := stackIds_mem r c h
      exact ⟨x, List.mem_cons_of_mem _ hx, he⟩
  | .gather _ _ :: r, c, h => by
    obtain ⟨x, hx, he⟩ := stackIds_mem r c (by simpa [stackIds] using h)
    exact ⟨x, List.mem_cons_of_mem _ hx, he⟩
  | .unpatch _ _ :: r, c, h => by
    obtain ⟨x, hx, he⟩ := stackIds_mem r c (by simpa [stackIds] using h)
    exact ⟨x, List.mem_cons_of_mem _ hx, he⟩

structure Once (p : Program) (s : RS) : Prop where
  nodup : (s.execd.map Stage.id ++ stackIds s.stack).Nodup
  fresh : ∀ x ∈ allStages p, x.id ∉ s.execd.map Stage.id → ∀ c ∈ regsOf x.acts,
            c ∉ s.execd.map Stage.id ++ stackIds s.stack

theorem Once.step {p : Program} {s : RS} (hwf : wf p = true) (h : Once p s) (st : Stage) (d : Bool)
    (hst : st ∈ allStages p) (hne : st.id ∉ s.execd.map Stage.id) (hns : st.id ∉ stackIds s.stack)
    (hpar : ∀ x ∈ allStages p, x.id ∉ s.execd.map Stage.id → st.id ∉ regsOf x.acts) :
    Once p (runStage st d s).1 := by
  have e := runStage_effect st d s
  have hR := regs_nodup p hwf st hst
  have hfr := h.fresh st hst hne
  have hself := self_not_reg p hwf st hst
  constructor
  · rw [e.execd, e.sids, regIds_eq]
    have hperm : (List.map Stage.id (s.execd ++ [st]) ++ ((regsOf st.acts).reverse ++ stackIds s.stack)).Perm
        (st.id :: (regsOf st.acts ++ (s.execd.map Stage.id ++ stackIds s.stack))) := by
      rw [List.perm_iff_count]
      intro a
      simp only [List.map_append, List.map_cons, List.map_nil, List.count_append, List.count_cons, List.count_nil,
        List.count_reverse]
      omega
    apply hperm.symm.nodup
    rw [List.nodup_cons, List.nodup_append]
    refine ⟨?_, hR, h.nodup, ?_⟩
    · simp only [List.mem_append, not_or]
      exact ⟨hself, hne, hns⟩
    · intro a ha b hb hab
      subst hab
      exact hfr a ha hb
  · intro x hx hxe c hc
    rw [e.execd] at hxe
    simp only [List.map_append, List.map_cons, List.map_nil, List.mem_append, List.mem_singleton, not_or] at hxe
    have h1 := h.fresh x hx hxe.1 c hc
    rw [e.execd, e.sids, regIds_eq]
    simp only [List.map_append, List.map_cons, List.map_nil, List.mem_append, List.mem_singleton, List.mem_reverse,
      not_or] at h1 ⊢
    refine ⟨⟨h1.1, ?_⟩, ?_, h1.2⟩
    · intro hcs; subst hcs
      exact hpar x hx hxe.1 hc
    · intro hcr
      have := parent_unique p hwf x st hx hst c hc hcr
      exact hxe.2 (by rw [this])

theorem Once.popFrame {p : Program} {s : RS} (h : Once p s) (c : Cl) (rest : List Cl) (hs : s.stack = c :: rest) :
    Once p { s with stack := rest } := by
  have hsub : (stackIds rest).Sublist (stackIds s.stack) := by
    rw [hs]; cases c <;> simp [stackIds]
  constructor
  · exact List.Nodup.sublist (List.Sublist.append (List.Sublist.refl _) hsub) h.nodup
  · intro x hx hxe c' hc hm
    apply h.fresh x hx hxe c' hc
    simp only [List.mem_append] at hm ⊢
    rcases hm with hm | hm
    · exact Or.inl hm
    · exact Or.inr (hsub.subset hm)

theorem Once.pop {p : Program} {s : RS} (hwf : wf p = true) (h : Once p s)
    (hin : ∀ x, Cl.stage x ∈ s.stack → x ∈ allStages p) (c : Cl) (rest : List Cl)
    (hs : s.stack = c :: rest) : Once p (runCl c { s with stack := rest }) := by
  have h0 := h.popFrame c rest hs
  cases c with
  | stage st =>
    have hnd := h.nodup
    rw [hs] at hnd
    simp only [stackIds] at hnd
    have hnd' := List.nodup_append.mp hnd
    have hne : st.id ∉ s.execd.map Stage.id := fun hm => hnd'.2.2 _ hm _ List.mem_cons_self rfl
    have hns : st.id ∉ stackIds rest := (List.nodup_cons.mp hnd'.2.1).1
    have := h0.step hwf st false (hin st (by rw [hs]; exact List.mem_cons_self)) hne hns (by
      intro x hx hxe hc
      apply h.fresh x hx hxe st.id hc
      rw [hs]; simp [stackIds])
    simp only [runCl]
    exact ⟨this.nodup, this.fresh⟩
  | gather f ds => simp only [runCl]; exact ⟨h0.nodup, h0.fresh⟩
  | unpatch a o => simp only [runCl]; exact ⟨h0.nodup, h0.fresh⟩

/-- every stage is executed at most once, and nothing is left behind -/
theorem runCore_once (p : Program) (ff0 : Bool) (hwf : wf p = true) : Once p (runCore p ff0).1 := by
  apply runCore_induct p ff0 hwf (Once p)
  · constructor
    · simp [initRS, stackIds]
    · intro x _ _ c _; simp [initRS, stackIds]
  · intro st s hinv h hm
    apply h.step hwf st _ hm.ok.mem hm.fresh
    · intro hc
      obtain ⟨x, hx, he⟩ := stackIds_mem _ _ hc
      exact nested_id_ne_root p hwf x (hinv.stackIn x hx) st hm.root he
    · intro x hx _
      exact root_not_child p hwf st hm.root x hx
  · intro s c rest hinv h hs
    exact h.pop hwf (fun x hx => nested_sub_all p x (hinv.stackIn x hx)) c rest hs
  · intro s _ h _ _
    exact ⟨by rw [got_execd, got_stack']; exact h.nodup, by rw [got_execd, got_stack']; exact h.fresh⟩

theorem runCore_execd_nodup (p : Program) (ff0 : Bool) (hwf : wf p = true) :
    ((runCore p ff0).1.execd.map Stage.id).Nodup :=
  (List.nodup_append.mp (runCore_once p ff0 hwf).nodup).1

end TTV.Run
