import TTV.Lemmas.RunDetails
/-! The details invariant `J` of M-Run, with ghost accumulators: `T` = tracebacks reported so far, `A` = plain
`addDetail` calls so far, `U` = details added under unique names so far (original name, stored content). -/
namespace TTV.Run
open TTV.Spec.Run TTV.Spec.C05

def tbOf : DName × Content → Option Exc
  | (_, .tb e) => some e
  | (_, .user _) => none
  | (_, .frozen _ _) => none
  | (_, .expectation _) => none
  | (_, .reason _) => none

theorem tbsIn_eq (d : Details) : tbsIn d = d.filterMap tbOf := by
  unfold tbsIn
  congr 1
  funext x
  obtain ⟨n, c⟩ := x
  cases c <;> rfl

/-- content kinds stored by `addDetailUniqueName` / `gather_details` -/
def isUq : Content → Bool
  | .user _ => true
  | .frozen _ _ => true
  | .expectation _ => true
  | .tb _ => false
  | .reason _ => false

/-- entries that were stored under a unique name: not (re)set by a plain `addDetail` -/
def uqEntries (d : Details) (pl : List DName) : Details := d.filter fun x => !pl.contains x.1 && isUq x.2

/-- the value of the last plain `addDetail n` -/
def lastAdd (A : List (DName × UC)) (n : DName) : Option UC := (A.reverse.find? (·.1 == n)).map (·.2)

theorem lastAdd_append (A : List (DName × UC)) (m : DName) (c : UC) (n : DName) :
    lastAdd (A ++ [(m, c)]) n = if m = n then some c else lastAdd A n := by
  simp only [lastAdd, List.reverse_append, List.reverse_cons, List.reverse_nil, List.nil_append, List.singleton_append,
    List.find?_cons]
  by_cases h : m = n
  · simp [h]
  · have : (m == n) = false := by simpa using h
    simp [this, h]

theorem lastAdd_mem (A : List (DName × UC)) (n : DName) (c : UC) (h : lastAdd A n = some c) : (n, c) ∈ A := by
  simp only [lastAdd, Option.map_eq_some_iff] at h
  obtain ⟨x, hx, rfl⟩ := h
  have h1 := List.mem_of_find?_eq_some hx
  have h2 := List.find?_some hx
  simp only [beq_iff_eq] at h2
  rw [← h2]
  simpa using h1

/-- pairwise: same content, stored name is the original name or a `-k` renaming of it -/
def Match2 : List (DName × Content) → List (DName × Content) → Prop
  | [], [] => True
  | u :: us, x :: xs => x.2 = u.2 ∧ isRenaming u.1 x.1 = true ∧ Match2 us xs
  | [], _ :: _ => False
  | _ :: _, [] => False

theorem Match2_append {us xs us' xs' : List (DName × Content)} (h : Match2 us xs) (h' : Match2 us' xs') :
    Match2 (us ++ us') (xs ++ xs') := by
  induction us generalizing xs with
  | nil => cases xs with
    | nil => exact h'
    | cons x xs => exact absurd h (by simp [Match2])
  | cons u us ih => cases xs with
    | nil => exact absurd h (by simp [Match2])
    | cons x xs =>
      simp only [Match2, List.cons_append] at h ⊢
      exact ⟨h.1, h.2.1, ih h.2.2⟩

structure J (d : Details) (pl : List DName) (cl : Bool) (T : List Exc) (A : List (DName × UC))
    (U : List (DName × Content)) : Prop where
  nodup     : (dnames d).Nodup
  plainIn   : ∀ n ∈ pl, n ∈ dnames d
  plainUser : ∀ x ∈ d, x.1 ∈ pl → ∃ uc, x.2 = .user uc
  reason    : ∀ x ∈ d, x.1 = nmReason → ∃ r, x.2 = .reason r
  plainNe   : nmReason ∉ pl
  addsPlain : ∀ x ∈ A, x.1 ∈ pl
  plainSub  : ∀ n ∈ pl, n ∈ A.map (·.1)
  ud        : ∀ n c, lastAdd A n = some c → d.find? (·.1 == n) = some (n, .user c)
  tbs       : cl = false → tbsIn d = T
  uqs       : cl = false → Match2 U (uqEntries d pl)

theorem J.init : J [] [] false [] [] [] := by
  constructor <;> simp [dnames, lastAdd, tbsIn, uqEntries, Match2]

/-! ### the four elementary operations -/
/-- plain `addDetail(n, c)` -/
theorem J.plain {d : Details} {pl : List DName} {cl : Bool} {T : List Exc} {A : List (DName × UC)}
    {U : List (DName × Content)} (h : J d pl cl T A U) (n : DName) (c : UC) (hn : n ≠ nmReason) :
    J (dset d n (.user c)) (n :: pl) (cl || (dmem d n && !pl.contains n)) T (A ++ [(n, c)]) U := by
  have hmem := mem_dset d n (.user c) h.nodup
  refine ⟨nodup_dset d n _ h.nodup, ?_, ?_, ?_, ?_, ?_, ?_, ?_, ?_, ?_⟩
  · intro m hm
    rw [mem_dnames_dset]
    simp only [List.mem_cons] at hm
    rcases hm with hm | hm
    · exact Or.inl hm
    · exact Or.inr (h.plainIn m hm)
  · intro x hx hxp
    rcases (hmem x).mp hx with rfl | ⟨hx', hne⟩
    · exact ⟨c, rfl⟩
    · simp only [List.mem_cons] at hxp
      rcases hxp with hxp | hxp
      · exact absurd hxp hne
      · exact h.plainUser x hx' hxp
  · intro x hx hxr
    rcases (hmem x).mp hx with rfl | ⟨hx', hne⟩
    · exact absurd hxr hn
    · exact h.reason x hx' hxr
  · simp only [List.mem_cons, not_or]
    exact ⟨fun e => hn e.symm, h.plainNe⟩
  · intro x hx
    simp only [List.mem_append, List.mem_singleton] at hx
    rcases hx with hx | rfl
    · exact List.mem_cons_of_mem _ (h.addsPlain x hx)
    · exact List.mem_cons_self
  · intro m hm
    simp only [List.mem_cons] at hm
    simp only [List.map_append, List.map_cons, List.map_nil, List.mem_append, List.mem_singleton]
    rcases hm with hm | hm
    · exact Or.inr hm
    · exact Or.inl (h.plainSub m hm)
  · intro m c' hl
    rw [lastAdd_append] at hl
    by_cases hm : n = m
    · subst hm
      simp only [if_true, Option.some.injEq] at hl
      subst hl
      exact find_dset_self d n _
    · simp only [hm, if_false] at hl
      rw [find_dset_other d n m _ (fun e => hm e.symm)]
      exact h.ud m c' hl
  · intro hcl
    simp only [Bool.or_eq_false_iff] at hcl
    rw [← h.tbs hcl.1, tbsIn_eq, tbsIn_eq]
    apply filterMap_dset_none
    · rfl
    · intro x hx hxn
      have hin : dmem d n = true := (dmem_iff d n).mpr (hxn ▸ List.mem_map_of_mem hx)
      have hpl : n ∈ pl := by
        have := hcl.2
        simp only [hin, Bool.true_and, Bool.not_eq_false'] at this
        simpa using this
      obtain ⟨uc, huc⟩ := h.plainUser x hx (hxn ▸ hpl)
      obtain ⟨m, y⟩ := x
      simp only at huc; subst huc; rfl
  · intro hcl
    simp only [Bool.or_eq_false_iff] at hcl
    have hU := h.uqs hcl.1
    have hcase : n ∉ dnames d ∨ n ∈ pl := by
      by_cases hin : n ∈ dnames d
      · right
        have := hcl.2
        simp only [(dmem_iff d n).mpr hin, Bool.true_and, Bool.not_eq_false'] at this
        simpa using this
      · exact Or.inl hin
    have : uqEntries (dset d n (.user c)) (n :: pl) = uqEntries d pl := by
      unfold uqEntries
      rw [filter_dset_none _ d n _ (by simp) (by intro x _ hx; simp [hx])]
      apply List.filter_congr
      intro x hx
      by_cases hxn : x.1 = n
      · have hin : n ∈ dnames d := hxn ▸ List.mem_map_of_mem hx
        have hpl : n ∈ pl := by
          rcases hcase with h1 | h1
          · exact absurd hin h1
          · exact h1
        simp [hxn, hpl]
      · simp [hxn]
    rw [this]; exact hU

/-- storing under a name that is not in the dict -/
theorem J.append {d : Details} {pl : List DName} {cl : Bool} {T : List Exc} {A : List (DName × UC)}
    {U : List (DName × Content)} (h : J d pl cl T A U) (m : DName) (c : Content) (hm : m ∉ dnames d)
    (hr : m ≠ nmReason) (orig : DName) (hren : isRenaming orig m = true) :
    J (dset d m c) pl cl (T ++ (tbOf (m, c)).toList) A (U ++ (if isUq c then [(orig, c)] else [])) := by
  have hmp : m ∉ pl := fun hp => hm (h.plainIn m hp)
  rw [dset_of_not_mem d m c hm]
  refine ⟨?_, ?_, ?_, ?_, h.plainNe, h.addsPlain, h.plainSub, ?_, ?_, ?_⟩
  · have := nodup_dset d m c h.nodup
    rwa [dset_of_not_mem d m c hm] at this
  · intro n hn
    simp only [dnames, List.map_append, List.mem_append]
    exact Or.inl (h.plainIn n hn)
  · intro x hx hxp
    simp only [List.mem_append, List.mem_singleton] at hx
    rcases hx with hx | rfl
    · exact h.plainUser x hx hxp
    · exact absurd hxp hmp
  · intro x hx hxr
    simp only [List.mem_append, List.mem_singleton] at hx
    rcases hx with hx | rfl
    · exact h.reason x hx hxr
    · exact absurd hxr hr
  · intro n c' hl
    rw [List.find?_append, h.ud n c' hl]; rfl
  · intro hcl
    rw [tbsIn_eq, List.filterMap_append, ← tbsIn_eq, h.tbs hcl]
    simp only [List.filterMap_cons, List.filterMap_nil]
    cases tbOf (m, c) <;> rfl
  · intro hcl
    have hU := h.uqs hcl
    have : uqEntries (d ++ [(m, c)]) pl = uqEntries d pl ++ (if isUq c then [(m, c)] else []) := by
      have hc : pl.contains m = false := by simpa using hmp
      simp only [uqEntries, List.filter_append, List.filter_cons, List.filter_nil, hc, Bool.not_false, Bool.true_and]
    rw [this]
    apply Match2_append hU
    split
    · exact ⟨rfl, hren, trivial⟩
    · trivial

/-- `_report_traceback` -/
theorem J.tbAdd {d : Details} {pl : List DName} {cl : Bool} {T : List Exc} {A : List (DName × UC)}
    {U : List (DName × Content)} (h : J d pl cl T A U) (m : DName) (e : Exc) (hm : m ∉ dnames d)
    (hr : m ≠ nmReason) : J (dset d m (.tb e)) pl cl (T ++ [e]) A U := by
  have := h.append m (.tb e) hm hr m (by simp [isRenaming])
  simpa [tbOf, isUq] using this

/-- `addDetailUniqueName(n, c)` -/
theorem J.unique {d : Details} {pl : List DName} {cl : Bool} {T : List Exc} {A : List (DName × UC)}
    {U : List (DName × Content)} (h : J d pl cl T A U) (n : DName) (c : Content) (hn : n ≠ nmReason)
    (hc : isUq c = true) : J (addUnique d n c) pl cl T A (U ++ [(n, c)]) := by
  have := h.append (uniq d n) c (uniq_not_mem d n) (uniq_ne_reason d n hn) n (uniq_renaming d n)
  have ht : tbOf (uniq d n, c) = none := by cases c <;> simp_all [isUq, tbOf]
  simpa [ht, hc, addUnique] using this

/-- the framework's own `addDetail('reason', …)` -/
theorem J.reasonSet {d : Details} {pl : List DName} {cl : Bool} {T : List Exc} {A : List (DName × UC)}
    {U : List (DName × Content)} (h : J d pl cl T A U) (r : Nat) :
    J (dset d nmReason (.reason r)) pl cl T A U := by
  have hmem := mem_dset d nmReason (.reason r) h.nodup
  have hold : ∀ x ∈ d, x.1 = nmReason → ∃ r', x = (nmReason, .reason r') := by
    intro x hx hxr
    obtain ⟨r', hr'⟩ := h.reason x hx hxr
    obtain ⟨m, y⟩ := x
    simp only at hxr hr'; subst hxr; subst hr'; exact ⟨r', rfl⟩
  refine ⟨nodup_dset d _ _ h.nodup, ?_, ?_, ?_, h.plainNe, h.addsPlain, h.plainSub, ?_, ?_, ?_⟩
  · intro n hn
    rw [mem_dnames_dset]; exact Or.inr (h.plainIn n hn)
  · intro x hx hxp
    rcases (hmem x).mp hx with rfl | ⟨hx', _⟩
    · exact absurd hxp h.plainNe
    · exact h.plainUser x hx' hxp
  · intro x hx hxr
    rcases (hmem x).mp hx with rfl | ⟨hx', _⟩
    · exact ⟨r, rfl⟩
    · exact h.reason x hx' hxr
  · intro n c' hl
    have hnp : n ∈ pl := h.addsPlain _ (lastAdd_mem A n c' hl)
    have hne : n ≠ nmReason := fun e => h.plainNe (e ▸ hnp)
    rw [find_dset_other d nmReason n _ hne]
    exact h.ud n c' hl
  · intro hcl
    rw [← h.tbs hcl, tbsIn_eq, tbsIn_eq]
    apply filterMap_dset_none _ _ _ _ rfl
    intro x hx hxr
    obtain ⟨r', rfl⟩ := hold x hx hxr
    rfl
  · intro hcl
    have : uqEntries (dset d nmReason (.reason r)) pl = uqEntries d pl := by
      unfold uqEntries
      apply filter_dset_none
      · simp [isUq]
      · intro x hx hxr
        obtain ⟨r', rfl⟩ := hold x hx hxr
        simp [isUq]
    rw [this]; exact h.uqs hcl

end TTV.Run
