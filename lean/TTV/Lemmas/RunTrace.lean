import TTV.Lemmas.RunCore
/-! From the final state of `runCore` to what the specs read off the trace of `runOnce`. -/
namespace TTV.Run
open TTV.Spec.Run

theorem select_none_iff (hs : Handlers) (es : List Exc) : select hs es = none ↔ es = [] := by
  unfold select
  constructor
  · intro h
    split at h
    · simp at h
    · split at h
      · simp at h
      · simpa using h
  · rintro rfl; simp

theorem select_mem (hs : Handlers) (es : List Exc) (e : Exc) (h : select hs es = some e) : e ∈ es := by
  unfold select at h
  split at h
  · rename_i e' he'
    cases h
    exact List.mem_of_find?_eq_some he'
  · split at h
    · rename_i e' he'
      cases h
      have := List.mem_of_find?_eq_some he'
      simpa using this
    · exact List.mem_of_getLast? h

/-- the outcome decision of `_run_prepared_result`, as a relation -/
inductive Decided (hs : Handlers) (es : List Exc) : Outcome → Option Exc → Option Exc → Prop
  | success : es = [] → Decided hs es .success none none
  | handled (e : Exc) (r : Reporter) : select hs es = some e → handlerFor hs e = some r →
      Decided hs es r.outcome none (some e)
  | lastResort (e : Exc) : select hs es = some e → handlerFor hs e = none → Decided hs es .error (some e) (some e)

/-- the details dict as the result reads it when the outcome is reported -/
def frozenDetails (s : RS) (d : Details) : Details := d.map fun x => (x.1, freeze s.clock x.2)

/-- shape of the trace of one run without skip decorator -/
theorem runOnce_shape (p : Program) (ff0 : Bool) (hwf : wf p = true) (hskip : p.skipDeco = none) :
    ∃ (o : Outcome) (d : Details) (r sel : Option Exc),
      Decided (handlers p) (runCore p ff0).1.excs o r sel ∧
      runOnce p ff0 =
        { events := wrapRun p.flavour ([.startTest] ++ (runCore p ff0).1.log ++ [.outcome (degrade p.flavour o) d] ++ stopEv p.flavour)
          raised := r, ffAfter := (runCore p ff0).1.ff, stackAfter := 0,
          attrsAfter := sortAttrs (runCore p ff0).1.attrs } := by
  have cf := runCore_facts p ff0 hwf hskip
  unfold runOnce
  simp only [hskip]
  generalize hrc : runCore p ff0 = rc at cf
  obtain ⟨s, succ⟩ := rc
  simp only at cf ⊢
  cases hsel : select (handlers p) s.excs with
  | none =>
    have hnil := (select_none_iff _ _).mp hsel
    have hs : succ = true := cf.succ.mpr hnil
    simp only [hs, if_true]
    exact ⟨.success, visibleDetails p.flavour .success (frozenDetails s s.details), none, none, .success hnil, by simp [cf.stack, frozenDetails]⟩
  | some e =>
    simp only
    cases hh : handlerFor (handlers p) e with
    | none => exact ⟨.error, visibleDetails p.flavour .error (frozenDetails s s.details), some e, some e, .lastResort e hsel hh, by simp [cf.stack, frozenDetails]⟩
    | some r =>
      by_cases hr : r = .std .skip
      · subst hr
        exact ⟨.skip, visibleDetails p.flavour .skip (frozenDetails s (dset s.details nmReason (.reason e.tag))), none, some e, .handled e (.std .skip) hsel hh, by simp [cf.stack, frozenDetails]⟩
      · refine ⟨r.outcome, visibleDetails p.flavour r.outcome (frozenDetails s s.details), none, some e, .handled e r hsel hh, ?_⟩
        cases r with
        | std o => cases o <;> simp_all [cf.stack, Reporter.outcome, frozenDetails]
        | user i o => simp [cf.stack, Reporter.outcome, frozenDetails]

theorem filterMap_stage_wrap (f : Flavour) (log : List Ev) (o : Outcome) (d : Details) :
    (wrapRun f ([.startTest] ++ log ++ [.outcome o d] ++ stopEv f)).filterMap stageEvId = log.filterMap stageEvId := by
  unfold wrapRun stopEv
  split <;> split <;> simp [List.filterMap_cons, List.filterMap_append, stageEvId]

theorem stageIds_eq' (t : Trace) : stageIds t = t.events.filterMap stageEvId := by
  simp only [stageIds]; congr 1; funext e; cases e <;> rfl

theorem executed_of (p : Program) (hwf : wf p = true) (l : List Stage) (hl : ∀ st ∈ l, st ∈ allStages p) :
    (l.map Stage.id).filterMap (findStage p) = l := by
  induction l with
  | nil => rfl
  | cons x xs ih =>
    simp only [List.map_cons, List.filterMap_cons, findStage_of_mem p hwf x (hl x List.mem_cons_self)]
    rw [ih (fun st hst => hl st (List.mem_cons_of_mem _ hst))]

/-- what the specs compute from the trace coincides with the model's state -/
structure Reads (p : Program) (ff0 : Bool) (t : Trace) (s : RS) : Prop where
  ids      : stageIds t = s.execd.map Stage.id
  executed : executed p t = s.execd
  ffNow    : ffNow p ff0 t = s.ff
  raised   : raisedAll p ff0 t = s.excs

theorem reads_of (p : Program) (ff0 : Bool) (hwf : wf p = true) (hskip : p.skipDeco = none)
    (o : Outcome) (d : Details) (r : Option Exc) (ffa : Bool) (n : Nat) (at_ : List (Nat × Nat)) :
    Reads p ff0
      ⟨wrapRun p.flavour ([.startTest] ++ (runCore p ff0).1.log ++ [.outcome o d] ++ stopEv p.flavour), r, ffa, n, at_⟩
      (runCore p ff0).1 := by
  have cf := runCore_facts p ff0 hwf hskip
  have hids : stageIds (⟨wrapRun p.flavour ([.startTest] ++ (runCore p ff0).1.log ++ [.outcome o d] ++ stopEv p.flavour), r, ffa, n, at_⟩ : Trace) = (runCore p ff0).1.execd.map Stage.id := by
    rw [stageIds_eq', filterMap_stage_wrap, cf.logIds]
  have hex : executed p (⟨wrapRun p.flavour ([.startTest] ++ (runCore p ff0).1.log ++ [.outcome o d] ++ stopEv p.flavour), r, ffa, n, at_⟩ : Trace) = (runCore p ff0).1.execd := by
    unfold executed
    rw [hids]
    exact executed_of p hwf _ cf.execdIn
  have hff : ffNow p ff0 (⟨wrapRun p.flavour ([.startTest] ++ (runCore p ff0).1.log ++ [.outcome o d] ++ stopEv p.flavour), r, ffa, n, at_⟩ : Trace) = (runCore p ff0).1.ff := by
    unfold ffNow
    rw [hex, cf.ff]
    rfl
  refine ⟨hids, hex, hff, ?_⟩
  unfold raisedAll
  rw [hex, hff, cf.excs]

end TTV.Run
