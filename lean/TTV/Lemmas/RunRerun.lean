import TTV.Lemmas.RunInduct
/-! `force_failure` is the only state that survives `_reset`; the run reads it only at the forced-failure
test.  Two runs started with different left-over flags agree on everything but the flag (`AgreeFF`), hence
completely once the final flags agree. -/
namespace TTV.Run
open TTV.Spec.Run

def setFF (b : Bool) (s : RS) : RS := { s with ff := b }

/-- equal up to the `force_failure` flag -/
def AgreeFF (s s' : RS) : Prop := setFF false s = setFF false s'

theorem AgreeFF.refl (s : RS) : AgreeFF s s := rfl

theorem agreeFF_iff (s s' : RS) : AgreeFF s s' ↔
    s.log = s'.log ∧ s.clock = s'.clock ∧ s.stack = s'.stack ∧ s.excs = s'.excs ∧ s.details = s'.details ∧
    s.tbCount = s'.tbCount ∧ s.attrs = s'.attrs ∧ s.nOnExc = s'.nOnExc ∧ s.execd = s'.execd ∧ s.ran = s'.ran ∧
    s.regd = s'.regd ∧ s.plain = s'.plain ∧ s.clobbered = s'.clobbered := by
  cases s; cases s'
  simp [AgreeFF, setFF]

theorem AgreeFF.eq {s s' : RS} (h : AgreeFF s s') (hff : s.ff = s'.ff) : s = s' := by
  cases s; cases s'
  simp only [AgreeFF, setFF, RS.mk.injEq] at h
  simp only at hff
  simp [h, hff]

theorem AgreeFF.of_eq_setFF (s : RS) (b : Bool) : AgreeFF s (setFF b s) := by
  cases s; simp [AgreeFF, setFF]

theorem reportTb_agree {s s' : RS} (h : AgreeFF s s') (e : Exc) : AgreeFF (reportTb s e) (reportTb s' e) := by
  rw [agreeFF_iff] at h
  obtain ⟨h1, h2, h3, h4, h5, h6, h7, h8, h9, h10, h11, h12, h13⟩ := h
  rw [agreeFF_iff]
  simp [reportTb, *]

theorem got_agree_aux {s s' : RS} (h : AgreeFF s s') (e : Exc) :
    AgreeFF { s with log := s.log ++ (List.range s.nOnExc).map (fun h => Ev.onExc h e), excs := s.excs ++ [e] }
      { s' with log := s'.log ++ (List.range s'.nOnExc).map (fun h => Ev.onExc h e), excs := s'.excs ++ [e] } := by
  rw [agreeFF_iff] at h
  obtain ⟨h1, h2, h3, h4, h5, h6, h7, h8, h9, h10, h11, h12, h13⟩ := h
  rw [agreeFF_iff]
  simp [*]

theorem got_agree {s s' : RS} (h : AgreeFF s s') (e : Exc) : AgreeFF (got s e) (got s' e) := by
  unfold got
  split
  · exact got_agree_aux h e
  · exact got_agree_aux (reportTb_agree h e) e

theorem gotAll_agree {s s' : RS} (h : AgreeFF s s') (es : List Exc) : AgreeFF (gotAll s es) (gotAll s' es) := by
  induction es generalizing s s' with
  | nil => exact h
  | cons e es ih => exact ih (got_agree h e)

theorem runActs_agree (as : List Act) {s s' : RS} (h : AgreeFF s s') : AgreeFF (runActs as s) (runActs as s') := by
  induction as generalizing s s' with
  | nil => exact h
  | cons a as ih =>
    have h' := (agreeFF_iff s s').mp h
    obtain ⟨h1, h2, h3, h4, h5, h6, h7, h8, h9, h10, h11, h12, h13⟩ := h'
    cases a <;> (simp only [runActs]; apply ih; rw [agreeFF_iff]; simp [*])

theorem runTerm_agree (t : Term) {s s' : RS} (h : AgreeFF s s') :
    AgreeFF (runTerm t s).1 (runTerm t s').1 ∧ (runTerm t s).2 = (runTerm t s').2 := by
  have h' := (agreeFF_iff s s').mp h
  obtain ⟨h1, h2, h3, h4, h5, h6, h7, h8, h9, h10, h11, h12, h13⟩ := h'
  cases t with
  | ret => exact ⟨h, rfl⟩
  | raise1 e => exact ⟨h, rfl⟩
  | raiseMulti es me => exact ⟨h, rfl⟩
  | assertFail e ds => simp only [runTerm, and_true]; rw [agreeFF_iff]; simp [*]
  | fixtureFail ds e ces se => simp only [runTerm, and_true]; rw [agreeFF_iff]; simp [*]
  | expectFailure r eo x =>
    have : AgreeFF { s with details := dset s.details nmReason (.reason r) }
        { s' with details := dset s'.details nmReason (.reason r) } := by rw [agreeFF_iff]; simp [*]
    cases eo with
    | none => exact ⟨this, rfl⟩
    | some e => exact ⟨reportTb_agree this e, rfl⟩

theorem stage0_agree (st : Stage) {s s' : RS} (h : AgreeFF s s') : AgreeFF (stage0 st s) (stage0 st s') := by
  have h' := (agreeFF_iff s s').mp h
  obtain ⟨h1, h2, h3, h4, h5, h6, h7, h8, h9, h10, h11, h12, h13⟩ := h'
  rw [agreeFF_iff]; simp [stage0, *]

theorem finish_agree (d : Bool) (t : Term) {s s' : RS} (h : AgreeFF s s') :
    AgreeFF (finish d t s).1 (finish d t s').1 ∧ (finish d t s).2 = (finish d t s').2 := by
  unfold finish
  cases d <;> cases termObj t <;> simp only
  · exact ⟨h, trivial⟩
  · exact ⟨gotAll_agree h _, trivial⟩
  · exact ⟨got_agree h _, trivial⟩
  · split
    · exact ⟨got_agree (reportTb_agree h _) _, rfl⟩
    · exact ⟨gotAll_agree h _, rfl⟩

theorem runStage_agree (st : Stage) (d : Bool) {s s' : RS} (h : AgreeFF s s') :
    AgreeFF (runStage st d s).1 (runStage st d s').1 ∧ (runStage st d s).2 = (runStage st d s').2 := by
  rw [runStage_eq, runStage_eq]
  exact finish_agree d st.term (runTerm_agree st.term (runActs_agree st.acts (stage0_agree st h))).1

theorem runCl_agree (c : Cl) {s s' : RS} (h : AgreeFF s s') : AgreeFF (runCl c s) (runCl c s') := by
  cases c with
  | stage st =>
    have := (runStage_agree st false h).1
    rw [agreeFF_iff] at this
    obtain ⟨h1, h2, h3, h4, h5, h6, h7, h8, h9, h10, h11, h12, h13⟩ := this
    simp only [runCl]; rw [agreeFF_iff]; simp [*]
  | gather fid ds =>
    have h' := (agreeFF_iff s s').mp h
    obtain ⟨h1, h2, h3, h4, h5, h6, h7, h8, h9, h10, h11, h12, h13⟩ := h'
    simp only [runCl]; rw [agreeFF_iff]; simp [*]
  | unpatch a old =>
    have h' := (agreeFF_iff s s').mp h
    obtain ⟨h1, h2, h3, h4, h5, h6, h7, h8, h9, h10, h11, h12, h13⟩ := h'
    simp only [runCl]; rw [agreeFF_iff]; simp [*]

theorem pop_agree {s s' : RS} (h : AgreeFF s s') (rest : List Cl) :
    AgreeFF { s with stack := rest } { s' with stack := rest } := by
  have h' := (agreeFF_iff s s').mp h
  obtain ⟨h1, h2, h3, h4, h5, h6, h7, h8, h9, h10, h11, h12, h13⟩ := h'
  rw [agreeFF_iff]; simp [*]

theorem runCleanups_agree (s : RS) : ∀ s' : RS, AgreeFF s s' → AgreeFF (runCleanups s) (runCleanups s') := by
  fun_induction runCleanups s with
  | case1 s hs =>
    intro s' h
    have hst : s'.stack = [] := by rw [← ((agreeFF_iff s s').mp h).2.2.1]; exact hs
    rw [runCleanups_nil s' hst]; exact h
  | case2 s c rest hs ih =>
    intro s' h
    have hst : s'.stack = c :: rest := by rw [← ((agreeFF_iff s s').mp h).2.2.1]; exact hs
    rw [runCleanups_cons s' c rest hst]
    exact ih _ (runCl_agree c (pop_agree h rest))

theorem initRS_agree (p : Program) (a b : Bool) : AgreeFF (initRS p a) (initRS p b) := by
  rw [agreeFF_iff]; simp [initRS]

/-- the stages executed do not depend on the left-over flag; and if the final flags agree, two runs agree
entirely -/
theorem runCore_agree (p : Program) (a b : Bool) :
    (runCore p a).1.execd = (runCore p b).1.execd ∧
    ((runCore p a).1.ff = (runCore p b).1.ff → runCore p a = runCore p b) := by
  unfold runCore
  have r1 := runStage_agree p.setUp false (initRS_agree p a b)
  generalize runStage p.setUp false (initRS p a) = x1 at r1
  generalize runStage p.setUp false (initRS p b) = y1 at r1
  obtain ⟨s1, ok1⟩ := x1
  obtain ⟨t1, ok1'⟩ := y1
  obtain ⟨a1, rfl⟩ := r1
  simp only at a1 ⊢
  cases ok1 with
  | false =>
    simp only [Bool.false_eq_true, if_false]
    have ac := runCleanups_agree s1 t1 a1
    have hx : (runCleanups s1).execd = (runCleanups t1).execd := ((agreeFF_iff _ _).mp ac).2.2.2.2.2.2.2.2.1
    constructor
    · split <;> split <;> simp [hx]
    · intro hff
      have hff' : (runCleanups s1).ff = (runCleanups t1).ff := by
        revert hff
        split <;> split <;> simp_all
      have := ac.eq hff'
      rw [this]
  | true =>
    simp only [if_true]
    have r2 := runStage_agree p.body p.xfailDeco a1
    generalize runStage p.body p.xfailDeco s1 = x2 at r2
    generalize runStage p.body p.xfailDeco t1 = y2 at r2
    obtain ⟨s2, ok2⟩ := x2
    obtain ⟨t2, ok2'⟩ := y2
    obtain ⟨a2, rfl⟩ := r2
    simp only at a2 ⊢
    have r3 := runStage_agree p.tearDown false a2
    generalize runStage p.tearDown false s2 = x3 at r3
    generalize runStage p.tearDown false t2 = y3 at r3
    obtain ⟨s3, ok3⟩ := x3
    obtain ⟨t3, ok3'⟩ := y3
    obtain ⟨a3, rfl⟩ := r3
    simp only at a3 ⊢
    have ac := runCleanups_agree s3 t3 a3
    have hx : (runCleanups s3).execd = (runCleanups t3).execd := ((agreeFF_iff _ _).mp ac).2.2.2.2.2.2.2.2.1
    have he3 : s3.excs = t3.excs := ((agreeFF_iff _ _).mp a3).2.2.2.1
    constructor
    · split <;> split <;> simp [hx]
    · intro hff
      have hff' : (runCleanups s3).ff = (runCleanups t3).ff := by
        revert hff
        split <;> split <;> simp_all
      have := ac.eq hff'
      rw [this, he3]

end TTV.Run
