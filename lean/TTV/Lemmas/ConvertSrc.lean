import TTV.Model.ConvertSrc
/-! The reference skeleton means the hand-written converter model. -/
namespace TTV.ConvertSrc
open TTV.Stream TTV.Stream.Convert

theorem chunks_ref (mk : Bytes → Bool → Event) : ∀ (cs : List Bytes) (p : Option Bytes),
    ∃ (evs : List Event) (q : Option Bytes), chunksInterp mk [.ifPendingEmit, .setPending] cs p = some (evs, q)
      ∧ evs ++ [mk (q.getD []) true] = chunkLoop mk p cs
  | [], p => ⟨[], p, rfl, by simp [chunkLoop]⟩
  | c :: cs, p => by
      obtain ⟨evs, q, h1, h2⟩ := chunks_ref mk cs (some c)
      cases p with
      | none => exact ⟨evs, q, by simp [chunksInterp, lInterp, h1], by simp [chunkLoop, h2]⟩
      | some b => exact ⟨mk b false :: evs, q, by simp [chunksInterp, lInterp, h1], by simp [chunkLoop, h2]⟩

theorem detail_ref (mk : Bytes → Bool → Event) (cs : List Bytes) :
    kInterp mk cs refDetailBody none = some (chunkLoop mk none cs) := by
  obtain ⟨evs, q, h1, h2⟩ := chunks_ref mk cs none
  simp [refDetailBody, kInterp, h1, ← h2]

theorem details_ref (id : Nat) (ts : Ts) : ∀ ds : List DetailIn,
    detailsInterp id ts refDetailBody ds
      = some ((ds.map fun d => chunkLoop (fileEvent id ts d.name d.mime) none d.chunks).flatten)
  | [] => rfl
  | d :: ds => by simp [detailsInterp, detail_ref, details_ref id ts ds]

theorem vInterp_ref (id : Nat) (ts : Ts) (tags : List Nat) (r : Result) :
    vInterp id ts tags (callArgs r) refConvert (callArgs r).details = some (convert id ts tags r) := by
  have hasd : asDict [tracebackDetail] = [tracebackDetail] := by decide
  cases r with
  | success ds => cases ds <;> simp [refConvert, vInterp, callArgs, convert, convertArgs, detailPart, reasonPart, detailEvents, details_ref]
  | uxsuccess ds => cases ds <;> simp [refConvert, vInterp, callArgs, convert, convertArgs, detailPart, reasonPart, detailEvents, details_ref]
  | error p => cases p <;> simp [refConvert, vInterp, callArgs, convert, convertArgs, errDetails, detailPart, reasonPart, detailEvents, details_ref, hasd]
  | failure p => cases p <;> simp [refConvert, vInterp, callArgs, convert, convertArgs, errDetails, detailPart, reasonPart, detailEvents, details_ref, hasd]
  | xfail p => cases p <;> simp [refConvert, vInterp, callArgs, convert, convertArgs, errDetails, detailPart, reasonPart, detailEvents, details_ref, hasd]
  | skip p => cases p <;> simp [refConvert, vInterp, callArgs, convert, convertArgs, detailPart, reasonPart, detailEvents, details_ref]

end TTV.ConvertSrc
