import TTV.Model.Result
import TTV.Lemmas.TagSet
/-! The tag-relevant alphabet of calls, the views of a history through the adapters, and the key fact: a
`ThreadsafeForwardingResult` shows its target, at every outcome, the tags current in the reporter. -/
namespace TTV.Lemmas.TagViews
open TTV.Result TTV.Lemmas.TagSetL

/-- what matters for tags: run start / stop, test start / stop, tag change, outcome (of which test) -/
inductive TEv | run | stopRun | start (t : Nat) | stop (t : Nat) | tags (n g : TagSet) | out (t : Nat)
deriving DecidableEq, Repr

def tev : Call → Option TEv
  | .startTestRun => some .run
  | .startTest t => some (.start t)
  | .stopTest t => some (.stop t)
  | .tags n g => some (.tags n g)
  | .add _ t _ => some (.out t)
  | .stopTestRun => some .stopRun
  | _ => none

def tevs (h : List Call) : List TEv := h.filterMap tev

@[simp] theorem tev_run : tev .startTestRun = some .run := rfl
@[simp] theorem tev_stopRun : tev .stopTestRun = some .stopRun := rfl
@[simp] theorem tev_start (t : Nat) : tev (.startTest t) = some (.start t) := rfl
@[simp] theorem tev_stop (t : Nat) : tev (.stopTest t) = some (.stop t) := rfl
@[simp] theorem tev_tags (n g : TagSet) : tev (.tags n g) = some (.tags n g) := rfl
@[simp] theorem tev_add (k : Kind) (t : Nat) (a : Arg) : tev (.add k t a) = some (.out t) := rfl
@[simp] theorem tev_time (d : TimeV) : tev (.time d) = none := rfl
@[simp] theorem tev_stopc : tev .stop = none := rfl
@[simp] theorem tev_done : tev .done = none := rfl
@[simp] theorem tev_progress : tev .progress = none := rfl
@[simp] theorem tev_setFailfast (b : Bool) : tev (.setFailfast b) = none := rfl

@[simp] theorem tevs_nil : tevs [] = [] := rfl
@[simp] theorem tevs_c_run (cs : List Call) : tevs (.startTestRun :: cs) = .run :: tevs cs := rfl
@[simp] theorem tevs_c_stopRun (cs : List Call) : tevs (.stopTestRun :: cs) = .stopRun :: tevs cs := rfl
@[simp] theorem tevs_c_start (t : Nat) (cs : List Call) : tevs (.startTest t :: cs) = .start t :: tevs cs := rfl
@[simp] theorem tevs_c_stop (t : Nat) (cs : List Call) : tevs (.stopTest t :: cs) = .stop t :: tevs cs := rfl
@[simp] theorem tevs_c_tags (n g : TagSet) (cs : List Call) : tevs (.tags n g :: cs) = .tags n g :: tevs cs := rfl
@[simp] theorem tevs_c_add (k : Kind) (t : Nat) (a : Arg) (cs : List Call) : tevs (.add k t a :: cs) = .out t :: tevs cs := rfl
@[simp] theorem tevs_c_time (d : TimeV) (cs : List Call) : tevs (.time d :: cs) = tevs cs := rfl
@[simp] theorem tevs_c_stopc (cs : List Call) : tevs (.stop :: cs) = tevs cs := rfl
@[simp] theorem tevs_c_done (cs : List Call) : tevs (.done :: cs) = tevs cs := rfl
@[simp] theorem tevs_c_progress (cs : List Call) : tevs (.progress :: cs) = tevs cs := rfl
@[simp] theorem tevs_c_setFailfast (b : Bool) (cs : List Call) : tevs (.setFailfast b :: cs) = tevs cs := rfl

theorem tevs_append (a b : List Call) : tevs (a ++ b) = tevs a ++ tevs b := by simp [tevs]

/-- the stack-of-sets semantics on the small alphabet -/
def stepT (ctx : TagCtx) : TEv → TagCtx
  | .run => {}
  | .start _ => ctx.push
  | .stop _ => ctx.pop
  | .tags n g => ctx.change n g
  | .out _ => ctx
  | .stopRun => ctx

/-- (test, current tags) at each outcome -/
def seenT : TagCtx → List TEv → List (Nat × TagSet)
  | _, [] => []
  | ctx, .out t :: e => (t, ctx.cur) :: seenT ctx e
  | ctx, x :: e => seenT (stepT ctx x) e

def outsT (e : List TEv) : List (Nat × TagSet) := e.filterMap fun | .out t => some (t, 0) | _ => none

/-! ### views -/
def etodVT (caps : Caps) (e : List TEv) : List TEv :=
  e.filter fun | .tags _ _ => caps.tags | .run => caps.startRun | .stopRun => caps.startRun | _ => true

def taggerVT (n g : TagSet) (e : List TEv) : List TEv :=
  e.flatMap fun | .start t => [.start t, .tags n g] | x => [x]

/-- the part of a `ThreadsafeForwardingResult` that matters for tags -/
structure TfrAbs where
  inTest : Bool := false
  g : TagSet × TagSet := (0, 0)
  t : TagSet × TagSet := (0, 0)
deriving DecidableEq, Repr

def tfrNext (a : TfrAbs) : TEv → TfrAbs
  | .run => {}
  | .start _ => { a with inTest := true }
  | .stop _ => { a with inTest := false, t := (0, 0) }
  | .tags n g => if a.inTest then { a with t := mergeTags a.t (n, g) } else { a with g := mergeTags a.g (n, g) }
  | .out _ => a
  | .stopRun => a

def tagsIf (p : TagSet × TagSet) : List TEv := if anyTags p then [.tags p.1 p.2] else []

def tfrEmitT (a : TfrAbs) : TEv → List TEv
  | .run => [.run]
  | .stopRun => [.stopRun]
  | .out t => [.start t] ++ tagsIf a.g ++ tagsIf a.t ++ [.out t, .stop t]
  | _ => []

def tfrVT : TfrAbs → List TEv → List TEv
  | _, [] => []
  | a, x :: e => tfrEmitT a x ++ tfrVT (tfrNext a x) e

theorem tfrVT_append (a : TfrAbs) (e e' : List TEv) :
    tfrVT a (e ++ e') = tfrVT a e ++ tfrVT (e.foldl tfrNext a) e' := by
  induction e generalizing a with
  | nil => rfl
  | cons x e ih => simp [tfrVT, ih]

/-! ### well-formed histories (phase 0 between tests, 1 started, 2 reported, 3 reported without `startTest`) -/
def wfT : Nat → Nat → List TEv → Bool
  | p, _, [] => p == 0
  | p, cur, x :: e =>
    match x with
    | .start t => p == 0 && wfT 1 t e
    | .out t => ((p == 1 || p == 2) && t == cur && wfT 2 t e) || (p == 0 && wfT 3 t e)
    | .stop t => (p == 2 || p == 3) && t == cur && wfT 0 0 e
    | .run => p == 0 && wfT p cur e
    | .stopRun => p == 0 && wfT p cur e
    | .tags _ _ => p != 3 && wfT p cur e

def disjT : TEv → Bool
  | .tags n g => n &&& g == 0
  | _ => true

theorem seenT_tagsIf (ctx : TagCtx) (p : TagSet × TagSet) (e : List TEv) :
    seenT ctx (tagsIf p ++ e) = seenT (ctx.change p.1 p.2) e := by
  unfold tagsIf
  split
  · rfl
  · rename_i h
    have := anyTags_false (by simpa using h)
    simp [this, TagCtx.change, change_zero]

/-- the invariant between the reporter's context `R`, the buffers `a` of the forwarding result and the
context `C` of its target, by phase -/
def Rel (p : Nat) (R : TagCtx) (a : TfrAbs) : Prop :=
  a.g.1 &&& a.g.2 = 0 ∧ a.t.1 &&& a.t.2 = 0 ∧
  match p with
  | 0 => a.inTest = false ∧ a.t = (0, 0) ∧ R = { cur := TagSet.change 0 a.g.1 a.g.2, parents := [] }
  | 1 => a.inTest = true ∧ R = { cur := TagSet.change (TagSet.change 0 a.g.1 a.g.2) a.t.1 a.t.2,
                                  parents := [TagSet.change 0 a.g.1 a.g.2] }
  | 2 => a.inTest = true ∧ R = { cur := TagSet.change (TagSet.change 0 a.g.1 a.g.2) a.t.1 a.t.2,
                                  parents := [TagSet.change 0 a.g.1 a.g.2] }
  | _ => a.inTest = false ∧ a.t = (0, 0) ∧ R = { cur := TagSet.change 0 a.g.1 a.g.2, parents := [] }

theorem rel0 {R : TagCtx} {a : TfrAbs} (h : Rel 0 R a) :
    a.g.1 &&& a.g.2 = 0 ∧ a.inTest = false ∧ a.t = (0, 0) ∧ R = { cur := TagSet.change 0 a.g.1 a.g.2, parents := [] } :=
  ⟨h.1, h.2.2⟩
theorem rel1 {R : TagCtx} {a : TfrAbs} (h : Rel 1 R a) :
    a.g.1 &&& a.g.2 = 0 ∧ a.t.1 &&& a.t.2 = 0 ∧ a.inTest = true ∧
    R = { cur := TagSet.change (TagSet.change 0 a.g.1 a.g.2) a.t.1 a.t.2, parents := [TagSet.change 0 a.g.1 a.g.2] } :=
  ⟨h.1, h.2.1, h.2.2⟩
theorem rel2 {R : TagCtx} {a : TfrAbs} (h : Rel 2 R a) :
    a.g.1 &&& a.g.2 = 0 ∧ a.t.1 &&& a.t.2 = 0 ∧ a.inTest = true ∧
    R = { cur := TagSet.change (TagSet.change 0 a.g.1 a.g.2) a.t.1 a.t.2, parents := [TagSet.change 0 a.g.1 a.g.2] } :=
  ⟨h.1, h.2.1, h.2.2⟩
theorem rel3 {R : TagCtx} {a : TfrAbs} (h : Rel 3 R a) :
    a.g.1 &&& a.g.2 = 0 ∧ a.inTest = false ∧ a.t = (0, 0) ∧ R = { cur := TagSet.change 0 a.g.1 a.g.2, parents := [] } :=
  ⟨h.1, h.2.2⟩
theorem mk0 {R : TagCtx} {a : TfrAbs} (h1 : a.g.1 &&& a.g.2 = 0) (h2 : a.inTest = false) (h3 : a.t = (0, 0))
    (h4 : R = { cur := TagSet.change 0 a.g.1 a.g.2, parents := [] }) : Rel 0 R a :=
  ⟨h1, by simp [h3], h2, h3, h4⟩
theorem mk3 {R : TagCtx} {a : TfrAbs} (h1 : a.g.1 &&& a.g.2 = 0) (h2 : a.inTest = false) (h3 : a.t = (0, 0))
    (h4 : R = { cur := TagSet.change 0 a.g.1 a.g.2, parents := [] }) : Rel 3 R a :=
  ⟨h1, by simp [h3], h2, h3, h4⟩
theorem mk1 {R : TagCtx} {a : TfrAbs} (h1 : a.g.1 &&& a.g.2 = 0) (h1' : a.t.1 &&& a.t.2 = 0) (h2 : a.inTest = true)
    (h4 : R = { cur := TagSet.change (TagSet.change 0 a.g.1 a.g.2) a.t.1 a.t.2, parents := [TagSet.change 0 a.g.1 a.g.2] }) :
    Rel 1 R a := ⟨h1, h1', h2, h4⟩
theorem mk2 {R : TagCtx} {a : TfrAbs} (h1 : a.g.1 &&& a.g.2 = 0) (h1' : a.t.1 &&& a.t.2 = 0) (h2 : a.inTest = true)
    (h4 : R = { cur := TagSet.change (TagSet.change 0 a.g.1 a.g.2) a.t.1 a.t.2, parents := [TagSet.change 0 a.g.1 a.g.2] }) :
    Rel 2 R a := ⟨h1, h1', h2, h4⟩

theorem wfT_big : ∀ (e : List TEv) (cur k : Nat), wfT (k + 4) cur e = false
  | [], _, _ => by simp [wfT]
  | x :: e, cur, k => by
      cases x <;> simp [wfT]
      exact wfT_big e cur k

theorem zero_and_zero : (0 : TagSet) &&& 0 = 0 := rfl

/-- **the target of a `ThreadsafeForwardingResult` sees the reporter's tags.** -/
theorem tfr_seen : ∀ (e : List TEv) (p cur : Nat) (R : TagCtx) (a : TfrAbs),
    Rel p R a → wfT p cur e = true → e.all disjT = true →
    seenT {} (tfrVT a e) = seenT R e
  | [], _, _, _, _, _, _, _ => rfl
  | x :: e, p, cur, R, a, hr, hw, hd => by
      simp only [List.all_cons, Bool.and_eq_true] at hd
      cases x with
      | run =>
        simp only [wfT, Bool.and_eq_true, beq_iff_eq] at hw
        obtain ⟨rfl, hw⟩ := hw
        simp only [tfrVT, tfrEmitT, tfrNext, List.singleton_append, seenT, stepT]
        exact tfr_seen e 0 cur {} {} (mk0 rfl rfl rfl rfl) hw hd.2
      | stopRun =>
        simp only [wfT, Bool.and_eq_true, beq_iff_eq] at hw
        obtain ⟨rfl, hw⟩ := hw
        simp only [tfrVT, tfrEmitT, tfrNext, List.singleton_append, seenT, stepT]
        exact tfr_seen e 0 cur R a hr hw hd.2
      | start t =>
        simp only [wfT, Bool.and_eq_true, beq_iff_eq] at hw
        obtain ⟨rfl, hw⟩ := hw
        obtain ⟨h1, h2, h3, h4⟩ := rel0 hr
        simp only [tfrVT, tfrEmitT, tfrNext, List.nil_append, seenT, stepT]
        refine tfr_seen e 1 t _ _ (mk1 h1 (by simp [h3]) rfl ?_) hw hd.2
        simp [h4, h3, TagCtx.push, change_zero]
      | stop t =>
        simp only [wfT, Bool.and_eq_true, Bool.or_eq_true, beq_iff_eq] at hw
        obtain ⟨⟨hp, _⟩, hw⟩ := hw
        simp only [tfrVT, tfrEmitT, tfrNext, List.nil_append, seenT, stepT]
        rcases hp with rfl | rfl
        · obtain ⟨h1, _, _, h4⟩ := rel2 hr
          exact tfr_seen e 0 0 _ _ (mk0 h1 rfl rfl (by simp [TagCtx.pop, h4])) hw hd.2
        · obtain ⟨h1, h2, h3, h4⟩ := rel3 hr
          exact tfr_seen e 0 0 _ _ (mk0 h1 rfl rfl (by simp [TagCtx.pop, h4])) hw hd.2
      | tags n g =>
        simp only [wfT, Bool.and_eq_true, bne_iff_ne, ne_eq] at hw
        obtain ⟨hp3, hw⟩ := hw
        have hng : n &&& g = 0 := by simpa [disjT] using hd.1
        simp only [tfrVT, tfrEmitT, List.nil_append, seenT, stepT]
        match p, hp3, hr with
        | 0, _, hr =>
          obtain ⟨h1, h2, h3, h4⟩ := rel0 hr
          refine tfr_seen e 0 cur _ _ (mk0 ?_ ?_ ?_ ?_) hw hd.2
          · simp only [tfrNext, h2]; exact merge_disjoint a.g n g h1
          · simp [tfrNext, h2]
          · simp [tfrNext, h2, h3]
          · simp only [tfrNext, h2, Bool.false_eq_true, ite_false, h4, TagCtx.change, change_merge _ _ _ _ hng]
        | 1, _, hr =>
          obtain ⟨h1, h1', h2, h4⟩ := rel1 hr
          refine tfr_seen e 1 cur _ _ (mk1 ?_ ?_ ?_ ?_) hw hd.2
          · simpa [tfrNext, h2] using h1
          · simp only [tfrNext, h2]; exact merge_disjoint a.t n g h1'
          · simp [tfrNext, h2]
          · simp only [tfrNext, h2, ite_true, h4, TagCtx.change, change_merge _ _ _ _ hng]
        | 2, _, hr =>
          obtain ⟨h1, h1', h2, h4⟩ := rel2 hr
          refine tfr_seen e 2 cur _ _ (mk2 ?_ ?_ ?_ ?_) hw hd.2
          · simpa [tfrNext, h2] using h1
          · simp only [tfrNext, h2]; exact merge_disjoint a.t n g h1'
          · simp [tfrNext, h2]
          · simp only [tfrNext, h2, ite_true, h4, TagCtx.change, change_merge _ _ _ _ hng]
        | 3, h, _ => exact absurd rfl h
        | (k + 4), _, hr => rw [wfT_big] at hw; cases hw
      | out t =>
        simp only [wfT, Bool.or_eq_true, Bool.and_eq_true, beq_iff_eq] at hw
        simp only [tfrVT, tfrEmitT, tfrNext, List.append_assoc, List.cons_append, seenT, stepT,
          seenT_tagsIf, List.nil_append]
        rcases hw with ⟨⟨hp, _⟩, hw⟩ | ⟨rfl, hw⟩
        · -- the first or a further outcome of a started test: the test's tag changes are still buffered
          have hr' : Rel 1 R a := by rcases hp with rfl | rfl <;> exact hr
          obtain ⟨h1, h1', h2, h4⟩ := rel1 hr'
          congr 1
          · simp [h4, TagCtx.push, TagCtx.change]
          · exact tfr_seen e 2 t _ _ (mk2 h1 h1' h2 h4) hw hd.2
        · obtain ⟨h1, h2, h3, h4⟩ := rel0 hr
          congr 1
          · simp [h4, h3, TagCtx.push, TagCtx.change, change_zero]
          · exact tfr_seen e 3 t _ _ (mk3 h1 h2 h3 (by simp [h4])) hw hd.2

/-! ### the view through a `ThreadsafeForwardingResult` is again a well-formed, disjoint history with the same outcomes -/
theorem wfT_tagsIf (p : TagSet × TagSet) (cur : Nat) (e : List TEv) : wfT 1 cur (tagsIf p ++ e) = wfT 1 cur e := by
  unfold tagsIf; split <;> simp [wfT]

theorem tfrVT_wf : ∀ (e : List TEv) (a : TfrAbs), wfT 0 0 (tfrVT a e) = true
  | [], _ => rfl
  | x :: e, a => by
      cases x <;> simp only [tfrVT, tfrEmitT, List.nil_append, List.singleton_append, List.append_assoc, List.cons_append]
      · simp [wfT, tfrVT_wf e]
      · simp [wfT, tfrVT_wf e]
      · exact tfrVT_wf e _
      · exact tfrVT_wf e _
      · exact tfrVT_wf e _
      · simp [wfT, wfT_tagsIf, tfrVT_wf e]

theorem tagsIf_disj (p : TagSet × TagSet) (h : p.1 &&& p.2 = 0) : (tagsIf p).all disjT = true := by
  unfold tagsIf; split <;> simp [disjT, h]

theorem tfrNext_disj (a : TfrAbs) (x : TEv) (hg : a.g.1 &&& a.g.2 = 0) (ht : a.t.1 &&& a.t.2 = 0) :
    (tfrNext a x).g.1 &&& (tfrNext a x).g.2 = 0 ∧ (tfrNext a x).t.1 &&& (tfrNext a x).t.2 = 0 := by
  cases x with
  | tags n g =>
    simp only [tfrNext]; split
    · exact ⟨hg, merge_disjoint _ n g ht⟩
    · exact ⟨merge_disjoint _ n g hg, ht⟩
  | run => exact ⟨zero_and_zero, zero_and_zero⟩
  | stopRun => exact ⟨hg, ht⟩
  | start t => exact ⟨hg, ht⟩
  | stop t => exact ⟨hg, zero_and_zero⟩
  | out t => exact ⟨hg, ht⟩

theorem tfrVT_disj : ∀ (e : List TEv) (a : TfrAbs), a.g.1 &&& a.g.2 = 0 → a.t.1 &&& a.t.2 = 0 → e.all disjT = true →
    (tfrVT a e).all disjT = true
  | [], _, _, _, _ => rfl
  | x :: e, a, hg, ht, hd => by
      simp only [List.all_cons, Bool.and_eq_true] at hd
      obtain ⟨hg', ht'⟩ := tfrNext_disj a x hg ht
      have ih := tfrVT_disj e (tfrNext a x) hg' ht' hd.2
      simp only [tfrVT, List.all_append, ih, Bool.and_true]
      cases x <;> simp [tfrEmitT, disjT, tagsIf_disj, hg, ht, List.all_append]

theorem outsT_tfrVT : ∀ (e : List TEv) (a : TfrAbs), outsT (tfrVT a e) = outsT e
  | [], _ => rfl
  | x :: e, a => by
      have ih := outsT_tfrVT e (tfrNext a x)
      cases x <;> simp_all [tfrVT, tfrEmitT, outsT, tagsIf]
      split <;> split <;> simp

/-! ### a `Tagger` keeps a history well-formed and disjoint -/
theorem wfT_taggerVT (n g : TagSet) : ∀ (e : List TEv) (p cur : Nat), wfT p cur (taggerVT n g e) = wfT p cur e
  | [], _, _ => rfl
  | x :: e, p, cur => by
      have ih := wfT_taggerVT n g e
      cases x <;> simp_all [taggerVT, wfT]

theorem disj_taggerVT (n g : TagSet) (h : n &&& g = 0) : ∀ (e : List TEv), e.all disjT = true →
    (taggerVT n g e).all disjT = true
  | [], _ => rfl
  | x :: e, hd => by
      simp only [List.all_cons, Bool.and_eq_true] at hd
      have ih := disj_taggerVT n g h e hd.2
      have hx := hd.1
      simp only [taggerVT, List.flatMap_cons, List.all_append] at ih ⊢
      rw [ih, Bool.and_true]
      cases x <;> simp_all [disjT]

theorem etodVT_full (caps : Caps) (ht : caps.tags = true) (hr : caps.startRun = true) (e : List TEv) :
    etodVT caps e = e := by
  induction e with
  | nil => rfl
  | cons x e ih =>
    simp only [etodVT] at ih ⊢
    cases x <;> simp_all

theorem outsT_etodVT (caps : Caps) (e : List TEv) : outsT (etodVT caps e) = outsT e := by
  induction e with
  | nil => rfl
  | cons x e ih =>
    simp only [etodVT, outsT] at ih ⊢
    cases x <;> simp_all [List.filter_cons] <;> split <;> simp_all

/-! ### the stream pipeline `ExtendedToStreamDecorator` → `StreamToExtendedDecorator` → `PlaceHolder.run` -/
/-- the part of an `ExtendedToStreamDecorator` that matters for tags -/
structure E2sAbs where
  started : Bool := false
  ctx : TagCtx := {}
  inprog : List Nat := []
deriving DecidableEq, Repr

/-- `if not self._started: self.startTestRun()` -/
def e2sAutoT (a : E2sAbs) : E2sAbs × List TEv := if a.started then (a, []) else ({ started := true }, [.run])

def e2sNextT (a : E2sAbs) : TEv → E2sAbs
  | .run => { started := true }
  | .start t =>
      let a := (e2sAutoT a).1
      { a with inprog := if a.inprog.contains t then a.inprog else a.inprog ++ [t], ctx := a.ctx.push }
  | .stop _ => { a with ctx := a.ctx.pop }
  | .tags n g => if a.started then { a with ctx := a.ctx.change n g } else a
  | .out t => let a := (e2sAutoT a).1; { a with inprog := a.inprog.filter (· != t) }
  | .stopRun => if a.started then { a with inprog := [] } else a

/-- what `PlaceHolder.run` replays for one finished test -/
def phBlock (t : Nat) (T : TagSet) : List TEv := [.tags T 0, .start t, .out t, .stop t, .tags 0 T]

def e2sEmitT (a : E2sAbs) : TEv → List TEv
  | .run => [.run]
  | .start _ => (e2sAutoT a).2
  | .out t => (e2sAutoT a).2 ++ phBlock t (e2sAutoT a).1.ctx.cur
  | .stopRun => if a.started then (a.inprog.reverse.flatMap fun t => phBlock t 0) ++ [.stopRun] else []
  | _ => []

def e2sVT : E2sAbs → List TEv → List TEv
  | _, [] => []
  | a, x :: e => e2sEmitT a x ++ e2sVT (e2sNextT a x) e

/-- the `test_tags` of the final status events -/
def sentT : E2sAbs → List TEv → List (Nat × TagSet)
  | _, [] => []
  | a, .out t :: e => (t, (e2sAutoT a).1.ctx.cur) :: sentT (e2sNextT a (.out t)) e
  | a, x :: e => sentT (e2sNextT a x) e

theorem e2sVT_append (a : E2sAbs) (e e' : List TEv) :
    e2sVT a (e ++ e') = e2sVT a e ++ e2sVT (e.foldl e2sNextT a) e' := by
  induction e generalizing a with
  | nil => rfl
  | cons x e ih => simp [e2sVT, ih]

theorem sentT_append (a : E2sAbs) (e e' : List TEv) :
    sentT a (e ++ e') = sentT a e ++ sentT (e.foldl e2sNextT a) e' := by
  induction e generalizing a with
  | nil => rfl
  | cons x e ih => cases x <;> simp [sentT, ih]

theorem change_from_zero (T : TagSet) : TagSet.change 0 T 0 = T := by
  apply ext; intro i; simp [testBit_change]

theorem change_to_zero (T : TagSet) : TagSet.change T 0 T = 0 := by
  apply ext; intro i; simp [testBit_change]

/-- the context of the result behind the pipeline between two replayed tests -/
def C0 : TagCtx := { cur := 0, parents := [] }

theorem seenT_block (t : Nat) (T : TagSet) (e : List TEv) : seenT C0 (phBlock t T ++ e) = (t, T) :: seenT C0 e := by
  simp [phBlock, seenT, stepT, C0, TagCtx.change, TagCtx.push, TagCtx.pop, change_from_zero, change_to_zero]

def InvE (p cur : Nat) (a : E2sAbs) (R : TagCtx) : Prop :=
  a.started = true ∧ a.ctx = R ∧ a.inprog = (if p = 1 then [cur] else [])

/-- **behind the stream pipeline every test is seen with the reporter's tags at its outcome**, and so are the
final status events -/
theorem e2s_seen : ∀ (e : List TEv) (p cur : Nat) (R : TagCtx) (a : E2sAbs),
    InvE p cur a R → wfT p cur e = true →
    seenT C0 (e2sVT a e) = seenT R e ∧ sentT a e = seenT R e ∧ outsT (e2sVT a e) = outsT e
  | [], _, _, _, _, _, _ => ⟨rfl, rfl, rfl⟩
  | x :: e, p, cur, R, ⟨st, ctx, inp⟩, ⟨hs, hc, hi⟩, hw => by
      simp only at hs hc hi
      subst hs; subst hc
      have hauto : ∀ inp', e2sAutoT ⟨true, ctx, inp'⟩ = (⟨true, ctx, inp'⟩, []) := fun _ => rfl
      cases x with
      | run =>
        simp only [wfT, Bool.and_eq_true, beq_iff_eq] at hw
        obtain ⟨rfl, hw⟩ := hw
        have ih := e2s_seen e 0 cur {} { started := true } ⟨rfl, rfl, by simp⟩ hw
        simp only [e2sVT, e2sEmitT, e2sNextT, List.singleton_append, seenT, stepT, sentT, outsT, List.filterMap_cons]
        exact ih
      | stopRun =>
        simp only [wfT, Bool.and_eq_true, beq_iff_eq] at hw
        obtain ⟨rfl, hw⟩ := hw
        simp only [if_neg (by decide : ¬ (0 = 1))] at hi
        subst hi
        have ih := e2s_seen e 0 cur ctx ⟨true, ctx, []⟩ ⟨rfl, rfl, by simp⟩ hw
        simpa only [e2sVT, e2sEmitT, e2sNextT, ite_true, List.reverse_nil, List.flatMap_nil, List.nil_append,
          List.singleton_append, seenT, stepT, sentT, outsT, List.filterMap_cons] using ih
      | start t =>
        simp only [wfT, Bool.and_eq_true, beq_iff_eq] at hw
        obtain ⟨rfl, hw⟩ := hw
        simp only [if_neg (by decide : ¬ (0 = 1))] at hi
        subst hi
        have ih := e2s_seen e 1 t ctx.push ⟨true, ctx.push, [t]⟩ ⟨rfl, rfl, by simp⟩ hw
        simpa only [e2sVT, e2sEmitT, e2sNextT, hauto, List.contains_nil, List.nil_append, Bool.false_eq_true, ite_false,
          seenT, stepT, sentT, outsT, List.filterMap_cons] using ih
      | stop t =>
        simp only [wfT, Bool.and_eq_true, Bool.or_eq_true, beq_iff_eq] at hw
        obtain ⟨⟨hp, _⟩, hw⟩ := hw
        have hi' : inp = [] := by rcases hp with rfl | rfl <;> simpa using hi
        subst hi'
        have ih := e2s_seen e 0 0 ctx.pop ⟨true, ctx.pop, []⟩ ⟨rfl, rfl, by simp⟩ hw
        simpa only [e2sVT, e2sEmitT, e2sNextT, List.nil_append, seenT, stepT, sentT, outsT, List.filterMap_cons] using ih
      | tags n g =>
        simp only [wfT, Bool.and_eq_true] at hw
        have ih := e2s_seen e p cur (ctx.change n g) ⟨true, ctx.change n g, inp⟩ ⟨rfl, rfl, hi⟩ hw.2
        simpa only [e2sVT, e2sEmitT, e2sNextT, ite_true, List.nil_append, seenT, stepT, sentT, outsT,
          List.filterMap_cons] using ih
      | out t =>
        simp only [wfT, Bool.or_eq_true, Bool.and_eq_true, beq_iff_eq] at hw
        have hf : inp.filter (· != t) = [] := by
          rcases hw with ⟨⟨hp, rfl⟩, _⟩ | ⟨rfl, _⟩
          · rcases hp with rfl | rfl <;> simp [hi]
          · simp [hi]
        have fin : (seenT C0 (e2sVT ⟨true, ctx, []⟩ e) = seenT ctx e ∧ sentT ⟨true, ctx, []⟩ e = seenT ctx e ∧
            outsT (e2sVT ⟨true, ctx, []⟩ e) = outsT e) →
            seenT C0 (e2sVT ⟨true, ctx, inp⟩ (.out t :: e)) = seenT ctx (.out t :: e) ∧
            sentT ⟨true, ctx, inp⟩ (.out t :: e) = seenT ctx (.out t :: e) ∧
            outsT (e2sVT ⟨true, ctx, inp⟩ (.out t :: e)) = outsT (.out t :: e) := by
          intro ih
          simp only [e2sVT, e2sEmitT, e2sNextT, hauto, hf, List.nil_append, seenT_block, seenT, sentT]
          refine ⟨by rw [ih.1], by rw [ih.2.1], ?_⟩
          have := ih.2.2
          simp only [outsT, List.filterMap_append, phBlock, List.filterMap_cons, List.filterMap_nil] at this ⊢
          simp [this]
        rcases hw with ⟨⟨_, rfl⟩, hw⟩ | ⟨rfl, hw⟩
        · exact fin (e2s_seen e 2 t ctx ⟨true, ctx, []⟩ ⟨rfl, rfl, by simp⟩ hw)
        · exact fin (e2s_seen e 3 t ctx ⟨true, ctx, []⟩ ⟨rfl, rfl, by simp⟩ hw)

theorem wfT_block (t : Nat) (T : TagSet) (e : List TEv) : wfT 0 0 (phBlock t T ++ e) = wfT 0 0 e := by
  simp [phBlock, wfT]

theorem wfT_blocks (ts : List Nat) (e : List TEv) : wfT 0 0 ((ts.flatMap fun t => phBlock t 0) ++ e) = wfT 0 0 e := by
  induction ts with
  | nil => rfl
  | cons t ts ih => simp only [List.flatMap_cons, List.append_assoc, wfT_block, ih]

theorem e2sVT_wf : ∀ (e : List TEv) (a : E2sAbs), wfT 0 0 (e2sVT a e) = true
  | [], _ => rfl
  | x :: e, a => by
      have ih := e2sVT_wf e (e2sNextT a x)
      cases x with
      | run => simp [e2sVT, e2sEmitT, wfT, ih]
      | stopRun =>
        simp only [e2sVT, e2sEmitT]
        split
        · simp only [List.append_assoc, wfT_blocks]; simp [wfT, ih]
        · simpa using ih
      | start t =>
        cases hs : a.started <;> simp [e2sVT, e2sEmitT, e2sAutoT, hs, wfT, ih]
      | stop t => simpa [e2sVT, e2sEmitT] using ih
      | tags n g => simpa [e2sVT, e2sEmitT] using ih
      | out t =>
        cases hs : a.started
        · simp only [e2sVT, e2sEmitT, e2sAutoT, hs, Bool.false_eq_true, ite_false, List.singleton_append,
            List.cons_append, wfT, beq_self_eq_true, Bool.true_and]
          rw [List.nil_append, wfT_block, ih]
        · simp only [e2sVT, e2sEmitT, e2sAutoT, hs, ite_true, List.nil_append, wfT_block, ih]

theorem block_disj (t : Nat) (T : TagSet) : (phBlock t T).all disjT = true := by simp [phBlock, disjT]

theorem e2sVT_disj : ∀ (e : List TEv) (a : E2sAbs), (e2sVT a e).all disjT = true
  | [], _ => rfl
  | x :: e, a => by
      have ih := e2sVT_disj e (e2sNextT a x)
      simp only [e2sVT, List.all_append, ih, Bool.and_true]
      cases x <;> simp only [e2sEmitT, e2sAutoT] <;> (try split) <;>
        simp [disjT, block_disj, List.all_append, List.all_flatMap]

theorem e2sVT_head (a : E2sAbs) (e : List TEv) : (e2sVT a (.run :: e)).head? = some .run := rfl

end TTV.Lemmas.TagViews
