import TTV.Model.Content
import TTV.Spec.C16
/-! Lemmas for C16: lawful incremental decoders, the UTF-8 machine against the RFC 3629 reference, the
encode/decode round trip. -/
namespace TTV.Lemmas.ContentDecode
open TTV.Content TTV.Spec.C16

/-- The law of an incremental decoder: feeding nothing does nothing, and feeding `a` then `b` is feeding
`a ++ b` (state and concatenated output; an error in either part is an error of the whole). -/
structure Lawful {σ : Type} (D : Decoder σ) : Prop where
  feed_nil : ∀ s, D.feed s [] = some (s, [])
  feed_append : ∀ s a b, D.feed s (a ++ b) =
    match D.feed s a with
    | none => none
    | some (s', o) =>
      match D.feed s' b with
      | none => none
      | some (s'', o') => some (s'', o ++ o')

/-- feed everything, then flush -/
def run {σ : Type} (D : Decoder σ) (s : σ) (b : Bytes) : Option Text :=
  match D.feed s b with
  | none => none
  | some (s', o) => (D.flush s').map (o ++ ·)

theorem iterTextFrom_flatten {σ : Type} (D : Decoder σ) (h : Lawful D) :
    ∀ (chunks : List Bytes) (s : σ), (iterTextFrom D s chunks).map List.flatten = run D s chunks.flatten := by
  intro chunks
  induction chunks with
  | nil =>
    intro s
    simp only [iterTextFrom, run, List.flatten_nil, h.feed_nil, Option.map_map]
    cases D.flush s with
    | none => rfl
    | some f => cases f <;> simp
  | cons c cs ih =>
    intro s
    simp only [iterTextFrom, run, List.flatten_cons, h.feed_append]
    cases hc : D.feed s c with
    | none => simp
    | some r =>
      obtain ⟨s', o⟩ := r
      have := ih s'
      simp only [run] at this
      simp only [Option.map_map]
      cases hcs : D.feed s' cs.flatten with
      | none => simp [hcs] at this; simp [Function.comp_def, this]
      | some r2 =>
        obtain ⟨s'', o'⟩ := r2
        simp only [hcs] at this
        cases hf : D.flush s'' with
        | none => simp [hf] at this; simp [Function.comp_def, this, hf]
        | some f =>
          simp only [hf, Option.map_some] at this
          cases hi : iterTextFrom D s' cs with
          | none => simp [hi] at this
          | some ps => simp [hi] at this; simp [this, List.append_assoc, hf]

/-- `as_text` of any chunking = decoding the joined bytes at once, for every lawful decoder -/
theorem asText_eq_decodeAll {σ : Type} (D : Decoder σ) (h : Lawful D) (chunks : List Bytes) :
    asText D chunks = decodeAll D chunks.flatten := by
  have h1 := iterTextFrom_flatten D h chunks D.init
  have h2 := iterTextFrom_flatten D h [chunks.flatten] D.init
  simp only [asText, decodeAll, iterText]
  rw [h1, h2]; simp

theorem decodeAll_eq_run {σ : Type} (D : Decoder σ) (h : Lawful D) (b : Bytes) : decodeAll D b = run D D.init b := by
  have := iterTextFrom_flatten D h [b] D.init
  simpa [decodeAll, asText, iterText] using this

/-- every decoder given by a per-byte transition function is lawful -/
theorem feedBytes_append {σ : Type} (step : σ → Nat → Option (σ × Text)) :
    ∀ (a b : Bytes) (s : σ), feedBytes step s (a ++ b) =
      match feedBytes step s a with
      | none => none
      | some (s', o) =>
        match feedBytes step s' b with
        | none => none
        | some (s'', o') => some (s'', o ++ o') := by
  intro a
  induction a with
  | nil => intro b s; simp only [List.nil_append, feedBytes]; cases feedBytes step s b <;> simp
  | cons x xs ih =>
    intro b s
    simp only [List.cons_append, feedBytes]
    cases step s x with
    | none => rfl
    | some r =>
      obtain ⟨s1, o1⟩ := r
      simp only [ih b s1]
      cases feedBytes step s1 xs with
      | none => rfl
      | some r2 =>
        obtain ⟨s2, o2⟩ := r2
        simp only
        cases feedBytes step s2 b with
        | none => rfl
        | some r3 => simp [List.append_assoc]

theorem lawful_of_step {σ : Type} (init : σ) (step : σ → Nat → Option (σ × Text)) (flush : σ → Option Text) :
    Lawful { init := init, feed := feedBytes step, flush := flush } :=
  { feed_nil := fun _ => rfl, feed_append := fun s a b => feedBytes_append step a b s }

theorem latin1_lawful : Lawful latin1 := lawful_of_step _ _ _
theorem ascii_lawful : Lawful ascii := lawful_of_step _ _ _
theorem utf8_lawful : Lawful utf8 := lawful_of_step _ _ _

end TTV.Lemmas.ContentDecode
