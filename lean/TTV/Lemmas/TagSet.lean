import TTV.Model.Result
/-! Bit-set lemmas for `TagSet` (membership = `Nat.testBit`). -/
namespace TTV.Lemmas.TagSetL
open TTV.Result

theorem ext {a b : TagSet} (h : ∀ i, a.testBit i = b.testBit i) : a = b := Nat.eq_of_testBit_eq h

theorem testBit_union (a b : TagSet) (i : Nat) : (TagSet.union a b).testBit i = (a.testBit i || b.testBit i) := by
  simp [TagSet.union]

theorem testBit_diff (a b : TagSet) (i : Nat) : (TagSet.diff a b).testBit i = (a.testBit i && !b.testBit i) := by
  simp only [TagSet.diff, Nat.testBit_xor, Nat.testBit_and]
  cases a.testBit i <;> cases b.testBit i <;> rfl

theorem testBit_change (s n g : TagSet) (i : Nat) :
    (TagSet.change s n g).testBit i = ((s.testBit i || n.testBit i) && !g.testBit i) := by
  simp [TagSet.change, testBit_diff, testBit_union]

theorem disjoint_testBit {n g : TagSet} (h : n &&& g = 0) (i : Nat) : (n.testBit i && g.testBit i) = false := by
  have := congrArg (fun x => x.testBit i) h
  simpa [Nat.testBit_and] using this

theorem change_zero (s : TagSet) : TagSet.change s 0 0 = s := by
  apply ext; intro i; simp [testBit_change]

/-- merging then applying = applying in sequence (`_merge_tags`), for a disjoint second change -/
theorem change_merge (s : TagSet) (a : TagSet × TagSet) (n g : TagSet) (h : n &&& g = 0) :
    TagSet.change s (mergeTags a (n, g)).1 (mergeTags a (n, g)).2 = TagSet.change (TagSet.change s a.1 a.2) n g := by
  apply ext; intro i
  have hd := disjoint_testBit h i
  simp only [mergeTags, testBit_change, testBit_diff, testBit_union]
  cases s.testBit i <;> cases a.1.testBit i <;> cases a.2.testBit i <;> cases hn : n.testBit i <;>
    cases hg : g.testBit i <;> simp_all

/-- a merged change stays disjoint -/
theorem merge_disjoint (a : TagSet × TagSet) (n g : TagSet) (ha : a.1 &&& a.2 = 0) :
    (mergeTags a (n, g)).1 &&& (mergeTags a (n, g)).2 = 0 := by
  apply ext; intro i
  have hd := disjoint_testBit ha i
  simp only [mergeTags, Nat.testBit_and, testBit_diff, testBit_union, Nat.zero_testBit]
  cases h1 : a.1.testBit i <;> cases h2 : a.2.testBit i <;> cases n.testBit i <;> cases g.testBit i <;> simp_all

theorem anyTags_false {p : TagSet × TagSet} (h : anyTags p = false) : p = (0, 0) := by
  obtain ⟨a, b⟩ := p
  simp only [anyTags, Bool.or_eq_false_iff, bne_eq_false_iff_eq] at h
  simp [h.1, h.2]

end TTV.Lemmas.TagSetL
