import TTV.Lemmas.RunInv
import TTV.Spec.C01
/-! Facts about the final state of `runCore`. -/
namespace TTV.Run
open TTV.Spec.Run TTV.Spec.C01

theorem runCl_excs_prefix (c : Cl) (s : RS) : ∃ l, (runCl c s).excs = s.excs ++ l := by
  cases c with
  | stage st => exact ⟨excsD false st.term, by simp [runCl, (runStage_effect st false s).excs]⟩
  | gather f ds => exact ⟨[], by simp [runCl]⟩
  | unpatch a o => exact ⟨[], by simp [runCl]⟩

theorem runCleanups_excs_prefix (s : RS) : ∃ l, (runCleanups s).excs = s.excs ++ l := by
  fun_induction runCleanups s with
  | case1 s hs => exact ⟨[], by simp⟩
  | case2 s c rest hs ih =>
    obtain ⟨l, hl⟩ := ih
    obtain ⟨l0, hl0⟩ := runCl_excs_prefix c { s with stack := rest }
    exact ⟨l0 ++ l, by rw [hl, hl0]; simp⟩

theorem popAll_nil (p : Program) (fuel : Nat) (st : List Nat) : popAll p fuel [] st = st.isEmpty := by
  cases fuel <;> simp [popAll]

/-- the cleanup loop runs the registered stage cleanups in stack order, exhausting the stack: its
stage sequence is accepted by the spec's stack machine -/
theorem runCleanups_popAll {p : Program} {ff0 : Bool} (hwf : wf p = true) (s : RS) (h : Inv p ff0 s) :
    ∃ l, (runCleanups s).execd = s.execd ++ l ∧
      ∀ fuel, l.length < fuel → popAll p fuel (l.map Stage.id) (stackIds s.stack) = true := by
  fun_induction runCleanups s with
  | case1 s hs => exact ⟨[], by simp, by intro fuel _; simp [popAll_nil, hs, stackIds]⟩
  | case2 s c rest hs ih =>
    have hinv := Inv.stepCl hwf h c rest hs
    obtain ⟨l, hl, hp⟩ := ih hinv
    cases c with
    | stage st =>
      have hn : st ∈ nested p := h.stackIn st (by rw [hs]; exact List.mem_cons_self)
      have e := runStage_effect st false { s with stack := rest }
      refine ⟨st :: l, ?_, ?_⟩
      · rw [hl]; simp [runCl, e.execd]
      · intro fuel hf
        cases fuel with
        | zero => simp at hf
        | succ f =>
          simp only [List.map_cons, hs, stackIds, popAll, beq_self_eq_true, Bool.true_and,
            findStage_of_mem p hwf st (nested_sub_all p st hn)]
          have := hp f (by simp at hf; omega)
          simp only [runCl, e.sids, regIds_eq] at this
          exact this
    | gather fid ds =>
      refine ⟨l, by rw [hl]; simp [runCl], ?_⟩
      intro fuel hf
      have := hp fuel hf
      simpa [runCl, hs, stackIds] using this
    | unpatch a old =>
      refine ⟨l, by rw [hl]; simp [runCl], ?_⟩
      intro fuel hf
      have := hp fuel hf
      simpa [runCl, hs, stackIds] using this

/-- everything the specs need to know about the state `runCore` ends in -/
structure CoreFacts (p : Program) (ff0 : Bool) (s : RS) (succ : Bool) : Prop where
  logPure : ∀ e ∈ s.log, isResultEv e = false
  logIds  : s.log.filterMap stageEvId = s.execd.map Stage.id
  execdIn : ∀ st ∈ s.execd, st ∈ allStages p
  ff      : s.ff = (ff0 || s.execd.any hasExpect)
  excs    : s.excs = s.execd.flatMap (stageExcs p) ++ (if s.ff then [forcedFailure] else [])
  onExcs  : s.log.filterMap onExcEv = handlerCalls p.nOnExc s.excs
  stack   : s.stack = []
  succ    : succ = true ↔ s.excs = []
  stages  : Spec.C01.cStages p ff0 { events := s.log, raised := none, ffAfter := s.ff, stackAfter := 0, attrsAfter := [] } = true

theorem stageIds_eq (evs : List Ev) (r : Option Exc) (f : Bool) (n : Nat) (a : List (Nat × Nat)) :
    stageIds { events := evs, raised := r, ffAfter := f, stackAfter := n, attrsAfter := a } = evs.filterMap stageEvId := by
  simp only [stageIds]
  congr 1
  funext e; cases e <;> rfl

theorem runCore_facts (p : Program) (ff0 : Bool) (hwf : wf p = true) (hskip : p.skipDeco = none) :
    CoreFacts p ff0 (runCore p ff0).1 (runCore p ff0).2 := by
  have h0 := Inv.init p ff0
  have hsu : p.setUp ∈ allStages p := by rw [allStages_eq]; simp
  have hbo : p.body ∈ allStages p := by rw [allStages_eq]; simp
  have htd : p.tearDown ∈ allStages p := by rw [allStages_eq]; simp
  have e1 := runStage_effect p.setUp false (initRS p ff0)
  have i1 : Inv p ff0 (runStage p.setUp false (initRS p ff0)).1 :=
    Inv.step h0 p.setUp false hsu
      (fun c hc => by simp only [nested, List.mem_append]; exact Or.inl (Or.inl (child_mem_stagesOfActs hc)))
      (by simp [excsD, stageExcs, setUp_id_ne_body p hwf])
  have hok1 : (runStage p.setUp false (initRS p ff0)).2 = setUpOk p := by rw [e1.ok]; simp [setUpOk]
  unfold runCore
  generalize hr1 : runStage p.setUp false (initRS p ff0) = r1 at e1 i1 hok1
  obtain ⟨s1, ok1⟩ := r1
  simp only at e1 i1 hok1 ⊢
  have hx1 : s1.execd = [p.setUp] := by rw [e1.execd]; simp [initRS]
  cases hsok : setUpOk p with
  | false =>
    -- setUp failed: only the cleanups run
    subst hok1
    simp only [hsok, Bool.false_eq_true, if_false]
    have ic := Inv.cleanups hwf s1 i1
    obtain ⟨l, hl, hp⟩ := runCleanups_popAll hwf s1 i1
    obtain ⟨lx, hlx⟩ := runCleanups_excs_prefix s1
    have hne : excsD false p.setUp.term ≠ [] := by
      apply excsD_ne_nil; right
      intro h; simp [setUpOk, h, termExcs] at hsok
    have hst : Spec.C01.cStages p ff0 ⟨(runCleanups s1).log, none, (runCleanups s1).ff, 0, []⟩ = true := by
      simp only [cStages, hskip, Option.isSome_none, Bool.false_eq_true, if_false, hsok, stageIds_eq, ic.logIds, hl, hx1]
      simp only [List.cons_append, List.nil_append, List.map_cons, beq_self_eq_true, Bool.true_and]
      have := hp (l.length + 1) (by omega)
      simpa [e1.sids, initRS, stackIds, regIds_eq] using this
    split
    · -- forced failure: an expectation failed before setUp gave up
      rename_i hff
      refine ⟨?_, ?_, ?_, ?_, ?_, ?_, ?_, ?_, ?_⟩
      · intro x hx
        rw [got_log] at hx
        simp only [List.mem_append] at hx
        rcases hx with hx | hx
        · exact ic.logPure x hx
        · exact onExcCalls_pure _ _ x hx
      · rw [got_log, got_execd, List.filterMap_append, ic.logIds]
        have := filterMap_stage_onExcCalls (runCleanups s1).nOnExc [forcedFailure]
        simp only [List.flatMap_cons, List.flatMap_nil, List.append_nil] at this
        rw [this]; simp
      · rw [got_execd]; exact ic.execdIn
      · rw [got_ff, got_execd]; exact ic.ff
      · rw [got_excs, got_execd, got_ff, ic.excs]; simp [hff]
      · rw [got_log, got_excs, List.filterMap_append, ic.onExcs, handlerCalls_append, ic.nOnExc]
        have := filterMap_onExc_onExcCalls p.nOnExc [forcedFailure]
        simp only [List.flatMap_cons, List.flatMap_nil, List.append_nil] at this
        rw [this]
      · rw [got_stack']; exact runCleanups_stack s1
      · simp
      · simpa [cStages, stageIds_eq, List.filterMap_append, filterMap_stage_onExcCalls,
          show (onExcCalls (runCleanups s1).nOnExc forcedFailure).filterMap stageEvId = [] from by
            have := filterMap_stage_onExcCalls (runCleanups s1).nOnExc [forcedFailure]
            simpa using this] using hst
    · rename_i hff
      simp only [Bool.not_eq_true] at hff
      refine ⟨ic.logPure, ic.logIds, ic.execdIn, ic.ff, ?_, ic.onExcs, runCleanups_stack s1, ?_, hst⟩
      · rw [ic.excs]; simp [hff]
      · simp only [Bool.false_eq_true, false_iff]
        rw [hlx, e1.excs]
        simp [hne]
  | true =>
    subst hok1
    simp only [hsok, if_true]
    have e2 := runStage_effect p.body p.xfailDeco s1
    have i2 : Inv p ff0 (runStage p.body p.xfailDeco s1).1 :=
      Inv.step i1 p.body p.xfailDeco hbo
        (fun c hc => by simp only [nested, List.mem_append]; exact Or.inl (Or.inr (child_mem_stagesOfActs hc)))
        (by simp [excsD, stageExcs])
    generalize hr2 : runStage p.body p.xfailDeco s1 = r2 at e2 i2
    obtain ⟨s2, ok2⟩ := r2
    simp only at e2 i2 ⊢
    have e3 := runStage_effect p.tearDown false s2
    have i3 : Inv p ff0 (runStage p.tearDown false s2).1 :=
      Inv.step i2 p.tearDown false htd
        (fun c hc => by simp only [nested, List.mem_append]; exact Or.inr (child_mem_stagesOfActs hc))
        (by simp [excsD, stageExcs, tearDown_id_ne_body p hwf])
    generalize hr3 : runStage p.tearDown false s2 = r3 at e3 i3
    obtain ⟨s3, ok3⟩ := r3
    simp only at e3 i3 ⊢
    have ic := Inv.cleanups hwf s3 i3
    obtain ⟨l, hl, hp⟩ := runCleanups_popAll hwf s3 i3
    obtain ⟨lx, hlx⟩ := runCleanups_excs_prefix s3
    have hx3 : s3.execd = [p.setUp, p.body, p.tearDown] := by rw [e3.execd, e2.execd, hx1]; simp
    have hst : Spec.C01.cStages p ff0 ⟨(runCleanups s3).log, none, (runCleanups s3).ff, 0, []⟩ = true := by
      simp only [cStages, hskip, Option.isSome_none, Bool.false_eq_true, if_false, hsok, if_true, stageIds_eq, ic.logIds, hl, hx3]
      simp only [List.cons_append, List.nil_append, List.map_cons, beq_self_eq_true, Bool.true_and]
      have := hp (l.length + 1) (by omega)
      simpa [e3.sids, e2.sids, e1.sids, initRS, stackIds, regIds_eq] using this
    have hsetup_nil : excsD false p.setUp.term = [] := by
      simp only [excsD, Bool.false_eq_true, if_false]
      simpa [setUpOk] using hsok
    split
    · -- forced failure
      rename_i hff
      refine ⟨?_, ?_, ?_, ?_, ?_, ?_, ?_, ?_, ?_⟩
      · intro x hx
        rw [got_log] at hx
        simp only [List.mem_append] at hx
        rcases hx with hx | hx
        · exact ic.logPure x hx
        · exact onExcCalls_pure _ _ x hx
      · rw [got_log, got_execd, List.filterMap_append, ic.logIds]
        have := filterMap_stage_onExcCalls (runCleanups s3).nOnExc [forcedFailure]
        simp only [List.flatMap_cons, List.flatMap_nil, List.append_nil] at this
        rw [this]; simp
      · rw [got_execd]; exact ic.execdIn
      · rw [got_ff, got_execd]; exact ic.ff
      · rw [got_excs, got_execd, got_ff, ic.excs]; simp [hff]
      · rw [got_log, got_excs, List.filterMap_append, ic.onExcs, handlerCalls_append, ic.nOnExc]
        have := filterMap_onExc_onExcCalls p.nOnExc [forcedFailure]
        simp only [List.flatMap_cons, List.flatMap_nil, List.append_nil] at this
        rw [this]
      · rw [got_stack']; exact runCleanups_stack s3
      · simp
      · simpa [cStages, stageIds_eq, List.filterMap_append, filterMap_stage_onExcCalls,
          show (onExcCalls (runCleanups s3).nOnExc forcedFailure).filterMap stageEvId = [] from by
            have := filterMap_stage_onExcCalls (runCleanups s3).nOnExc [forcedFailure]
            simpa using this] using hst
    · rename_i hff
      simp only [Bool.not_eq_true] at hff
      refine ⟨ic.logPure, ic.logIds, ic.execdIn, ic.ff, ?_, ic.onExcs, runCleanups_stack s3, ?_, hst⟩
      · rw [ic.excs]; simp [hff]
      · rw [hlx, e3.excs, e2.excs, e1.excs]
        simp only [initRS, List.nil_append, hsetup_nil, Bool.and_eq_true, beq_iff_eq, List.append_eq_nil_iff]
        have hk2 := e2.ok
        have hk3 := e3.ok
        have key2 : ok2 = true ↔ excsD p.xfailDeco p.body.term = [] := by
          rw [hk2]
          cases hd : p.xfailDeco with
          | true =>
            simp only [Bool.not_true, Bool.false_and, Bool.false_eq_true, false_iff]
            exact excsD_ne_nil _ _ (Or.inl rfl)
          | false => simp [excsD]
        have key3 : ok3 = true ↔ excsD false p.tearDown.term = [] := by
          rw [hk3]; simp [excsD]
        constructor
        · rintro ⟨⟨h2, h3⟩, h4⟩
          have hl0 : lx = [] := by
            apply List.eq_nil_of_length_eq_zero
            simp only [List.length_append] at h4; omega
          exact ⟨⟨key2.mp h2, key3.mp h3⟩, hl0⟩
        · rintro ⟨⟨h2, h3⟩, h4⟩
          subst h4
          exact ⟨⟨key2.mpr h2, key3.mpr h3⟩, by simp⟩

end TTV.Run
