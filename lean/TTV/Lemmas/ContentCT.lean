import TTV.Model.Content
import TTV.Spec.C16
/-! Lemmas for C16: `ContentType.__repr__` followed by `_make_content_type` (model `render` / `parseCT`). -/
namespace TTV.Lemmas.ContentCT
open TTV.Content TTV.Spec.C16

/-! ### the order on strings -/

theorem lexLe_total : ∀ a b : Text, (lexLe a b || lexLe b a) = true
  | [], _ => by simp [lexLe]
  | _ :: _, [] => by simp [lexLe]
  | x :: xs, y :: ys => by
    have ih := lexLe_total xs ys
    simp only [lexLe, Bool.or_eq_true, Bool.and_eq_true, decide_eq_true_eq, beq_iff_eq] at ih ⊢
    rcases Nat.lt_trichotomy x y with h | h | h
    · exact Or.inl (Or.inl h)
    · subst h; rcases ih with ih | ih
      · exact Or.inl (Or.inr ⟨rfl, ih⟩)
      · exact Or.inr (Or.inr ⟨rfl, ih⟩)
    · exact Or.inr (Or.inl h)

theorem lexLe_trans : ∀ a b c : Text, lexLe a b = true → lexLe b c = true → lexLe a c = true
  | [], _, _, _, _ => by simp [lexLe]
  | _ :: _, [], _, h, _ => by simp [lexLe] at h
  | _ :: _, _ :: _, [], _, h => by simp [lexLe] at h
  | x :: xs, y :: ys, z :: zs, h1, h2 => by
    have ih := lexLe_trans xs ys zs
    simp only [lexLe, Bool.or_eq_true, Bool.and_eq_true, decide_eq_true_eq, beq_iff_eq] at h1 h2 ih ⊢
    rcases h1 with h1 | ⟨rfl, h1⟩
    · rcases h2 with h2 | ⟨rfl, h2⟩
      · exact Or.inl (Nat.lt_trans h1 h2)
      · exact Or.inl h1
    · rcases h2 with h2 | ⟨rfl, h2⟩
      · exact Or.inl h2
      · exact Or.inr ⟨rfl, ih h1 h2⟩

theorem lexLe_antisymm : ∀ a b : Text, lexLe a b = true → lexLe b a = true → a = b
  | [], [], _, _ => rfl
  | [], _ :: _, _, h => by simp [lexLe] at h
  | _ :: _, [], h, _ => by simp [lexLe] at h
  | x :: xs, y :: ys, h1, h2 => by
    have ih := lexLe_antisymm xs ys
    simp only [lexLe, Bool.or_eq_true, Bool.and_eq_true, decide_eq_true_eq, beq_iff_eq] at h1 h2 ih
    rcases h1 with h1 | ⟨rfl, h1⟩
    · rcases h2 with h2 | ⟨rfl, h2⟩ <;> omega
    · rcases h2 with h2 | ⟨_, h2⟩
      · omega
      · rw [ih h1 h2]

/-! ### tokens and quoted strings -/

theorem spanToken_append_cons (t : Text) (d : Nat) (r : Text) (ht : t.all tokenCharU = true) (hd : tokenCharU d = false) :
    spanToken (t ++ d :: r) = (t, d :: r) := by
  induction t with
  | nil => simp [spanToken, hd]
  | cons c cs ih =>
    simp only [List.all_cons, Bool.and_eq_true] at ht
    simp [spanToken, ht.1, ih ht.2]

theorem spanToken_all (t : Text) (ht : t.all tokenCharU = true) : spanToken t = (t, []) := by
  induction t with
  | nil => rfl
  | cons c cs ih =>
    simp only [List.all_cons, Bool.and_eq_true] at ht
    simp [spanToken, ht.1, ih ht.2]

theorem unquote_quoteValue (v rest : Text) : unquote (quoteValue v ++ chQuote :: rest) = some (v, rest) := by
  unfold unquote
  induction v with
  | nil => simp [quoteValue, unquoteAux]
  | cons c cs ih =>
    simp only [quoteValue]
    by_cases h : (c = chBackslash || c = chQuote) = true
    · simp only [h, if_true, List.cons_append]
      simp only [chQuote] at ih
      simp [unquoteAux, chBackslash, chQuote, ih]
    · simp only [h, Bool.false_eq_true, if_false, List.cons_append]
      simp only [Bool.or_eq_true, decide_eq_true_eq, not_or] at h
      simp [unquoteAux, h.1, h.2, ih]

theorem isToken_iff {t : Text} : isToken t = true ↔ t ≠ [] ∧ t.all tokenChar = true := by
  cases t <;> simp [isToken]

theorem isTokenU_iff {t : Text} : isTokenU t = true ↔ t ≠ [] ∧ t.all tokenCharU = true := by
  cases t <;> simp [isTokenU]

theorem tokenCharU_of_tokenChar {c : Nat} (h : tokenChar c = true) : tokenCharU c = true := by simp [tokenCharU, h]

theorem isTokenU_of_isToken {t : Text} (h : isToken t = true) : isTokenU t = true := by
  rw [isToken_iff] at h; rw [isTokenU_iff]
  refine ⟨h.1, ?_⟩
  rw [List.all_eq_true] at h ⊢
  exact fun c hc => tokenCharU_of_tokenChar (h.2 c hc)

/-- a lower-case token is its own lower-casing -/
theorem lower_of_token {t : Text} (h : t.all tokenChar = true) : lower t = t := by
  induction t with
  | nil => rfl
  | cons c cs ih =>
    simp only [List.all_cons, Bool.and_eq_true] at h
    have hc : lowerC c = c := by
      have := h.1
      simp only [tokenChar, Bool.and_eq_true, Bool.not_eq_true', Bool.and_eq_false_iff, decide_eq_true_eq, decide_eq_false_iff_not] at this
      simp only [lowerC, Bool.and_eq_true, decide_eq_true_eq]
      split
      · omega
      · rfl
    have := ih h.2
    simp only [lower] at this
    simp [lower, hc, this]

theorem joinParams_cons (p : Text × Text) (xs : List Text) :
    joinParams (renderParam p :: xs)
      = chSemi :: chSpace :: (p.1 ++ chEq :: chQuote :: (quoteValue p.2 ++ chQuote :: joinParams xs)) := by
  simp [joinParams, renderParam, List.append_assoc]

def lowerName (p : Text × Text) : Text × Text := (lower p.1, p.2)

theorem parseParams_join : ∀ (ps : List (Text × Text)) (f : Nat), (∀ p ∈ ps, isTokenU p.1 = true) →
    (joinParams (ps.map renderParam)).length ≤ f → parseParams f (joinParams (ps.map renderParam)) = some (ps.map lowerName) := by
  intro ps
  induction ps with
  | nil => intro f _ _; cases f <;> simp [joinParams, parseParams]
  | cons p ps ih =>
    intro f hp hf
    have hp1 := isTokenU_iff.mp (hp p List.mem_cons_self)
    simp only [List.map_cons, joinParams_cons] at hf ⊢
    cases f with
    | zero => simp at hf
    | succ f =>
      have hfuel : (joinParams (ps.map renderParam)).length ≤ f := by
        simp only [List.length_cons, List.length_append] at hf; omega
      have hrec := ih f (fun q hq => hp q (List.mem_cons_of_mem _ hq)) hfuel
      have hspan := spanToken_append_cons p.1 chEq
        (chQuote :: (quoteValue p.2 ++ chQuote :: joinParams (ps.map renderParam))) hp1.2 (by decide)
      have hne : p.1.isEmpty = false := by cases h : p.1 <;> simp_all
      simp [parseParams, hspan, unquote_quoteValue, hrec, hne, lowerName]

/-! ### no line break in a rendering -/

theorem lineBreak_of_tokenChar {c : Nat} (h : tokenCharU c = true) : lineBreak c = false := by
  simp only [tokenCharU, tokenChar, Bool.or_eq_true, Bool.and_eq_true, decide_eq_true_eq] at h
  simp only [lineBreak, List.contains_cons, List.contains_nil, Bool.or_false, Bool.or_eq_false_iff, beq_eq_false_iff_ne]
  omega

theorem any_lineBreak_token {t : Text} (h : t.all tokenCharU = true) : t.any lineBreak = false := by
  simp only [List.all_eq_true] at h
  simp only [List.any_eq_false]
  intro c hc
  simp [lineBreak_of_tokenChar (h c hc)]

theorem any_lineBreak_quoteValue (v : Text) : (quoteValue v).any lineBreak = v.any lineBreak := by
  induction v with
  | nil => rfl
  | cons c cs ih =>
    simp only [quoteValue]
    split
    · simp only [List.any_cons, ih]
      have : lineBreak chBackslash = false := by decide
      simp [this]
    · simp [List.any_cons, ih]

theorem any_lineBreak_join : ∀ ps : List (Text × Text), (∀ p ∈ ps, isTokenU p.1 = true) →
    (∀ p ∈ ps, p.2.any lineBreak = false) → (joinParams (ps.map renderParam)).any lineBreak = false := by
  intro ps
  induction ps with
  | nil => intro _ _; rfl
  | cons p ps ih =>
    intro h1 h2
    have hp1 := (isTokenU_iff.mp (h1 p List.mem_cons_self)).2
    have hp2 := h2 p List.mem_cons_self
    have := ih (fun q hq => h1 q (List.mem_cons_of_mem _ hq)) (fun q hq => h2 q (List.mem_cons_of_mem _ hq))
    simp only [List.map_cons, joinParams_cons, List.any_cons, List.any_append, any_lineBreak_token hp1,
      any_lineBreak_quoteValue, hp2, this]
    decide

/-! ### render, then parse -/

/-- the parameters in the order `__repr__` prints them: sorted by their rendered text -/
def sortedPairs (ct : CT) : List (Text × Text) :=
  ct.params.mergeSort fun a b => lexLe (renderParam a) (renderParam b)

theorem sortedPairs_perm (ct : CT) : (sortedPairs ct).Perm ct.params := List.mergeSort_perm _ _

theorem render_eq (ct : CT) :
    render ct = ct.type ++ chSlash :: (ct.subtype ++ joinParams ((sortedPairs ct).map renderParam)) := by
  have : (ct.params.map renderParam).mergeSort lexLe = (sortedPairs ct).map renderParam := by
    unfold sortedPairs
    exact (List.map_mergeSort (r := fun a b => lexLe (renderParam a) (renderParam b)) (s := lexLe) (f := renderParam)
      (fun _ _ _ _ => rfl)).symm
  simp [render, this, List.append_assoc]

theorem wf_iff {ct : CT} : ct.wf = true ↔
    isToken ct.type = true ∧ isToken ct.subtype = true ∧ (∀ p ∈ ct.params, isToken p.1 = true) ∧ hasDupNames ct.params = false := by
  simp [CT.wf, and_assoc]

theorem joinParams_head (ps : List (Text × Text)) :
    joinParams (ps.map renderParam) = [] ∨ ∃ r, joinParams (ps.map renderParam) = chSemi :: r := by
  cases ps with
  | nil => exact Or.inl rfl
  | cons p ps => exact Or.inr ⟨_, by rw [List.map_cons, joinParams_cons]⟩

theorem wfU_iff {ct : CT} : ct.wfU = true ↔
    isTokenU ct.type = true ∧ isTokenU ct.subtype = true ∧ (∀ p ∈ ct.params, isTokenU p.1 = true)
      ∧ hasDupNames (ct.params.map lowerName) = false := by
  have e : (fun p : Text × Text => (lower p.1, p.2)) = lowerName := rfl
  simp [CT.wfU, CT.lowered, and_assoc, e]

/-- what the parser makes of a rendering: type, subtype and names lower-cased, values as they are -/
theorem parseCT_render (ct : CT) (hw : ct.wfU = true) (hnl : valueCRLF ct = false) :
    parseCT (render ct) = .ok { type := lower ct.type, subtype := lower ct.subtype,
                                params := fixCharset ((sortedPairs ct).map lowerName) } := by
  obtain ⟨ht, hs, hp, _⟩ := wfU_iff.mp hw
  have ht' := isTokenU_iff.mp ht
  have hs' := isTokenU_iff.mp hs
  have hp' : ∀ p ∈ sortedPairs ct, isTokenU p.1 = true := fun p h => hp p ((sortedPairs_perm ct).subset h)
  have hv' : ∀ p ∈ sortedPairs ct, p.2.any lineBreak = false := by
    intro p h
    have hm := (sortedPairs_perm ct).subset h
    simp only [valueCRLF, List.any_eq_false] at hnl
    simpa using hnl p hm
  have hnb : (render ct).any lineBreak = false := by
    rw [render_eq]
    simp only [List.any_append, List.any_cons, any_lineBreak_token ht'.2, any_lineBreak_token hs'.2,
      any_lineBreak_join _ hp' hv']
    decide
  have hspan1 := spanToken_append_cons ct.type chSlash
    (ct.subtype ++ joinParams ((sortedPairs ct).map renderParam)) ht'.2 (by decide)
  have hspan2 : spanToken (ct.subtype ++ joinParams ((sortedPairs ct).map renderParam))
      = (ct.subtype, joinParams ((sortedPairs ct).map renderParam)) := by
    rcases joinParams_head (sortedPairs ct) with h | ⟨r, h⟩
    · rw [h, List.append_nil]; exact spanToken_all _ hs'.2
    · rw [h]; exact spanToken_append_cons _ _ _ hs'.2 (by decide)
  have hpar := parseParams_join (sortedPairs ct) _ hp' (Nat.le_refl _)
  have hne1 : ct.type.isEmpty = false := by cases h : ct.type <;> simp_all
  have hne2 : ct.subtype.isEmpty = false := by cases h : ct.subtype <;> simp_all
  unfold parseCT
  rw [if_neg (by simp [hnb])]
  rw [render_eq] at *
  simp only [hspan1, hspan2, hpar, hne1, hne2]
  simp

theorem takeWhile_eq_self {α : Type} (p : α → Bool) : ∀ l : List α, (∀ x ∈ l, p x = true) → l.takeWhile p = l
  | [], _ => rfl
  | x :: xs, h => by
    simp only [List.takeWhile_cons, h x List.mem_cons_self, if_true]
    rw [takeWhile_eq_self p xs (fun y hy => h y (List.mem_cons_of_mem _ hy))]

theorem fixCharset_id (ps : List (Text × Text)) (h : ∀ p ∈ ps, p.1 = charsetName → p.2.contains chComma = false) :
    fixCharset ps = ps := by
  unfold fixCharset
  conv => rhs; rw [← List.map_id ps]
  apply List.map_congr_left
  intro p hp
  split
  · rename_i hc
    have := h p hp hc
    have e : p.2.takeWhile (· != chComma) = p.2 := by
      apply takeWhile_eq_self
      intro x hx
      have hne : x ≠ chComma := by
        intro hxe; subst hxe
        have : p.2.contains chComma = true := List.contains_iff_mem.mpr hx
        simp_all
      simpa [bne_iff_ne] using hne
    rw [e]; rfl
  · rfl

theorem same_name_eq : ∀ (ps : List (Text × Text)), hasDupNames ps = false → ∀ a ∈ ps, ∀ b ∈ ps, a.1 = b.1 → a = b := by
  intro ps
  induction ps with
  | nil => intro _ a ha; simp at ha
  | cons p ps ih =>
    intro h a ha b hb hab
    simp only [hasDupNames, Bool.or_eq_false_iff, List.any_eq_false, beq_iff_eq] at h
    rcases List.mem_cons.mp ha with rfl | ha' <;> rcases List.mem_cons.mp hb with rfl | hb'
    · rfl
    · exact absurd hab.symm (h.1 b hb')
    · exact absurd hab (h.1 a ha')
    · exact ih h.2 a ha' b hb' hab

/-- sorting by name does not depend on the order the parameters come in (names are distinct) -/
theorem sortParams_perm {l₁ l₂ : List (Text × Text)} (hp : l₁.Perm l₂) (hd : hasDupNames l₂ = false) :
    sortParams l₁ = sortParams l₂ := by
  unfold sortParams
  apply List.Perm.eq_of_pairwise (le := fun a b => lexLe a.1 b.1 = true)
  · intro a b ha hb h1 h2
    have ha' : a ∈ l₂ := hp.subset ((List.mergeSort_perm _ _).subset ha)
    have hb' : b ∈ l₂ := (List.mergeSort_perm _ _).subset hb
    exact same_name_eq l₂ hd a ha' b hb' (lexLe_antisymm _ _ h1 h2)
  · exact List.pairwise_mergeSort (fun a b c => lexLe_trans a.1 b.1 c.1) (fun a b => lexLe_total a.1 b.1) _
  · exact List.pairwise_mergeSort (fun a b c => lexLe_trans a.1 b.1 c.1) (fun a b => lexLe_total a.1 b.1) _
  · exact ((List.mergeSort_perm _ _).trans hp).trans (List.mergeSort_perm _ _).symm

theorem lowered_params (ct : CT) : ct.lowered.params = ct.params.map lowerName := rfl

/-- one content type, whatever its letter case, outside the finding classes: parsing its rendering gives the content type with
type, subtype and names lower-cased and the values untouched -/
theorem ctypePair_lowered (ct : CT) (hw : ct.wfU = true) (hnl : valueCRLF ct = false) (hcc : charsetComma ct.lowered = false) :
    ctypePair ct = (render ct, .ok { ct.lowered with params := sortParams ct.lowered.params }) := by
  obtain ⟨_, _, _, hd⟩ := wfU_iff.mp hw
  have hperm : ((sortedPairs ct).map lowerName).Perm (ct.params.map lowerName) := (sortedPairs_perm ct).map lowerName
  have hfix : fixCharset ((sortedPairs ct).map lowerName) = (sortedPairs ct).map lowerName := by
    apply fixCharset_id
    intro p hp hc
    have hm := hperm.subset hp
    simp only [charsetComma, lowered_params, List.any_eq_false, Bool.and_eq_true, beq_iff_eq, not_and, Bool.not_eq_true] at hcc
    exact hcc p hm hc
  have e : (fun p : Text × Text => (lower p.1, p.2)) = lowerName := rfl
  simp only [ctypePair, parseCT_render ct hw hnl, hfix, sortParams_perm hperm hd, CT.lowered, e]

theorem wfU_of_wf {ct : CT} (hw : ct.wf = true) : ct.wfU = true ∧ ct.lowered = ct := by
  obtain ⟨ht, hs, hp, hd⟩ := wf_iff.mp hw
  have hl : ct.lowered = ct := by
    have e : ct.params.map (fun p => (lower p.1, p.2)) = ct.params := by
      conv => rhs; rw [← List.map_id ct.params]
      apply List.map_congr_left
      intro p hpm
      simp [lower_of_token (isToken_iff.mp (hp p hpm)).2]
    cases ct
    simp only [CT.lowered, lower_of_token (isToken_iff.mp ht).2, lower_of_token (isToken_iff.mp hs).2] at e ⊢
    simp [e]
  refine ⟨?_, hl⟩
  rw [wfU_iff]
  refine ⟨isTokenU_of_isToken ht, isTokenU_of_isToken hs, fun p hpm => isTokenU_of_isToken (hp p hpm), ?_⟩
  have : ct.params.map lowerName = ct.lowered.params := rfl
  rw [this, hl]; exact hd

/-- the content-type scenario of the model outside the finding classes: the round trip is the identity -/
theorem ctypeModel_roundtrip (ct : CT) (hw : ct.wf = true) (hnl : valueCRLF ct = false) (hcc : charsetComma ct = false) :
    ctypeModel ct = .ctype (render ct) (.ok { ct with params := sortParams ct.params }) := by
  obtain ⟨hu, hl⟩ := wfU_of_wf hw
  have := ctypePair_lowered ct hu hnl (by rw [hl]; exact hcc)
  rw [hl] at this
  simp [ctypeModel, this]

end TTV.Lemmas.ContentCT
