import TTV.Lemmas.RunInduct
import TTV.Spec.C05
/-! The details dict of M-Run: `dset` / `addDetailUniqueName` / `_report_traceback` never overwrite (fresh
names), plain `addDetail` overwrites only what the clobber flag records. -/
namespace TTV.Run
open TTV.Spec.Run TTV.Spec.C05

/-! ### `dset` -/
theorem dmem_iff (d : Details) (n : DName) : dmem d n = true ↔ n ∈ dnames d := by
  simp only [dmem, dnames, List.any_eq_true, List.mem_map, beq_iff_eq]

theorem dset_of_not_mem (d : Details) (n : DName) (c : Content) (h : n ∉ dnames d) : dset d n c = d ++ [(n, c)] := by
  induction d with
  | nil => rfl
  | cons x d ih =>
    obtain ⟨m, y⟩ := x
    simp only [dnames, List.map_cons, List.mem_cons, not_or] at h
    have hne : ¬ m = n := fun e => h.1 e.symm
    simp only [dset, hne, if_false, List.cons_append]
    rw [ih h.2]

theorem dset_of_mem (d : Details) (n : DName) (c : Content) (h : n ∈ dnames d) :
    ∃ d1 c0 d2, d = d1 ++ (n, c0) :: d2 ∧ n ∉ dnames d1 ∧ dset d n c = d1 ++ (n, c) :: d2 := by
  induction d with
  | nil => simp [dnames] at h
  | cons x d ih =>
    obtain ⟨m, y⟩ := x
    by_cases hm : m = n
    · subst hm
      exact ⟨[], y, d, rfl, by simp [dnames], by simp [dset]⟩
    · have h' : n ∈ dnames d := by
        simp only [dnames, List.map_cons, List.mem_cons] at h
        rcases h with h | h
        · exact absurd h.symm hm
        · exact h
      obtain ⟨d1, c0, d2, e1, e2, e3⟩ := ih h'
      refine ⟨(m, y) :: d1, c0, d2, by rw [e1]; rfl, ?_, by simp [dset, hm, e3]⟩
      simp only [dnames, List.map_cons, List.mem_cons, not_or]
      exact ⟨fun e => hm e.symm, e2⟩

theorem dnames_dset (d : Details) (n : DName) (c : Content) :
    dnames (dset d n c) = if n ∈ dnames d then dnames d else dnames d ++ [n] := by
  split
  · rename_i h
    obtain ⟨d1, c0, d2, e1, _, e3⟩ := dset_of_mem d n c h
    rw [e3, e1]; simp [dnames]
  · rename_i h
    rw [dset_of_not_mem d n c h]; simp [dnames]

theorem mem_dnames_dset (d : Details) (n : DName) (c : Content) (m : DName) :
    m ∈ dnames (dset d n c) ↔ m = n ∨ m ∈ dnames d := by
  rw [dnames_dset]
  split
  · rename_i h
    constructor
    · exact Or.inr
    · rintro (rfl | h') <;> assumption
  · simp only [List.mem_append, List.mem_singleton]
    constructor
    · rintro (h | h); exact Or.inr h; exact Or.inl h
    · rintro (h | h); exact Or.inr h; exact Or.inl h

theorem nodup_dset (d : Details) (n : DName) (c : Content) (h : (dnames d).Nodup) : (dnames (dset d n c)).Nodup := by
  rw [dnames_dset]
  split
  · exact h
  · rename_i hn
    rw [List.nodup_append]
    exact ⟨h, by simp, by intro a ha b hb; simp only [List.mem_singleton] at hb; subst hb; intro e; subst e; exact hn ha⟩

theorem length_dset_le (d : Details) (n : DName) (c : Content) : d.length ≤ (dset d n c).length := by
  induction d with
  | nil => simp [dset]
  | cons x d ih =>
    obtain ⟨m, y⟩ := x
    simp only [dset]; split <;> simp [ih]

/-- membership after `dict[n] = c` (names distinct) -/
theorem mem_dset (d : Details) (n : DName) (c : Content) (hnd : (dnames d).Nodup) (x : DName × Content) :
    x ∈ dset d n c ↔ x = (n, c) ∨ (x ∈ d ∧ x.1 ≠ n) := by
  by_cases h : n ∈ dnames d
  · obtain ⟨d1, c0, d2, e1, e2, e3⟩ := dset_of_mem d n c h
    rw [e3]
    rw [e1] at hnd
    simp only [dnames, List.map_append, List.map_cons] at hnd
    have hnd' := List.nodup_append.mp hnd
    have hn2 : n ∉ d2.map (·.1) := (List.nodup_cons.mp hnd'.2.1).1
    have hn1 : n ∉ d1.map (·.1) := e2
    rw [e1]
    simp only [List.mem_append, List.mem_cons]
    constructor
    · rintro (hx | hx | hx)
      · exact Or.inr ⟨Or.inl hx, fun e => hn1 (e ▸ List.mem_map_of_mem hx)⟩
      · exact Or.inl hx
      · exact Or.inr ⟨Or.inr (Or.inr hx), fun e => hn2 (e ▸ List.mem_map_of_mem hx)⟩
    · rintro (hx | ⟨hx | hx | hx, hne⟩)
      · exact Or.inr (Or.inl hx)
      · exact Or.inl hx
      · subst hx; exact absurd rfl hne
      · exact Or.inr (Or.inr hx)
  · rw [dset_of_not_mem d n c h]
    simp only [List.mem_append, List.mem_singleton]
    constructor
    · rintro (hx | hx)
      · exact Or.inr ⟨hx, fun e => h (e ▸ List.mem_map_of_mem hx)⟩
      · exact Or.inl hx
    · rintro (hx | ⟨hx, _⟩)
      · exact Or.inr hx
      · exact Or.inl hx

theorem find_dset_self (d : Details) (n : DName) (c : Content) : (dset d n c).find? (·.1 == n) = some (n, c) := by
  induction d with
  | nil => simp [dset]
  | cons x d ih =>
    obtain ⟨m, y⟩ := x
    simp only [dset]
    split
    · rename_i h; subst h; simp
    · rename_i h
      have : (m == n) = false := by simpa using h
      simp [List.find?_cons, this, ih]

theorem find_dset_other (d : Details) (n m : DName) (c : Content) (h : m ≠ n) :
    (dset d n c).find? (·.1 == m) = d.find? (·.1 == m) := by
  induction d with
  | nil =>
    have : (n == m) = false := by simpa using fun e => h e.symm
    simp [dset, List.find?_cons, this]
  | cons x d ih =>
    obtain ⟨k, y⟩ := x
    simp only [dset]
    split
    · rename_i hk; subst hk
      have : (k == m) = false := by simpa using fun e => h e.symm
      simp [List.find?_cons, this]
    · simp only [List.find?_cons, ih]

/-- a projection of the dict that ignores both the new and the replaced entry is unchanged -/
theorem filterMap_dset_none {β : Type} (g : DName × Content → Option β) (d : Details) (n : DName) (c : Content)
    (hnew : g (n, c) = none) (hold : ∀ x ∈ d, x.1 = n → g x = none) :
    (dset d n c).filterMap g = d.filterMap g := by
  induction d with
  | nil => simp [dset, hnew]
  | cons x d ih =>
    obtain ⟨m, y⟩ := x
    simp only [dset]
    split
    · rename_i h; subst h
      have := hold (m, y) List.mem_cons_self rfl
      simp [List.filterMap_cons, hnew, this]
    · simp only [List.filterMap_cons]
      rw [ih (fun x hx => hold x (List.mem_cons_of_mem _ hx))]

theorem filter_dset_none (q : DName × Content → Bool) (d : Details) (n : DName) (c : Content)
    (hnew : q (n, c) = false) (hold : ∀ x ∈ d, x.1 = n → q x = false) :
    (dset d n c).filter q = d.filter q := by
  induction d with
  | nil => simp [dset, hnew]
  | cons x d ih =>
    obtain ⟨m, y⟩ := x
    simp only [dset]
    split
    · rename_i h; subst h
      have := hold (m, y) List.mem_cons_self rfl
      simp [List.filter_cons, hnew, this]
    · simp only [List.filter_cons]
      rw [ih (fun x hx => hold x (List.mem_cons_of_mem _ hx))]

/-! ### fresh names -/
theorem push_ne (n : DName) (k : Nat) : n.push k ≠ n := by
  intro h
  have := congrArg (fun x => x.sufs.length) h
  simp [DName.push] at this

theorem push_inj (n : DName) (j k : Nat) (h : n.push j = n.push k) : j = k := by
  have := congrArg DName.sufs h
  simpa [DName.push] using this

/-- the rename loop returns `n` itself or `n-j` -/
theorem uniqFrom_form (n : DName) (k : Nat) (taken : List DName) :
    (k = 0 ∧ uniqFrom n k taken = n) ∨ ∃ j, k ≤ j ∧ 0 < j ∧ uniqFrom n k taken = n.push j := by
  fun_induction uniqFrom n k taken with
  | case1 k taken cand h ih =>
    rcases ih with ⟨h0, _⟩ | ⟨j, h1, h2, h3⟩
    · omega
    · exact Or.inr ⟨j, by omega, h2, h3⟩
  | case2 k taken cand h =>
    by_cases hk : k = 0
    · left; exact ⟨hk, by simp [cand, hk]⟩
    · right; exact ⟨k, Nat.le_refl _, by omega, by simp [cand, hk]⟩

/-- …and what it returns is not taken -/
theorem uniqFrom_not_mem (n : DName) (k : Nat) (taken : List DName) : uniqFrom n k taken ∉ taken := by
  fun_induction uniqFrom n k taken with
  | case1 k taken cand h ih =>
    intro hm
    have hne : uniqFrom n (k + 1) (taken.erase cand) ≠ cand := by
      rcases uniqFrom_form n (k + 1) (taken.erase cand) with ⟨h0, _⟩ | ⟨j, h1, h2, h3⟩
      · omega
      · rw [h3]
        by_cases hk : k = 0
        · simp only [cand, hk, if_true]; exact push_ne n j
        · simp only [cand, hk, if_false]
          intro e; have := push_inj n j k e; omega
    exact ih ((List.mem_erase_of_ne hne).mpr hm)
  | case2 k taken cand h => exact h

theorem uniq_not_mem (d : Details) (n : DName) : uniq d n ∉ dnames d := uniqFrom_not_mem n 0 (dnames d)

theorem uniq_form (d : Details) (n : DName) : uniq d n = n ∨ ∃ j, 0 < j ∧ uniq d n = n.push j := by
  rcases uniqFrom_form n 0 (dnames d) with ⟨_, h⟩ | ⟨j, _, h2, h3⟩
  · exact Or.inl h
  · exact Or.inr ⟨j, h2, h3⟩

theorem uniq_ne_reason (d : Details) (n : DName) (h : n ≠ nmReason) : uniq d n ≠ nmReason := by
  rcases uniq_form d n with e | ⟨j, _, e⟩
  · rw [e]; exact h
  · rw [e]; intro h'
    have := congrArg (fun x => x.sufs.length) h'
    simp [DName.push, nmReason] at this

theorem uniq_renaming (d : Details) (n : DName) : isRenaming n (uniq d n) = true := by
  rcases uniq_form d n with e | ⟨j, _, e⟩
  · rw [e]; simp [isRenaming]
  · rw [e]; simp [isRenaming, DName.push]

/-- names in `names` whose suffix list has at least `k` entries -/
def longNames (names : List DName) (k : Nat) : Nat := (names.filter fun n => decide (k ≤ n.sufs.length)).length

theorem longNames_le (names : List DName) (k : Nat) : longNames names k ≤ names.length :=
  List.length_filter_le _ _

theorem longNames_succ_lt (names : List DName) (l : DName) (h : l ∈ names) :
    longNames names (l.sufs.length + 1) < longNames names l.sufs.length := by
  induction names with
  | nil => simp at h
  | cons x xs ih =>
    simp only [longNames, List.filter_cons]
    have mono : ((xs.filter fun n => decide (l.sufs.length + 1 ≤ n.sufs.length)).length) ≤
        ((xs.filter fun n => decide (l.sufs.length ≤ n.sufs.length)).length) := by
      have e : xs.filter (fun n => decide (l.sufs.length + 1 ≤ n.sufs.length)) =
          (xs.filter fun n => decide (l.sufs.length ≤ n.sufs.length)).filter
            (fun n => decide (l.sufs.length + 1 ≤ n.sufs.length)) := by
        rw [List.filter_filter]
        congr 1
        funext n
        by_cases h1 : l.sufs.length + 1 ≤ n.sufs.length
        · have h2 : l.sufs.length ≤ n.sufs.length := by omega
          simp [h1, h2]
        · simp [h1]
      rw [e]
      exact List.length_filter_le _ _
    by_cases hx : x = l
    · subst hx
      simp only [Nat.le_refl, decide_true, if_true, List.length_cons]
      have : ¬ (x.sufs.length + 1 ≤ x.sufs.length) := by omega
      simp only [this, decide_false, Bool.false_eq_true, if_false]
      omega
    · have hm : l ∈ xs := by
        simp only [List.mem_cons] at h
        rcases h with h | h
        · exact absurd h.symm hx
        · exact h
      have := ih hm
      simp only [longNames] at this
      by_cases h1 : l.sufs.length + 1 ≤ x.sufs.length
      · have h2 : l.sufs.length ≤ x.sufs.length := by omega
        simp only [h1, h2, decide_true, if_true, List.length_cons]; omega
      · simp only [h1, decide_false, Bool.false_eq_true, if_false]
        split
        · simp only [List.length_cons]; omega
        · exact this

/-- `_report_traceback`'s label loop returns an unused label when given enough fuel -/
theorem tbLabel_fresh (names : List DName) : ∀ (fuel c : Nat) (l : DName),
    longNames names (l.sufs.length + (if c = 0 then 0 else 1)) < fuel → (tbLabel names fuel c l).1 ∉ names
  | 0, _, _, h => by omega
  | fuel + 1, c, l, h => by
    have hlen : (if c = 0 then l else l.push c).sufs.length = l.sufs.length + (if c = 0 then 0 else 1) := by
      split <;> simp [DName.push]
    simp only [tbLabel]
    generalize (if c = 0 then l else l.push c) = l' at hlen
    split
    · rename_i hm
      apply tbLabel_fresh names fuel (c + 1)
      simp only [Nat.add_eq_zero_iff, Nat.succ_ne_self, and_false, if_false]
      have := longNames_succ_lt names _ hm
      rw [hlen] at this ⊢
      omega
    · rename_i hm; exact hm

theorem tbLabel_base (names : List DName) : ∀ (fuel c : Nat) (l : DName), (tbLabel names fuel c l).1.base = l.base
  | 0, _, _ => rfl
  | fuel + 1, c, l => by
    have hb : (if c = 0 then l else l.push c).base = l.base := by split <;> simp [DName.push]
    simp only [tbLabel]
    generalize (if c = 0 then l else l.push c) = l' at hb
    split
    · rw [tbLabel_base names fuel, hb]
    · exact hb

/-- the label `_report_traceback` stores under -/
def tbName (s : RS) : DName := (tbLabel (dnames s.details) (s.details.length + 2) s.tbCount nmTraceback).1

theorem reportTb_details (s : RS) (e : Exc) : (reportTb s e).details = dset s.details (tbName s) (.tb e) := by
  simp [reportTb, tbName]

theorem tbName_fresh (s : RS) : tbName s ∉ dnames s.details := by
  apply tbLabel_fresh
  have := longNames_le (dnames s.details) (nmTraceback.sufs.length + (if s.tbCount = 0 then 0 else 1))
  simp only [dnames, List.length_map] at this ⊢
  omega

theorem tbName_ne_reason (s : RS) : tbName s ≠ nmReason := by
  intro h
  have := congrArg DName.base h
  rw [tbName, tbLabel_base] at this
  simp [nmTraceback, nmReason] at this

end TTV.Run
