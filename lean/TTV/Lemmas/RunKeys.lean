import TTV.Lemmas.RunDetailsCore
import TTV.Lemmas.RunOnce
/-! Contents stored under unique names are pairwise distinct objects, and distinct from the contents attached
by plain `addDetail` (program well-formedness: distinct content identities; every stage runs at most once). -/
namespace TTV.Run
open TTV.Spec.Run TTV.Spec.C05

/-- identity of a stored content: the content object it was made from / the failed expectation -/
def ckey : Content → Option (Nat × Nat)
  | .user u => some (0, u.id)
  | .frozen i _ => some (0, i)
  | .expectation m => some (1, m)
  | .tb _ => none
  | .reason _ => none

theorem ckey_freeze (k : Nat) (c : Content) : ckey (freeze k c) = ckey c := by
  cases c with
  | user u => obtain ⟨i, l⟩ := u; cases l <;> rfl
  | frozen i v => rfl
  | tb e => rfl
  | expectation m => rfl
  | reason r => rfl

def keysU (U : List (DName × Content)) : List (Nat × Nat) := U.filterMap fun x => ckey x.2
def keysA (A : List (DName × UC)) : List (Nat × Nat) := A.map fun x => (0, x.2.id)

def pendingKeys : List Cl → List (Nat × Nat)
  | [] => []
  | .gather _ ds :: r => dictKeys ds ++ pendingKeys r
  | .stage _ :: r => pendingKeys r
  | .unpatch _ _ :: r => pendingKeys r

def fixtureKeys : List Act → List (Nat × Nat)
  | [] => []
  | .useFixture _ ds _ :: as => dictKeys ds ++ fixtureKeys as
  | .cleanup _ :: as => fixtureKeys as
  | .addDetail _ _ :: as => fixtureKeys as
  | .expect _ _ :: as => fixtureKeys as
  | .patch _ _ :: as => fixtureKeys as

theorem keysU_append (a b : List (DName × Content)) : keysU (a ++ b) = keysU a ++ keysU b := by
  simp [keysU]
theorem keysA_append (a b : List (DName × UC)) : keysA (a ++ b) = keysA a ++ keysA b := by
  simp [keysA]

theorem keysU_dict_user (ds : List (DName × UC)) : keysU (ds.map fun x => (x.1, Content.user x.2)) = dictKeys ds := by
  simp [keysU, dictKeys, List.filterMap_map, Function.comp_def, ckey]

theorem keysU_dict_freeze (k : Nat) (ds : List (DName × UC)) :
    keysU (ds.map fun x => (x.1, freeze k (.user x.2))) = dictKeys ds := by
  simp only [keysU, dictKeys, List.filterMap_map, Function.comp_def, ckey_freeze]
  simp [ckey]

theorem keys_acts (as : List Act) (a : Nat × Nat) :
    (actKeys as).count a = (keysA (plainOf as)).count a + (keysU (uqActs as)).count a + (fixtureKeys as).count a := by
  induction as with
  | nil => simp [actKeys, plainOf, uqActs, fixtureKeys, keysA, keysU]
  | cons x as ih =>
    cases x with
    | cleanup s => simpa [actKeys, plainOf, uqActs, fixtureKeys] using ih
    | patch k v => simpa [actKeys, plainOf, uqActs, fixtureKeys] using ih
    | addDetail n c =>
      simp only [actKeys, plainOf, uqActs, fixtureKeys, keysA, List.map_cons, List.count_cons] at ih ⊢
      omega
    | expect mid ds =>
      simp only [actKeys, plainOf, uqActs, fixtureKeys, keysU_append, keysU_dict_user, List.count_append] at ih ⊢
      have : keysU [(nmExpectation, Content.expectation mid)] = [(1, mid)] := rfl
      rw [this]; omega
    | useFixture f ds cu =>
      simp only [actKeys, plainOf, uqActs, fixtureKeys, List.count_append] at ih ⊢
      omega

theorem keys_term (k : Nat) (t : Term) : keysU (uqTerm k t) = termKeys t := by
  cases t <;> simp [uqTerm, termKeys, keysU_dict_user, keysU_dict_freeze] <;> rfl

theorem pendingKeys_runActs (as : List Act) (s : RS) (a : Nat × Nat) :
    (pendingKeys (runActs as s).stack).count a = (fixtureKeys as).count a + (pendingKeys s.stack).count a := by
  induction as generalizing s with
  | nil => simp [runActs, fixtureKeys]
  | cons x as ih =>
    cases x <;> simp only [runActs, ih, fixtureKeys, pendingKeys, List.count_append] <;> omega

theorem nodup_flatMap_mem {α β : Type} {l : List α} {f : α → List β} (h : (l.flatMap f).Nodup) (x : α) (hx : x ∈ l) :
    (f x).Nodup := by
  induction l with
  | nil => simp at hx
  | cons y l ih =>
    simp only [List.flatMap_cons, List.nodup_append] at h
    simp only [List.mem_cons] at hx
    rcases hx with rfl | hx
    · exact h.1
    · exact ih h.2.1 hx

theorem nodup_flatMap_disjoint {α β : Type} {l : List α} {f : α → List β} (h : (l.flatMap f).Nodup) (x y : α)
    (hx : x ∈ l) (hy : y ∈ l) (hne : x ≠ y) : ∀ k ∈ f x, k ∉ f y := by
  induction l with
  | nil => simp at hx
  | cons z l ih =>
    simp only [List.flatMap_cons, List.nodup_append] at h
    simp only [List.mem_cons] at hx hy
    intro k hkx hky
    rcases hx with rfl | hx
    · rcases hy with rfl | hy
      · exact hne rfl
      · exact h.2.2 k hkx k (List.mem_flatMap.mpr ⟨y, hy, hky⟩) rfl
    · rcases hy with rfl | hy
      · exact h.2.2 k hky k (List.mem_flatMap.mpr ⟨x, hx, hkx⟩) rfl
      · exact ih h.2.1 hx hy k hkx hky

structure KeyInv (s : RS) (A : List (DName × UC)) (U : List (DName × Content)) : Prop where
  nodup  : (keysU U ++ keysA A ++ pendingKeys s.stack).Nodup
  origin : ∀ k ∈ keysU U ++ keysA A ++ pendingKeys s.stack, ∃ st ∈ s.execd, k ∈ stageKeys st

theorem KeyInv.stage {p : Program} {s : RS} {A : List (DName × UC)} {U : List (DName × Content)} (hwf : wf p = true)
    (h : KeyInv s A U) (st : Stage) (d : Bool) (hst : st ∈ allStages p) (hnew : st.id ∉ s.execd.map Stage.id)
    (hex : ∀ x ∈ s.execd, x ∈ allStages p) :
    KeyInv (runStage st d s).1 (A ++ plainOf st.acts) (U ++ uqActs st.acts ++ uqTerm (s.clock + 1) st.term) := by
  have e := runStage_effect st d s
  have hperm : (keysU (U ++ uqActs st.acts ++ uqTerm (s.clock + 1) st.term) ++ keysA (A ++ plainOf st.acts) ++
      pendingKeys (runStage st d s).1.stack).Perm ((keysU U ++ keysA A ++ pendingKeys s.stack) ++ stageKeys st) := by
    rw [List.perm_iff_count]
    intro a
    have h1 := keys_acts st.acts a
    have h2 := pendingKeys_runActs st.acts (stage0 st s) a
    rw [runStage_stack]
    simp only [stage0] at h2
    simp only [keysU_append, keysA_append, List.count_append, keys_term, stageKeys, h2]
    omega
  have hk := wf_keys p hwf
  constructor
  · apply hperm.symm.nodup
    rw [List.nodup_append]
    refine ⟨h.nodup, nodup_flatMap_mem hk st hst, ?_⟩
    intro a ha b hb hab
    subst hab
    obtain ⟨y, hy, hky⟩ := h.origin a ha
    have hne : y ≠ st := by
      intro e'; subst e'
      exact hnew (List.mem_map_of_mem hy)
    exact nodup_flatMap_disjoint hk y st (hex y hy) hst hne a hky hb
  · intro k hk'
    have := hperm.mem_iff.mp hk'
    rw [e.execd]
    simp only [List.mem_append] at this
    rcases this with this | this
    · obtain ⟨y, hy, hky⟩ := h.origin k (by simpa only [List.mem_append] using this)
      exact ⟨y, List.mem_append_left _ hy, hky⟩
    · exact ⟨st, by simp, this⟩

theorem KeyInv.pop {p : Program} {s : RS} {A : List (DName × UC)} {U : List (DName × Content)} (hwf : wf p = true)
    (h : KeyInv s A U) (c : Cl) (rest : List Cl) (hs : s.stack = c :: rest)
    (hst : ∀ st, c = .stage st → st ∈ allStages p ∧ st.id ∉ s.execd.map Stage.id)
    (hex : ∀ x ∈ s.execd, x ∈ allStages p) :
    KeyInv (runCl c { s with stack := rest }) (A ++ clPlain c) (U ++ clUq s.clock c) := by
  cases c with
  | stage st =>
    have h0 : KeyInv { s with stack := rest } A U := by
      constructor
      · have := h.nodup; rw [hs] at this; simpa [pendingKeys] using this
      · intro k hk; apply h.origin k; rw [hs]; simpa [pendingKeys] using hk
    obtain ⟨h1, h2⟩ := hst st rfl
    have := h0.stage hwf st false h1 h2 hex
    simp only [runCl, clPlain, clUq]
    rw [← List.append_assoc]
    exact ⟨this.nodup, this.origin⟩
  | gather f ds =>
    have hperm : (keysU (U ++ clUq s.clock (.gather f ds)) ++ keysA (A ++ clPlain (.gather f ds)) ++ pendingKeys rest).Perm
        (keysU U ++ keysA A ++ pendingKeys s.stack) := by
      rw [List.perm_iff_count]
      intro a
      simp only [hs, clUq, clPlain, keysU_append, keysU_dict_freeze, List.append_nil, pendingKeys, List.count_append]
      omega
    constructor
    · exact hperm.symm.nodup h.nodup
    · intro k hk
      exact h.origin k (hperm.mem_iff.mp hk)
  | unpatch a o =>
    constructor
    · have := h.nodup; rw [hs] at this; simpa [runCl, clPlain, clUq, pendingKeys] using this
    · intro k hk; apply h.origin k; rw [hs]; simpa [runCl, clPlain, clUq, pendingKeys] using hk

end TTV.Run
