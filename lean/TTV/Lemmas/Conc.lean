import TTV.Model.Conc
/-! Invariant of the M-Conc scheduler (shared by C12 and C13): under **every** schedule the event log is a
sequence of whole critical sections plus at most one open section owned by the semaphore holder, and
every thread's sections appear in its program order.  No bound on threads, program sizes or schedule
length. -/
namespace TTV.Conc

/-! ## thread programs as segments -/

theorem progSteps_eq_segSteps (p : List Section) : progSteps p = segSteps (p.map Seg.sec) := by
  induction p with
  | nil => rfl
  | cons s r ih => simp [progSteps, secSteps, segSteps, callSteps] at ih ⊢; exact ih

theorem segSecs_map_sec (p : List Section) : segSecs (p.map Seg.sec) = p := by
  induction p with
  | nil => rfl
  | cons s r ih => simp [segSecs, ih]

theorem segSteps_eq_nil {p : List Seg} (h : segSteps p = []) : p = [] := by
  cases p with
  | nil => rfl
  | cons a r => cases a <;> simp [segSteps] at h

/-! ## the log of whole sections -/

def secEvents (p : Nat × Section) : List Ev :=
  (p.1, EvK.acq) :: (p.2.map (fun c => (p.1, EvK.call c.1 c.2)) ++ [(p.1, EvK.rel)])

/-- the event log of a sequence of complete critical sections -/
def flatLog (closed : List (Nat × Section)) : List Ev := (closed.map secEvents).flatten

/-- the events of the section that is still open -/
def openLog (sem : Option Nat) (cur : Section) : List Ev :=
  match sem with
  | some h => (h, EvK.acq) :: cur.map (fun c => (h, EvK.call c.1 c.2))
  | none => []

def ownedBy (i : Nat) (closed : List (Nat × Section)) : List Section :=
  (closed.filter fun p => p.1 == i).map (·.2)

theorem flatLog_append (a b : List (Nat × Section)) : flatLog (a ++ b) = flatLog a ++ flatLog b := by
  simp [flatLog]

theorem ownedBy_append (i : Nat) (a b : List (Nat × Section)) : ownedBy i (a ++ b) = ownedBy i a ++ ownedBy i b := by
  simp [ownedBy]

/-! ## the invariant -/

/-- `secs i` are the sections of thread `i`'s whole program.  Ghost state: `closed` the completed
sections in log order, `cur` the calls already made in the open section, `todo` those still to make,
`rem i` what thread `i` still has to do after its current section. -/
structure Inv (n : Nat) (secs : Nat → List Section) (s : St)
    (closed : List (Nat × Section)) (cur todo : Section) (rem : Nat → List Seg) : Prop where
  len : s.pcs.length = n
  out : ∀ i, i < n → s.sem ≠ some i → s.pcs[i]? = some (segSteps (rem i))
  ins : ∀ h, s.sem = some h → h < n ∧ s.pcs[h]? = some (callSteps todo ++ Step.rel :: segSteps (rem h))
  log_eq : s.log = flatLog closed ++ openLog s.sem cur
  acct : ∀ i, i < n → secs i = ownedBy i closed ++ (if s.sem = some i then [cur ++ todo] else []) ++ segSecs (rem i)
  owners : ∀ p ∈ closed, p.1 < n
  -- the counter is 1 when nobody is inside a section and 0 otherwise - never 2 -, and so it read after every operation on it
  cnt : s.semv = (if s.sem.isNone then 1 else 0) ∧ s.semLog = readings s.log

theorem getElem?_set_self' {α} {l : List α} {i : Nat} {a : α} (h : i < l.length) : (l.set i a)[i]? = some a := by
  simp [h]

theorem lt_of_getElem?_some {α} {l : List α} {i : Nat} {a : α} (h : l[i]? = some a) : i < l.length := by
  rcases Nat.lt_or_ge i l.length with h' | h'
  · exact h'
  · simp [List.getElem?_eq_none h'] at h

/-- one scheduling decision preserves the invariant — whatever thread is picked -/
theorem step_preserves' {n secs s closed cur todo rem} (i : Nat) (h : Inv n secs s closed cur todo rem) :
    ∃ closed' cur' todo' rem', Inv n secs (stepThread s i) closed' cur' todo' rem'
      ∧ (closed' = closed ∨ closed' = closed ++ [(i, cur)]) := by
  by_cases hi' : ¬ i < n
  · -- unknown thread: no-op
    have : s.pcs[i]? = none := by simp [h.len]; omega
    exact ⟨closed, cur, todo, rem, by simpa [stepThread, this] using h, Or.inl rfl⟩
  have hi : i < n := by omega
  have hlt : i < s.pcs.length := by rw [h.len]; exact hi
  by_cases hs : s.sem = some i
  · -- the holder: next step is a call or the release
    obtain ⟨_, hpc⟩ := h.ins i hs
    cases todo with
    | nil =>
      -- release
      simp only [callSteps, List.map_nil, List.nil_append] at hpc
      refine ⟨closed ++ [(i, cur)], [], [], rem, ?_, Or.inr rfl⟩
      simp only [stepThread, hpc]
      refine ⟨by simpa using h.len, ?_, ?_, ?_, ?_, ?_, ⟨by simp [h.cnt.1, hs], by simp [h.cnt.1, h.cnt.2, hs, readings, EvK.reading?]⟩⟩
      · intro j hj _
        simp only [List.getElem?_set]
        split
        · rename_i hij; subst hij; simp
        · rename_i hij
          exact h.out j hj (by rw [hs]; intro hc; exact hij (Option.some.inj hc))
      · intro j hj; simp at hj
      · simp [h.log_eq, hs, flatLog, secEvents, openLog]
      · intro j hj
        have := h.acct j hj
        by_cases hji : j = i
        · subst hji
          simp [hs, ownedBy] at this ⊢
          exact this
        · have hne : ¬ (s.sem = some j) := by rw [hs]; intro hc; exact hji (Option.some.inj hc).symm
          have hne' : (i == j) = false := by simp; omega
          simp [hne, ownedBy, hne'] at this ⊢
          exact this
      · intro p hp
        rcases List.mem_append.mp hp with hp | hp
        · exact h.owners p hp
        · simp at hp; subst hp; exact hi
    | cons c t =>
      -- a call on the target
      simp only [callSteps, List.map_cons, List.cons_append] at hpc
      refine ⟨closed, cur ++ [c], t, rem, ?_, Or.inl rfl⟩
      simp only [stepThread, hpc]
      refine ⟨by simpa using h.len, ?_, ?_, ?_, ?_, h.owners, ⟨h.cnt.1, by simp [h.cnt.2, readings, EvK.reading?]⟩⟩
      · intro j hj hne
        simp only [List.getElem?_set]
        split
        · rename_i hij; subst hij; exact absurd hs hne
        · exact h.out j hj hne
      · intro j hj
        simp only at hj
        rw [hs] at hj; cases hj
        exact ⟨hi, by simp [hlt, callSteps]⟩
      · simp [h.log_eq, hs, openLog]
      · intro j hj
        have := h.acct j hj
        simpa using this
  · -- not the holder: next step is an acquire, a put, or nothing
    have hpc := h.out i hi hs
    cases hr : rem i with
    | nil =>
      rw [hr] at hpc
      exact ⟨closed, cur, todo, rem, by simpa [stepThread, hpc, segSteps] using h, Or.inl rfl⟩
    | cons sg r =>
      rw [hr] at hpc
      cases sg with
      | put x =>
        simp only [segSteps] at hpc
        refine ⟨closed, cur, todo, fun j => if j = i then r else rem j, ?_, Or.inl rfl⟩
        simp only [stepThread, hpc]
        refine ⟨by simpa using h.len, ?_, ?_, ?_, ?_, h.owners, h.cnt⟩
        · intro j hj hne
          simp only [List.getElem?_set]
          split
          · rename_i hij; subst hij; simp
          · rename_i hij
            have : ¬ j = i := fun hc => hij hc.symm
            simpa [this] using h.out j hj hne
        · intro k hk
          obtain ⟨hk1, hk2⟩ := h.ins k hk
          have hki : ¬ k = i := by intro hc; subst hc; exact hs hk
          refine ⟨hk1, ?_⟩
          simp only [List.getElem?_set]
          split
          · rename_i hij; exact absurd hij.symm hki
          · simpa [hki] using hk2
        · exact h.log_eq
        · intro j hj
          have := h.acct j hj
          by_cases hji : j = i
          · subst hji; simp [hs, hr, segSecs] at this ⊢; exact this
          · simpa [hji] using this
      | sec sc =>
        simp only [segSteps] at hpc
        cases hsem : s.sem with
        | some k =>
          -- blocked at acquire (the counter is 0): no-op
          have hv : s.semv = 0 := by simp [h.cnt.1, hsem]
          exact ⟨closed, cur, todo, rem, by simpa [stepThread, hpc, hv] using h, Or.inl rfl⟩
        | none =>
          have hv : s.semv = 1 := by simp [h.cnt.1, hsem]
          refine ⟨closed, [], sc, fun j => if j = i then r else rem j, ?_, Or.inl rfl⟩
          simp only [stepThread, hpc, hv, Nat.succ_ne_zero, if_false]
          refine ⟨by simpa using h.len, ?_, ?_, ?_, ?_, h.owners, ⟨by simp, by simp [h.cnt.2, readings, EvK.reading?]⟩⟩
          · intro j hj hne
            have hji : ¬ j = i := by intro hc; subst hc; exact hne rfl
            simp only [List.getElem?_set]
            split
            · rename_i hij; exact absurd hij.symm hji
            · simpa [hji] using h.out j hj (by simp [hsem])
          · intro k hk
            simp only at hk
            cases hk
            exact ⟨hi, by simp [hlt]⟩
          · simp [h.log_eq, hsem, openLog]
          · intro j hj
            have := h.acct j hj
            by_cases hji : j = i
            · subst hji; simp [hsem, hr, segSecs] at this ⊢; exact this
            · have : ¬ (i = j) := fun hc => hji hc.symm
              simp [hsem, hji, this] at *
              assumption

theorem step_preserves {n secs s closed cur todo rem} (i : Nat) (h : Inv n secs s closed cur todo rem) :
    ∃ closed' cur' todo' rem', Inv n secs (stepThread s i) closed' cur' todo' rem' := by
  obtain ⟨c, cu, t, r, h', _⟩ := step_preserves' i h
  exact ⟨c, cu, t, r, h'⟩

/-- the semaphore changes hands only through the stepping thread -/
theorem stepThread_sem (s : St) (i h : Nat) (hs : (stepThread s i).sem = some h) : s.sem = some h ∨ h = i := by
  unfold stepThread at hs
  split at hs
  · left; exact hs
  · left; exact hs
  · split at hs
    · left; exact hs
    · right; simp at hs; exact hs.symm
  · split at hs
    · left; exact hs
    · right; simp at hs; exact hs.symm
  · simp at hs
  · left; exact hs
  · left; exact hs

/-- the invariant only reads the semaphore, the program counters and the log -/
theorem Inv_congr {n secs} {s s' : St} {closed cur todo rem} (h : Inv n secs s closed cur todo rem)
    (hsem : s'.sem = s.sem) (hpcs : s'.pcs = s.pcs) (hlog : s'.log = s.log) (hv : s'.semv = s.semv := by rfl)
    (hl : s'.semLog = s.semLog := by rfl) : Inv n secs s' closed cur todo rem :=
  ⟨by rw [hpcs]; exact h.len, by rw [hsem, hpcs]; exact h.out, by rw [hsem, hpcs]; exact h.ins,
   by rw [hsem, hlog]; exact h.log_eq, by rw [hsem]; exact h.acct, h.owners, by rw [hsem, hv, hl, hlog]; exact h.cnt⟩

/-- an idle thread that has done nothing yet is given a program of whole sections -/
theorem inv_extend {n secs s closed cur todo rem} (h : Inv n secs s closed cur todo rem) (j : Nat) (hj : j < n)
    (hsec : secs j = []) (hpc : s.pcs[j]? = some []) (p : List Section) :
    Inv n (fun t => if t = j then p else secs t) { s with pcs := s.pcs.set j (progSteps p) } closed cur todo
      (fun t => if t = j then p.map Seg.sec else rem t) := by
  have hlt : j < s.pcs.length := by rw [h.len]; exact hj
  have hns : s.sem ≠ some j := by
    intro hc
    obtain ⟨_, hpc'⟩ := h.ins j hc
    rw [hpc] at hpc'; simp at hpc'
  have hown : ownedBy j closed = [] := by
    have := h.acct j hj
    rw [hsec] at this
    have := List.append_eq_nil_iff.mp this.symm
    exact (List.append_eq_nil_iff.mp this.1).1
  refine ⟨by simpa using h.len, ?_, ?_, h.log_eq, ?_, h.owners, h.cnt⟩
  · intro t ht hne
    simp only [List.getElem?_set]
    by_cases htj : t = j
    · subst htj; simp [hlt, progSteps_eq_segSteps]
    · have : ¬ j = t := fun hc => htj hc.symm
      simp only [this, htj, if_false]
      exact h.out t ht hne
  · intro k hk
    obtain ⟨hk1, hk2⟩ := h.ins k hk
    have hkj : ¬ k = j := by intro hc; subst hc; exact hns hk
    have : ¬ j = k := fun hc => hkj hc.symm
    refine ⟨hk1, ?_⟩
    simp only [List.getElem?_set, this, hkj, if_false]
    exact hk2
  · intro t ht
    by_cases htj : t = j
    · subst htj
      simp [hown, hns, segSecs_map_sec]
    · simp only [htj, if_false]
      exact h.acct t ht

/-- the invariant holds along every schedule -/
theorem run_preserves {n secs} (sched : List Nat) : ∀ {s closed cur todo rem}, Inv n secs s closed cur todo rem →
    ∃ closed' cur' todo' rem', Inv n secs (run s sched) closed' cur' todo' rem' := by
  induction sched with
  | nil => intro s c cu t r h; exact ⟨c, cu, t, r, h⟩
  | cons i rest ih =>
    intro s c cu t r h
    obtain ⟨c', cu', t', r', h'⟩ := step_preserves i h
    exact ih h'

/-! ## progress: no reachable state is stuck, every enabled step consumes one micro-step -/

theorem stepThread_of_not_enabled {s : St} {i : Nat} (h : enabled s i = false) : stepThread s i = s := by
  unfold enabled at h
  unfold stepThread
  split <;> simp_all

theorem sum_length_set {α} : ∀ {l : List (List α)} {i : Nat} {a : α} {rest : List α}, l[i]? = some (a :: rest) →
    ((l.set i rest).map List.length).sum + 1 = (l.map List.length).sum
  | [], i, a, rest, h => by simp at h
  | x :: l, 0, a, rest, h => by
      simp at h; subst h
      simp only [List.set_cons_zero, List.map_cons, List.sum_cons, List.length_cons]; omega
  | x :: l, i + 1, a, rest, h => by
      simp at h
      have := sum_length_set h
      simp only [List.set_cons_succ, List.map_cons, List.sum_cons]; omega

/-- an enabled step consumes exactly one micro-step (termination measure) -/
theorem remaining_step {s : St} {i : Nat} (he : enabled s i = true) : remaining (stepThread s i) + 1 = remaining s := by
  unfold enabled at he
  cases hpc : s.pcs[i]? with
  | none => simp [hpc] at he
  | some steps =>
    cases steps with
    | nil => simp [hpc] at he
    | cons st rest =>
      cases st with
      | acq =>
        have hv : ¬ s.semv = 0 := by simpa [hpc] using he
        simp only [stepThread, hpc, hv, if_false, remaining]; exact sum_length_set hpc
      | tryAcq =>
        by_cases hv : s.semv = 0
        · simp only [stepThread, hpc, hv, if_true, remaining]; exact sum_length_set hpc
        · simp only [stepThread, hpc, hv, if_false, remaining]; exact sum_length_set hpc
      | rel => simp only [stepThread, hpc, remaining]; exact sum_length_set hpc
      | call c r => simp only [stepThread, hpc, remaining]; exact sum_length_set hpc
      | put x => simp only [stepThread, hpc, remaining]; exact sum_length_set hpc

theorem remaining_step_le (s : St) (i : Nat) : remaining (stepThread s i) ≤ remaining s := by
  cases he : enabled s i with
  | true => have := remaining_step he; omega
  | false => rw [stepThread_of_not_enabled he]; exact Nat.le_refl _

theorem remaining_run_le (sched : List Nat) : ∀ s : St, remaining (run s sched) ≤ remaining s := by
  induction sched with
  | nil => intro s; exact Nat.le_refl _
  | cons i rest ih =>
    intro s
    exact Nat.le_trans (ih (stepThread s i)) (remaining_step_le s i)

theorem finished_of_remaining_zero {s : St} (h : remaining s = 0) : finished s = true := by
  unfold remaining at h
  unfold finished
  rw [List.all_eq_true]
  intro x hx
  have : ∀ (l : List (List Step)), (l.map List.length).sum = 0 → ∀ x ∈ l, x.isEmpty = true := by
    intro l
    induction l with
    | nil => intro _ x hx; cases hx
    | cons y l ih =>
      intro hs x hx
      simp at hs
      rcases List.mem_cons.mp hx with rfl | hx
      · simp [hs.1]
      · exact ih (by simpa using hs.2) x hx
  exact this _ h x hx

/-- **no deadlock**: in a reachable state with an unfinished thread some thread is enabled -/
theorem exists_enabled {n secs s closed cur todo rem} (h : Inv n secs s closed cur todo rem)
    (hnf : finished s = false) : ∃ i, i < n ∧ enabled s i = true := by
  cases hsem : s.sem with
  | some k =>
    obtain ⟨hk, hpc⟩ := h.ins k hsem
    refine ⟨k, hk, ?_⟩
    unfold enabled
    cases todo with
    | nil => simp [callSteps] at hpc; simp [hpc]
    | cons c t => simp [callSteps] at hpc; simp [hpc]
  | none =>
    have : ∃ x ∈ s.pcs, x.isEmpty = false := by
      unfold finished at hnf
      have := List.all_eq_false.mp hnf
      obtain ⟨x, hx, hx2⟩ := this
      exact ⟨x, hx, by simpa using hx2⟩
    obtain ⟨x, hx, hne⟩ := this
    obtain ⟨i, hi, hxi⟩ := List.mem_iff_getElem.mp hx
    have hin : i < n := by rw [← h.len]; exact hi
    have hpc := h.out i hin (by simp [hsem])
    have hpc' : s.pcs[i]? = some x := by simp [hi, hxi]
    refine ⟨i, hin, ?_⟩
    unfold enabled
    cases hr : rem i with
    | nil => rw [hr] at hpc; simp [segSteps] at hpc; rw [hpc] at hpc'; cases hpc'; simp at hne
    | cons sg r =>
      rw [hr] at hpc
      cases sg with
      | sec sc => simp [segSteps] at hpc; simp [hpc, h.cnt.1, hsem]
      | put y => simp [segSteps] at hpc; simp [hpc]

theorem firstEnabled_some {s : St} {i : Nat} (h : firstEnabled s = some i) : enabled s i = true := by
  unfold firstEnabled at h
  exact List.find?_some h

theorem firstEnabled_none {s : St} (h : firstEnabled s = none) : ∀ i, i < s.pcs.length → enabled s i = false := by
  unfold firstEnabled at h
  intro i hi
  have := List.find?_eq_none.mp h i (List.mem_range.mpr hi)
  simpa using this

/-- running the lowest enabled thread with enough fuel finishes every thread, and keeps the invariant -/
theorem drain_finishes {n secs} : ∀ (fuel : Nat) {s closed cur todo rem}, Inv n secs s closed cur todo rem →
    remaining s ≤ fuel →
    finished (drain fuel s) = true ∧ ∃ c cu t r, Inv n secs (drain fuel s) c cu t r := by
  intro fuel
  induction fuel with
  | zero =>
    intro s c cu t r h hf
    exact ⟨by simpa [drain] using finished_of_remaining_zero (s := s) (by omega), c, cu, t, r, by simpa [drain] using h⟩
  | succ f ih =>
    intro s c cu t r h hf
    unfold drain
    cases hfe : firstEnabled s with
    | none =>
      refine ⟨?_, c, cu, t, r, h⟩
      cases hfin : finished s with
      | true => rfl
      | false =>
        obtain ⟨i, hi, he⟩ := exists_enabled h hfin
        have := firstEnabled_none hfe i (by rw [h.len]; exact hi)
        rw [this] at he; cases he
    | some i =>
      have he := firstEnabled_some hfe
      obtain ⟨c', cu', t', r', h'⟩ := step_preserves i h
      have := remaining_step he
      exact ih h' (by omega)

/-- what the invariant says once every thread has finished: the semaphore is free, the log consists of
whole sections only, and every thread's sections all appear, in its program order -/
theorem inv_finished {n secs s closed cur todo rem} (h : Inv n secs s closed cur todo rem) (hf : finished s = true) :
    s.sem = none ∧ s.log = flatLog closed ∧ ∀ i, i < n → secs i = ownedBy i closed := by
  have hall : ∀ (i : Nat) (x : List Step), s.pcs[i]? = some x → x = [] := by
    intro i x hx
    unfold finished at hf
    rw [List.all_eq_true] at hf
    have := hf x (List.mem_of_getElem? hx)
    simpa using this
  have hsem : s.sem = none := by
    cases hs : s.sem with
    | none => rfl
    | some k =>
      obtain ⟨_, hpc⟩ := h.ins k hs
      have := hall k _ hpc
      simp at this
  refine ⟨hsem, ?_, ?_⟩
  · simpa [hsem, openLog] using h.log_eq
  · intro i hi
    have hpc := h.out i hi (by simp [hsem])
    have := segSteps_eq_nil (hall i _ hpc)
    have ha := h.acct i hi
    simpa [hsem, this, segSecs] using ha

end TTV.Conc
