import TTV.Lemmas.RunStage
import TTV.Lemmas.RunStatic
/-! The run invariant of M-Run and its consequences for the final state of `runCore`. -/
namespace TTV.Run
open TTV.Spec.Run

theorem actIsExpect'_eq : actIsExpect' = actIsExpect := by
  funext a; cases a <;> rfl
theorem regIds_eq : regIds = regsOf := by
  funext as
  induction as with
  | nil => rfl
  | cons a as ih => cases a <;> simp [regIds, regsOf, ih]

def stageEvId : Ev → Option Nat
  | .stage i => some i
  | .startTestRun | .stopTestRun | .startTest | .stopTest | .outcome _ _ | .onExc _ _ => none

def onExcEv : Ev → Option (Nat × Exc)
  | .onExc h e => some (h, e)
  | .startTestRun | .stopTestRun | .startTest | .stopTest | .outcome _ _ | .stage _ => none

def hasExpect (st : Stage) : Bool := st.acts.any actIsExpect

def handlerCalls (n : Nat) (es : List Exc) : List (Nat × Exc) :=
  es.flatMap fun e => (List.range n).map fun h => (h, e)

structure Inv (p : Program) (ff0 : Bool) (s : RS) : Prop where
  logPure : ∀ e ∈ s.log, isResultEv e = false
  logIds  : s.log.filterMap stageEvId = s.execd.map Stage.id
  onExcs  : s.log.filterMap onExcEv = handlerCalls p.nOnExc s.excs
  excs    : s.excs = s.execd.flatMap (stageExcs p)
  ff      : s.ff = (ff0 || s.execd.any hasExpect)
  nOnExc  : s.nOnExc = p.nOnExc
  clock   : s.clock = s.execd.length
  execdIn : ∀ st ∈ s.execd, st ∈ allStages p
  stackIn : ∀ c, Cl.stage c ∈ s.stack → c ∈ nested p

theorem onExcCalls_pure (n : Nat) (e : Exc) : ∀ x ∈ onExcCalls n e, isResultEv x = false := by
  intro x hx
  simp only [onExcCalls, List.mem_map] at hx
  obtain ⟨h, _, rfl⟩ := hx
  rfl

theorem filterMap_stage_onExcCalls (n : Nat) (es : List Exc) :
    (es.flatMap (onExcCalls n)).filterMap stageEvId = [] := by
  induction es with
  | nil => rfl
  | cons e es ih =>
    simp only [List.flatMap_cons, List.filterMap_append, ih, List.append_nil]
    simp [onExcCalls, List.filterMap_map, Function.comp_def, stageEvId]

theorem filterMap_onExc_onExcCalls (n : Nat) (es : List Exc) :
    (es.flatMap (onExcCalls n)).filterMap onExcEv = handlerCalls n es := by
  induction es with
  | nil => rfl
  | cons e es ih =>
    simp only [List.flatMap_cons, List.filterMap_append, ih, handlerCalls]
    congr 1
    simp [onExcCalls, List.filterMap_map, Function.comp_def, onExcEv]

theorem handlerCalls_append (n : Nat) (a b : List Exc) :
    handlerCalls n (a ++ b) = handlerCalls n a ++ handlerCalls n b := by
  simp [handlerCalls]

/-- one stage execution preserves the invariant, provided the stage belongs to the program, its
children are nested stages, and the decorator flag is the right one -/
theorem Inv.step {p : Program} {ff0 : Bool} {s : RS} (h : Inv p ff0 s) (st : Stage) (d : Bool)
    (hst : st ∈ allStages p) (hch : ∀ c, childOf c st.acts → c ∈ nested p)
    (hd : excsD d st.term = stageExcs p st) :
    Inv p ff0 (runStage st d s).1 := by
  have e := runStage_effect st d s
  constructor
  · intro x hx
    rw [e.log] at hx
    simp only [List.mem_append, List.mem_singleton, List.mem_flatMap] at hx
    rcases hx with (hx | hx) | ⟨ex, _, hx⟩
    · exact h.logPure x hx
    · subst hx; rfl
    · exact onExcCalls_pure _ _ x hx
  · rw [e.log, e.execd]
    simp only [List.filterMap_append, filterMap_stage_onExcCalls, List.append_nil, List.map_append, h.logIds]
    simp [stageEvId]
  · rw [e.log, e.excs]
    simp only [List.filterMap_append, filterMap_onExc_onExcCalls, handlerCalls_append, h.onExcs, h.nOnExc]
    simp [onExcEv]
  · rw [e.excs, e.execd, h.excs, hd]
    simp
  · rw [e.ff, e.execd, h.ff]
    simp [hasExpect, actIsExpect'_eq, Bool.or_assoc]
  · rw [e.nOnExc, h.nOnExc]
  · rw [e.clock, e.execd, h.clock]; simp
  · intro x hx
    rw [e.execd] at hx
    simp only [List.mem_append, List.mem_singleton] at hx
    rcases hx with hx | hx
    · exact h.execdIn x hx
    · subst hx; exact hst
  · intro c hc
    rcases (e.stages c).mp hc with hc | hc
    · exact hch c hc
    · exact h.stackIn c hc

theorem Inv.stepCl {p : Program} {ff0 : Bool} {s : RS} (hwf : wf p = true) (h : Inv p ff0 s) (c : Cl)
    (rest : List Cl) (hs : s.stack = c :: rest) :
    Inv p ff0 (runCl c { s with stack := rest }) := by
  have h0 : Inv p ff0 { s with stack := rest } :=
    { h with stackIn := fun x hx => h.stackIn x (by rw [hs]; exact List.mem_cons_of_mem _ hx) }
  cases c with
  | stage st =>
    have hn : st ∈ nested p := h.stackIn st (by rw [hs]; exact List.mem_cons_self)
    have := Inv.step h0 st false (nested_sub_all p st hn) (fun c hc => nested_closed p st c hn hc)
      (by
        have hne := nested_id_ne_body p hwf st hn
        simp [excsD, stageExcs, hne])
    simp only [runCl]
    exact { this with }
  | gather fid ds => simp only [runCl]; exact { h0 with }
  | unpatch a old => simp only [runCl]; exact { h0 with }

theorem Inv.cleanups {p : Program} {ff0 : Bool} (hwf : wf p = true) (s : RS) (h : Inv p ff0 s) :
    Inv p ff0 (runCleanups s) := by
  fun_induction runCleanups s with
  | case1 s hs => exact h
  | case2 s c rest hs ih => exact ih (Inv.stepCl hwf h c rest hs)

theorem runCleanups_stack (s : RS) : (runCleanups s).stack = [] := by
  fun_induction runCleanups s <;> simp_all

theorem Inv.init (p : Program) (ff0 : Bool) : Inv p ff0 (initRS p ff0) := by
  constructor <;> simp [initRS, handlerCalls]

end TTV.Run
