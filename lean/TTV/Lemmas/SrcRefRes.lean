/-! Reference copies of the terms `harness/pyres2lean.py` reads out of the source (DESIGN D.2a item 2e): what the models of C04 / C08 /
C05 were written against.  Hand-maintained: the `Cxx_src_*` theorems prove the generated terms equal to these. -/

namespace TTV.SrcRef.ResCtlSrc

def ttAdd : List (String × List String) :=
  [("addError", ["append errors", "failfast-stop"]),
   ("addExpectedFailure", ["append expectedFailures"]),
   ("addFailure", ["append failures", "failfast-stop"]),
   ("addSkip", ["skip-bucket"]),
   ("addSuccess", []),
   ("addUnexpectedSuccess", ["append unexpectedSuccesses", "failfast-stop"])]

def ttWasSuccessful : List String :=
  ["errors",
   "failures",
   "unexpectedSuccesses"]

def ttStartTestRun : List String :=
  ["save failfast",
   "save tb_locals",
   "super-init",
   "reset __now = None",
   "reset _tags = TagContext()",
   "reset expectedFailures = []",
   "reset skip_reasons = {}",
   "reset unexpectedSuccesses = []",
   "restore failfast",
   "restore tb_locals"]

def multiMethods : List (String × List String) :=
  [("addError", ["dispatch addError(a0, a1, details=a2)"]),
   ("addExpectedFailure", ["dispatch addExpectedFailure(a0, a1, details=a2)"]),
   ("addFailure", ["dispatch addFailure(a0, a1, details=a2)"]),
   ("addSkip", ["dispatch addSkip(a0, a1, details=a2)"]),
   ("addSuccess", ["dispatch addSuccess(a0, details=a1)"]),
   ("addUnexpectedSuccess", ["dispatch addUnexpectedSuccess(a0, details=a1)"]),
   ("done", ["dispatch done()"]),
   ("startTest", ["super", "dispatch startTest(a0)"]),
   ("startTestRun", ["super-keeping-failfast", "dispatch startTestRun()"]),
   ("stop", ["dispatch stop()"]),
   ("stopTest", ["super", "dispatch stopTest(a0)"]),
   ("stopTestRun", ["dispatch stopTestRun()"]),
   ("tags", ["super", "dispatch tags(a0, a1)"]),
   ("time", ["dispatch time(a0)"])]

def multiDispatch : List String :=
  ["def(self, a0, *a1, **a2):",
   "  return tuple((getattr(v0, a0)(*a1, **a2) for v0 in self._results))"]

def multiGetFailfast : List String :=
  ["def(self):",
   "  return getattr(self._results[0], 'failfast', False)"]

def multiSetFailfast : List String :=
  ["def(self, a0):",
   "  if getattr(self, '_failfast_frozen', False):",
   "    return",
   "  self._dispatch('__setattr__', 'failfast', a0)"]

def multiGetShouldStop : List String :=
  ["def(self):",
   "  return any((v0.shouldStop for v0 in self._results))"]

def multiKeepingFailfast : List String :=
  ["def(self, a0):",
   "  self._failfast_frozen = True",
   "  try:",
   "    return a0()",
   "  finally:",
   "    self._failfast_frozen = False"]

def multiWasSuccessful : List String :=
  ["def(self):",
   "  return all(self._dispatch('wasSuccessful'))"]

def controlStop : List String :=
  ["def(self):",
   "  self.shouldStop = True"]

def tfrStopIfFailfast : List String :=
  ["def(self):",
   "  if self.failfast:",
   "    self.stop()"]

def tfrStop : List String :=
  ["def(self):",
   "  self.semaphore.acquire()",
   "  try:",
   "    self.result.stop()",
   "  finally:",
   "    self.semaphore.release()"]

def tfrGetShouldStop : List String :=
  ["def(self):",
   "  self.semaphore.acquire()",
   "  try:",
   "    return self.result.shouldStop",
   "  finally:",
   "    self.semaphore.release()"]

def tfrWasSuccessful : List String :=
  ["def(self):",
   "  return self.result.wasSuccessful()"]

def etodStop : List String :=
  ["def(self):",
   "  v0 = getattr(self.decorated, 'stop', None)",
   "  if v0:",
   "    return v0()",
   "  self.shouldStop = True"]

def etodStartTestRun : List String :=
  ["def(self):",
   "  self._tags = TagContext()",
   "  self._shouldStop = False",
   "  try:",
   "    return self.decorated.startTestRun()",
   "  except AttributeError:",
   "    return"]

def etodGetFailfast : List String :=
  ["def(self):",
   "  return getattr(self.decorated, 'failfast', self._failfast)"]

def etodSetFailfast : List String :=
  ["def(self, a0):",
   "  if hasattr(self.decorated, 'failfast'):",
   "    self.decorated.failfast = a0",
   "  else:",
   "    self._failfast = a0"]

def etodGetShouldStop : List String :=
  ["def(self):",
   "  return getattr(self.decorated, 'shouldStop', self._shouldStop)"]

def etodSetShouldStop : List String :=
  ["def(self, a0):",
   "  if hasattr(self.decorated, 'shouldStop'):",
   "    self.decorated.shouldStop = a0",
   "  else:",
   "    self._shouldStop = a0"]

def multiProperties : List String :=
  ["failfast = property(_get_failfast, _set_failfast)",
   "shouldStop = property(_get_shouldStop, _set_shouldStop)"]

def decoForward : List (String × List String) :=
  [("addError", ["return self.decorated.addError(a0, a1, details=a2)"]),
   ("addExpectedFailure", ["return self.decorated.addExpectedFailure(a0, a1, details=a2)"]),
   ("addFailure", ["return self.decorated.addFailure(a0, a1, details=a2)"]),
   ("addSkip", ["return self.decorated.addSkip(a0, a1, details=a2)"]),
   ("addSuccess", ["return self.decorated.addSuccess(a0, details=a1)"]),
   ("addUnexpectedSuccess", ["return self.decorated.addUnexpectedSuccess(a0, details=a1)"]),
   ("get current_tags", ["return self.decorated.current_tags"]),
   ("get failfast", ["return getattr(self.decorated, 'failfast', False)"]),
   ("get shouldStop", ["return self.decorated.shouldStop"]),
   ("get testsRun", ["return self.decorated.testsRun"]),
   ("progress", ["return self.decorated.progress(a0, a1)"]),
   ("set failfast", ["self.decorated.failfast = a0"]),
   ("startTest", ["return self.decorated.startTest(a0)"]),
   ("startTestRun", ["return self.decorated.startTestRun()"]),
   ("stop", ["return self.decorated.stop()"]),
   ("stopTest", ["return self.decorated.stopTest(a0)"]),
   ("stopTestRun", ["return self.decorated.stopTestRun()"]),
   ("tags", ["return self.decorated.tags(a0, a1)"]),
   ("time", ["return self.decorated.time(a0)"]),
   ("wasSuccessful", ["return self.decorated.wasSuccessful()"])]

def tfrAdd : List (String × List String) :=
  [("addError", ["block", "stop-if-failfast"]),
   ("addExpectedFailure", ["block"]),
   ("addFailure", ["block", "stop-if-failfast"]),
   ("addSkip", ["block"]),
   ("addSuccess", ["block"]),
   ("addUnexpectedSuccess", ["block", "stop-if-failfast"])]

def runnerRun : List String :=
  ["def(self, a0):",
   "  v0 = TextTestResult(unicode_output_stream(self.stdout), failfast=self.failfast, tb_locals=self.tb_locals)",
   "  v0.startTestRun()",
   "  try:",
   "    return a0.run(v0)",
   "  finally:",
   "    v0.stopTestRun()"]

def exitDecision : List String :=
  ["  self.result = v0.run(self.test)",
   "  if self.exit:",
   "    sys.exit(not self.result.wasSuccessful())"]

def tfrInit : List String :=
  ["def(self, a0, a1):",
   "  TestResult.__init__(self)",
   "  self.result = ExtendedToOriginalDecorator(a0)",
   "  self.semaphore = a1",
   "  self._test_start = None",
   "  self._in_test = False",
   "  self._global_tags = (set(), set())",
   "  self._test_tags = (set(), set())"]

def tfrSetShouldStop : List String :=
  ["def(self, a0):"]

def e2sInit : List String :=
  ["def(self, a0):",
   "  super().__init__([a0])",
   "  TestControl.__init__(self)",
   "  self._started = False",
   "  self._tags = TagContext()",
   "  self.__now = None"]

def e2sStartTestRun : List String :=
  ["def(self):",
   "  super().startTestRun()",
   "  self.__now = None",
   "  self._started = True",
   "  self._tags = TagContext()",
   "  self.shouldStop = False"]

def e2sGetFailfast : List String :=
  ["def(self):",
   "  return len(self.targets) == 2"]

def e2sSetFailfast : List String :=
  ["def(self, a0):",
   "  if a0:",
   "    if len(self.targets) == 2:",
   "      return",
   "    self.targets.append(StreamFailFast(self.stop))",
   "  else:",
   "    del self.targets[1:]"]

end TTV.SrcRef.ResCtlSrc

namespace TTV.SrcRef.EtodSrc

/-- per outcome method: probe, substitution when the target lacks the method, argument check, protocol, conversion on
`TypeError`, final call, `finally` clause -/
def etodAdd : List (String × List String) :=
  [("addError", ["direct", "none", "check-args", "details-first", "exc-info", "positional", "failfast-stop"]),
   ("addExpectedFailure", ["getattr-probe", "addSuccess", "check-args", "details-first", "exc-info", "positional", "none"]),
   ("addFailure", ["direct", "none", "check-args", "details-first", "exc-info", "positional", "failfast-stop"]),
   ("addSkip", ["getattr-probe", "addSuccess", "check-args", "details-first", "reason-or-description", "positional", "none"]),
   ("addSuccess", ["direct", "none", "no-check", "details-first", "drop", "bare", "none"]),
   ("addUnexpectedSuccess", ["getattr-probe", "addFailure(synthetic)", "no-check", "details-first", "drop", "bare", "failfast-stop"])]

def etodCheckArgs : List String :=
  ["exactly-one a0 a1",
   "raise ValueError"]

def etodDetailsToExcInfo : List String :=
  ["def(self, a0):",
   "  return (_StringException, _StringException(_details_to_str(a0, special='traceback')), None)"]

def etodDone : List String :=
  ["def(self):",
   "  try:",
   "    return self.decorated.done()",
   "  except AttributeError:",
   "    return"]

def etodProgress : List String :=
  ["def(self, a0, a1):",
   "  v0 = getattr(self.decorated, 'progress', None)",
   "  if v0 is None:",
   "    return",
   "  return v0(a0, a1)"]

def etodTags : List String :=
  ["def(self, a0, a1):",
   "  v0 = getattr(self.decorated, 'tags', None)",
   "  if v0 is not None:",
   "    return v0(a0, a1)",
   "  else:",
   "    self._tags.change_tags(a0, a1)"]

def etodTime : List String :=
  ["def(self, a0):",
   "  v0 = getattr(self.decorated, 'time', None)",
   "  if v0 is None:",
   "    return",
   "  return v0(a0)"]

def etodStartTest : List String :=
  ["def(self, a0):",
   "  self._tags = TagContext(self._tags)",
   "  return self.decorated.startTest(a0)"]

def etodStopTest : List String :=
  ["def(self, a0):",
   "  if self._tags is not None and self._tags.parent is not None:",
   "    self._tags = self._tags.parent",
   "  return self.decorated.stopTest(a0)"]

def etodStopTestRun : List String :=
  ["def(self):",
   "  try:",
   "    return self.decorated.stopTestRun()",
   "  except AttributeError:",
   "    return"]

def tbtStartTest : List String :=
  ["def(self, a0):",
   "  super().startTest(a0)",
   "  self._start_time = self._now()",
   "  self._status = None",
   "  self._details = None",
   "  self._stop_time = None"]

def tbtStopTest : List String :=
  ["def(self, a0):",
   "  self._stop_time = self._now()",
   "  v0 = set(self.current_tags)",
   "  super().stopTest(a0)",
   "  self._on_test(test=a0, status=self._status, start_time=self._start_time, stop_time=self._stop_time, tags=v0, details=self._details)"]

def tbtErrToDetails : List String :=
  ["def(self, a0, a1, a2):",
   "  if a2 is not None:",
   "    return a2",
   "  return {'traceback': TracebackContent(a1, a0, capture_locals=self.tb_locals)}"]

def tbtAddSkip : List String :=
  ["def(self, a0, a1=None, a2=None):",
   "  super().addSkip(a0, a1, a2)",
   "  self._status = 'skip'",
   "  if a2 is None:",
   "    a2 = {'reason': text_content(a1)}",
   "  else:",
   "    if a1:",
   "      a2['reason'] = text_content(a1)",
   "  self._details = a2"]

def tbtAddSuccess : List String :=
  ["def(self, a0, a1=None):",
   "  super().addSuccess(a0)",
   "  self._status = 'success'",
   "  self._details = a1"]

def tbtAddError : List String :=
  ["def(self, a0, a1=None, a2=None):",
   "  super().addError(a0, a1, a2)",
   "  self._status = 'error'",
   "  self._details = self._err_to_details(a0, a1, a2)"]

def tbtAddUnexpectedSuccess : List String :=
  ["def(self, a0, a1=None):",
   "  super().addUnexpectedSuccess(a0, a1)",
   "  self._status = 'success'",
   "  self._details = a1"]

def decoForward : List (String × List String) :=
  [("addError", ["return self.decorated.addError(a0, a1, details=a2)"]),
   ("addExpectedFailure", ["return self.decorated.addExpectedFailure(a0, a1, details=a2)"]),
   ("addFailure", ["return self.decorated.addFailure(a0, a1, details=a2)"]),
   ("addSkip", ["return self.decorated.addSkip(a0, a1, details=a2)"]),
   ("addSuccess", ["return self.decorated.addSuccess(a0, details=a1)"]),
   ("addUnexpectedSuccess", ["return self.decorated.addUnexpectedSuccess(a0, details=a1)"]),
   ("get current_tags", ["return self.decorated.current_tags"]),
   ("get failfast", ["return getattr(self.decorated, 'failfast', False)"]),
   ("get shouldStop", ["return self.decorated.shouldStop"]),
   ("get testsRun", ["return self.decorated.testsRun"]),
   ("progress", ["return self.decorated.progress(a0, a1)"]),
   ("set failfast", ["self.decorated.failfast = a0"]),
   ("startTest", ["return self.decorated.startTest(a0)"]),
   ("startTestRun", ["return self.decorated.startTestRun()"]),
   ("stop", ["return self.decorated.stop()"]),
   ("stopTest", ["return self.decorated.stopTest(a0)"]),
   ("stopTestRun", ["return self.decorated.stopTestRun()"]),
   ("tags", ["return self.decorated.tags(a0, a1)"]),
   ("time", ["return self.decorated.time(a0)"]),
   ("wasSuccessful", ["return self.decorated.wasSuccessful()"])]

def taggerStartTest : List String :=
  ["def(self, a0):",
   "  super().startTest(a0)",
   "  self.tags(self._new_tags, self._gone_tags)"]

end TTV.SrcRef.EtodSrc

namespace TTV.SrcRef.DetailSrc

def nameLoops : List (String × List String) :=
  [("addDetailUniqueName", ["start 1", "base original", "counter per-call", "first plain", "format %s-%d", "store addDetail"]),
   ("gather_details", ["start 1", "base original", "counter per-detail", "first plain", "format %s-%d", "store copy-content"]),
   ("_report_traceback", ["start 0", "base cumulative", "counter per-run-and-label", "first plain", "format %s-%d", "store addDetail-traceback"])]

def addDetail : List String :=
  ["def(self, a0, a1):",
   "  if self.__details is None:",
   "    self.__details = {}",
   "  self.__details[a0] = a1"]

def getDetails : List String :=
  ["def(self):",
   "  if self.__details is None:",
   "    self.__details = {}",
   "  return self.__details"]

def addReason : List String :=
  ["def(self, a0):",
   "  self.addDetail('reason', content.text_content(a0))"]

def addDetailUniqueName : List String :=
  ["def(self, a0, a1):",
   "  v0 = self.getDetails()",
   "  v1 = a0",
   "  v2 = 1",
   "  while v1 in v0:",
   "    v1 = '%s-%d' % (a0, v2)",
   "    v2 += 1",
   "  self.addDetail(v1, a1)"]

def reportTraceback : List String :=
  ["def(self, a0, a1='traceback'):",
   "  v0 = self._traceback_id_gens.setdefault(a1, itertools.count(0))",
   "  while True:",
   "    v1 = next(v0)",
   "    if v1:",
   "      a1 = '%s-%d' % (a1, v1)",
   "    if a1 not in self.getDetails():",
   "      break",
   "  self.addDetail(a1, content.TracebackContent(a0, self, capture_locals=getattr(self, '__testtools_tb_locals__', False)))"]

def gatherDetails : List String :=
  ["def(a0, a1):",
   "  for (v0, v1) in a0.items():",
   "    v2 = v0",
   "    v3 = itertools.count(1)",
   "    while v2 in a1:",
   "      v2 = '%s-%d' % (v0, next(v3))",
   "    a1[v2] = _copy_content(v1)"]

def onException : List String :=
  ["def(self, a0, a1='traceback'):",
   "  if a0[0] not in [self.skipException, _UnexpectedSuccess, _ExpectedFailure]:",
   "    self._report_traceback(a0, tb_label=a1)",
   "  for v0 in self.__exception_handlers:",
   "    v0(a0)"]

def gotUserException : List String :=
  ["def(self, a0, a1='traceback'):",
   "  if a0[0] is MultipleExceptions and a0[1].args:",
   "    for v0 in a0[1].args:",
   "      self._got_user_exception(v0, a1)",
   "    return self.exception_caught",
   "  v1 = a0[1]",
   "  try:",
   "    self.case.onException(a0, tb_label=a1)",
   "  finally:",
   "    del a0",
   "  self._exceptions.append(v1)",
   "  return self.exception_caught"]

def caseInit : List String :=
  ["def(self, *a0, **a1):",
   "  v0 = a1.pop('runTest', None)",
   "  super().__init__(*a0, **a1)",
   "  self._reset()",
   "  v1 = self._get_test_method()",
   "  if v0 is None:",
   "    v0 = getattr(v1, '_run_test_with', self.run_tests_with)",
   "  self.__RunTest = v0",
   "  if getattr(v1, '__unittest_expecting_failure__', False):",
   "    setattr(self, self._testMethodName, _expectedFailure(v1))",
   "  self.__exception_handlers = []",
   "  self.exception_handlers = [(self.skipException, self._report_skip), (self.failureException, self._report_failure), (_ExpectedFailure, self._report_expected_failure), (_UnexpectedSuccess, self._report_unexpected_success), (Exception, self._report_error)]"]

def caseReset : List String :=
  ["def(self):",
   "  self._cleanups = []",
   "  self._unique_id_gen = itertools.count(1)",
   "  self.__details = None",
   "  self.__setup_called = False",
   "  self.__teardown_called = False",
   "  self._traceback_id_gens = {}"]

def expectFailure : List String :=
  ["def(self, a0, a1, *a2, **a3):",
   "  self._add_reason(a0)",
   "  try:",
   "    a1(*a2, **a3)",
   "  except self.failureException:",
   "    v0 = sys.exc_info()",
   "    try:",
   "      self._report_traceback(v0)",
   "      raise _ExpectedFailure(v0)",
   "    finally:",
   "      del v0",
   "  else:",
   "    raise _UnexpectedSuccess(a0)"]

def useFixture : List String :=
  ["def(self, a0):",
   "  try:",
   "    a0.setUp()",
   "  except MultipleExceptions as v0:",
   "    if fixtures is not None and v0.args[-1][0] is fixtures.fixture.SetupError:",
   "      gather_details(v0.args[-1][1].args[0], self.getDetails())",
   "    raise",
   "  except BaseException:",
   "    v1 = sys.exc_info()",
   "    try:",
   "      if hasattr(a0, '_details') and a0._details is not None:",
   "        gather_details(a0.getDetails(), self.getDetails())",
   "    except BaseException:",
   "      self._report_traceback(v1)",
   "      raise",
   "    else:",
   "      reraise(*v1)",
   "  else:",
   "    self.addCleanup(a0.cleanUp)",
   "    self.addCleanup(gather_details, a0.getDetails(), self.getDetails())",
   "    return a0"]

def reportError : List String :=
  ["@staticmethod",
   "def(self, a0, a1):",
   "  a0.addError(self, details=self.getDetails())"]

def reportExpectedFailure : List String :=
  ["@staticmethod",
   "def(self, a0, a1):",
   "  a0.addExpectedFailure(self, details=self.getDetails())"]

def reportFailure : List String :=
  ["@staticmethod",
   "def(self, a0, a1):",
   "  a0.addFailure(self, details=self.getDetails())"]

def reportSkip : List String :=
  ["@staticmethod",
   "def(self, a0, a1):",
   "  if a1.args:",
   "    v0 = a1.args[0]",
   "  else:",
   "    v0 = 'no reason given.'",
   "  if not isinstance(v0, str):",
   "    v0 = str(v0)",
   "  self._add_reason(v0)",
   "  a0.addSkip(self, details=self.getDetails())"]

def reportUnexpectedSuccess : List String :=
  ["@staticmethod",
   "def(self, a0, a1):",
   "  a0.addUnexpectedSuccess(self, details=self.getDetails())"]

def runCleanups : List String :=
  ["def(self, a0):",
   "  v0 = False",
   "  while self.case._cleanups:",
   "    v1, v2, v3 = self.case._cleanups.pop()",
   "    v4 = self._run_user(v1, *v2, **v3)",
   "    if v4 is self.exception_caught:",
   "      v0 = True",
   "  if v0:",
   "    return self.exception_caught"]

end TTV.SrcRef.DetailSrc
