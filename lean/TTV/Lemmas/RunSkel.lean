import TTV.Model.RunSkel
/-! The reference skeletons mean the hand-written model functions. -/
namespace TTV.RunSkel
open TTV.Run
theorem interp_refRunCore (p : Program) (ff0 : Bool) (h : p.skipDeco = none) :
    let s := interp p refRunCore { rs := initRS p ff0 }
    (s.rs, s.succ) = runCore p ff0 ∧ s.skipped = false ∧ s.bad = false := by
  show ((interp p refRunCore { rs := initRS p ff0 }).rs, (interp p refRunCore { rs := initRS p ff0 }).succ) = runCore p ff0 ∧ _
  rcases h1 : runStage p.setUp false (initRS p ff0) with ⟨s1, ok1⟩
  cases ok1
  · cases hf : (runCleanups s1).ff <;> simp [refRunCore, interp, runCallee, h, h1, hf, runCore]
  · rcases h2 : runStage p.body p.xfailDeco s1 with ⟨s2, ok2⟩
    rcases h3 : runStage p.tearDown false s2 with ⟨s3, ok3⟩
    cases ok2 <;> cases ok3 <;> cases hf : (runCleanups s3).ff <;>
      cases hl : ((runCleanups s3).excs.length == s3.excs.length) <;>
      simp [refRunCore, interp, runCallee, h, h1, h2, h3, hf, hl, runCore]

theorem interp_refRunCore_skip (p : Program) (ff0 : Bool) (h : p.skipDeco.isSome) :
    let s := interp p refRunCore { rs := initRS p ff0 }
    s.skipped = true ∧ s.succ = false ∧ s.rs = initRS p ff0 ∧ s.bad = false := by
  simp [refRunCore, interp, h]

theorem selInterp_refSelect (hs : Handlers) (es : List Exc) : selInterp hs es refSelect = select hs es := by
  have e1 : (Cond.eval hs .unclaimed) = (fun e => !claimed hs e) := by funext e; rfl
  have e2 : (Cond.eval hs .notBenign) = (fun e => !benign hs e) := by funext e; rfl
  simp only [refSelect, selInterp, select, e1, e2, Bool.false_eq_true, if_false, if_true]
  rcases h1 : es.find? (fun e => !claimed hs e) with _ | a
  · rcases h2 : es.reverse.find? (fun e => !benign hs e) with _ | b <;> simp [h1, h2]
  · simp [h1]
end TTV.RunSkel
