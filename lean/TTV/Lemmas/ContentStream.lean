import TTV.Model.Content
import TTV.Spec.C16
/-! Lemmas for C16: `_iter_chunks` and the event log of `content_from_stream/file`. -/
namespace TTV.Lemmas.ContentStream
open TTV.Content TTV.Spec.C16

/-! ### the chunk loop -/

theorem readLimit_pos {n : Nat} {caps : List Nat} (hn : 1 ≤ n) (hc : caps.all (1 ≤ ·) = true) : 1 ≤ readLimit n caps := by
  cases caps with
  | nil => exact hn
  | cons k ks =>
    simp only [List.all_cons, Bool.and_eq_true, decide_eq_true_eq] at hc
    simp only [readLimit]; omega

theorem readLimit_le (n : Nat) (caps : List Nat) : readLimit n caps ≤ n := by
  cases caps <;> simp [readLimit]; omega

theorem all_tail {caps : List Nat} (hc : caps.all (1 ≤ ·) = true) : caps.tail.all (1 ≤ ·) = true := by
  cases caps with
  | nil => rfl
  | cons k ks => simp only [List.all_cons, Bool.and_eq_true] at hc; exact hc.2

/-- the loop delivers everything: every non-empty read consumes at least one byte, so `rem.length + 1` reads suffice
whatever the short-read plan -/
theorem chunksF_flatten (n : Nat) (hn : 1 ≤ n) : ∀ (f : Nat) (caps : List Nat) (rem : Bytes),
    caps.all (1 ≤ ·) = true → rem.length < f → (chunksF f n caps rem).flatten = rem := by
  intro f
  induction f with
  | zero => intro caps rem _ h; omega
  | succ f ih =>
    intro caps rem hc h
    simp only [chunksF]
    cases rem with
    | nil => simp
    | cons x xs =>
      have hl := readLimit_pos hn hc
      have hne : (List.take (readLimit n caps) (x :: xs)).isEmpty = false := by
        cases hk : readLimit n caps with
        | zero => omega
        | succ m => simp
      simp only [hne, Bool.false_eq_true, if_false, List.flatten_cons]
      have hlen : 1 ≤ (List.take (readLimit n caps) (x :: xs)).length := by
        simp only [List.length_take, List.length_cons]; omega
      rw [ih _ _ (all_tail hc) (by simp only [List.length_drop, List.length_cons] at h ⊢; omega)]
      have : (List.take (readLimit n caps) (x :: xs)).length = min (readLimit n caps) (x :: xs).length := List.length_take
      rw [this]
      by_cases hk : readLimit n caps ≤ (x :: xs).length
      · rw [Nat.min_eq_left hk]; exact List.take_append_drop _ _
      · have hk' : (x :: xs).length ≤ readLimit n caps := by omega
        rw [Nat.min_eq_right hk', List.take_of_length_le hk', List.drop_length, List.append_nil]

theorem chunks_flatten (n : Nat) (hn : 1 ≤ n) (caps : List Nat) (hc : caps.all (1 ≤ ·) = true) (rem : Bytes) :
    (chunks n caps rem).flatten = rem :=
  chunksF_flatten n hn _ caps rem hc (Nat.lt_succ_self _)

theorem chunksF_good (n : Nat) : ∀ (f : Nat) (caps : List Nat) (rem : Bytes),
    ∀ c ∈ chunksF f n caps rem, c ≠ [] ∧ c.length ≤ n := by
  intro f
  induction f with
  | zero => intro caps rem c h; simp [chunksF] at h
  | succ f ih =>
    intro caps rem c h
    simp only [chunksF] at h
    split at h
    · simp at h
    · rename_i hne
      simp only [List.mem_cons] at h
      rcases h with rfl | h
      · refine ⟨?_, ?_⟩
        · intro h0; simp [h0] at hne
        · have := readLimit_le n caps
          simp only [List.length_take]; omega
      · exact ih _ _ c h

theorem chunks_good (n : Nat) (caps : List Nat) (rem : Bytes) : ∀ c ∈ chunks n caps rem, c ≠ [] ∧ c.length ≤ n :=
  chunksF_good n _ caps rem

/-! ### one evaluation of `reader()` -/

def s0 (i : StreamIn) (s : Stream) : Stream := if i.isFile then { s with pos := 0 } else s

def okEvs (i : StreamIn) (cs : List Bytes) (consumer : Bool) : List Ev :=
  (if i.isFile then [Ev.opened] else []) ++ seekEvs i
    ++ (cs.flatMap fun c => Ev.read i.chunkSize c.length :: (if consumer then [Ev.chunk c] else []))
    ++ [Ev.read i.chunkSize 0] ++ (if i.isFile then [Ev.closed] else [])

def errEvs (i : StreamIn) (e : Exc) : List Ev :=
  (if i.isFile then [Ev.opened] else []) ++ seekEvs i ++ (if i.isFile then [Ev.closed] else []) ++ [Ev.raised e]

theorem readAll_ok {i : StreamIn} {s s1 : Stream} (c : Bool) (h : seekRes i (s0 i s) = .ok s1) :
    readAll i s c = (okEvs i (chunks i.chunkSize i.caps (s1.data.drop s1.pos)) c,
      some (chunks i.chunkSize i.caps (s1.data.drop s1.pos)),
      { s1 with pos := s1.pos + (chunks i.chunkSize i.caps (s1.data.drop s1.pos)).flatten.length }) := by
  simp only [s0] at h
  simp only [readAll, h, okEvs]

theorem readAll_err {i : StreamIn} {s : Stream} {e : Exc} (c : Bool) (h : seekRes i (s0 i s) = .error e) :
    readAll i s c = (errEvs i e, none, s0 i s) := by
  simp only [s0] at h
  simp only [readAll, h, errEvs, s0]

/-- events of the stream itself -/
def ioEv : Ev → Prop
  | .opened | .closed | .seek .. | .read .. => True
  | _ => False

theorem mem_seekEvs {i : StreamIn} {e : Ev} (h : e ∈ seekEvs i) : ioEv e := by
  unfold seekEvs at h
  split at h
  · simp at h
  · simp at h; subst h; trivial

theorem mem_okEvs {i : StreamIn} {cs : List Bytes} {c : Bool} {e : Ev} (h : e ∈ okEvs i cs c) :
    ioEv e ∨ ∃ x, x ∈ cs ∧ e = .chunk x ∧ c = true := by
  simp only [okEvs, List.mem_append, List.mem_flatMap, List.mem_cons, List.mem_singleton] at h
  rcases h with (((h | h) | ⟨x, hx, h⟩) | h) | h
  · split at h <;> simp at h; subst h; exact Or.inl trivial
  · exact Or.inl (mem_seekEvs h)
  · rcases h with rfl | h
    · exact Or.inl trivial
    · split at h
      · simp at h; subst h; rename_i hc; exact Or.inr ⟨x, hx, rfl, hc⟩
      · simp at h
  · rcases h with rfl | h
    · exact Or.inl trivial
    · simp at h
  · split at h <;> simp at h; subst h; exact Or.inl trivial

theorem mem_errEvs {i : StreamIn} {x : Exc} {e : Ev} (h : e ∈ errEvs i x) : ioEv e ∨ e = .raised x := by
  simp only [errEvs, List.mem_append, List.mem_singleton] at h
  rcases h with ((h | h) | h) | h
  · split at h <;> simp at h; subst h; exact Or.inl trivial
  · exact Or.inl (mem_seekEvs h)
  · split at h <;> simp at h; subst h; exact Or.inl trivial
  · exact Or.inr h

theorem chunkOf_okEvs (i : StreamIn) (cs : List Bytes) : (okEvs i cs true).filterMap chunkOf = cs := by
  have h1 : (seekEvs i).filterMap chunkOf = [] := by
    unfold seekEvs; split <;> simp [chunkOf]
  have h2 : ∀ l : List Bytes, (l.flatMap fun c => [Ev.read i.chunkSize c.length, Ev.chunk c]).filterMap chunkOf = l := by
    intro l
    induction l with
    | nil => rfl
    | cons x xs ih =>
      simp only [List.flatMap_cons, List.filterMap_append, ih]
      simp [List.filterMap_cons, chunkOf]
  simp only [okEvs, if_true, List.filterMap_append, h1, h2]
  cases i.isFile <;> simp [List.filterMap_cons, chunkOf]

theorem chunkOf_okEvs_false (i : StreamIn) (cs : List Bytes) : (okEvs i cs false).filterMap chunkOf = [] := by
  apply List.filterMap_eq_nil_iff.mpr
  intro e he
  rcases mem_okEvs he with h | ⟨x, _, _, h⟩
  · cases e <;> simp_all [ioEv, chunkOf]
  · simp at h

/-- what can occur in the log of one evaluation -/
theorem mem_readAll {i : StreamIn} {s : Stream} {c : Bool} {e : Ev} (h : e ∈ (readAll i s c).1) :
    ioEv e ∨ (∃ x, e = .chunk x ∧ x ≠ [] ∧ x.length ≤ i.chunkSize) ∨ ∃ x, e = .raised x := by
  cases hs : seekRes i (s0 i s) with
  | error x =>
    rw [readAll_err c hs] at h
    rcases mem_errEvs h with h | h
    · exact Or.inl h
    · exact Or.inr (Or.inr ⟨x, h⟩)
  | ok s1 =>
    rw [readAll_ok c hs] at h
    rcases mem_okEvs h with h | ⟨x, hx, rfl, _⟩
    · exact Or.inl h
    · exact Or.inr (Or.inl ⟨x, rfl, chunks_good _ _ _ x hx⟩)

theorem seek_data {f : Bool} {s s1 : Stream} {off : Int} {wh : Nat} (h : seek f s off wh = .ok s1) : s1.data = s.data := by
  unfold seek at h
  simp only at h
  split at h
  · split at h
    · cases h
    · split at h
      · cases h
      · cases h; rfl
  · cases h; rfl

theorem seekRes_data {i : StreamIn} {s s1 : Stream} (h : seekRes i s = .ok s1) : s1.data = s.data := by
  unfold seekRes at h
  split at h
  · cases h; rfl
  · exact seek_data h

theorem s0_data (i : StreamIn) (s : Stream) : (s0 i s).data = s.data := by
  unfold s0; split <;> rfl

theorem readAll_data (i : StreamIn) (s : Stream) (c : Bool) : (readAll i s c).2.2.data = s.data := by
  cases hs : seekRes i (s0 i s) with
  | error x => rw [readAll_err c hs]; exact s0_data i s
  | ok s1 => rw [readAll_ok c hs]; simp only; rw [seekRes_data hs, s0_data]

/-! ### segmentation of a log at the `iter` markers -/

theorem segs_noIter : ∀ l : List Ev, (∀ e ∈ l, isIter e = false) → segs l = [l] := by
  intro l
  induction l with
  | nil => intro _; rfl
  | cons x xs ih =>
    intro h
    have hx := h x List.mem_cons_self
    have := ih (fun e he => h e (List.mem_cons_of_mem _ he))
    simp [segs, hx, this]

theorem segs_append_iter : ∀ (pre rest : List Ev), (∀ e ∈ pre, isIter e = false) →
    segs (pre ++ Ev.iter :: rest) = pre :: segs rest := by
  intro pre
  induction pre with
  | nil => intro rest _; simp [segs, isIter]
  | cons x xs ih =>
    intro rest h
    have hx := h x List.mem_cons_self
    have := ih rest (fun e he => h e (List.mem_cons_of_mem _ he))
    simp [segs, hx, this]

/-- bodies of the consumptions of a lazy content -/
def lazyBodies (i : StreamIn) : Nat → Stream → List (List Ev)
  | 0, _ => []
  | k + 1, s =>
    let r := readAll i s true
    (r.1 ++ (if r.2.1.isSome then [Ev.done] else [])) :: lazyBodies i k r.2.2

theorem notIter_of_readAll {i : StreamIn} {s : Stream} {c : Bool} :
    ∀ e ∈ (readAll i s c).1 ++ (if (readAll i s c).2.1.isSome then [Ev.done] else []), isIter e = false := by
  intro e he
  simp only [List.mem_append] at he
  rcases he with he | he
  · rcases mem_readAll he with h | ⟨x, rfl, _⟩ | ⟨x, rfl⟩
    · cases e <;> simp_all [ioEv, isIter]
    · rfl
    · rfl
  · split at he <;> simp at he; subst he; rfl

theorem segs_lazyIters (i : StreamIn) : ∀ (k : Nat) (s : Stream) (pre : List Ev), (∀ e ∈ pre, isIter e = false) →
    segs (pre ++ lazyIters i k s) = pre :: lazyBodies i k s := by
  intro k
  induction k with
  | zero => intro s pre h; simp [lazyIters, lazyBodies, segs_noIter pre h]
  | succ k ih =>
    intro s pre h
    simp only [lazyIters, lazyBodies, List.cons_append, List.append_assoc]
    rw [segs_append_iter pre _ h]
    have := ih (readAll i s true).2.2 _ (notIter_of_readAll (i := i) (s := s) (c := true))
    simp only [List.append_assoc] at this
    rw [this]

theorem segs_replicate (body : List Ev) (hb : ∀ e ∈ body, isIter e = false) : ∀ (k : Nat) (pre : List Ev),
    (∀ e ∈ pre, isIter e = false) →
    segs (pre ++ (List.replicate k (Ev.iter :: body)).flatten) = pre :: List.replicate k body := by
  intro k
  induction k with
  | zero => intro pre h; simp [segs_noIter pre h]
  | succ k ih =>
    intro pre h
    simp only [List.replicate_succ, List.flatten_cons, List.cons_append]
    rw [segs_append_iter pre _ h, ih body hb]

/-! ### the seek of the model against the specification's `startPos` -/

theorem seekBase_eq {i : StreamIn} {s : Stream} (hd : s.data = dataOf i) (hp : i.isFile = true ∨ s.pos = i.pos0)
    (wh : Nat) : seekBase (s0 i s) wh = seekOrigin i wh := by
  obtain ⟨d, q⟩ := s
  simp only at hd hp
  subst hd
  simp only [seekBase, seekOrigin, s0, posBefore]
  cases hf : i.isFile with
  | true => simp
  | false => simp [hf] at hp; subst hp; simp

theorem seekRes_startPos {i : StreamIn} {s : Stream} {p : Nat} (hd : s.data = dataOf i)
    (hp : i.isFile = true ∨ s.pos = i.pos0) (h : startPos i = some p) :
    seekRes i (s0 i s) = .ok ⟨dataOf i, p⟩ := by
  unfold startPos at h
  unfold seekRes
  cases hsk : i.seekTo with
  | none =>
    simp only [hsk, Option.some.injEq, posBefore] at h
    obtain ⟨d, q⟩ := s
    simp only at hd hp
    subst hd
    simp only [s0]
    cases hf : i.isFile with
    | true => simp [hf] at h ⊢; exact h
    | false => simp [hf] at h hp ⊢; omega
  | some ow =>
    obtain ⟨off, wh⟩ := ow
    simp only [hsk] at h
    simp only [seek, seekBase_eq hd hp wh]
    have hd0 : (s0 i s).data = dataOf i := by rw [s0_data, hd]
    generalize seekOrigin i wh + off = t at h
    by_cases ht : t < 0
    · simp only [ht, if_true] at h ⊢
      cases hf : i.isFile with
      | true => simp [hf] at h
      | false =>
        simp only [hf, Bool.false_or, decide_eq_true_eq] at h
        by_cases hw : wh = 0
        · simp [hw] at h
        · simp only [hw, if_false, Option.some.injEq] at h
          simp [hw, ← h, ← hd0]
    · simp only [ht, if_false, Option.some.injEq] at h ⊢
      simp [← h, ← hd0]

theorem startPos_none_of_error {i : StreamIn} {s : Stream} {x : Exc} (hd : s.data = dataOf i)
    (hp : i.isFile = true ∨ s.pos = i.pos0) (h : seekRes i (s0 i s) = .error x) : startPos i = none := by
  cases hsp : startPos i with
  | none => rfl
  | some p => rw [seekRes_startPos hd hp hsp] at h; cases h

/-! ### shape of the model's log -/

def sInit (i : StreamIn) : Stream := { data := i.data0, pos := i.pos0 }

theorem streamModel_lazy {i : StreamIn} (h : i.bufferNow = false) :
    streamModel i = Ev.made :: lazyIters i i.iters ⟨i.data1.getD i.data0, i.pos0⟩ := by
  simp [streamModel, h]

theorem streamModel_buf_err {i : StreamIn} {x : Exc} (h : i.bufferNow = true)
    (hs : seekRes i (s0 i (sInit i)) = .error x) : streamModel i = errEvs i x := by
  simp only [streamModel, h, if_true]
  have := readAll_err false hs
  simp only [sInit] at this
  rw [this]

def bufBody (cs : List Bytes) : List Ev := cs.map Ev.chunk ++ [Ev.done]

theorem streamModel_buf_ok {i : StreamIn} {s1 : Stream} (h : i.bufferNow = true)
    (hs : seekRes i (s0 i (sInit i)) = .ok s1) :
    streamModel i = (okEvs i (chunks i.chunkSize i.caps (s1.data.drop s1.pos)) false ++ [Ev.made])
      ++ (List.replicate i.iters (Ev.iter :: bufBody (chunks i.chunkSize i.caps (s1.data.drop s1.pos)))).flatten := by
  simp only [streamModel, h, if_true]
  have := readAll_ok false hs
  simp only [sInit] at this
  rw [this]
  simp [bufBody]

theorem mem_lazyIters {i : StreamIn} : ∀ (k : Nat) (s : Stream) (e : Ev), e ∈ lazyIters i k s →
    e = .iter ∨ e = .done ∨ ioEv e ∨ (∃ x, e = .chunk x ∧ x ≠ [] ∧ x.length ≤ i.chunkSize) ∨ ∃ x, e = .raised x := by
  intro k
  induction k with
  | zero => intro s e h; simp [lazyIters] at h
  | succ k ih =>
    intro s e h
    simp only [lazyIters, List.cons_append, List.mem_cons, List.mem_append] at h
    rcases h with rfl | (h | h) | h
    · exact Or.inl rfl
    · exact Or.inr (Or.inr (mem_readAll h))
    · split at h <;> simp at h; subst h; exact Or.inr (Or.inl rfl)
    · exact ih _ e h

theorem mem_bufTail {cs : List Bytes} {k : Nat} {e : Ev}
    (h : e ∈ (List.replicate k (Ev.iter :: bufBody cs)).flatten) : e = .iter ∨ e = .done ∨ ∃ x ∈ cs, e = .chunk x := by
  simp only [List.mem_flatten, List.mem_replicate] at h
  obtain ⟨l, ⟨_, rfl⟩, he⟩ := h
  simp only [bufBody, List.mem_cons, List.mem_append, List.mem_map, List.mem_singleton] at he
  rcases he with rfl | ⟨x, hx, rfl⟩ | he
  · exact Or.inl rfl
  · exact Or.inr (Or.inr ⟨x, hx, rfl⟩)
  · rcases he with rfl | he
    · exact Or.inr (Or.inl rfl)
    · simp at he

/-- every event of the model's log -/
theorem mem_streamModel {i : StreamIn} {e : Ev} (h : e ∈ streamModel i) :
    e = .made ∨ e = .iter ∨ e = .done ∨ ioEv e ∨ (∃ x, e = .chunk x ∧ x ≠ [] ∧ x.length ≤ i.chunkSize) ∨ ∃ x, e = .raised x := by
  cases hb : i.bufferNow with
  | false =>
    rw [streamModel_lazy hb] at h
    rcases List.mem_cons.mp h with rfl | h
    · exact Or.inl rfl
    · exact Or.inr (mem_lazyIters _ _ e h)
  | true =>
    cases hs : seekRes i (s0 i (sInit i)) with
    | error x =>
      rw [streamModel_buf_err hb hs] at h
      rcases mem_errEvs h with h | h
      · exact Or.inr (Or.inr (Or.inr (Or.inl h)))
      · exact Or.inr (Or.inr (Or.inr (Or.inr (Or.inr ⟨x, h⟩))))
    | ok s1 =>
      rw [streamModel_buf_ok hb hs] at h
      simp only [List.mem_append, List.mem_singleton] at h
      rcases h with (h | rfl) | h
      · rcases mem_okEvs h with h | ⟨_, _, _, hc⟩
        · exact Or.inr (Or.inr (Or.inr (Or.inl h)))
        · cases hc
      · exact Or.inl rfl
      · rcases mem_bufTail h with rfl | rfl | ⟨x, hx, rfl⟩
        · exact Or.inr (Or.inl rfl)
        · exact Or.inr (Or.inr (Or.inl rfl))
        · exact Or.inr (Or.inr (Or.inr (Or.inr (Or.inl ⟨x, rfl, chunks_good _ _ _ x hx⟩))))

/-- clause `chunk-sizes` on the model: chunks are non-empty and at most `chunk_size` long -/
theorem model_chunkSizes (i : StreamIn) (q : List Ev) : cChunkSizes (.stream i) (.stream (streamModel i) q) = true := by
  simp only [cChunkSizes, List.all_eq_true, List.mem_filterMap]
  rintro c ⟨e, he, hc⟩
  rcases mem_streamModel he with rfl | rfl | rfl | h | ⟨x, rfl, hx, hl⟩ | ⟨x, rfl⟩
  · simp [chunkOf] at hc
  · simp [chunkOf] at hc
  · simp [chunkOf] at hc
  · cases e <;> simp_all [ioEv, chunkOf]
  · simp only [chunkOf, Option.some.injEq] at hc
    subst hc
    cases x with
    | nil => exact absurd rfl hx
    | cons a as => simpa using hl
  · simp [chunkOf] at hc

theorem dropWhile_notMade (pre rest : List Ev) (h : ∀ e ∈ pre, isMade e = false) :
    (pre ++ Ev.made :: rest).dropWhile (!isMade ·) = Ev.made :: rest := by
  induction pre with
  | nil => simp [List.dropWhile, isMade]
  | cons x xs ih =>
    have hx := h x List.mem_cons_self
    simp only [List.cons_append, List.dropWhile_cons, hx, Bool.not_false, if_true]
    exact ih (fun e he => h e (List.mem_cons_of_mem _ he))

theorem dropWhile_notMade_all (l : List Ev) (h : ∀ e ∈ l, isMade e = false) : l.dropWhile (!isMade ·) = [] := by
  induction l with
  | nil => rfl
  | cons x xs ih =>
    have hx := h x List.mem_cons_self
    simp only [List.dropWhile_cons, hx, Bool.not_false, if_true]
    exact ih (fun e he => h e (List.mem_cons_of_mem _ he))

/-- clause `lazy` on the model -/
theorem model_lazy (i : StreamIn) (q : List Ev) : cLazy (.stream i) (.stream (streamModel i) q) = true := by
  simp only [cLazy]
  cases hb : i.bufferNow with
  | false =>
    rw [streamModel_lazy hb]
    simp [isMade]
  | true =>
    simp only [if_true]
    cases hs : seekRes i (s0 i (sInit i)) with
    | error x =>
      rw [streamModel_buf_err hb hs, dropWhile_notMade_all]
      · rfl
      · intro e he
        rcases mem_errEvs he with h | rfl
        · cases e <;> simp_all [ioEv, isMade]
        · rfl
    | ok s1 =>
      rw [streamModel_buf_ok hb hs, List.append_assoc, List.singleton_append, dropWhile_notMade]
      · simp only [List.all_cons]
        refine Bool.and_eq_true_iff.mpr ⟨by simp [isIO], ?_⟩
        rw [List.all_eq_true]
        intro e he
        rcases mem_bufTail he with rfl | rfl | ⟨x, _, rfl⟩ <;> simp [isIO]
      · intro e he
        rcases mem_okEvs he with h | ⟨_, _, _, hc⟩
        · cases e <;> simp_all [ioEv, isMade]
        · cases hc

/-! ### clause `chunk-concat` on the model -/

theorem segOk_lazy_body {i : StreamIn} {s s1 : Stream} (hn : 1 ≤ i.chunkSize) (hc : i.caps.all (1 ≤ ·) = true) (hs : seekRes i (s0 i s) = .ok s1) :
    segOk (s1.data.drop s1.pos)
      ((readAll i s true).1 ++ (if (readAll i s true).2.1.isSome then [Ev.done] else [])) = true := by
  rw [readAll_ok true hs]
  simp only [Option.isSome_some, if_true, segOk, List.filterMap_append, chunkOf_okEvs, Bool.and_eq_true]
  refine ⟨⟨by simp [isDone], ?_⟩, ?_⟩
  · simp only [Bool.not_eq_true', List.any_eq_false]
    intro e he
    simp only [List.mem_append, List.mem_singleton] at he
    rcases he with he | rfl
    · rcases mem_okEvs he with h | ⟨x, _, rfl, _⟩
      · cases e <;> simp_all [ioEv, isRaised]
      · simp [isRaised]
    · simp [isRaised]
  · simp [chunkOf, chunks_flatten _ hn _ hc]

theorem segOk_bufBody (cs : List Bytes) : segOk cs.flatten (bufBody cs) = true := by
  simp only [segOk, bufBody, Bool.and_eq_true]
  refine ⟨⟨by simp [isDone], ?_⟩, ?_⟩
  · simp only [Bool.not_eq_true', List.any_eq_false]
    intro e he
    simp only [List.mem_append, List.mem_map, List.mem_singleton] at he
    rcases he with ⟨x, _, rfl⟩ | rfl <;> simp [isRaised]
  · have : ∀ l : List Bytes, (l.map Ev.chunk).filterMap chunkOf = l := by
      intro l; induction l with
      | nil => rfl
      | cons x xs ih => simp [List.filterMap_cons, chunkOf, ih]
    simp [List.filterMap_append, this, chunkOf]

theorem lazyBodies_file {i : StreamIn} {p : Nat} (hn : 1 ≤ i.chunkSize) (hc : i.caps.all (1 ≤ ·) = true) (hf : i.isFile = true)
    (hsp : startPos i = some p) : ∀ (k : Nat) (s : Stream), s.data = dataOf i →
    (lazyBodies i k s).all (segOk ((dataOf i).drop p)) = true := by
  intro k
  induction k with
  | zero => intro s _; rfl
  | succ k ih =>
    intro s hd
    simp only [lazyBodies, List.all_cons, Bool.and_eq_true]
    have hs := seekRes_startPos hd (Or.inl hf) hsp
    exact ⟨segOk_lazy_body hn hc hs, ih _ (by rw [readAll_data, hd])⟩

theorem lazyBodies_first {i : StreamIn} {p : Nat} (hn : 1 ≤ i.chunkSize) (hc : i.caps.all (1 ≤ ·) = true) (hsp : startPos i = some p)
    (k : Nat) (s : Stream) (hd : s.data = dataOf i) (hp : s.pos = i.pos0) :
    ((lazyBodies i k s).take 1).all (segOk ((dataOf i).drop p)) = true := by
  cases k with
  | zero => rfl
  | succ k =>
    simp only [lazyBodies, List.take_succ_cons, List.take_zero, List.all_cons, List.all_nil, Bool.and_true]
    exact segOk_lazy_body hn hc (seekRes_startPos hd (Or.inr hp) hsp)

theorem notIter_okEvs_made {i : StreamIn} {cs : List Bytes} : ∀ e ∈ okEvs i cs false ++ [Ev.made], isIter e = false := by
  intro e he
  simp only [List.mem_append, List.mem_singleton] at he
  rcases he with he | rfl
  · rcases mem_okEvs he with h | ⟨_, _, _, hc⟩
    · cases e <;> simp_all [ioEv, isIter]
    · cases hc
  · rfl

theorem notIter_bufBody {cs : List Bytes} : ∀ e ∈ bufBody cs, isIter e = false := by
  intro e he
  simp only [bufBody, List.mem_append, List.mem_map, List.mem_singleton] at he
  rcases he with ⟨x, _, rfl⟩ | rfl <;> rfl

/-- clause `chunk-concat` on the model: the chunks concatenate to the bytes from the seek position to EOF -/
theorem model_chunkConcat (i : StreamIn) (hn : 1 ≤ i.chunkSize) (hc : i.caps.all (1 ≤ ·) = true) (q : List Ev) :
    cChunkConcat (.stream i) (.stream (streamModel i) q) = true := by
  simp only [cChunkConcat, expected]
  cases hsp : startPos i with
  | none => rfl
  | some p =>
    simp only [Option.map_some]
    cases hb : i.bufferNow with
    | true =>
      have hd : (sInit i).data = dataOf i := by simp [sInit, dataOf, hb]
      have hs := seekRes_startPos hd (Or.inr rfl) hsp
      rw [streamModel_buf_ok hb hs]
      simp only [Bool.not_true, Bool.false_or, Bool.or_true, if_true, Bool.and_eq_true]
      refine ⟨by simp [isMade], ?_⟩
      simp only [consumptions]
      rw [segs_replicate _ notIter_bufBody _ _ notIter_okEvs_made]
      simp only [List.drop_succ_cons, List.drop_zero, List.all_eq_true, List.mem_replicate]
      rintro seg ⟨_, rfl⟩
      have := segOk_bufBody (chunks i.chunkSize i.caps ((dataOf i).drop p))
      rw [chunks_flatten _ hn _ hc] at this
      exact this
    | false =>
      have hd : (⟨i.data1.getD i.data0, i.pos0⟩ : Stream).data = dataOf i := by simp [dataOf, hb]
      rw [streamModel_lazy hb]
      simp only [Bool.not_false, Bool.true_or, Bool.true_and, Bool.or_false, consumptions]
      have hsegs := segs_lazyIters i i.iters ⟨i.data1.getD i.data0, i.pos0⟩ [Ev.made] (by simp [isIter])
      simp only [List.singleton_append] at hsegs
      rw [hsegs]
      simp only [List.drop_succ_cons, List.drop_zero]
      cases hf : i.isFile with
      | true => simpa using lazyBodies_file hn hc hf hsp _ _ hd
      | false => simpa using lazyBodies_first hn hc hsp _ _ hd rfl

/-! ### clause `re-evaluation` on the model (seed C16-f) -/

/-- a stream (not a file) whose first seek is accepted accepts the same seek from every position, and it leads to `seekFrom` -/
theorem seekRes_seekFrom {i : StreamIn} {s : Stream} {off : Int} {wh p : Nat} (hf : i.isFile = false)
    (hsk : i.seekTo = some (off, wh)) (hsp : startPos i = some p) (hd : s.data = dataOf i) :
    seekRes i (s0 i s) = .ok ⟨dataOf i, seekFrom i off wh s.pos⟩ := by
  obtain ⟨d, q⟩ := s
  simp only at hd
  subst hd
  simp only [startPos, hsk, hf, Bool.false_or, seekOrigin] at hsp
  simp only [seekRes, hsk, s0, hf, Bool.false_eq_true, if_false, seek, seekBase, seekFrom]
  by_cases hw : wh = 0
  · subst hw
    simp only [if_true] at hsp ⊢
    by_cases ht : (0 : Int) + off < 0
    · simp only [ht, if_true, decide_true] at hsp
      cases hsp
    · simp only [ht, if_false]
  · simp only [hw, if_false]
    generalize (if wh = 1 then (q : Int) else ((dataOf i).length : Int)) = o
    by_cases ht : o + off < 0
    · simp only [ht, if_true]
      have : (o + off).toNat = 0 := by omega
      rw [this]
    · simp only [ht, if_false]

theorem readAll_pos {i : StreamIn} {s s1 : Stream} (hn : 1 ≤ i.chunkSize) (hc : i.caps.all (1 ≤ ·) = true)
    (hs : seekRes i (s0 i s) = .ok s1) (c : Bool) :
    (readAll i s c).2.2 = ⟨s1.data, max s1.pos s1.data.length⟩ := by
  rw [readAll_ok c hs]
  simp only [chunks_flatten _ hn _ hc, List.length_drop, Stream.mk.injEq, true_and]
  omega

theorem lazyBodies_reeval {i : StreamIn} {off : Int} {wh p : Nat} (hn : 1 ≤ i.chunkSize) (hc : i.caps.all (1 ≤ ·) = true)
    (hf : i.isFile = false) (hsk : i.seekTo = some (off, wh)) (hsp : startPos i = some p) :
    ∀ (k : Nat) (s : Stream), s.data = dataOf i → reevalOk i off wh s.pos (lazyBodies i k s) = true := by
  intro k
  induction k with
  | zero => intro s _; rfl
  | succ k ih =>
    intro s hd
    have hs := seekRes_seekFrom (s := s) hf hsk hsp hd
    simp only [lazyBodies, reevalOk, Bool.and_eq_true]
    refine ⟨segOk_lazy_body hn hc hs, ?_⟩
    have hp := readAll_pos hn hc hs true
    have := ih (readAll i s true).2.2 (by rw [readAll_data, hd])
    rw [hp] at this ⊢
    simpa [posAfter] using this

/-- clause `re-evaluation` on the model -/
theorem model_reeval (i : StreamIn) (hn : 1 ≤ i.chunkSize) (hc : i.caps.all (1 ≤ ·) = true) (q : List Ev) :
    cReeval (.stream i) (.stream (streamModel i) q) = true := by
  simp only [cReeval]
  cases hsk : i.seekTo with
  | none => rfl
  | some ow =>
    obtain ⟨off, wh⟩ := ow
    cases hsp : startPos i with
    | none => rfl
    | some p =>
      simp only
      cases hf : i.isFile with
      | true => rfl
      | false =>
        cases hb : i.bufferNow with
        | true => rfl
        | false =>
          simp only [Bool.or_self, Bool.false_eq_true, if_false, consumptions]
          rw [streamModel_lazy hb]
          have hsegs := segs_lazyIters i i.iters ⟨i.data1.getD i.data0, i.pos0⟩ [Ev.made] (by simp [isIter])
          simp only [List.singleton_append] at hsegs
          rw [hsegs]
          simp only [List.drop_succ_cons, List.drop_zero]
          have hd : (⟨i.data1.getD i.data0, i.pos0⟩ : Stream).data = dataOf i := by simp [dataOf, hb]
          have := lazyBodies_reeval hn hc hf hsk hsp i.iters _ hd
          simpa [posBefore, hf] using this

/-- with an offset counted from the start or the end every consumption is asked for the same bytes -/
theorem reevalOk_abs {i : StreamIn} {off : Int} {wh : Nat} (hw : wh ≠ 1) :
    ∀ (segs : List (List Ev)) (cur : Nat),
      reevalOk i off wh cur segs = segs.all (segOk ((dataOf i).drop (seekFrom i off wh 0))) := by
  intro segs
  induction segs with
  | nil => intro _; rfl
  | cons seg rest ih =>
    intro cur
    have hcur : seekFrom i off wh cur = seekFrom i off wh 0 := by
      simp only [seekFrom]
      by_cases h0 : wh = 0 <;> simp [h0, hw]
    simp only [reevalOk, List.all_cons, ih, hcur]

/-! ### clause `eq-self` on the model -/

theorem filterMap_eqAnswer_readAll (i : StreamIn) (s : Stream) (c : Bool) : (readAll i s c).1.filterMap eqAnswer = [] := by
  simp only [List.filterMap_eq_nil_iff]
  intro e he
  rcases mem_readAll he with h | ⟨x, rfl, _⟩ | ⟨b, rfl⟩
  · cases e <;> simp_all [ioEv, eqAnswer]
  · rfl
  · rfl

/-- when every evaluation from a state with these data and ANY position yields the same bytes, every `c == c` answers True -/
theorem lazyEqs_true {i : StreamIn} (want : Bytes)
    (h : ∀ s : Stream, s.data = dataOf i → ∃ cs, (readAll i s false).2.1 = some cs ∧ cs.flatten = want) :
    ∀ (k : Nat) (s : Stream), s.data = dataOf i → (lazyEqs i k s).filterMap eqAnswer = List.replicate k true := by
  intro k
  induction k with
  | zero => intro s _; rfl
  | succ k ih =>
    intro s hd
    obtain ⟨a, ha, haw⟩ := h s hd
    have hd1 : (readAll i s false).2.2.data = dataOf i := by rw [readAll_data, hd]
    obtain ⟨b, hb, hbw⟩ := h _ hd1
    have hd2 : (readAll i (readAll i s false).2.2 false).2.2.data = dataOf i := by rw [readAll_data, hd1]
    simp only [lazyEqs, ha, hb, List.filterMap_append, filterMap_eqAnswer_readAll, List.nil_append, ih _ hd2,
      List.filterMap_cons, eqAnswer, List.filterMap_nil, haw, hbw, beq_self_eq_true, List.singleton_append,
      List.replicate_succ]

theorem lazyEnd_data (i : StreamIn) : ∀ (k : Nat) (s : Stream), (lazyEnd i k s).data = s.data := by
  intro k
  induction k with
  | zero => intro s; rfl
  | succ k ih => intro s; simp only [lazyEnd, ih, readAll_data]

/-- clause `eq-self` on the model -/
theorem model_eqSelf (i : StreamIn) (hn : 1 ≤ i.chunkSize) (hc : i.caps.all (1 ≤ ·) = true) (q : List Ev) :
    cEqSelf (.stream i) (.stream q (streamEqModel i)) = true := by
  simp only [cEqSelf, expected]
  rcases Option.eq_none_or_eq_some (startPos i) with hsp | ⟨p, hsp⟩
  · simp [hsp]
  simp only [hsp, Option.map_some, Option.isSome_some, Bool.true_and]
  split
  · next hcfg =>
    cases hb : i.bufferNow with
    | true =>
      have hd : (sInit i).data = dataOf i := by simp [sInit, dataOf, hb]
      have hs := seekRes_startPos hd (Or.inr rfl) hsp
      have := readAll_ok false hs
      simp only [sInit] at this
      simp only [streamEqModel, hb, if_true, this]
      have : ∀ k : Nat, List.filterMap eqAnswer (List.replicate k (Ev.eqSelf true)) = List.replicate k true := by
        intro k; induction k with
        | zero => rfl
        | succ k ih => simp [List.replicate_succ, eqAnswer, ih]
      simp [this]
    | false =>
      simp only [streamEqModel, hb, Bool.false_eq_true, if_false]
      have hd : (lazyEnd i i.iters ⟨i.data1.getD i.data0, i.pos0⟩).data = dataOf i := by
        rw [lazyEnd_data]; simp [dataOf, hb]
      refine beq_iff_eq.mpr (lazyEqs_true ((dataOf i).drop p) ?_ i.eqs _ hd)
      intro s hds
      simp only [hb, Bool.or_false, Bool.or_eq_true] at hcfg
      rcases hcfg with hf | habs
      · have hs := seekRes_startPos hds (Or.inl hf) hsp
        rw [readAll_ok false hs]
        exact ⟨_, rfl, chunks_flatten _ hn _ hc _⟩
      · cases hf : i.isFile with
        | true =>
          have hs := seekRes_startPos hds (Or.inl hf) hsp
          rw [readAll_ok false hs]
          exact ⟨_, rfl, chunks_flatten _ hn _ hc _⟩
        | false =>
          unfold absSeek at habs
          cases hsk : i.seekTo with
          | none => simp [hsk] at habs
          | some ow =>
            obtain ⟨off, wh⟩ := ow
            simp only [hsk, bne_iff_ne, ne_eq] at habs
            have hs := seekRes_seekFrom (s := s) hf hsk hsp hds
            rw [readAll_ok false hs]
            refine ⟨_, rfl, ?_⟩
            rw [chunks_flatten _ hn _ hc]
            -- the position does not depend on where the stream stands
            have hp0 : seekFrom i off wh s.pos = p := by
              have h2 := seekRes_seekFrom (s := ⟨dataOf i, i.pos0⟩) hf hsk hsp rfl
              have h3 := seekRes_startPos (s := ⟨dataOf i, i.pos0⟩) rfl (Or.inr rfl) hsp
              rw [h3] at h2
              have : p = seekFrom i off wh i.pos0 := by simpa using h2
              rw [this]
              simp only [seekFrom]
              by_cases h0 : wh = 0 <;> simp [h0, habs]
            simp [hp0]
  · rfl

end TTV.Lemmas.ContentStream
