import TTV.Model.SuiteUtilSkel
/-! The reference terms mean the hand-written model functions. -/
namespace TTV.SuiteUtilSkel
open TTV.Suite

theorem refIter_non : refIter.nonIterable = .yieldSelf := rfl
theorem refIter_it : refIter.iterable = .yieldFromChildren := rfl

mutual
theorem iterateI_ref : ∀ t : T, iterateI refIter t = iterate t
  | .case id => by simp [iterateI, iterate, refIter_non]
  | .suite k cs => by simp [iterateI, iterate, refIter_it, iterateIL_ref cs]
theorem iterateIL_ref : ∀ ts : List T, iterateIL refIter ts = iterateL ts
  | [] => by simp [iterateIL, iterateL]
  | t :: ts => by simp [iterateIL, iterateL, iterateI_ref t, iterateIL_ref ts]
end

theorem refFilter_cases : refFilter.cases = [(.hasOwnFilter, .delegate), (.hasId, .keepIfIdIn true), (.isTestSuite, .filterChildrenInPlace)] := rfl
theorem refFilter_final : refFilter.finalReturnsSame = true := rfl

mutual
theorem filterI_ref (S : Nat → Bool) : ∀ t : T, filterI refFilter S t = filterIds S t
  | .case id => by
      by_cases h : S id <;> simp [filterI, filterIds, refFilter_cases, refFilter_final, chooseAct, FTest.holds, h]
  | .suite k cs => by
      cases k <;> simp [filterI, filterIds, refFilter_cases, refFilter_final, chooseAct, FTest.holds, filterIL_ref S cs]
theorem filterIL_ref (S : Nat → Bool) : ∀ ts : List T, filterIL refFilter S ts = filterL S ts
  | [] => by simp [filterIL, filterL]
  | t :: ts => by simp [filterIL, filterL, filterI_ref S t, filterIL_ref S ts]
end

/- the same for ANY case list that decides the five kinds of node as `filterIds` needs it: the case of a test case is kept or
replaced by a fresh empty suite, every suite has its children filtered (by its own method or in place), and the object itself is
returned at the end.  In particular the order of cases whose tests exclude each other does not matter. -/
mutual
theorem filterI_sem (s : FilterSrc) (S : Nat → Bool) (hfin : s.finalReturnsSame = true)
    (hcase : ∀ id, chooseAct s.cases (.case id) = some (.keepIfIdIn true))
    (hsuite : ∀ k cs, chooseAct s.cases (.suite k cs) = some .delegate ∨ chooseAct s.cases (.suite k cs) = some .filterChildrenInPlace) :
    ∀ t : T, filterI s S t = filterIds S t
  | .case id => by
      by_cases h : S id <;> simp [filterI, filterIds, hcase id, h]
  | .suite k cs => by
      rcases hsuite k cs with h | h <;> simp [filterI, filterIds, h, hfin, filterIL_sem s S hfin hcase hsuite cs]
theorem filterIL_sem (s : FilterSrc) (S : Nat → Bool) (hfin : s.finalReturnsSame = true)
    (hcase : ∀ id, chooseAct s.cases (.case id) = some (.keepIfIdIn true))
    (hsuite : ∀ k cs, chooseAct s.cases (.suite k cs) = some .delegate ∨ chooseAct s.cases (.suite k cs) = some .filterChildrenInPlace) :
    ∀ ts : List T, filterIL s S ts = filterL S ts
  | [] => by simp [filterIL, filterL]
  | t :: ts => by simp [filterIL, filterL, filterI_sem s S hfin hcase hsuite t, filterIL_sem s S hfin hcase hsuite ts]
end

theorem refFlatten_non : refFlatten.nonIterable = .single := rfl
theorem refFlatten_test : refFlatten.unpackTest = .plainTypeOrOuter := rfl
theorem refFlatten_body : refFlatten.unpackBody = .extendRecursive := rfl
theorem refFlatten_steps : refFlatten.wholeSteps = [.firstId, .sortIfHas, .returnPair] := rfl

mutual
theorem flattenI_ref : ∀ (outer : Bool) (t : T), flattenI refFlatten outer t = flatten outer t
  | outer, .case id => by simp [flattenI, flatten, refFlatten_non]
  | outer, .suite k cs => by
      have ih := flattenIL_ref cs
      by_cases h : (k = .plain || outer) = true
      · simp only [flattenI, flatten, refFlatten_test, refFlatten_body, h, ih]; simp
      · simp only [flattenI, flatten, refFlatten_test, refFlatten_steps, h, ih, wholeI, iterate]
        by_cases hk : k = .csort <;> simp [hk]
theorem flattenIL_ref : ∀ ts : List T, flattenIL refFlatten ts = flattenL ts
  | [] => by simp [flattenIL, flattenL]
  | t :: ts => by simp [flattenIL, flattenL, flattenI_ref false t, flattenIL_ref ts]
end

theorem sortedI_ref (x : T) :
    sortedI refIter refFlatten x refSorted none = (match sortedTests x with | none => .valueError | some r => .ok r) := by
  simp only [refSorted, sortedI, iterateI_ref, flattenI_ref, sortedTests]
  split <;> simp

theorem loadedI_ref (S : Nat → Bool) (x : T) :
    loadedI refLoadList refIter refFilter S x = some (iterate (filterIds S x)) := by
  simp [loadedI, refLoadList, iterateI_ref, filterI_ref]

end TTV.SuiteUtilSkel
