import TTV.Spec.RunCommon
/-! Static facts about programs: nesting closure, id uniqueness, `findStage`. -/
namespace TTV.Spec.Run
open TTV.Run

/-- `c` is registered directly by `acts` (as a cleanup or as a fixture's cleanUp) -/
def childOf (c : Stage) (acts : List Act) : Prop :=
  Act.cleanup c ∈ acts ∨ ∃ f ds, Act.useFixture f ds c ∈ acts

theorem stagesOf_self (st : Stage) : st ∈ stagesOf st := by
  cases st; simp [stagesOf]

theorem child_mem_stagesOfActs {c : Stage} : ∀ {acts : List Act}, childOf c acts → c ∈ stagesOfActs acts
  | [], h => by rcases h with h | ⟨_, _, h⟩ <;> simp at h
  | a :: as, h => by
    have ih := @child_mem_stagesOfActs c as
    cases a with
    | cleanup s =>
      simp only [stagesOfActs, List.mem_append]
      rcases h with h | ⟨f, ds, h⟩
      · simp only [List.mem_cons] at h
        rcases h with h | h
        · cases h; exact Or.inl (stagesOf_self _)
        · exact Or.inr (ih (Or.inl h))
      · simp only [List.mem_cons] at h
        rcases h with h | h
        · cases h
        · exact Or.inr (ih (Or.inr ⟨f, ds, h⟩))
    | useFixture f' ds' s =>
      simp only [stagesOfActs, List.mem_append]
      rcases h with h | ⟨f, ds, h⟩
      · simp only [List.mem_cons] at h
        rcases h with h | h
        · cases h
        · exact Or.inr (ih (Or.inl h))
      · simp only [List.mem_cons] at h
        rcases h with h | h
        · cases h; exact Or.inl (stagesOf_self _)
        · exact Or.inr (ih (Or.inr ⟨f, ds, h⟩))
    | addDetail n c' =>
      simp only [stagesOfActs]
      apply ih
      rcases h with h | ⟨f, ds, h⟩
      · simp at h; exact Or.inl h
      · simp at h; exact Or.inr ⟨f, ds, h⟩
    | expect m ds' =>
      simp only [stagesOfActs]
      apply ih
      rcases h with h | ⟨f, ds, h⟩
      · simp at h; exact Or.inl h
      · simp at h; exact Or.inr ⟨f, ds, h⟩
    | patch a v =>
      simp only [stagesOfActs]
      apply ih
      rcases h with h | ⟨f, ds, h⟩
      · simp at h; exact Or.inl h
      · simp at h; exact Or.inr ⟨f, ds, h⟩

/- nesting is transitive: the children of a nested stage are nested -/
mutual
theorem stagesOf_closed : ∀ (st x c : Stage), x ∈ stagesOf st → childOf c x.acts → c ∈ stagesOf st
  | .mk i acts t, x, c, hx, hc => by
    simp only [stagesOf, List.mem_cons] at hx ⊢
    rcases hx with hx | hx
    · subst hx
      exact Or.inr (child_mem_stagesOfActs hc)
    · exact Or.inr (stagesOfActs_closed acts x c hx hc)
theorem stagesOfActs_closed : ∀ (acts : List Act) (x c : Stage), x ∈ stagesOfActs acts → childOf c x.acts →
    c ∈ stagesOfActs acts
  | [], x, c, hx, _ => by simp [stagesOfActs] at hx
  | .cleanup s :: as, x, c, hx, hc => by
    simp only [stagesOfActs, List.mem_append] at hx ⊢
    rcases hx with hx | hx
    · exact Or.inl (stagesOf_closed s x c hx hc)
    · exact Or.inr (stagesOfActs_closed as x c hx hc)
  | .useFixture _ _ s :: as, x, c, hx, hc => by
    simp only [stagesOfActs, List.mem_append] at hx ⊢
    rcases hx with hx | hx
    · exact Or.inl (stagesOf_closed s x c hx hc)
    · exact Or.inr (stagesOfActs_closed as x c hx hc)
  | .addDetail _ _ :: as, x, c, hx, hc => by
    simp only [stagesOfActs] at hx ⊢
    exact stagesOfActs_closed as x c hx hc
  | .expect _ _ :: as, x, c, hx, hc => by
    simp only [stagesOfActs] at hx ⊢
    exact stagesOfActs_closed as x c hx hc
  | .patch _ _ :: as, x, c, hx, hc => by
    simp only [stagesOfActs] at hx ⊢
    exact stagesOfActs_closed as x c hx hc
end

/-- the stages strictly nested in setUp / body / tearDown: everything that can sit on the cleanup stack -/
def nested (p : Program) : List Stage :=
  stagesOfActs p.setUp.acts ++ stagesOfActs p.body.acts ++ stagesOfActs p.tearDown.acts

theorem stagesOf_eq (st : Stage) : stagesOf st = st :: stagesOfActs st.acts := by
  cases st; simp [stagesOf, Stage.acts]

theorem allStages_eq (p : Program) :
    allStages p = p.setUp :: stagesOfActs p.setUp.acts ++ (p.body :: stagesOfActs p.body.acts) ++
      (p.tearDown :: stagesOfActs p.tearDown.acts) := by
  simp [allStages, stagesOf_eq]

theorem nested_closed (p : Program) (x c : Stage) (hx : x ∈ nested p) (hc : childOf c x.acts) : c ∈ nested p := by
  simp only [nested, List.mem_append] at hx ⊢
  rcases hx with (hx | hx) | hx
  · exact Or.inl (Or.inl (stagesOfActs_closed _ x c hx hc))
  · exact Or.inl (Or.inr (stagesOfActs_closed _ x c hx hc))
  · exact Or.inr (stagesOfActs_closed _ x c hx hc)

theorem nested_sub_all (p : Program) (x : Stage) (hx : x ∈ nested p) : x ∈ allStages p := by
  rw [allStages_eq]
  simp only [nested, List.mem_append] at hx
  simp only [List.mem_append, List.mem_cons]
  rcases hx with (hx | hx) | hx
  · exact Or.inl (Or.inl (Or.inr hx))
  · exact Or.inl (Or.inr (Or.inr hx))
  · exact Or.inr (Or.inr hx)

theorem idsNodup_iff (l : List Nat) : idsNodup l = true ↔ l.Nodup := by
  induction l with
  | nil => simp [idsNodup]
  | cons x xs ih => simp [idsNodup, ih, List.nodup_cons]

theorem wf_nodup (p : Program) (h : wf p = true) : ((allStages p).map Stage.id).Nodup := by
  simp only [wf, Bool.and_eq_true] at h
  exact (idsNodup_iff _).mp h.1.1.1.1.1.1

theorem wf_handlers (p : Program) (h : wf p = true) : p.userHandlers.all (fun h => isSub h.1 .exc) = true := by
  simp only [wf, Bool.and_eq_true] at h
  exact h.1.1.1.1.1.2

theorem wf_attrs (p : Program) (h : wf p = true) : (p.attrs0.map (·.1)).Nodup := by
  simp only [wf, Bool.and_eq_true] at h
  exact (idsNodup_iff _).mp h.1.1.2

theorem wf_dicts (p : Program) (h : wf p = true) (st : Stage) (hst : st ∈ allStages p) (ds : List (DName × UC))
    (hds : ds ∈ dictsOf st) : namesNodup (ds.map (·.1)) = true := by
  simp only [wf, Bool.and_eq_true] at h
  exact List.all_eq_true.mp (List.all_eq_true.mp h.1.1.1.2 st hst) ds hds

theorem wf_names (p : Program) (h : wf p = true) (st : Stage) (hst : st ∈ allStages p) (n : DName)
    (hn : n ∈ userNames st) : n ≠ nmReason := by
  simp only [wf, Bool.and_eq_true] at h
  have := List.all_eq_true.mp (List.all_eq_true.mp h.1.2 st hst) n hn
  simpa using this

theorem pairsNodup_iff (l : List (Nat × Nat)) : pairsNodup l = true ↔ l.Nodup := by
  induction l with
  | nil => simp [pairsNodup]
  | cons x xs ih => simp [pairsNodup, ih, List.nodup_cons]

theorem wf_keys (p : Program) (h : wf p = true) : ((allStages p).flatMap stageKeys).Nodup := by
  simp only [wf, Bool.and_eq_true] at h
  exact (pairsNodup_iff _).mp h.2

/-- with distinct ids a stage is found by its id -/
theorem findStage_of_mem (p : Program) (h : wf p = true) (st : Stage) (hm : st ∈ allStages p) :
    findStage p st.id = some st := by
  have hn := wf_nodup p h
  unfold findStage
  generalize allStages p = l at hn hm
  induction l with
  | nil => simp at hm
  | cons x xs ih =>
    simp only [List.map_cons, List.nodup_cons] at hn
    simp only [List.find?_cons]
    by_cases hx : x = st
    · subst hx; simp
    · have hm' : st ∈ xs := by
        simp only [List.mem_cons] at hm
        rcases hm with hm | hm
        · exact absurd hm.symm hx
        · exact hm
      have hne : (x.id == st.id) = false := by
        simp only [beq_eq_false_iff_ne, ne_eq]
        intro he
        exact hn.1 (he ▸ List.mem_map_of_mem hm')
      simp only [hne]
      exact ih hn.2 hm'

/-- a nested stage has an id different from the test method's -/
theorem nested_id_ne_body (p : Program) (h : wf p = true) (x : Stage) (hx : x ∈ nested p) : x.id ≠ p.body.id := by
  have hn := wf_nodup p h
  have hperm : (allStages p).Perm (p.body :: (p.setUp :: stagesOfActs p.setUp.acts ++ stagesOfActs p.body.acts ++
      (p.tearDown :: stagesOfActs p.tearDown.acts))) := by
    rw [allStages_eq]
    simp only [List.append_assoc, List.cons_append]
    exact List.perm_middle (l₁ := p.setUp :: stagesOfActs p.setUp.acts)
  have hn' := (hperm.map Stage.id).nodup hn
  simp only [List.map_cons, List.nodup_cons] at hn'
  intro he
  apply hn'.1
  rw [← he]
  apply List.mem_map_of_mem
  simp only [nested, List.mem_append] at hx
  simp only [List.mem_append, List.mem_cons]
  rcases hx with (hx | hx) | hx
  · exact Or.inl (Or.inl (Or.inr hx))
  · exact Or.inl (Or.inr hx)
  · exact Or.inr (Or.inr hx)

theorem setUp_id_ne_body (p : Program) (h : wf p = true) : p.setUp.id ≠ p.body.id := by
  have hn := wf_nodup p h
  rw [allStages_eq] at hn
  simp only [List.map_append, List.map_cons, List.cons_append, List.nodup_cons, List.mem_append, List.mem_cons] at hn
  intro he
  exact hn.1 (Or.inl (Or.inr (Or.inl he)))

theorem tearDown_id_ne_body (p : Program) (h : wf p = true) : p.tearDown.id ≠ p.body.id := by
  have hn := wf_nodup p h
  have hperm : (allStages p).Perm (p.body :: (p.setUp :: stagesOfActs p.setUp.acts ++ stagesOfActs p.body.acts ++
      (p.tearDown :: stagesOfActs p.tearDown.acts))) := by
    rw [allStages_eq]
    simp only [List.append_assoc, List.cons_append]
    exact List.perm_middle (l₁ := p.setUp :: stagesOfActs p.setUp.acts)
  have hn' := (hperm.map Stage.id).nodup hn
  simp only [List.map_cons, List.nodup_cons] at hn'
  intro he
  apply hn'.1
  rw [← he]
  apply List.mem_map_of_mem
  simp

end TTV.Spec.Run
