import TTV.Spec.RunCommon
/-! C01 — every test run is bracketed and yields exactly one outcome; non-`Exception` exceptions are
reported as errors, do not stop later stages and propagate after `stopTest`. -/
namespace TTV.Spec.C01
open TTV.Run TTV.Spec.Run

def isOutcomeEv : Ev → Bool
  | .outcome _ _ => true
  | .startTestRun | .stopTestRun | .startTest | .stopTest | .stage _ | .onExc _ _ => false

/-- result calls are exactly `startTest, <one outcome>, stopTest` (the stream flavour has no stopTest
event; `result=None` adds the run bracket) -/
def cBracket (p : Program) (_ff0 : Bool) (t : Trace) : Bool :=
  let f := p.flavour
  match resultEvents t with
  | evs =>
    let core := if f = .none_ then (evs.drop 1).dropLast else evs
    let runOk := if f = .none_ then
        (match evs.head?, evs.getLast? with | some .startTestRun, some .stopTestRun => true | _, _ => false)
      else true
    runOk && (match core with
      | [.startTest, .outcome _ _, .stopTest] => f != .stream
      | [.startTest, .outcome _ _] => f == .stream
      | _ => false)

/-- exceptions raised in this run that do not derive from `Exception` -/
def nonExceptions (p : Program) (ff0 : Bool) (t : Trace) : List Exc :=
  (raisedAll p ff0 t).filter fun e => !isSub e.cls .exc

/-- …is reported as an error and propagates out of `run()` -/
def cNonException (p : Program) (ff0 : Bool) (t : Trace) : Bool :=
  p.skipDeco.isSome || (nonExceptions p ff0 t).isEmpty ||
    ((match outcomeOf t with | some (o, _) => o == degrade p.flavour .error | none => false) &&
     (match t.raised with | some e => (nonExceptions p ff0 t).contains e | none => false))

/-- otherwise `run()` returns -/
def cReturns (p : Program) (ff0 : Bool) (t : Trace) : Bool :=
  !(p.skipDeco.isSome || (nonExceptions p ff0 t).isEmpty) || t.raised.isNone

/-- the outcome is delivered after every stage and handler call, and `stopTest` after it (so also after
tearDown and all cleanups, whatever was raised) -/
def cOutcomeLast (p : Program) (_ff0 : Bool) (t : Trace) : Bool :=
  let after := t.events.dropWhile (fun e => !isOutcomeEv e)
  after.all isResultEv && (p.flavour == .stream || (match t.events.reverse with
    | .stopTestRun :: .stopTest :: _ => p.flavour == .none_
    | .stopTest :: _ => p.flavour != .none_
    | _ => false))

/-- stack-machine check of the stage sequence: setUp first; body and tearDown iff setUp completed;
then every registered cleanup, most recently registered first, each exactly once (shared with C02) -/
def popAll (p : Program) : Nat → List Nat → List Nat → Bool
  | _, [], stack => stack.isEmpty
  | 0, _ :: _, _ => false
  | fuel + 1, id :: rest, stack =>
    match stack with
    | [] => false
    | top :: below =>
      top == id && (match findStage p id with
        | some st => popAll p fuel rest ((regsOf st.acts).reverse ++ below)
        | none => false)

def cStages (p : Program) (_ff0 : Bool) (t : Trace) : Bool :=
  let ids := stageIds t
  if p.skipDeco.isSome then ids.isEmpty
  else
    let r0 := (regsOf p.setUp.acts).reverse
    if setUpOk p then
      match ids with
      | a :: b :: c :: rest =>
        a == p.setUp.id && b == p.body.id && c == p.tearDown.id &&
          popAll p (rest.length + 1) rest ((regsOf p.tearDown.acts).reverse ++ (regsOf p.body.acts).reverse ++ r0)
      | _ => false
    else
      match ids with
      | a :: rest => a == p.setUp.id && popAll p (rest.length + 1) rest r0
      | _ => false

def clauses : List (String × (Input → List Trace → Bool)) :=
  [("bracket", lift cBracket), ("non-exception-error-propagates", lift cNonException),
   ("returns-otherwise", lift cReturns), ("outcome-after-all-stages", lift cOutcomeLast),
   ("all-stages-run", lift cStages)]

def holds (i : Input) (ts : List Trace) : Bool := clauses.all fun c => c.2 i ts

end TTV.Spec.C01
