import TTV.Model.StreamDeco
/-! Executable specification of C11 — *stream decorators forward each event once, change only their field,
never alias* — over observed traces.  It is written against the **path** reading of the property: what a
leaf gets is determined by the decorators on the way from the root to it, each of which changes only the
field it owns; nothing here mentions the heap or the traversal of the model. -/
namespace TTV.Spec.C11
open TTV.Stream TTV.Stream.Deco

/-- the field-owning decorators -/
inductive Step where
  | tag (add discard : List Nat)
  | stamp
  | pre (code : Str)
deriving DecidableEq, Repr

inductive Leaf | sink | failfast
deriving DecidableEq, Repr

/- the leaves of a tree, left to right, each with the decorators on its path (outermost first) -/
mutual
def paths : Dec → List (Leaf × List Step)
  | .sink => [(.sink, [])]
  | .failfast => [(.failfast, [])]
  | .copy ts => pathsL ts
  | .tagger a d ts => (pathsL ts).map fun p => (p.1, .tag a d :: p.2)
  | .stamp t => (paths t).map fun p => (p.1, .stamp :: p.2)
  | .toQueue c t => (paths t).map fun p => (p.1, .pre c :: p.2)
def pathsL : List Dec → List (Leaf × List Step)
  | [] => []
  | t :: ts => paths t ++ pathsL ts
end

/-- the only change each decorator makes: tags `(t ∪ add) \ discard`, a missing timestamp filled with the current time, the
route code prefixed.

**Interpretation, pinned by the suite** (`TestStreamTagger.test_discarding`; audit/C11 v2 read the prose the other way, the
code stays): an EMPTY resulting tag set is forwarded as `None` - `StreamTagger.status` hands on `test_tags or None` -, also
when the event supplied an empty set and the tagger has nothing to add or discard, and when every supplied tag is
discarded.  Downstream `None` means "this event says nothing about tags", not "no tags now": a consumer behind a tagger
(`_StreamToTestRecord._update_case`: `if test_tags is not None`) KEEPS THE PREVIOUS TAGS of the test in that case, where it
would have recorded the empty set had the event reached it directly.  So "altering only the field they own: tags added and
discarded" holds up to this identification of the empty set with `None`, and a tagger with nothing to do is the identity
on every event except those whose tags are the empty set. -/
def applyStep (e : Event) : Step → Event
  | .tag add discard =>
    let s := norm (((e.tags.getD []) ++ add).filter fun x => !discard.contains x)
    { e with tags := if s.isEmpty then none else some s }
  | .stamp => { e with timestamp := match e.timestamp with | none => some .now | some t => some t }
  | .pre code => { e with route := match e.route with | none => some code | some r => some (code ++ '/' :: r) }

def pathTransform (p : List Step) (e : Event) : Event := p.foldl applyStep e

/-- the statuses `StreamFailFast` reacts to -/
def triggers : Option Status → Bool
  | some .fail | some .uxsuccess => true
  | _ => false

/-- the value of the caller's object number `k` (as given in the input) -/
def objValue (objs : List TagObj) : Option Nat → Option (List Nat)
  | none => none
  | some k => some ((objs[k]?.map (·.elems)).getD [])

/-- the event a call carries, with the value of its tags argument -/
def valueOf (objs : List TagObj) (e : EventOf Nat) : Event := snapEvent e (objValue objs e.tags)

/-- what is compared of a leaf's log for `forward`: the call kind and the ten fields as received -/
inductive Core | start | stop | status (e : Event) | fired (call : Nat)
deriving DecidableEq, Repr

def core : LeafEv → Core
  | .start => .start | .stop => .stop | .fired n => .fired n | .status e _ _ => .status e

def expectSink (objs : List TagObj) (p : List Step) : Call → Core
  | .start => .start
  | .stop => .stop
  | .status e => .status (pathTransform p (valueOf objs e))

def expectFailFast : Nat → List Call → List Core
  | _, [] => []
  | n, .status e :: cs => (if triggers e.status then [.fired n] else []) ++ expectFailFast (n + 1) cs
  | n, _ :: cs => expectFailFast (n + 1) cs

def all2 {α β : Type} (p : α → β → Bool) : List α → List β → Bool
  | [], [] => true
  | a :: as, b :: bs => p a b && all2 p as bs
  | _, _ => false

/-- every sink gets every call exactly once, in order, transformed by its path only -/
def cForward (i : Input) (t : Trace) : Bool :=
  all2 (fun (p : Leaf × List Step) log =>
      p.1 != .sink || log.map core == i.calls.map (expectSink i.objs p.2)) (paths i.tree) t.leaves
/-- a `StreamFailFast` fires once for each `fail` / `uxsuccess` status call and for nothing else -/
def cFailFast (i : Input) (t : Trace) : Bool :=
  all2 (fun (p : Leaf × List Step) log =>
      p.1 != .failfast || log.map core == expectFailFast 0 i.calls) (paths i.tree) t.leaves
/-- the caller's argument objects are never modified -/
def cCaller (i : Input) (t : Trace) : Bool :=
  t.caller == (statusEvents i.calls).map (fun e => (objValue i.objs e.tags, objValue i.objs e.tags))
    && t.callerEnd == i.objs.map (·.elems)
/-- what a sink holds when the run is over is what it received (no later write through an alias) -/
def cNoLateWrite (_ : Input) (t : Trace) : Bool :=
  t.leaves.all fun log => log.all fun
    | .status e _ endTags => endTags == e.tags
    | _ => true

def clauses : List (String × (Input → Trace → Bool)) :=
  [("forward", cForward), ("failfast", cFailFast), ("caller-unchanged", cCaller), ("no-late-write", cNoLateWrite)]

def holds (i : Input) (t : Trace) : Bool := clauses.all fun c => c.2 i t

end TTV.Spec.C11
