import TTV.Model.AsyncRun
/-! Executable specification of C14 over observed traces of one `AsynchronousDeferredRunTest` run.

Everything is computed from the program and the observed trace (result events, stage log with virtual
timestamps, what was left in the reactor, observers) — no event loop, no queue:
the stages that ran must be a prefix of the program's *path* (setUp, [test, tearDown], cleanups last-registered
first), each starting no earlier than its predecessor's Deferred fired; the run is *in time* iff the whole path
ran and the last Deferred fired strictly before the timeout and not after any stop request. -/
namespace TTV.Spec.C14
open TTV.AsyncRun

def isOutcome : Ev → Bool
  | .success | .error | .failure | .skip => true
  | _ => false

/-- exactly one outcome between startTest and stopTest -/
def cBracket (_ : Prog) (t : Trace) : Bool :=
  match t.events with
  | [.startTest, x, .stopTest] => isOutcome x
  | _ => false

def outcome (t : Trace) : Option Ev :=
  match t.events with
  | [_, x, _] => some x
  | _ => none

/-- the stage completes without exception or failed Deferred (if it completes) -/
def behOk : Beh → Bool
  | .ret | .fire _ => true
  | _ => false

/-- delay after which the stage is over; `none` = never -/
def delayOf : Beh → Option Nat
  | .ret | .raise _ => some 0
  | .fire d | .failD d _ => some d
  | .never => none

def isSync : Beh → Bool
  | .ret | .raise _ => true
  | _ => false

def number : Nat → List Stage → List (Nat × Stage)
  | _, [] => []
  | i, c :: cs => (i, c) :: number (i + 1) cs

/-- the cleanups in the order in which they run: pop the top of the stack; the cleanups it registers (numbered
from `next`) go on top.  `fuel` only has to exceed the number of stages on the stack, counted transitively. -/
def expand : Nat → Nat → List (Nat × Stage) → List (SName × Stage)
  | 0, _, _ => []
  | _ + 1, _, [] => []
  | n + 1, next, (i, c) :: rest =>
    (SName.cleanup i, c) :: expand n (next + c.cleanups.length) ((number next c.cleanups).reverse ++ rest)

/-- the stages the chain goes through when nothing stops it: setUp; the test and tearDown iff setUp went
well; then every cleanup registered by a stage that ran, last registered first (cleanups registered by a
cleanup run right after it) -/
def path (p : Prog) : List (SName × Stage) :=
  let s1 := (number 0 p.setUp.cleanups).reverse
  let n1 := p.setUp.cleanups.length
  (SName.setUp, p.setUp) ::
    (if behOk p.setUp.beh then
      let s2 := (number n1 p.body.cleanups).reverse ++ s1
      let n2 := n1 + p.body.cleanups.length
      let s3 := (number n2 p.tearDown.cleanups).reverse ++ s2
      let n3 := n2 + p.tearDown.cleanups.length
      (SName.body, p.body) :: (SName.tearDown, p.tearDown) :: expand (stackSize s3 + 1) n3 s3
     else expand (stackSize s1 + 1) n1 s1)

/-- the log is a prefix of the path and every stage starts no earlier than its predecessor was over
(`earliest = none`: the predecessor never fires, nothing may follow) -/
def seqOk : List (SName × Stage) → List (SName × Nat × Nat) → Option Nat → Bool
  | _, [], _ => true
  | [], _ :: _, _ => false
  | _ :: _, _ :: _, none => false
  | (n, st) :: path, (n', t, _) :: log, some earliest =>
    n == n' && decide (earliest ≤ t) && seqOk path log ((delayOf st.beh).map (t + ·))

def cSequential (p : Prog) (t : Trace) : Bool := seqOk (path p) t.stages (some 0)

/-- the stages that ran (the log is a prefix of the path) -/
def ranStages (p : Prog) (t : Trace) : List Stage := ((path p).take t.stages.length).map (·.2)

def complete (p : Prog) (t : Trace) : Bool := t.stages.length == (path p).length

/-- the instant at which the last stage that ran is over, by the observed start times (`none` = never; the
initial value is returned if nothing ran) -/
def overAt : Option Nat → List (SName × Stage) → List (SName × Nat × Nat) → Option Nat
  | e, [], _ => e
  | e, _ :: _, [] => e
  | _, (_, st) :: path, (_, t, _) :: log => overAt ((delayOf st.beh).map (t + ·)) path log

/-- every stage was started by the running reactor (not by the shake-out iterations of `Spinner._clean`, which run
after the result of the spin has been determined) -/
def allLive (t : Trace) : Bool := t.live.length == t.stages.length && t.live.all id

/-- the last Deferred fired strictly before the timeout — or no stage returned a Deferred at all (then the chain
is over before the reactor starts) -/
def lastBeforeTimeout (p : Prog) (t : Trace) : Bool :=
  (ranStages p t).all (fun st => isSync st.beh) ||
  match overAt (some 0) (path p) t.stages with
  | some over => decide (over < p.timeout)
  | none => false

/-- every stage of the path ran, under the running reactor, the last one was over before the timeout, and the
run was not interrupted -/
def inTime (p : Prog) (t : Trace) : Bool :=
  complete p t && allLive t && lastBeforeTimeout p t && !t.stopRequested

def sidesRan (p : Prog) (t : Trace) : List Side := ((ranStages p t).map (·.sides)).flatten

def loggedLeft (sides : List Side) : Nat :=
  sides.foldl (fun n s => match s with | .logerr => n + 1 | .flush => 0 | _ => n) 0

/-- success ⇔ every stage completed cleanly within the timeout, uninterrupted ∧ no logged error left unflushed ∧
no failed Deferred dropped ∧ nothing left scheduled (∧ no failed expectation) -/
def cSuccessIff (p : Prog) (t : Trace) : Bool :=
  (outcome t == some .success) ==
    (inTime p t && (ranStages p t).all (fun st => behOk st.beh) && !(sidesRan p t).contains .expect
      && loggedLeft (sidesRan p t) == 0 && !(sidesRan p t).contains .dropfailed && t.leftover == 0)

/-- the chain was not over when a stop request came, before the timeout: the log is incomplete, or its last
stage was over only later -/
def interruptedFor (p : Prog) (t : Trace) (s : Nat) : Bool :=
  decide (s < p.timeout) &&
  (!complete p t || match overAt (some 0) (path p) t.stages with
    | some over => decide (s < over)
    | none => true)

/-- not in time ⇒ error; an interrupt asks the result to stop, and nothing else does (at the very instant at
which the chain is over the reactor's call order decides - left to the correspondence) -/
def cTimeoutInterrupt (p : Prog) (t : Trace) : Bool :=
  (inTime p t || outcome t == some .error) &&
  (!t.stopRequested || p.stops.any (fun s => decide (s < p.timeout))) &&
  (!p.stops.any (interruptedFor p t) || t.stopRequested)

def duringCount (p : Prog) : Nat := (if p.suppress then 0 else p.nObs) + (if p.store then 1 else 0) + 1

/-- afterwards: nothing pending in the reactor, the log observers are those installed before; while the test
runs the observers are: (unless suppressed) those, (if stored) the capturing one, the error observer -/
def cCleanAfter (p : Prog) (t : Trace) : Bool :=
  t.pending == 0 && t.obsRestored && t.stages.all (fun s => s.2.2 == duringCount p)

def hasKI : Beh → Bool
  | .raise .ki | .failD _ .ki => true
  | _ => false

def isMain : SName → Bool
  | .cleanup _ => false
  | _ => true

/-- `run()` re-raises only an exception no handler claims, after having reported an error; it does so whenever
setUp, the test method or tearDown raised one; and only if some stage that ran raised / failed with one -/
def cUnclaimed (p : Prog) (t : Trace) : Bool :=
  (!t.raised || outcome t == some .error) &&
  (!(((path p).take t.stages.length).any fun x => isMain x.1 && x.2.beh == Beh.raise .ki) || t.raised) &&
  (!t.raised || (ranStages p t).any fun st => hasKI st.beh)

def clauses : List (String × (Prog → Trace → Bool)) :=
  [("bracket", cBracket), ("sequential", cSequential), ("success-iff", cSuccessIff),
   ("timeout-interrupt", cTimeoutInterrupt), ("clean-after", cCleanAfter), ("unclaimed", cUnclaimed)]

def holds (p : Prog) (t : Trace) : Bool := clauses.all fun c => c.2 p t

end TTV.Spec.C14
