import TTV.Model.ConcSuite
import TTV.Spec.C12
/-! Executable specification of C13 over an observed trace of `ConcurrentTestSuite.run` /
`ConcurrentStreamTestSuite.run` (see `Conc.STrace`): the log of the shared target/semaphore (suite
flavour), the events the caller's StreamResult received (stream flavour), how `run()` ended, which
workers were started / joined / still alive at that moment, how often each sub-suite's `run()` was
called, the stop flags of the per-worker results, and whether every thread ended.

* `one-at-a-time`  the caller's TestResult sees whole, well-shaped blocks only (C12's `mutex` and `shape`);
* `delivered`      what each worker emitted reached the caller's result once and in that worker's order:
                   suite - the sections of thread `w+1` are exactly worker `w`'s own sequence (started workers all
                   finish); stream - a worker is known to the caller's result by its ROUTE CODE only, and `make_tests` may
                   give the same code (`None`, or the same string) to several workers.  For every route code `r` the events
                   delivered under `r`, in delivery order, are an INTERLEAVING of prefixes of the event sequences of the
                   started workers that were given `r` (`isMergePrefix`: each delivered event is the next event - id,
                   payload, tags and, if the emitter gave one, its own instant; for TestResult-API tests and for tests that
                   call `result.status()` themselves - of one of those workers, every worker's events being consumed in its
                   own order, none twice), and when `run()` returned normally an interleaving of ALL their events
                   (`isMerge`: nothing lost, nothing extra).  When only one started worker has the code `r` - in particular
                   whenever the codes are distinct - this says exactly: the events under `r` are a prefix of that worker's
                   events, resp. all of them (`TTV.Props.C13.C13_merge_single`); with equal codes the order BETWEEN the colliding
                   workers is free and an event that both would emit next may be credited to either - which is all an
                   observer of route codes can tell.  EVERY delivered event carries a time stamp and a route code that was
                   handed out; nothing from workers never started;
* `complete`       on normal return every sub-suite was started, ran exactly once, has terminated, and the
                   caller's result never raised;
* `broken-runner`  a sub-suite whose `run()` raises yields exactly one errored `broken-runner` test, others none
                   (stream: on normal return, counted per route code - as many as workers with that code raised; suite:
                   for workers without injected faults);
* `abort`          if `run()` raised: the exception is one the input can cause; every worker still registered
                   (started, not joined) was told to stop - stream: its result's `shouldStop` is set; suite: `stop()`
                   reached the target once per registered worker (or the `stop()` itself raised) - and on
                   normal return nobody was told to stop;
* `terminates`     `run()` ended and every started thread ended (no deadlock).

A HISTORY of 1..3 `run()` calls on one suite object (`clausesH`): all of the above for every run, each by itself. -/
namespace TTV.Spec.C13
open TTV.Conc

def nWorkers (i : SInput) : Nat := i.workers.length

def workerAt (i : SInput) (w : Nat) : Option Worker := i.workers[w]?

/-- the critical sections worker `w` performs (suite) -/
def wSecs (i : SInput) (w : Nat) : List Section :=
  match workerAt i w with
  | some wk => segSecs (suiteProg w wk).segs
  | none => []

/-- the events worker `w` emits (stream), as the caller's result sees them: under `w`'s route code -/
def wEvents (i : SInput) (w : Nat) : List SEv :=
  match workerAt i w with
  | some wk => streamEvents (routeOf i w) i.tb wk
  | none => []

/-- the route codes handed out -/
def routeCodes (i : SInput) : List Nat := (List.range (nWorkers i)).map (routeOf i)

/-- the events delivered under route code `r`, in delivery order -/
def sinkOf (r : Nat) (t : STrace) : List SEv := (t.sink.filter fun p => p.1.w == r).map (·.1)

/-- per worker (position = worker index): what it may contribute to the events under route code `r` - its own event sequence if
it was given `r` and was started, nothing otherwise -/
def streamsOf (i : SInput) (t : STrace) (r : Nat) : List (List SEv) :=
  (List.range (nWorkers i)).map fun w => if routeOf i w == r && t.spawned.contains w then wEvents i w else []

/-! ### interleavings

`mergeStates l [ss]` = every way of accounting for the observed list `l` as an interleaving of the streams `ss`: a *state* is
what is left of each stream; an observed event must be the head of some stream, which is then advanced.  States are kept
without duplicates, so the search is polynomial (at most one state per tuple of positions). -/
section merge
variable {α : Type} [BEq α]

/-- the states reached from `ss` by taking `e` from the head of one of the streams -/
def takeHead (e : α) (ss : List (List α)) : List (List (List α)) :=
  (List.range ss.length).filterMap fun k =>
    match ss[k]? with
    | some (x :: xs) => if x == e then some (ss.set k xs) else none
    | _ => none

def addNew (x : List (List α)) (l : List (List (List α))) : List (List (List α)) := if l.contains x then l else x :: l

def dedupe (l : List (List (List α))) : List (List (List α)) := l.foldr addNew []

def mergeStates : List α → List (List (List α)) → List (List (List α))
  | [], sts => sts
  | e :: l, sts => mergeStates l (dedupe (sts.flatMap (takeHead e)))

/-- `l` is an interleaving of prefixes of the streams `ss` -/
def isMergePrefix (l : List α) (ss : List (List α)) : Bool := !(mergeStates l [ss]).isEmpty

/-- `l` is an interleaving of the whole streams `ss` -/
def isMerge (l : List α) (ss : List (List α)) : Bool := (mergeStates l [ss]).any fun st => st.all List.isEmpty

end merge

def isStopSec : Section → Bool
  | [(.ctl .stop, _)] => true
  | _ => false

def registered (t : STrace) : List Nat := t.spawned.filter fun w => !t.joined.contains w

def cOneAtATime (_ : SInput) (t : STrace) : Bool :=
  match Spec.C12.parse t.log with
  | some ps => ps.all fun p => Spec.C12.shapeOk p.2
  | none => false

def cDelivered (i : SInput) (t : STrace) : Bool :=
  match i.flavour with
  | .suite =>
    match Spec.C12.parse t.log with
    | some ps =>
      ps.all (fun p => p.1 ≤ nWorkers i)
      && (Spec.C12.secsOf 0 ps).all isStopSec
      && (List.range (nWorkers i)).all fun w =>
           Spec.C12.secsOf (w + 1) ps == (if t.spawned.contains w then wSecs i w else [])
    | none => false
  | .stream =>
    t.sink.all (fun p => (routeCodes i).contains p.1.w && p.2.1)
    && (routeCodes i).all fun r =>
         isMergePrefix (sinkOf r t) (streamsOf i t r)
         && (t.result != some .returned || isMerge (sinkOf r t) (streamsOf i t r))

def cComplete (i : SInput) (t : STrace) : Bool :=
  t.result != some .returned ||
    (t.spawned == List.range (nWorkers i) && t.liveAtReturn.isEmpty
      && t.runs == (List.range (nWorkers i)).map (fun _ => 1)
      && t.sink.all fun p => !p.2.2)

/-- the final events of errored `broken-runner` tests delivered under route code `r` -/
def brokenFails (r : Nat) (t : STrace) : Nat :=
  (t.sink.filter fun p => p.1 == brokenFail r).length

/-- the workers given route code `r` whose `run()` raises -/
def boomsOf (i : SInput) (r : Nat) : Nat :=
  ((List.range (nWorkers i)).filter fun w => routeOf i w == r && ((workerAt i w).map (·.boom)).getD false).length

/-- the event is thread `w+1` reporting the errored `broken-runner` test -/
def isBrokenError (w : Nat) : Ev → Bool
  | (j, .call (.outcome .error .broken) _) => j == w + 1
  | _ => false

def brokenErrors (w : Nat) (t : STrace) : Nat := (t.log.filter (isBrokenError w)).length

def cBrokenRunner (i : SInput) (t : STrace) : Bool :=
  (List.range (nWorkers i)).all fun w =>
    match workerAt i w with
    | none => true
    | some wk =>
      match i.flavour with
      | .stream => t.result != some .returned || brokenFails (routeOf i w) t == boomsOf i (routeOf i w)
      | .suite => !(t.spawned.contains w && wk.faults.isEmpty) || brokenErrors w t == (if wk.boom then 1 else 0)

/-- a `stop()` call of main (thread 0) on the caller's result, with "raised" -/
def stopOfMain : Ev → Option Bool
  | (0, .call (.ctl .stop) r) => some r
  | _ => none

def mainStops (t : STrace) : List Bool := t.log.filterMap stopOfMain

def causeOk (i : SInput) : Cause → Bool
  | .interrupt => i.intr.isSome
  | .makeTests => i.mkRaise.isSome
  | .injected => !i.mfaults.isEmpty

def cAbort (i : SInput) (t : STrace) : Bool :=
  match t.result with
  | none => true
  | some .returned => mainStops t == [] && t.flags.all (! ·)
  | some (.raised c) =>
    causeOk i c &&
    match i.flavour with
    | .stream => (registered t).all fun w => t.flags[w]?.getD false
    | .suite =>
      let k := (mainStops t).length
      let r := (registered t).length
      (k == r && (mainStops t).all (! ·))
      || (1 ≤ k && k ≤ r && (mainStops t).getLast? == some true && ((mainStops t).dropLast).all (! ·))

def cTerminates (_ : SInput) (t : STrace) : Bool := t.finished && t.result.isSome

def clauses : List (String × (SInput → STrace → Bool)) :=
  [("one-at-a-time", cOneAtATime), ("delivered", cDelivered), ("complete", cComplete),
   ("broken-runner", cBrokenRunner), ("abort", cAbort), ("terminates", cTerminates)]

def holds (i : SInput) (t : STrace) : Bool := clauses.all fun c => c.2 i t

/-- a history of `run()` calls on one suite object: every clause is demanded of EVERY run of the history, each judged by itself -
what an earlier run did (returned, or was aborted with workers still alive) is no excuse and no help -/
def clausesH : List (String × (HInput → HTrace → Bool)) :=
  clauses.map fun c => (c.1, fun h t => h.length == t.length && (h.zip t).all fun p => c.2 p.1 p.2)

def holdsH (h : HInput) (t : HTrace) : Bool := clausesH.all fun c => c.2 h t

end TTV.Spec.C13
