import TTV.Model.ConcSuite
import TTV.Spec.C12
/-! Executable specification of C13 over an observed trace of `ConcurrentTestSuite.run` /
`ConcurrentStreamTestSuite.run` (see `Conc.STrace`): the log of the shared target/semaphore (suite
flavour), the events the caller's StreamResult received (stream flavour), how `run()` ended, which
workers were started / joined / still alive at that moment, how often each sub-suite's `run()` was
called, the stop flags of the per-worker results, and whether every thread ended.

* `one-at-a-time`  the caller's TestResult sees whole, well-shaped blocks only (C12's `mutex` and `shape`);
* `delivered`      what each worker emitted reached the caller's result once and in that worker's order:
                   suite - the sections of thread `w+1` are exactly worker `w`'s own sequence (started workers all
                   finish); stream - the events with route code `w` are a prefix of `w`'s events (id, payload, tags and -
                   if the emitter gave one - its own instant; for TestResult-API tests and for tests that call
                   `result.status()` themselves), all of them when `run()` returned normally, and EVERY delivered event
                   carries a time stamp; nothing from workers never started;
* `complete`       on normal return every sub-suite was started, ran exactly once, has terminated, and the
                   caller's result never raised;
* `broken-runner`  a sub-suite whose `run()` raises yields exactly one errored `broken-runner` test, others none
                   (stream: on normal return; suite: for workers without injected faults);
* `abort`          if `run()` raised: the exception is one the input can cause; every worker still registered
                   (started, not joined) was told to stop - stream: its result's `shouldStop` is set; suite: `stop()`
                   reached the target once per registered worker (or the `stop()` itself raised) - and on
                   normal return nobody was told to stop;
* `terminates`     `run()` ended and every started thread ended (no deadlock). -/
namespace TTV.Spec.C13
open TTV.Conc

def nWorkers (i : SInput) : Nat := i.workers.length

def workerAt (i : SInput) (w : Nat) : Option Worker := i.workers[w]?

/-- the critical sections worker `w` performs (suite) -/
def wSecs (i : SInput) (w : Nat) : List Section :=
  match workerAt i w with
  | some wk => segSecs (suiteProg w wk).segs
  | none => []

/-- the events worker `w` emits (stream) -/
def wEvents (i : SInput) (w : Nat) : List SEv :=
  match workerAt i w with
  | some wk => streamEvents w i.tb wk
  | none => []

def sinkOf (w : Nat) (t : STrace) : List SEv := (t.sink.filter fun p => p.1.w == w).map (·.1)

def isStopSec : Section → Bool
  | [(.ctl .stop, _)] => true
  | _ => false

def registered (t : STrace) : List Nat := t.spawned.filter fun w => !t.joined.contains w

def cOneAtATime (_ : SInput) (t : STrace) : Bool :=
  match Spec.C12.parse t.log with
  | some ps => ps.all fun p => Spec.C12.shapeOk p.2
  | none => false

def cDelivered (i : SInput) (t : STrace) : Bool :=
  match i.flavour with
  | .suite =>
    match Spec.C12.parse t.log with
    | some ps =>
      ps.all (fun p => p.1 ≤ nWorkers i)
      && (Spec.C12.secsOf 0 ps).all isStopSec
      && (List.range (nWorkers i)).all fun w =>
           Spec.C12.secsOf (w + 1) ps == (if t.spawned.contains w then wSecs i w else [])
    | none => false
  | .stream =>
    t.sink.all (fun p => decide (p.1.w < nWorkers i) && p.2.1)
    && (List.range (nWorkers i)).all fun w =>
         (sinkOf w t).isPrefixOf (wEvents i w)
         && (t.spawned.contains w || (sinkOf w t).isEmpty)
         && (t.result != some .returned || sinkOf w t == wEvents i w)

def cComplete (i : SInput) (t : STrace) : Bool :=
  t.result != some .returned ||
    (t.spawned == List.range (nWorkers i) && t.liveAtReturn.isEmpty
      && t.runs == (List.range (nWorkers i)).map (fun _ => 1)
      && t.sink.all fun p => !p.2.2)

def brokenFails (w : Nat) (t : STrace) : Nat :=
  (t.sink.filter fun p => p.1 == brokenFail w).length

/-- the event is thread `w+1` reporting the errored `broken-runner` test -/
def isBrokenError (w : Nat) : Ev → Bool
  | (j, .call (.outcome .error .broken) _) => j == w + 1
  | _ => false

def brokenErrors (w : Nat) (t : STrace) : Nat := (t.log.filter (isBrokenError w)).length

def cBrokenRunner (i : SInput) (t : STrace) : Bool :=
  (List.range (nWorkers i)).all fun w =>
    match workerAt i w with
    | none => true
    | some wk =>
      match i.flavour with
      | .stream => t.result != some .returned || brokenFails w t == (if wk.boom then 1 else 0)
      | .suite => !(t.spawned.contains w && wk.faults.isEmpty) || brokenErrors w t == (if wk.boom then 1 else 0)

/-- a `stop()` call of main (thread 0) on the caller's result, with "raised" -/
def stopOfMain : Ev → Option Bool
  | (0, .call (.ctl .stop) r) => some r
  | _ => none

def mainStops (t : STrace) : List Bool := t.log.filterMap stopOfMain

def causeOk (i : SInput) : Cause → Bool
  | .interrupt => i.intr.isSome
  | .makeTests => i.mkRaise.isSome
  | .injected => !i.mfaults.isEmpty

def cAbort (i : SInput) (t : STrace) : Bool :=
  match t.result with
  | none => true
  | some .returned => mainStops t == [] && t.flags.all (! ·)
  | some (.raised c) =>
    causeOk i c &&
    match i.flavour with
    | .stream => (registered t).all fun w => t.flags[w]?.getD false
    | .suite =>
      let k := (mainStops t).length
      let r := (registered t).length
      (k == r && (mainStops t).all (! ·))
      || (1 ≤ k && k ≤ r && (mainStops t).getLast? == some true && ((mainStops t).dropLast).all (! ·))

def cTerminates (_ : SInput) (t : STrace) : Bool := t.finished && t.result.isSome

def clauses : List (String × (SInput → STrace → Bool)) :=
  [("one-at-a-time", cOneAtATime), ("delivered", cDelivered), ("complete", cComplete),
   ("broken-runner", cBrokenRunner), ("abort", cAbort), ("terminates", cTerminates)]

def holds (i : SInput) (t : STrace) : Bool := clauses.all fun c => c.2 i t

end TTV.Spec.C13
