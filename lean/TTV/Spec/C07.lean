import TTV.Model.Matchers
import TTV.Model.Describe
import TTV.Spec.C06
/-! Executable specification of C07 over observed traces (three kinds of input, see `Describe.Input`). -/
namespace TTV.Spec.C07
open TTV.Matchers hiding Input Trace model
open TTV.Describe

def isRaised : Verdict → Bool
  | .raised _ => true
  | _ => false

/-- the expression without the `Annotate` wrappers at its root -/
def stripAnnot : M → M
  | .annotate m => stripAnnot m
  | m => m

/-- a `MatchesPredicate` with a well-formed message (one conversion) whose predicate is false of `v`
(and `str(v)`, which `'%s' % (v,)` calls, works: it does for every value but the instances of the harness's
`StrRaisesError`) -/
def predicateSaysNo (m : M) (v : V) : Bool :=
  match stripAnnot m with
  | .leaf (.predicate _ .one dom res) => lookupTbl v dom res == .mismatch && !strRaises v
  | _ => false

/-! clauses for `describe` inputs -/
def cStrTotal : Input → Trace → Bool
  | .describe .., .describe str _ _ _ _ => str.isNone
  | .describe .., _ => false
  | .ctor .., .ctor str _ _ _ => str.isNone
  | .ctor .., _ => false
  | _, _ => true
def cDescribeTotal : Input → Trace → Bool
  | .describe .., .describe _ matched d details _ => matched != .mismatch || (d.isNone && details.isNone)
  | .describe .., _ => false
  | .ctor .., .ctor _ d details _ => d.isNone && details.isNone
  | .ctor .., _ => false
  | _, _ => true
def cErrorStrTotal : Input → Trace → Bool
  | .describe .., .describe _ matched _ _ e => matched != .mismatch || e.isNone
  | .describe .., _ => false
  | .ctor .., .ctor _ _ _ e => e.isNone
  | .ctor .., _ => false
  | _, _ => true
/-- when the documented verdict is "mismatch", `match()` returns a Mismatch (it does not raise while
building one) -/
def cMismatchBuilt : Input → Trace → Bool
  | .describe m v annotated _, .describe _ matched _ _ _ =>
    if predicateSaysNo (withMessage annotated m) v then matched == .mismatch else true
  | .describe .., _ => false
  | _, _ => true

/-- the text is a real str / bytes: code points below 0x110000 / bytes below 256 -/
def validText (isBytes : Bool) (s : List Nat) : Bool :=
  s.all fun c => if isBytes then decide (c < 256) else decide (c < 1114112)

/-! clause for `text_repr` inputs -/
def cTextReprRoundTrip : Input → Trace → Bool
  | .textRepr b _ _ s, .textRepr _ back _ _ => !validText b s || back == some s
  | .textRepr .., _ => false
  | _, _ => true

/-! clauses for assertThat / assert_that / expectThat -/
def cRaisesIff : Input → Trace → Bool
  | .assert a, .assert o =>
    (match a.api with
     | .expectThat => !o.raised && o.continued
     | _ => o.raised == a.mismatch.isSome && o.continued == a.mismatch.isNone)
  | .assert _, _ => false
  | _, _ => true
def allRet (a : AssertIn) : Bool := a.after == .ret && a.tearDown == .ret && a.cleanups.all (· == .ret)
/-- the run is reported as a problem: addFailure, or addError (an error that has to propagate, e.g. a
KeyboardInterrupt, outranks every other exception of the run) -/
def failureClass (o : Outcome) : Bool := o == .failure || o == .error

/-- a mismatch recorded by `expectThat` makes the test fail once it has finished — in whatever stage the
expectation was recorded (`setUp` included, before or after its upcall to the base `setUp`: `AssertIn.place`) and whatever else the test goes on to do (return,
skip, expected failure, unexpected success, failure, error, interrupt; in the rest of that stage, `tearDown` or a
cleanup): never success / skip / expected failure / unexpected success.  In particular an expectation that failed
in `setUp` is not forgotten when `setUp` then gives up with a skip or an expected failure (the test method and
`tearDown` do not run then, the cleanups do, and the run is still reported as a failure).  (What a later stage does
to the `MismatchError` that `assertThat` raised is the subject of C03; here only: if nothing else happens the run
is a failure.)

The instance carries no `force_failure` from an earlier run: `force_failure` survives `TestCase._reset()`, so a
second run of the same instance fails again (M-Run models that flag as `ff0`; C03 judges those runs). -/
def cFailsAfterwards : Input → Trace → Bool
  | .assert a, .assert o =>
    (if a.mismatch.isSome then
       (match a.api with
        | .expectThat => failureClass o.outcome
        | _ => !allRet a || o.outcome == .failure)
     else (!allRet a || o.outcome == .success)) &&
    (match a.api with
     | .expectThat => o.forceFailure == a.mismatch.isSome
     | _ => true)
  | .assert _, _ => false
  | _, _ => true

/-- every name of `added` is different from all names before it -/
def freshAll : List Name → List Name → Bool
  | _, [] => true
  | before, n :: ns => !before.contains n && freshAll (before ++ [n]) ns

def cNonClobbering : Input → Trace → Bool
  | .assert a, .assert o =>
    let expected : List Nat := match a.mismatch, a.api with
      | none, _ => []
      | some _, .assert_that => []
      | some ds, .assertThat => ds
      | some ds, .expectThat => ds ++ [0]
    let added := o.names.drop a.existing.length
    o.names.take a.existing.length == a.existing && added.map (·.base) == expected && freshAll a.existing added
  | .assert _, _ => false
  | _, _ => true

def clauses : List (String × (Input → Trace → Bool)) :=
  [("str-total", cStrTotal), ("describe-total", cDescribeTotal), ("error-str-total", cErrorStrTotal),
   ("mismatch-built", cMismatchBuilt), ("text-repr-roundtrip", cTextReprRoundTrip),
   ("raises-iff", cRaisesIff), ("fails-afterwards", cFailsAfterwards), ("details-non-clobbering", cNonClobbering)]

def holds (i : Input) (t : Trace) : Bool := clauses.all fun c => c.2 i t

end TTV.Spec.C07
