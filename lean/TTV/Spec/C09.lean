import TTV.Model.StreamConvert
import TTV.Spec.C10
/-! Executable specification of C09 — *TestResult → StreamResult → TestResult conversion preserves every test* —
over observed traces: the status events seen between the two converters (`mid`) and the calls received by the
final extended result (`ext`).  The expectations are computed from the history alone, by the `TestResult` reading
of `tags()` / `time()` (run-level changes persist, changes inside a test end with it; the last supplied time is in
force); the call log of the final result is read back with `Spec.C10.interp`.

**Interpretations** (taken from the code, stated plainly because an independent audit - audit/C09 - read the prose the
other way; the code is left as it is):
* "every NON-EMPTY detail": a detail without chunks or with only empty chunks travels as one empty `eof` chunk and is
  dropped by the consumer side (an attachment exists from its first non-empty chunk, see `Spec.C10`); this includes the
  skip reason: `addSkip(test, "")` arrives as a skip without `reason` detail.
* content types are compared as the tokens the history uses (lower-case type / subtype / parameter names, no RFC 2047
  encoded words in values): what the render / parse round trip does to other spellings (case folding, decoding of
  encoded words) is C16's and recorded there.
* `tags()` / `time()` BEFORE an explicit `startTestRun()` belong to no run (it resets both); before the first `startTest`
  of a run that this `startTest` starts they belong to that run (repaired, see KNOWN_FINDINGS). -/
namespace TTV.Spec.C09
open TTV.Stream TTV.Stream.Convert

/-! ### the property's own tables -/
/-- how an outcome travels: error and failure both as `fail` -/
def streamStatus : Result → Status
  | .success _ => .success | .uxsuccess _ => .uxsuccess | .error _ => .fail | .failure _ => .fail
  | .xfail _ => .xfail | .skip _ => .skip
/-- … and is replayed: `fail` as failure -/
def replayOutcome : Result → Outcome
  | .success _ => .success | .uxsuccess _ => .uxsuccess | .error _ => .failure | .failure _ => .failure
  | .xfail _ => .xfail | .skip _ => .skip

/-- the attachments of an outcome, in the order the dict yields them (an exc_info is the one `traceback` detail) -/
def attachments : Result → List DetailIn
  | .success ds => asDict (ds.getD [])
  | .uxsuccess ds => asDict (ds.getD [])
  | .error (.details ds) => asDict ds | .failure (.details ds) => asDict ds | .xfail (.details ds) => asDict ds
  | .error .err => [tracebackDetail] | .failure .err => [tracebackDetail] | .xfail .err => [tracebackDetail]
  | .skip (.details ds) => asDict ds
  | .skip _ => []

/-- the skip reason given as text -/
def reasonOf : Result → Option (List Nat)
  | .skip (.reason r) => some r
  | _ => none

/-! ### well-formedness of the stream in between -/
/-- the fields the well-formedness sentence speaks about -/
structure Shape where
  testId : Option Nat
  status : Option Status
  fileName : Option Nat
  fileBytes : Option Bytes
  eof : Bool
  mime : Option Nat
deriving DecidableEq, Repr

def shape (e : Event) : Shape :=
  { testId := e.testId, status := e.status, fileName := e.fileName, fileBytes := e.fileBytes, eof := e.eof, mime := e.mime }

/-- the chunks of a detail in order, `eof` exactly on the last; a detail without chunks is one empty `eof` chunk -/
def chunksWithEof (cs : List Bytes) : List (Bytes × Bool) := cs.dropLast.map (·, false) ++ [(cs.getLast?.getD [], true)]

def fileShape (id name mime : Nat) (c : Bytes × Bool) : Shape :=
  { testId := some id, status := none, fileName := some name, fileBytes := some c.1, eof := c.2, mime := some mime }

/-- the reason of a skip travels as a text file named `reason` -/
def reasonShapes (id : Nat) (r : Result) : List Shape :=
  match reasonOf r with
  | some rs => [fileShape id 0 1 (encode rs, true)]
  | none => []

/-- per test: `inprogress`, the file events of its details in order, the reason file, exactly one final status -/
def expectShapes (t : TestIn) : List Shape :=
  [{ testId := some t.id, status := some .inprogress, fileName := none, fileBytes := none, eof := false, mime := none }]
  ++ ((attachments t.result).map fun d => (chunksWithEof d.chunks).map (fileShape t.id d.name d.mime)).flatten
  ++ reasonShapes t.id t.result
  ++ [{ testId := some t.id, status := some (streamStatus t.result), fileName := none, fileBytes := none, eof := false, mime := none }]

/-- cut the stream into its runs `startTestRun · status* · stopTestRun` (`cur` = the status events of the open run) -/
def splitMid : Option (List Event) → List StreamEv → Option (List (List Event))
  | none, [] => some []
  | some _, [] => none
  | none, .start :: r => splitMid (some []) r
  | some acc, .status e :: r => splitMid (some (acc ++ [e])) r
  | some acc, .stop :: r => (splitMid none r).map (acc :: ·)
  | _, _ => none

def cStreamWf (i : Convert.Input) (t : Convert.Trace) : Bool :=
  match splitMid none t.mid with
  | some runs => Spec.C10.all2 (fun tests es => es.map shape == (tests.map expectShapes).flatten) i.runs runs
  | none => false

/-! ### the round trip -/
structure Expect where
  id : Nat
  outcome : Outcome
  tags : List Nat              -- the reporter's current tags at the outcome (as a set)
  details : List Detail        -- every detail with non-empty bytes: name, content type, concatenated bytes
  tStart : Ts                  -- the time in force at startTest: the last one supplied in THIS run, else the wall clock
  tEnd : Ts                    -- … at the outcome
deriving Repr

/-- what must come out for a detail: nothing if it has no bytes at all -/
def carried (d : DetailIn) : Option Detail :=
  match d.chunks.flatten with
  | [] => none
  | b :: bs => some { name := d.name, mime := d.mime, bytes := b :: bs }

def expectDetails (r : Result) : List Detail :=
  (attachments r).filterMap carried
    ++ (match reasonOf r with
        | some rs => (carried { name := 0, mime := 1, chunks := [encode rs] }).toList
        | none => [])

def tagChange (cur : List Nat) : Option (List Nat × List Nat) → List Nat
  | none => cur
  | some (new, gone) => Spec.C10.applyTags cur new gone

def lastTime (now : Option Nat) : Option Nat → Option Nat
  | some n => some n
  | none => now

/-- the clock of a run: the last `time()` value supplied since its `startTestRun`, else the current time -/
def clockOf : Option Nat → Ts
  | some n => .t n
  | none => .now

/-- expectations per test, threading the reporter's run-level tags and last supplied time -/
def expectTests : List Nat → Option Nat → List TestIn → List Expect
  | _, _, [] => []
  | g, now, t :: ts =>
    let g' := tagChange g t.gtags
    let now0 := lastTime now t.t0
    let now1 := lastTime now0 t.t1
    { id := t.id, outcome := replayOutcome t.result, tags := tagChange g' t.ltags, details := expectDetails t.result,
      tStart := clockOf now0, tEnd := clockOf now1 } :: expectTests g' now1 ts

def matchesSeen (x : Expect) (s : Spec.C10.Seen) : Bool :=
  s.id == x.id && s.outcome == x.outcome && Spec.C10.sameSet s.tags x.tags && s.details == x.details
    && s.tStart == some x.tStart && s.tEnd == some x.tEnd

/-- cut the call log into its runs `startTestRun · … · stopTestRun` -/
def splitExt : Option (List ExtEv) → List ExtEv → Option (List (List ExtEv))
  | none, [] => some []
  | some _, [] => none
  | none, .startTestRun :: r => splitExt (some []) r
  | some acc, .stopTestRun :: r => (splitExt none r).map (acc :: ·)
  | some _, .startTestRun :: _ => none
  | some acc, x :: r => splitExt (some (acc ++ [x])) r
  | none, _ :: _ => none

/-- the final result sees, per run, per test and in order, one well-formed bracket with the same id, the same outcome
(error ↦ failure), the reporter's tags, the times in force — the last one supplied in that run, else the wall clock
(`now`), never a time of an earlier run —, the skip reason and every non-empty detail unchanged -/
def cRoundTrip (i : Convert.Input) (t : Convert.Trace) : Bool :=
  match splitExt none t.ext with
  | none => false
  | some bodies =>
    Spec.C10.all2 (fun tests body =>
      match Spec.C10.interp {} body with
      | none => false
      | some seen => Spec.C10.all2 matchesSeen (expectTests [] none tests) seen) i.runs bodies

def clauses : List (String × (Convert.Input → Convert.Trace → Bool)) :=
  [("stream-wf", cStreamWf), ("roundtrip", cRoundTrip)]

def holds (i : Convert.Input) (t : Convert.Trace) : Bool := clauses.all fun c => c.2 i t

end TTV.Spec.C09
