import TTV.Model.Result
import TTV.Model.ResC04
import TTV.Spec.C08
import TTV.Spec.C17
/-! Executable specification of C04 over observed traces: the verdict `wasSuccessful()`, the summary of
`TextTestResult`, fail-fast / `stop()` and the exit status of `testtools.run` agree with the outcomes reported. -/
namespace TTV.Spec.C04
open TTV.Result TTV.ResC04

def Kind.bad : Kind → Bool
  | .error | .failure | .uxsuccess => true
  | _ => false

mutual
/-- all leaves are testtools' own results (`TestResult`, `TextTestResult`) -/
def ownLeaves : Shape → Bool
  | .tt _ | .text _ | .sff => true
  | .sink _ | .fsink _ _ _ | .tbt => false
  | .etod c | .deco c | .tagger _ _ c | .tfr c | .e2s c => ownLeaves c
  | .multi cs => ownLeavesL cs
def ownLeavesL : List Shape → Bool
  | [] => true
  | c :: cs => ownLeaves c && ownLeavesL cs
end

mutual
def hasText : Shape → Bool
  | .text _ => true
  | .etod c | .deco c | .tagger _ _ c | .tfr c | .e2s c => hasText c
  | .multi cs => hasTextL cs
  | _ => false
def hasTextL : List Shape → Bool
  | [] => false
  | c :: cs => hasText c || hasTextL cs
end

mutual
/-- the leaves are testtools' own results or, as in C08's stacks, recording results of the old flavours (2.6, 2.7,
Twisted — with or without a `failfast` attribute assigned on them), which only ever sit behind the
`ExtendedToOriginalDecorator` that supplies what they lack (`Shape.wf`).  (An extended-protocol foreign result, which
may be reported to without an adapter, decides by itself what `failfast` means to it: not ours.) -/
def adaptLeaves : Shape → Bool
  | .tt _ | .text _ | .fsink _ _ _ | .sff => true
  | .sink f => f != .ext
  | .tbt => false
  | .etod c | .deco c | .tagger _ _ c | .tfr c | .e2s c => adaptLeaves c
  | .multi cs => adaptLeavesL cs
def adaptLeavesL : List Shape → Bool
  | [] => true
  | c :: cs => adaptLeaves c && adaptLeavesL cs
end

/-- calls a caller may make; own leaves; a `TextTestResult` or a stream pipeline is started with `startTestRun` -/
def inScope (i : Input) : Bool :=
  i.hist.all Call.ok && ownLeaves i.shape &&
  (!(hasText i.shape || Spec.C17.Shape.hasE2s i.shape) || i.hist.head? == some .startTestRun)

/-- the same with old-flavour results behind their adapters among the leaves: the scope of the fail-fast clauses that do
not speak about the state of a single result -/
def inScopeA (i : Input) : Bool :=
  i.hist.all Call.ok && adaptLeaves i.shape &&
  (!(hasText i.shape || Spec.C17.Shape.hasE2s i.shape) || i.hist.head? == some .startTestRun)

mutual
/-- the leaves whose `shouldStop` is cleared by `startTestRun`: testtools' own results; and — the flag then lives in the
`ExtendedToOriginalDecorator`, which clears it with its tag context at `startTestRun` — results of a flavour without
`stop` / `shouldStop` (Twisted), with or without a `failfast` attribute assigned on them.  (A 2.6 / 2.7 style result
owns its `shouldStop` and is never told that a new run begins: nothing testtools could clear.) -/
def resetLeaves : Shape → Bool
  | .tt _ | .text _ | .sff => true
  | .sink _ | .fsink _ _ _ | .tbt => false
  | .etod c => if (caps c).shouldStop then resetLeaves c else true
  | .deco c | .tagger _ _ c | .tfr c | .e2s c => resetLeaves c
  | .multi cs => resetLeavesL cs
def resetLeavesL : List Shape → Bool
  | [] => true
  | c :: cs => resetLeaves c && resetLeavesL cs
end

/-- the scope of `not-earlier` -/
def inScopeN (i : Input) : Bool :=
  i.hist.all Call.ok && resetLeaves i.shape &&
  (!(hasText i.shape || Spec.C17.Shape.hasE2s i.shape) || i.hist.head? == some .startTestRun)

/-! ### verdict -/
/-- after each call: no error, failure or unexpected success since the last `startTestRun` -/
def verdicts : Bool → List Call → List Bool
  | _, [] => []
  | bad, c :: h =>
    let bad' := match c with
      | .startTestRun => false
      | .add k _ _ => bad || Kind.bad k
      | _ => bad
    (!bad') :: verdicts bad' h

def cVerdict (i : Input) (t : Trace) : Bool :=
  !(inScope i && i.shape.noStream) || t.obs.map (·.ws) == verdicts false i.hist

/-! ### the text summary -/
structure Tally where
  n : Nat := 0
  errs : List Nat := []
  fails : List Nat := []
  uxs : List Nat := []

def Tally.summary (s : Tally) : List Out :=
  s.errs.map (Out.sect 0) ++ s.fails.map (Out.sect 1) ++ s.uxs.map (Out.sect 2) ++ [.ran s.n]
  ++ [if s.errs.isEmpty && s.fails.isEmpty && s.uxs.isEmpty then .ok
      else .failed (s.fails.length + s.errs.length + s.uxs.length)]

/-- what a `TextTestResult` is to write for a history -/
def textSpec : Tally → List Call → List Out
  | _, [] => []
  | s, c :: h =>
    match c with
    | .startTestRun => .running :: textSpec {} h
    | .stopTestRun => s.summary ++ textSpec s h
    | .startTest _ => textSpec { s with n := s.n + 1 } h
    | .add .error t _ => textSpec { s with errs := s.errs ++ [t] } h
    | .add .failure t _ => textSpec { s with fails := s.fails ++ [t] } h
    | .add .uxsuccess t _ => textSpec { s with uxs := s.uxs ++ [t] } h
    | _ => textSpec s h

def cText (i : Input) (t : Trace) : Bool :=
  !(inScope i && i.shape.noStream && (Spec.C08.wfEvs (testEvs i.hist) || !i.shape.hasTfr))
  || t.texts.all (· == textSpec {} i.hist)

/-! ### fail-fast and stop -/
mutual
def leafParams : Shape → List Bool
  | .tt ff | .text ff => [ff]
  | .sink _ | .tbt => [false]
  | .fsink _ b _ => [b]
  | .sff => []
  | .etod c | .deco c | .tagger _ _ c | .tfr c | .e2s c => leafParams c
  | .multi cs => leafParamsL cs
def leafParamsL : List Shape → List Bool
  | [] => []
  | c :: cs => leafParams c ++ leafParamsL cs
end

/-! **What "failfast set" means.**  On a `TestResult` / `TextTestResult`: the constructor parameter (`leafParams`) or a
later assignment.  On a `MultiTestResult` / `ExtendedToOriginalDecorator` / `TestResultDecorator` / `Tagger`: an
assignment, which lands on the target(s) (`setFailfast` in the history; a decorator's `failfast` is a property that
forwards both ways).  On a recording result of an old flavour that has no `failfast` of its own
(`Shape.fsink late b f`): the plain instance attribute `failfast = b`, assigned on the object before
(`late = false`) or after (`late = true`) the objects above it were built — the two are to behave alike.  Such a
result does not act on the attribute; the `ExtendedToOriginalDecorator` above it reads it on every outcome, so *that*
adapter is the fail-fast object: `failfast` read through it (and through decorators / a `MultiTestResult` whose first
target it is) is `b` (`ffRead`, clause `failfast-read`), and at the first error / failure / unexpected success its
`shouldStop` becomes true (clause `failfast-stops`) — which means: the adapter calls `stop()` on the result, whose
`shouldStop` it then reads; for a flavour without `stop` / `shouldStop` (Twisted) it is the adapter's own flag
(`_shouldStop`) that is set and read (`etodStop`, `shouldStopOf`). -/
/-- wrapping a result leaves its `failfast` alone -/
def cFailfastKept (i : Input) (t : Trace) : Bool :=
  !inScopeA i || t.leafFF == leafParams i.shape

def isBadAdd : Call → Bool
  | .add k _ _ => Kind.bad k
  | _ => false

/-- with fail-fast set on the object reported to, an error / failure / unexpected success makes it `shouldStop` -/
def ffStops : Option Bool → List Call → List Obs → Bool
  | _, [], [] => true
  | ff, c :: h, o :: os => (!(ff == some true && isBadAdd c) || o.ss) && ffStops o.ff h os
  | _, _, _ => false

def cFailfastStops (i : Input) (t : Trace) : Bool :=
  !inScopeA i || ffStops t.ff0 i.hist t.obs

/-- once set, `shouldStop` stays set until the next `startTestRun` -/
def sticky : Bool → List Call → List Obs → Bool
  | _, [], [] => true
  | ss, c :: h, o :: os => (!(ss && c != .startTestRun) || o.ss) && sticky o.ss h os
  | _, _, _ => false

def cSticky (i : Input) (t : Trace) : Bool :=
  !inScopeA i || sticky false i.hist t.obs

/-- not earlier (scope `inScopeN`: every flag `shouldStop` reads is cleared by `startTestRun` — own results, stream
decorators, and the `ExtendedToOriginalDecorator`'s own flag over a Twisted-style result; not a 2.6 / 2.7 style
result's own `shouldStop`): `shouldStop` only after a `stop()`, or after an error / failure / unexpected success when
fail-fast was set somewhere (on a leaf before wrapping, or by an assignment), since the last `startTestRun` -/
def notEarlier (ffEver : Bool) (reason : Bool) : List Call → List Obs → Bool
  | [], [] => true
  | c :: h, o :: os =>
    let ffEver' := ffEver || (match c with | .setFailfast b => b | _ => false)
    let reason' := match c with
      | .startTestRun => false
      | .stop => true
      | c => reason || (isBadAdd c && ffEver')
    (!o.ss || reason') && notEarlier ffEver' reason' h os
  | _, _ => false

def cNotEarlier (i : Input) (t : Trace) : Bool :=
  !inScopeN i || notEarlier ((leafParams i.shape).any id) false i.hist t.obs

/-- `stop()` reaches every underlying result -/
def stopReaches : List Call → List Obs → Bool
  | [], [] => true
  | c :: h, o :: os => (!(c == .stop) || (o.ss && o.leafStop.all id)) && stopReaches h os
  | _, _ => false

def cStopReaches (i : Input) (t : Trace) : Bool :=
  !(inScope i && i.shape.noStream) || stopReaches i.hist t.obs

/-- a stop below is visible above: the object reported to reads `shouldStop` exactly when one of the results under it
does — whichever of them asked for the stop (its own fail-fast, set before wrapping, or a `stop()` that reached it), a
suite that consults the top stops dispatching ("so that suites stop dispatching tests"); and nothing above the results
invents a stop of its own -/
def cStopVisible (i : Input) (t : Trace) : Bool :=
  !(inScope i && i.shape.noStream) || t.obs.all fun o => o.ss == o.leafStop.any id

/-- `stop()` on the object reported to makes its `shouldStop` read true — on every graph: through old-flavour results
(the adapter's reading) and on a stream pipeline, where `stop()` is the `ExtendedToStreamDecorator`'s own
(`TestControl`): it is what suites consult, and it does not go on to the results behind the stream -/
def stopSets : List Call → List Obs → Bool
  | [], [] => true
  | c :: h, o :: os => (!(c == .stop) || o.ss) && stopSets h os
  | _, _ => false

def cStopSets (i : Input) (t : Trace) : Bool :=
  !inScopeA i || stopSets i.hist t.obs

/-! ### every result by itself: its own fail-fast setting survives whatever wrappers do -/
/- `failfast` as a freshly built object reads it: a `MultiTestResult` reads its first target's, an
`ExtendedToOriginalDecorator` its target's (its own flag, initially false, if the target has none), a
`TestResultDecorator` / `Tagger` its target's, an old-flavour result the attribute assigned on it (if any) -/
mutual
def ffRead : Shape → Bool
  | .tt ff | .text ff => ff
  | .etod c => (caps c).failfast && ffRead c
  | .deco c | .tagger _ _ c => ffRead c
  | .fsink _ b _ => b
  | .multi ds => ffReadHead ds
  | _ => false
def ffReadHead : List Shape → Bool
  | [] => false
  | d :: _ => ffRead d
end

/- per leaf: some `ExtendedToOriginalDecorator` above it reads `failfast` as true (and therefore calls `stop()`,
which reaches everything below it, on a bad outcome) -/
mutual
def guards : Bool → Shape → List Bool
  | g, .tt _ | g, .text _ | g, .sink _ | g, .fsink _ _ _ | g, .tbt => [g]
  | _, .sff => []
  | g, .etod c => guards (g || ffRead (.etod c)) c
  | g, .deco c | g, .tagger _ _ c | g, .tfr c | g, .e2s c => guards g c
  | g, .multi cs => guardsL g cs
def guardsL : Bool → List Shape → List Bool
  | _, [] => []
  | g, c :: cs => guards g c ++ guardsL g cs
end

def noAssign (h : List Call) : Bool := h.all fun | .setFailfast _ => false | _ => true

/-- `failfast` read on the object reported to: as set — before or after wrapping — on what it reads through to -/
def ffRead? (s : Shape) : Option Bool := if (caps s).failfast then some (ffRead s) else none

/-- without assignments through the wrappers, `failfast` reads the same from construction on and after every call -/
def cFailfastRead (i : Input) (t : Trace) : Bool :=
  !(inScopeA i && noAssign i.hist) ||
  (t.ff0 == ffRead? i.shape && t.obs.all (·.ff == ffRead? i.shape))

/-- no assignment of `failfast` through a wrapper: every result keeps the setting it was built with, after every call -/
def cLeafKept (i : Input) (t : Trace) : Bool :=
  !(inScope i && i.shape.noStream && noAssign i.hist) || t.obs.all (·.leafFF == leafParams i.shape)

def zipAll3 (p : Bool → Bool → Bool → Bool) : List Bool → List Bool → List Bool → Bool
  | [], [], [] => true
  | a :: as, b :: bs, c :: cs => p a b c && zipAll3 p as bs cs
  | _, _, _ => false

/-- per result (stop, fail-fast parameter, guard), given whether a bad outcome was reported since the last
`startTestRun`: a result built with fail-fast, or under a fail-fast `ExtendedToOriginalDecorator` (one whose
`failfast` reads true: set on the decorator layer or on the result it wraps), has stopped; a result built without,
under no fail-fast `ExtendedToOriginalDecorator`, has not -/
def leafRule (bad : Bool) (stopped ff guard : Bool) : Bool :=
  (!(bad && (ff || guard)) || stopped) && (!(!ff && !guard) || !stopped)

def leafStops (params gs : List Bool) : Bool → List Call → List Obs → Bool
  | _, [], [] => true
  | bad, c :: h, o :: os =>
    let bad' := match c with
      | .startTestRun => false
      | .add k _ _ => bad || Kind.bad k
      | _ => bad
    zipAll3 (leafRule bad') o.leafStop params gs && leafStops params gs bad' h os
  | _, _, _ => false

/-- without `stop()` and without assignments of `failfast` through wrappers: each result stops exactly by its own
setting (or by a fail-fast decorator above it) -/
def cLeafStops (i : Input) (t : Trace) : Bool :=
  !(inScope i && i.shape.noStream && noAssign i.hist && i.hist.all (· != .stop))
  || leafStops (leafParams i.shape) (guards false i.shape) false i.hist t.obs

/-! ### testtools.run -/
/-- the tests a suite dispatches: all, or with fail-fast up to and including the first bad one -/
def dispatched (ff : Bool) : List Kind → List Kind
  | [] => []
  | k :: ks => k :: (if ff && Kind.bad k then [] else dispatched ff ks)

def tallyOf : Tally → Nat → List Kind → Tally
  | s, _, [] => s
  | s, i, k :: ks =>
    let s := { s with n := s.n + 1 }
    tallyOf (match k with
      | .error => { s with errs := s.errs ++ [i] }
      | .failure => { s with fails := s.fails ++ [i] }
      | .uxsuccess => { s with uxs := s.uxs ++ [i] }
      | _ => s) (i + 1) ks

/-- the exit status agrees with the verdict and the summary with the tests dispatched: status 1 exactly when an error, a
failure or an unexpected success was reported — a test that calls `sys.exit` is reported as an error and ends the
run (nothing after it is dispatched; the status is then the test's, and has to be non-zero like the `FAILED` it
goes with) -/
def cExit (i : Input) (t : Trace) : Bool :=
  match i.prog, t.exit with
  | none, none => true
  | some (ff, ps), some (code, out) =>
      let ks := progKinds ps
      (match progExit ff ps with
        | none => code == (if ks.any Kind.bad then 1 else 0)
        | some _ => code != 0)
      && out == .running :: (tallyOf {} 0 (dispatched ff ks)).summary
  | _, _ => false

/-! ### known finding -/
/-- a test that calls `sys.exit(0)` / `sys.exit()` / `sys.exit(None)` and is reached: `SystemExit` propagates through
`TestCase.run`, the suite and `TestToolsTestRunner.run` (which prints the summary — with the error, `FAILED` — in its
`finally`), `sys.exit(not result.wasSuccessful())` is never reached and the process exits with the test's status 0 -/
def sysExitZero (i : Input) : Bool :=
  match i.prog with
  | some (ff, ps) => (match progExit ff ps with | some none | some (some 0) => true | _ => false)
  | none => false

/-! ### a `StreamFailFast` as the stream target of the decorator -/
/-- `ExtendedToStreamDecorator(StreamFailFast(callback))` reported to directly: the inner `StreamFailFast` calls *its*
callback once per error / failure / unexpected success — whatever the decorator's own `failfast` is (which this target
neither sets nor is: `failfast-read`, `failfast-stops` apply to the decorator as over any other stream target) -/
def cbCount : Nat → List Call → List Obs → Bool
  | _, [], [] => true
  | n, c :: h, o :: os =>
    let n' := if isBadAdd c then n + 1 else n
    o.cb == [n'] && cbCount n' h os
  | _, _, _ => false

def cCallback (i : Input) (t : Trace) : Bool :=
  match i.shape with
  | .sff => cbCount 0 i.hist t.obs
  | _ => true

def clauses : List (String × (Input → Trace → Bool)) :=
  [("verdict", cVerdict), ("text-summary", cText), ("failfast-kept", cFailfastKept),
   ("failfast-stops", cFailfastStops), ("stop-sticky", cSticky), ("not-earlier", cNotEarlier),
   ("stop-reaches", cStopReaches), ("stop-sets", cStopSets), ("failfast-read", cFailfastRead), ("leaf-failfast-kept", cLeafKept), ("leaf-stops", cLeafStops), ("stream-failfast-callback", cCallback),
   ("exit-status", cExit), ("stop-visible", cStopVisible)]

def holds (i : Input) (t : Trace) : Bool := clauses.all fun c => c.2 i t

end TTV.Spec.C04
