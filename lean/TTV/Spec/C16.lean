import TTV.Model.Content
/-! Executable specification of C16 over observed traces: named Boolean clauses, each true when its
scenario is not the one at hand.  Reference notions used by the clauses (whole-string decoding, the
start position of a seek, the snapshot a copy must hold) are defined here independently of how the
model computes its trace. -/
namespace TTV.Spec.C16
open TTV.Content

/-! ## reference whole-string decoders -/

def isCont (b : Nat) : Bool := 0x80 ≤ b && b ≤ 0xBF

/-- UTF-8 as in RFC 3629 (shortest form only, no surrogates, at most U+10FFFF), one character at a time -/
def utf8Ref : Bytes → Option Text
  | [] => some []
  | b0 :: rest =>
    if b0 < 0x80 then (utf8Ref rest).map (b0 :: ·)
    else if 0xC2 ≤ b0 && b0 ≤ 0xDF then
      match rest with
      | b1 :: r => if isCont b1 then (utf8Ref r).map (((b0 - 0xC0) * 64 + (b1 - 0x80)) :: ·) else none
      | _ => none
    else if 0xE0 ≤ b0 && b0 ≤ 0xEF then
      match rest with
      | b1 :: b2 :: r =>
        if isCont b1 && isCont b2 && !(b0 = 0xE0 && b1 < 0xA0) && !(b0 = 0xED && 0xA0 ≤ b1) then
          (utf8Ref r).map ((((b0 - 0xE0) * 64 + (b1 - 0x80)) * 64 + (b2 - 0x80)) :: ·)
        else none
      | _ => none
    else if 0xF0 ≤ b0 && b0 ≤ 0xF4 then
      match rest with
      | b1 :: b2 :: b3 :: r =>
        if isCont b1 && isCont b2 && isCont b3 && !(b0 = 0xF0 && b1 < 0x90) && !(b0 = 0xF4 && 0x90 ≤ b1) then
          (utf8Ref r).map (((((b0 - 0xF0) * 64 + (b1 - 0x80)) * 64 + (b2 - 0x80)) * 64 + (b3 - 0x80)) :: ·)
        else none
      | _ => none
    else none

def latin1Ref (b : Bytes) : Option Text := if b.all (· < 256) then some b else none
def asciiRef (b : Bytes) : Option Text := if b.all (· < 128) then some b else none

/-- decoding a whole byte string in a charset (ISO-8859-1 when none is declared); `oracle` answers for
codecs that are not modelled -/
def wholeRef (cs : Charset) (b : Bytes) (oracle : Option Text) : Option Text :=
  match cs with
  | .absent | .latin1 => latin1Ref b
  | .utf8 => utf8Ref b
  | .ascii => asciiRef b
  | .opaque => oracle

/-! ## streams -/

/-- the bytes the stream holds when it is read: at construction with `buffer_now`, at iteration otherwise -/
def dataOf (i : StreamIn) : Bytes := if i.bufferNow then i.data0 else i.data1.getD i.data0

/-- where the stream stands before the seek: files are opened afresh -/
def posBefore (i : StreamIn) : Nat := if i.isFile then 0 else i.pos0

/-- origin of a seek: start, current position, end -/
def seekOrigin (i : StreamIn) (wh : Nat) : Int :=
  if wh = 0 then 0 else if wh = 1 then posBefore i else (dataOf i).length

/-- position the requested seek leads to (`none`: the stream refuses it; no seek: where the stream is) -/
def startPos (i : StreamIn) : Option Nat :=
  match i.seekTo with
  | none => some (posBefore i)
  | some (off, wh) =>
    if seekOrigin i wh + off < 0 then (if i.isFile || wh = 0 then none else some 0)
    else some (seekOrigin i wh + off).toNat

/-- the bytes the content must deliver -/
def expected (i : StreamIn) : Option Bytes := (startPos i).map fun p => (dataOf i).drop p

def isIO : Ev → Bool
  | .opened | .closed | .seek .. | .read .. => true
  | _ => false
def isMade : Ev → Bool | .made => true | _ => false
def isIter : Ev → Bool | .iter => true | _ => false
def isDone : Ev → Bool | .done => true | _ => false
def isRaised : Ev → Bool | .raised _ => true | _ => false
def chunkOf : Ev → Option Bytes | .chunk b => some b | _ => none

/-- the event runs between `iter` markers; the first run is what precedes the first marker -/
def segs : List Ev → List (List Ev)
  | [] => [[]]
  | e :: es =>
    if isIter e then [] :: segs es
    else match segs es with
      | s :: ss => (e :: s) :: ss
      | [] => [[e]]

/-- the consumptions: the events after each `iter` marker up to the next one -/
def consumptions (evs : List Ev) : List (List Ev) := (segs evs).drop 1

def segOk (want : Bytes) (seg : List Ev) : Bool :=
  seg.any isDone && !seg.any isRaised && (seg.filterMap chunkOf).flatten == want

def cShape : Input → Trace → Bool
  | .eq .., .eq .. | .text _, .text .. | .json _, .json .. | .decode .., .decode .. | .stream _, .stream ..
  | .ctype _, .ctype .. | .ctypeSeq _, .ctypeSeq _ | .copy .., .copy _ => true
  | _, _ => false

/-- a Content's bytes are what its source yields -/
def cBytes : Input → Trace → Bool
  | .eq _ _ a b, .eq ba bb _ => ba.flatten == a.flatten && bb.flatten == b.flatten
  | _, _ => true

/-- equality = equal type and equal bytes -/
def cEq : Input → Trace → Bool
  | .eq ctA ctB a b, .eq _ _ e => e == (ctA == ctB && a.flatten == b.flatten)
  | _, _ => true

/-- `text_content(s)`: UTF-8 text whose decoding is `s` again -/
def cText : Input → Trace → Bool
  | .text s, .text chunks typeOk astext => typeOk && astext == some s && utf8Ref chunks.flatten == some s
  | _, _ => true

def cJson : Input → Trace → Bool
  | .json d, .json chunks typeOk loadsOk => typeOk && loadsOk && utf8Ref chunks.flatten == some d
  | _, _ => true

/-- the pieces of `iter_text()`, joined, = decoding the whole byte string, however it is cut (for codecs whose incremental decoder
is lawful; for opaque codecs the harness reports the joined pieces only where that is known / assumed); a non-text type is a `ValueError` -/
def cChunking : Input → Trace → Bool
  | .decode isText _ _ _, .decode _ _ pieces err whole =>
    if isText then pieces.map List.flatten == whole && err == (if pieces.isNone then some .unicodeDecodeError else none)
    else pieces.isNone && err == some .valueError
  | _, _ => true

/-- `as_text()` = decoding the whole byte string in the declared charset, however it is cut - for EVERY codec -/
def cAsText : Input → Trace → Bool
  | .decode isText _ _ _, .decode astext aerr _ _ whole =>
    if isText then astext == whole && aerr == (if astext.isNone then some .unicodeDecodeError else none)
    else astext.isNone && aerr == some .valueError
  | _, _ => true

/-- the declared charset (ISO-8859-1 when absent) is the one used -/
def cCharset : Input → Trace → Bool
  | .decode _ cs chunks oracle, .decode _ _ _ _ whole => whole == wholeRef cs chunks.flatten oracle
  | _, _ => true

def cChunkSizes : Input → Trace → Bool
  | .stream i, .stream evs _ => (evs.filterMap chunkOf).all fun c => !c.isEmpty && c.length ≤ i.chunkSize
  | _, _ => true

/-- the bytes from the requested position to end of file: in the first consumption, and in every one when the
source is re-opened (file) or buffered -/
def cChunkConcat : Input → Trace → Bool
  | .stream i, .stream evs _ =>
    match expected i with
    | none => true
    | some want =>
      let cons := consumptions evs
      (!i.bufferNow || evs.any isMade) &&
      (if i.isFile || i.bufferNow then cons.all (segOk want) else (cons.take 1).all (segOk want))
  | _, _ => true

/-- where an evaluation that started reading at position `p` leaves the stream: at the end of the data (or at `p`, beyond it) -/
def posAfter (i : StreamIn) (p : Nat) : Nat := max p (dataOf i).length

/-- position `seek(off, wh)` leads to when the stream stands at `cur` (for streams that do not refuse the seek) -/
def seekFrom (i : StreamIn) (off : Int) (wh : Nat) (cur : Nat) : Nat :=
  ((if wh = 0 then (0 : Int) else if wh = 1 then (cur : Int) else ((dataOf i).length : Int)) + off).toNat

/-- every consumption in turn yields the bytes from the position ITS seek leads to, the stream standing where the
previous evaluation left it -/
def reevalOk (i : StreamIn) (off : Int) (wh : Nat) : Nat → List (List Ev) → Bool
  | _, [] => true
  | cur, seg :: rest =>
    segOk ((dataOf i).drop (seekFrom i off wh cur)) seg && reevalOk i off wh (posAfter i (seekFrom i off wh cur)) rest

/-- the seek offset is counted from the start or from the end of the data (not from the current position) -/
def absSeek (i : StreamIn) : Bool :=
  match i.seekTo with
  | some (_, wh) => wh != 1
  | none => false

/-- RE-EVALUATION (seed C16-f).  A content made by `content_from_stream(stream, seek_offset=…)` seeks again EVERY time
its bytes are asked for: every consumption - not only the first - yields the bytes from the requested position to the
end of the data.  For `seek_whence` 0 and 2 that is the same byte string every time (`C16_reeval_abs`); for whence 1
the offset counts from where the previous evaluation left the stream, which is what `reevalOk` follows.
(Files and buffered contents: clause `chunk-concat` already demands every consumption.  WITHOUT a seek offset nothing
rewinds a stream: a second consumption legitimately yields what is left, i.e. nothing - not claimed.) -/
def cReeval : Input → Trace → Bool
  | .stream i, .stream evs _ =>
    match i.seekTo, startPos i with
    | some (off, wh), some _ =>
      if i.isFile || i.bufferNow then true else reevalOk i off wh (posBefore i) (consumptions evs)
    | _, _ => true
  | _, _ => true

def eqAnswer : Ev → Option Bool | .eqSelf b => some b | _ => none

/-- `c == c`, and again: a content whose every evaluation yields the same bytes - a file (re-opened), a buffered content,
a stream content with a seek offset counted from the start or the end - equals itself, every time it is asked.  (A stream content
without an offset, or with one counted from the current position, reads what is left each time: its `==` compares two
different evaluations and is not claimed.) -/
def cEqSelf : Input → Trace → Bool
  | .stream i, .stream _ eqEvs =>
    if (expected i).isSome && (i.isFile || i.bufferNow || absSeek i) then
      eqEvs.filterMap eqAnswer == List.replicate i.eqs true
    else true
  | _, _ => true

/-- no read before the content is iterated unless `buffer_now`, and then every read happens at construction -/
def cLazy : Input → Trace → Bool
  | .stream i, .stream evs _ =>
    let pre := evs.takeWhile (!isMade ·)
    let post := evs.dropWhile (!isMade ·)
    if i.bufferNow then post.all (!isIO ·) else evs.any isMade && pre.all (!isIO ·)
  | _, _ => true

/-- a ContentType survives rendering and re-parsing -/
def cCtRoundtrip : Input → Trace → Bool
  | .ctype ct, .ctype _ parsed => parsed == .ok { ct with params := sortParams ct.params }
  | _, _ => true

/-- … whatever was parsed before in the same process: each content type of a sequence comes back as itself, type / subtype /
parameter names lower-cased (they are case-insensitive), parameter VALUES exactly as given -/
def cCtHistory : Input → Trace → Bool
  | .ctypeSeq cts, .ctypeSeq rs =>
    rs.length == cts.length &&
    (cts.zip rs).all fun q => q.2.2 == .ok { q.1.lowered with params := sortParams q.1.lowered.params }
  | _, _ => true

/-- state of the source when the `k`-th copy was taken, by replaying the history -/
def snapshots (cur : List Bytes) : List CopyOp → List (List Bytes)
  | [] => []
  | .set cs :: ops => snapshots cs ops
  | .copy :: ops => cur :: snapshots cur ops
  | _ :: ops => snapshots cur ops

/-- value of the source at each operation -/
def curAt (cur : List Bytes) : List CopyOp → List (List Bytes)
  | [] => []
  | .set cs :: ops => cs :: curAt cs ops
  | _ :: ops => cur :: curAt cur ops

/-- number of copies taken before each operation -/
def copiesBefore (n : Nat) : List CopyOp → List Nat
  | [] => []
  | .copy :: ops => n :: copiesBefore (n + 1) ops
  | _ :: ops => n :: copiesBefore n ops

def obsOk (snaps : List (List Bytes)) : CopyOp → List Bytes → Nat → CopyObs → Bool
  | .set _, _, _, o => o.chunks.isNone && o.evals == 0
  | .copy, _, _, o => o.chunks.isNone && o.evals == 1                 -- evaluated once, at copy time
  | .readOrig, cur, _, o => o.chunks == some cur
  | .readCopy k, _, n, o => if k < n then o.chunks == snaps[k]? && o.evals == 0 else o.chunks.isNone

def zip4 : List CopyOp → List (List Bytes) → List Nat → List CopyObs → List (CopyOp × List Bytes × Nat × CopyObs)
  | a :: as, b :: bs, c :: cs, d :: ds => (a, b, c, d) :: zip4 as bs cs ds
  | _, _, _, _ => []

/-- a copy is a snapshot: reading it gives what the source held when it was copied, whatever happened since -/
def cSnapshot : Input → Trace → Bool
  | .copy init ops, .copy obs =>
    obs.length == ops.length &&
    (zip4 ops (curAt init ops) (copiesBefore 0 ops) obs).all fun q => obsOk (snapshots init ops) q.1 q.2.1 q.2.2.1 q.2.2.2
  | _, _ => true

def clauses : List (String × (Input → Trace → Bool)) :=
  [("shape", cShape), ("bytes", cBytes), ("equality", cEq), ("text-roundtrip", cText), ("json-roundtrip", cJson),
   ("as-text-whole", cAsText), ("chunking-independent", cChunking), ("charset", cCharset), ("chunk-sizes", cChunkSizes),
   ("chunk-concat", cChunkConcat), ("re-evaluation", cReeval), ("eq-self", cEqSelf), ("lazy", cLazy), ("ct-roundtrip", cCtRoundtrip), ("ct-history-independent", cCtHistory),
   ("snapshot", cSnapshot)]

def holds (i : Input) (t : Trace) : Bool := clauses.all fun c => c.2 i t

end TTV.Spec.C16
