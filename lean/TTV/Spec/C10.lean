import TTV.Model.Stream
/-! Executable specification of C10 — *stream consumers account for every test exactly once* — over
observed traces.  It is written against the **lifetimes** reading of the property and does not mention
the in-progress table of the implementation:

* the events carrying a test id are split by key `(test id, route code)`; within a key a *lifetime* is a
  maximal run of events ended by an event with a final status (or by the end of the run: an *open* lifetime);
* `report` says declaratively what must be reported for a lifetime: last non-`None` status (else
  `unknown`), latest non-`None` tags, first and last timestamp, per file name the concatenation of its
  non-empty chunks in arrival order (content type of the first of them);
* closed lifetimes are reported when their final event arrives (so: in the order of those events), the
  open ones when the run stops (most recently begun first), with no second timestamp.

The tables `specBucket`/`specOutcome`/`finalStatus` are the property's reading of the status names; the
theorems prove that the tables extracted from the code (`TTV.Generated.Stream`) agree with them.

**Interpretations** (readings this specification takes *from the code*; an independent audit - audit/C10 - read the
prose the other way, the code is left as it is, so they are stated plainly here):
* *an attachment exists from its first non-empty chunk*: `_update_case` tests `if file_name is not None and file_bytes:`,
  so empty chunks are skipped altogether - an attachment all of whose chunks are empty (also a skip `reason` that is
  the empty string) is not reported at all, and its content type is the `mime_type` of the first NON-empty chunk (a
  type sent only with an empty first chunk is lost).  "each attachment's chunks concatenated" is read over the
  non-empty chunks.
* *a test reported "exactly once" is a lifetime*: repeated finals and events after a final open a new lifetime of the
  same key, which is reported again (the licence `StreamResult.status` documents).
* `StreamToExtendedDecorator` drops `exists` events BEFORE its table (the clauses for that consumer filter them out of the stream first): `inprogress` then
  `exists` leaves the test open and it is flushed as a failure at `stopTestRun`, while `StreamToDict` reports `exists`
  and `StreamSummary` ignores the test.  The extended API has no outcome for `exists`; the clause for that consumer is
  about the exists-free stream.
* `fail` lands in `StreamSummary.errors` (`failures` stays empty); timestamps are those of the first and the last
  *event* of the lifetime (`None` if that event carried none).
* calling convention: events are passed by keyword (`StreamToExtendedDecorator.status(test_id, test_status, *args)`
  rejects a third positional argument with TypeError; C11 covers the positional conventions of the decorators). -/
namespace TTV.Spec.C10
open TTV.Stream

/-! ### the property's own tables -/
/-- `None` and `inprogress` are the interim statuses; every other status ends a lifetime -/
def finalStatus : Option Status → Bool
  | none => false
  | some .inprogress => false
  | some _ => true

/-- the list of `StreamSummary` a reported status names (`fail` and the incomplete statuses: the error
lists, see `cErrors`) -/
def specBucket : Status → Bucket
  | .success | .exist => .none
  | .skip => .skipped
  | .xfail => .expectedFailures
  | .uxsuccess => .unexpectedSuccesses
  | .fail | .inprogress | .unknown => .errors

/-- the extended-API outcome a reported status is replayed as (incomplete tests are failures) -/
def specOutcome : Status → Option Outcome
  | .success => some .success
  | .skip => some .skip
  | .xfail => some .xfail
  | .uxsuccess => some .uxsuccess
  | .fail | .inprogress | .unknown => some .failure
  | .exist => none

def failedOrIncomplete (s : Status) : Bool := s == .fail || s == .inprogress || s == .unknown

/-! ### lifetimes -/
def evFinal (e : Event) : Bool := finalStatus e.status

/-- the events of key `k` -/
def proj (k : Key) (es : List Event) : List Event := es.filter fun e => key e == some k

/-- the events after the last final one (`acc` = those seen since) -/
def openTail : List Event → List Event → List Event
  | acc, [] => acc
  | acc, e :: es => if evFinal e then openTail [] es else openTail (acc ++ [e]) es

/-- the open lifetime of key `k` after the events `es` -/
def cur (k : Key) (es : List Event) : List Event := openTail [] (proj k es)

/-! ### what is reported for a lifetime -/
def lastSome {α : Type} (xs : List (Option α)) : Option α := (xs.filterMap id).getLast?

/-- the non-empty chunk an event carries: (file name, mime type, bytes) -/
def chunk (e : Event) : Option (Nat × Option Nat × Bytes) :=
  match e.fileName, e.fileBytes with
  | some n, some (b :: bs) => some (n, e.mime, b :: bs)
  | _, _ => none

/-- names in order of first occurrence -/
def firsts (xs : List Nat) : List Nat := xs.foldl (fun acc x => if x ∈ acc then acc else acc ++ [x]) []

def detailOf (cs : List (Nat × Option Nat × Bytes)) (n : Nat) : Detail :=
  let mine := cs.filter fun c => c.1 == n
  { name := n, mime := (mine.head?.bind (·.2.1)).getD 0, bytes := (mine.map (·.2.2)).flatten }

def report (id : Nat) (l : List Event) (closed : Bool) : Report :=
  let cs := l.filterMap chunk
  { id := id
    tags := (lastSome (l.map (·.tags))).getD []
    details := (firsts (cs.map (·.1))).map (detailOf cs)
    status := (lastSome (l.map (·.status))).getD .unknown
    ts0 := l.head?.bind (·.timestamp)
    ts1 := if closed then l.getLast?.bind (·.timestamp) else none }

/-! ### which lifetimes are reported, and in which order -/
/-- a final event closes the lifetime made of the open events of its key before it and itself -/
def closedReports (pre : List Event) : List Event → List Report
  | [] => []
  | e :: post =>
    (match key e with
     | some k => if evFinal e then [report k.1 (cur k pre ++ [e]) true] else []
     | none => []) ++ closedReports (pre ++ [e]) post

/-- an event begins a lifetime that is still open at the end: it is not final, its key has no open
lifetime before it and no final event after it; listed in the order in which they begin -/
def openReports (pre : List Event) : List Event → List Report
  | [] => []
  | e :: post =>
    (match key e with
     | some k =>
        if !evFinal e && (cur k pre).isEmpty && !(proj k post).any evFinal
        then [report k.1 (e :: proj k post) false] else []
     | none => []) ++ openReports (pre ++ [e]) post

/-- everything reported for one run `startTestRun; status*; stopTestRun` -/
def reports (es : List Event) : List Report := closedReports [] es ++ (openReports [] es).reverse

/-! ### reading an extended-API call log back (TestResult semantics of `tags` and `time`) -/
structure Seen where
  id : Nat
  outcome : Outcome
  tags : List Nat            -- tags in force at the outcome
  details : List Detail
  tStart : Option Ts         -- time in force at startTest
  tEnd : Option Ts           -- time in force at the outcome
deriving DecidableEq, Repr

structure ISt where
  gtags : List Nat := []                 -- run-level tags
  time : Option Ts := none
  test : Option (Nat × List Nat × Option Ts) := none          -- current test: id, its tags, time at startTest
  got : Option (Outcome × List Nat × List Detail × Option Ts) := none

def applyTags (cur new gone : List Nat) : List Nat := (cur ++ new).filter fun x => !gone.contains x

/-- `none` = the log is not a sequence of well-formed `startTest · outcome · stopTest` brackets -/
def interp : ISt → List ExtEv → Option (List Seen)
  | s, [] => if s.test.isNone then some [] else none
  | s, .time t :: es => interp { s with time := some t } es
  | s, .tags n g :: es =>
    match s.test with
    | none => interp { s with gtags := applyTags s.gtags n g } es
    | some (id, tg, t0) => interp { s with test := some (id, applyTags tg n g, t0) } es
  | s, .startTest id :: es =>
    match s.test with
    | none => interp { s with test := some (id, s.gtags, s.time), got := none } es
    | some _ => none
  | s, .outcome o id ds :: es =>
    match s.test, s.got with
    | some (id', tg, _), none => if id' = id then interp { s with got := some (o, tg, ds, s.time) } es else none
    | _, _ => none
  | s, .stopTest id :: es =>
    match s.test, s.got with
    | some (id', _, t0), some (o, tg, ds, t1) =>
      if id' = id then
        (interp { s with test := none, got := none } es).map
          ({ id := id, outcome := o, tags := tg, details := ds, tStart := t0, tEnd := t1 } :: ·)
      else none
    | _, _ => none
  | _, .startTestRun :: _ => none
  | _, .stopTestRun :: _ => none

def sameSet (a b : List Nat) : Bool := a.all (b.contains ·) && b.all (a.contains ·)

/-- a supplied timestamp must be the time in force; an absent one demands nothing -/
def timeOk : Option Ts → Option Ts → Bool
  | none, _ => true
  | some t, s => s == some t

def replays (r : Report) (s : Seen) : Bool :=
  s.id == r.id && some s.outcome == specOutcome r.status && sameSet s.tags r.tags && s.details == r.details
    && timeOk r.ts0 s.tStart && timeOk r.ts1 s.tEnd

def all2 {α β : Type} (p : α → β → Bool) : List α → List β → Bool
  | [], [] => true
  | a :: as, b :: bs => p a b && all2 p as bs
  | _, _ => false

def body : List ExtEv → Option (List ExtEv)
  | .startTestRun :: rest =>
    match rest.reverse with
    | .stopTestRun :: mid => some mid.reverse
    | _ => none
  | _ => none

def ascending (xs : List Nat) : List Nat := xs.mergeSort (fun a b => a ≤ b)

def idsWith (rs : List Report) (b : Bucket) : List Nat := (rs.filter fun r => specBucket r.status == b).map (·.id)

/-! ### clauses (per run) -/
/-- the ids for which the extended result saw a `startTest` -/
def startIds : List ExtEv → List Nat
  | [] => []
  | .startTest id :: es => id :: startIds es
  | _ :: es => startIds es

/-- every lifetime is handed to the consumer exactly once — when its final status arrives, or as incomplete when the
run stops — **whether or not the consumer raises at a hand-over** (the fault plan does not occur on the right) -/
def rDict (r : Run) (t : RunTrace) : Bool := t.dict == reports r.events
def rTestsRun (r : Run) (t : RunTrace) : Bool :=
  t.summary.testsRun == ((reports r.events).filter fun x => x.status != .exist).length
/-- skip / xfail / uxsuccess land in the list their status names, in report order -/
def rBuckets (r : Run) (t : RunTrace) : Bool :=
  t.summary.skipped == idsWith (reports r.events) .skipped
    && t.summary.expectedFailures == idsWith (reports r.events) .expectedFailures
    && t.summary.unexpectedSuccesses == idsWith (reports r.events) .unexpectedSuccesses
/-- failed and incomplete tests land in exactly one of the two error lists (`fail` covers error and
failure; testtools uses `errors`), nothing else does -/
def rErrors (r : Run) (t : RunTrace) : Bool :=
  ascending (t.summary.errors ++ t.summary.failures) == ascending (idsWith (reports r.events) .errors)
def rVerdict (r : Run) (t : RunTrace) : Bool :=
  !((reports r.events).any fun x => failedOrIncomplete x.status) || !t.summary.wasSuccessful
/-- the extended result is started exactly once for each report of the stream without its `exists` events, in
order, whether or not it raises at an outcome; and when it never raises it sees one well-formed bracket per report:
same id, the status's outcome, the report's tags, the supplied times, the same details -/
def rExtended (r : Run) (t : RunTrace) : Bool :=
  let rs := reports (r.events.filter fun e => e.status != some .exist)
  startIds t.ext == rs.map (·.id) &&
  (r.faults.any (· < rs.length) ||
    match body t.ext with
    | none => false
    | some mid =>
      match interp {} mid with
      | none => false
      | some seen => all2 replays rs seen)

/-- a real `testtools.TestResult` behind `StreamToExtendedDecorator` is started exactly once per report, in order —
also when one of its outcome methods raises (e.g. `addSkip` for a reason attachment that is not text) -/
def rReal (r : Run) (t : RunTrace) : Bool :=
  t.realStarted == (reports (r.events.filter fun e => e.status != some .exist)).map (·.id)

def perRun (c : Run → RunTrace → Bool) (i : Input) (t : Trace) : Bool :=
  t.length == i.runs.length && (i.runs.zip t).all fun p => c p.1 p.2

def clauses : List (String × (Input → Trace → Bool)) :=
  [("reports", perRun rDict), ("tests-run", perRun rTestsRun), ("buckets", perRun rBuckets),
   ("error-lists", perRun rErrors), ("verdict", perRun rVerdict), ("to-extended", perRun rExtended),
   ("real-result", perRun rReal)]

def holds (i : Input) (t : Trace) : Bool := clauses.all fun c => c.2 i t

end TTV.Spec.C10
