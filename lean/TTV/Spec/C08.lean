import TTV.Model.Result
import TTV.Model.ResC08
/-! Executable specification of C08 over observed traces: every `startTest` / outcome / `stopTest` reaches
every wrapped result exactly once and in order, degraded by the fixed table where the target lacks a
method or the details protocol; a failing outcome never arrives as a passing one; the text of details
survives the degradation; `TestByTestResult` calls back once per test with what that test reported. -/
namespace TTV.Spec.C08
open TTV.Result TTV.ResC08

/-! ### the documented degradation (per target capabilities) -/
def degradeKind (c : Caps) : Kind → Kind
  | .skip => if c.skip then .skip else .success
  | .xfail => if c.xfail then .xfail else .success
  | .uxsuccess => if c.uxs then .uxsuccess else .failure
  | k => k

/-- details for a target without the details protocol: a `_StringException` / reason made from them -/
def degradeArg (c : Caps) (k : Kind) (a : Arg) : Arg :=
  let keep : Arg := match a with
    | .details _ => if c.details then a else .none
    | _ => .none
  let conv : Arg := match a with
    | .details d => if c.details then a else detailsToExc d
    | a => a
  match k with
  | .success => keep
  | .error | .failure => conv
  | .xfail => if c.xfail then conv else .none
  | .skip =>
      if !c.skip then .none else
      match a with
      | .details d => if c.details then a else .reason (detailsToReason d)
      | a => a
  | .uxsuccess => if c.uxs then keep else .exc .synth

def degradeCall (c : Caps) : Call → Call
  | .add k t a => .add (degradeKind c k) t (degradeArg c k a)
  | x => x

/- the test events each leaf is to receive, left to right: an `ExtendedToOriginalDecorator` degrades for its
target, every other adapter passes them on unchanged -/
mutual
def expect : Shape → List Call → List (List Call)
  | .sink _, evs => [evs]
  | .tt _, evs => [evs]
  | .text _, evs => [evs]
  | .tbt, evs => [evs]
  | .etod c, evs => expect c (evs.map (degradeCall (caps c)))
  | .deco c, evs => expect c evs
  | .tagger _ _ c, evs => expect c evs
  | .fsink _ _ _, evs => [evs]
  | .sff, _ => []
  | .tfr c, evs => expect c evs
  | .e2s c, evs => expect c evs
  | .multi cs, evs => expectL cs evs
def expectL : List Shape → List Call → List (List Call)
  | [], _ => []
  | c :: cs, evs => expect c evs ++ expectL cs evs
end

/-- well-formed: a sequence of `startTest t, outcome t, stopTest t` brackets -/
def wfEvs : List Call → Bool
  | [] => true
  | .startTest t :: .add _ t' _ :: .stopTest t'' :: rest => t == t' && t == t'' && wfEvs rest
  | _ => false

/-- the inputs the forwarding clauses speak about: calls a caller may make (`Call.ok`), no stream pipeline in the graph, and a well-formed history
when a `ThreadsafeForwardingResult` (which re-brackets every outcome) is in it -/
def inScope (i : Input) : Bool :=
  i.hist.all Call.ok && i.shape.noStream && (wfEvs (testEvs i.hist) || !i.shape.hasTfr)

def leafEvs (l : LeafTrace) : List Call := testEvs (l.log.map (·.call))

def cForward (i : Input) (t : Trace) : Bool :=
  !inScope i || t.map leafEvs == expect i.shape (testEvs i.hist)

def kindsOf (evs : List Call) : List Kind :=
  evs.filterMap fun | .add k _ _ => some k | _ => none

def zipAll {α β : Type} (p : α → β → Bool) : List α → List β → Bool
  | [], [] => true
  | a :: as, b :: bs => p a b && zipAll p as bs
  | _, _ => false

/-- outcome by outcome, what a leaf got is passing only if what was reported is passing -/
def cNoPassFromFail (i : Input) (t : Trace) : Bool :=
  !inScope i || t.all fun l =>
    zipAll (fun k' k => !k'.passing || k.passing) (kindsOf (leafEvs l)) (kindsOf i.hist)

def isInfix (p : Text) : Text → Bool
  | [] => p.isEmpty
  | c :: s => p.isPrefixOf (c :: s) || isInfix p s

/-- the stripped texts of the non-empty text details -/
def textsOf (d : Details) : List Text :=
  d.filterMap fun p => match p.2 with
    | .text t => if (strip t).isEmpty then none else some (strip t)
    | _ => none

def argsOf (evs : List Call) : List Arg :=
  evs.filterMap fun | .add _ _ a => some a | _ => none

/-- details that arrive as a synthetic exception or reason: its text contains every detail text (a skip
whose details have a `reason` arrives with exactly that reason) -/
def textKept (got orig : Arg) : Bool :=
  match orig, got with
  | .details d, .exc (.str m) => (textsOf d).all (isInfix · m)
  | .details d, .reason r =>
      match lookup d reasonKey with
      | some (.text x) => r == x
      | _ => (textsOf d).all (isInfix · r)
  | _, _ => true

def cDetailsText (i : Input) (t : Trace) : Bool :=
  !inScope i || t.all fun l => zipAll textKept (argsOf (leafEvs l)) (argsOf i.hist)

/-! ### TestByTestResult -/
/-- the status word per outcome (docstring of `TestByTestResult`; an unexpected success counts as success) -/
def tbtWord : Kind → Kind
  | .uxsuccess => .success
  | k => k

/-- the details of an outcome as a dict: given details as they are, an `exc_info` as its traceback, a reason
as the `reason` text -/
def tbtDetails : Arg → Option Details
  | .details d => some d
  | .exc _ => some [(tracebackKey, .tb)]
  | .reason r => some [(reasonKey, .text r)]
  | .none => none

/-- one callback per `stopTest`, with the status and details reported since the `startTest` -/
def tbtExpect : Option Kind → Option Details → List Call → List (Nat × Option Kind × Option Details)
  | _, _, [] => []
  | _, _, .startTest _ :: evs => tbtExpect none none evs
  | _, _, .add k _ a :: evs => tbtExpect (some (tbtWord k)) (tbtDetails a) evs
  | s, d, .stopTest t :: evs => (t, s, d) :: tbtExpect s d evs
  | s, d, _ :: evs => tbtExpect s d evs

mutual
def isTbtLeaf : Shape → List Bool
  | .tbt => [true]
  | .sink _ | .fsink _ _ _ | .tt _ | .text _ => [false]
  | .sff => []
  | .etod c | .deco c | .tagger _ _ c | .tfr c | .e2s c => isTbtLeaf c
  | .multi cs => isTbtLeafL cs
def isTbtLeafL : List Shape → List Bool
  | [] => []
  | c :: cs => isTbtLeaf c ++ isTbtLeafL cs
end

def zip3All {α β γ : Type} (p : α → β → γ → Bool) : List α → List β → List γ → Bool
  | [], [], [] => true
  | a :: as, b :: bs, c :: cs => p a b c && zip3All p as bs cs
  | _, _, _ => false

def cTbt (i : Input) (t : Trace) : Bool :=
  !inScope i || zip3All (fun l isTbt evs =>
      if isTbt then l.calls.map (fun c => (c.test, c.status, c.details)) == tbtExpect none none evs
      else l.calls.isEmpty) t (isTbtLeaf i.shape) (expect i.shape (testEvs i.hist))

/-- start/stop time and tags of each callback when the `TestByTestResult` is used directly: the time last
given by `time()` in this run (else the wall clock) at `startTest` / `stopTest`, the tags current before
`stopTest` -/
def rootExpect : TimeV → TagCtx → TimeV → List Call → List (TimeV × TimeV × TagSet)
  | _, _, _, [] => []
  | now, tags, start, c :: h =>
    let clock := if now = .none then TimeV.wall else now
    match c with
    | .startTestRun => rootExpect .none {} start h
    | .time d => rootExpect d tags start h
    | .tags n g => rootExpect now (tags.change n g) start h
    | .startTest _ => rootExpect now tags.push clock h
    | .stopTest _ => (start, clock, tags.cur) :: rootExpect now tags.pop start h
    | _ => rootExpect now tags start h

/-- what a `Tagger` passes on: `done` goes nowhere, every `startTest` is followed by the `Tagger`'s own `tags(new, gone)`
— whether `new` is empty or not -/
def taggerPass (n g : TagSet) : List Call → List Call
  | [] => []
  | .done :: h => taggerPass n g h
  | .startTest t :: h => .startTest t :: .tags n g :: taggerPass n g h
  | c :: h => c :: taggerPass n g h

/-- what a `TestResultDecorator` passes on -/
def decoPass : List Call → List Call
  | [] => []
  | .done :: h => decoPass h
  | c :: h => c :: decoPass h

/-- the calls a `TestByTestResult` gets when it is used directly or through `TestResultDecorator`s / `Tagger`s -/
def pathHist : Shape → List Call → Option (List Call)
  | .tbt, h => some h
  | .deco c, h => pathHist c (decoPass h)
  | .tagger n g c, h => pathHist c (taggerPass n g h)
  | _, _ => none

/-- times and tags of the callbacks of a `TestByTestResult` used directly or below `TestResultDecorator`s / `Tagger`s:
as `rootExpect` says for the calls that get there — i.e. each test with the reporter's tags adjusted by every `Tagger`
on the way (added and removed ones) -/
def cTbtRoot (i : Input) (t : Trace) : Bool :=
  match pathHist i.shape i.hist, t with
  | some h, [l] => !wfEvs (testEvs i.hist) ||
      l.calls.map (fun c => (c.start, c.stop, c.tags)) == rootExpect .none {} .none h
  | some _, _ => false
  | none, _ => true

def clauses : List (String × (Input → Trace → Bool)) :=
  [("forward", cForward), ("no-pass-from-fail", cNoPassFromFail), ("details-text", cDetailsText),
   ("tbt", cTbt), ("tbt-root", cTbtRoot)]

def holds (i : Input) (t : Trace) : Bool := clauses.all fun c => c.2 i t

end TTV.Spec.C08
