import TTV.Model.RunTest
/-! Spec-level vocabulary shared by C01, C02, C03, C05: what a program's stages do *statically* (which
exceptions a stage function hands to the runner, what it registers), and what can be read off an
observed trace.  Nothing here looks at how the model schedules things. -/
namespace TTV.Spec.Run
open TTV.Run

/-! ### static facts about a program -/
mutual
def stagesOf : Stage → List Stage
  | .mk i acts t => .mk i acts t :: stagesOfActs acts
def stagesOfActs : List Act → List Stage
  | [] => []
  | .cleanup s :: as => stagesOf s ++ stagesOfActs as
  | .useFixture _ _ s :: as => stagesOf s ++ stagesOfActs as
  | _ :: as => stagesOfActs as
end

def allStages (p : Program) : List Stage := stagesOf p.setUp ++ stagesOf p.body ++ stagesOf p.tearDown

def findStage (p : Program) (id : Nat) : Option Stage := (allStages p).find? (fun s => s.id == id)

/-- exceptions a stage function hands to `_got_user_exception` -/
def termExcs : Term → List Exc
  | .ret => []
  | .raise1 e => [e]
  | .raiseMulti es me => if es.isEmpty then [me] else es
  | .assertFail e _ => [e]
  | .expectFailure _ _ x => [x]
  | .fixtureFail _ e ces se => e :: ces ++ [se]

/-- the single exception object that propagates out of the stage function -/
def termObj : Term → Option Exc
  | .ret => none
  | .raise1 e => some e
  | .raiseMulti _ me => some me
  | .assertFail e _ => some e
  | .expectFailure _ _ x => some x
  | .fixtureFail _ _ _ se => some se

/-- the same, seen through `@expectedFailure` -/
def decoExcs (t : Term) : List Exc :=
  match termObj t with
  | none => [⟨.uxs, 0⟩]
  | some obj => if isSub obj.cls .exc then [⟨.xfail, 0⟩] else termExcs t

def stageExcs (p : Program) (st : Stage) : List Exc :=
  if p.xfailDeco && st.id == p.body.id then decoExcs st.term else termExcs st.term

def actIsExpect : Act → Bool
  | .expect _ _ => true
  | _ => false

/-- stage cleanups a stage registers, in registration order -/
def regsOf : List Act → List Nat
  | [] => []
  | .cleanup s :: as => s.id :: regsOf as
  | .useFixture _ _ s :: as => s.id :: regsOf as
  | _ :: as => regsOf as

def setUpOk (p : Program) : Bool := (termExcs p.setUp.term).isEmpty

/-- input well-formedness assumed by the clauses: distinct stage ids; user handlers only for classes
deriving from `Exception` (KeyboardInterrupt & co. are not claimed by configuration); the case's own skip
reporter (which reads the reason off the exception) is only reused for skip classes; the initial
attribute store of the scratch object is a dict (distinct attribute names); no user-supplied detail is named
`reason` (the framework's own skip / expected-failure reason is attached by a plain `addDetail('reason')`);
the content objects handed to `addDetail`, mismatches and fixtures are pairwise distinct objects, and so are the
failed expectations (contents are compared by identity) -/
def idsNodup : List Nat → Bool
  | [] => true
  | x :: xs => !xs.contains x && idsNodup xs

def namesNodup : List DName → Bool
  | [] => true
  | x :: xs => !xs.contains x && namesNodup xs

/-- every details dict handed over by a mismatch or a fixture: names are dict keys, hence distinct -/
def dictsOf (st : Stage) : List (List (DName × UC)) :=
  (st.acts.filterMap fun
    | .expect _ ds => some ds
    | .useFixture _ ds _ => some ds
    | _ => none) ++
  (match st.term with
   | .assertFail _ ds => [ds]
   | .fixtureFail ds _ _ _ => [ds]
   | _ => [])

/-- names under which a stage attaches details by plain `addDetail` -/
def plainNames : List Act → List DName
  | [] => []
  | .addDetail n _ :: as => n :: plainNames as
  | .cleanup _ :: as => plainNames as
  | .expect _ _ :: as => plainNames as
  | .patch _ _ :: as => plainNames as
  | .useFixture _ _ _ :: as => plainNames as

/-- the detail names user code of a stage supplies (plain, in mismatches, in fixtures) -/
def userNames (st : Stage) : List DName := plainNames st.acts ++ (dictsOf st).flatMap fun ds => ds.map (·.1)

/-- identities of the contents user code of a stage supplies to `addDetail` / mismatches / fixtures: `(0, id)` for a
content object, `(1, mid)` for the marker of the failed expectation `mid` -/
def dictKeys (ds : List (DName × UC)) : List (Nat × Nat) := ds.map fun x => (0, x.2.id)

def actKeys : List Act → List (Nat × Nat)
  | [] => []
  | .addDetail _ c :: as => (0, c.id) :: actKeys as
  | .expect mid ds :: as => dictKeys ds ++ [(1, mid)] ++ actKeys as
  | .useFixture _ ds _ :: as => dictKeys ds ++ actKeys as
  | .cleanup _ :: as => actKeys as
  | .patch _ _ :: as => actKeys as

def termKeys : Term → List (Nat × Nat)
  | .assertFail _ ds => dictKeys ds
  | .fixtureFail ds _ _ _ => dictKeys ds
  | .ret => []
  | .raise1 _ => []
  | .raiseMulti _ _ => []
  | .expectFailure _ _ _ => []

def stageKeys (st : Stage) : List (Nat × Nat) := actKeys st.acts ++ termKeys st.term

def pairsNodup : List (Nat × Nat) → Bool
  | [] => true
  | x :: xs => !xs.contains x && pairsNodup xs

def wf (p : Program) : Bool :=
  idsNodup ((allStages p).map Stage.id) && p.userHandlers.all (fun h => isSub h.1 .exc) &&
  p.userHandlers.all (fun h => h.2 != .std .skip || isSub h.1 .skip) &&
  (allStages p).all (fun st => (dictsOf st).all fun ds => namesNodup (ds.map (·.1))) &&
  idsNodup (p.attrs0.map (·.1)) &&
  (allStages p).all (fun st => (userNames st).all fun n => n != nmReason) &&
  pairsNodup ((allStages p).flatMap stageKeys)

/-! ### reading a trace -/
def stageIds (t : Trace) : List Nat := t.events.filterMap fun | .stage i => some i | _ => none

def isResultEv : Ev → Bool
  | .stage _ => false
  | .onExc _ _ => false
  | .startTestRun | .stopTestRun | .startTest | .stopTest | .outcome _ _ => true

def resultEvents (t : Trace) : List Ev := t.events.filter isResultEv

def evOutcome : Ev → Option (Outcome × Details)
  | .outcome o d => some (o, d)
  | .startTestRun | .stopTestRun | .startTest | .stopTest | .stage _ | .onExc _ _ => none

def outcomeOf (t : Trace) : Option (Outcome × Details) := t.events.findSome? evOutcome

def executed (p : Program) (t : Trace) : List Stage := (stageIds t).filterMap (findStage p)

/-- `force_failure` at the end of this run: left over, or some executed stage had a failing expectThat -/
def ffNow (p : Program) (ff0 : Bool) (t : Trace) : Bool :=
  ff0 || (executed p t).any (fun st => st.acts.any actIsExpect)

/-- every exception handed to the runner in this run, in order; the forced failure last (it is due whenever
`force_failure` is set at the end of the run - also when setUp gave up, whatever it gave up with) -/
def raisedAll (p : Program) (ff0 : Bool) (t : Trace) : List Exc :=
  (executed p t).flatMap (stageExcs p) ++ (if ffNow p ff0 t then [forcedFailure] else [])

/-- a per-run clause lifted to the list of traces of repeated runs (`force_failure` threads through) -/
def perRun (c : Program → Bool → Trace → Bool) (p : Program) : Bool → List Trace → Bool
  | _, [] => true
  | ff0, t :: ts => c p ff0 t && perRun c p t.ffAfter ts

def lift (c : Program → Bool → Trace → Bool) (i : Input) (ts : List Trace) : Bool :=
  !wf i.prog || (ts.length == i.runs && perRun c i.prog false ts)

end TTV.Spec.Run
