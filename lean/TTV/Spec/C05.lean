import TTV.Spec.RunCommon
/-! C05 — all details and every traceback reach the result; none is dropped or overwritten; bytes are
those read at reporting time (gathered details: at gathering time); onException handlers are called once
per exception, before the outcome.  Judged on flavours that receive the details dict (extended,
testtools.TestResult, result=None); the skip reason also on 2.7-style/Twisted-style results. -/
namespace TTV.Spec.C05
open TTV.Run TTV.Spec.Run

def detailsOf (t : Trace) : Details := ((outcomeOf t).map (·.2)).getD []

def finalClock (t : Trace) : Nat := (stageIds t).length

def evalAt (v : Nat) (c : UC) : Content := if c.lazy then .frozen c.id v else .user c

/-- executed stages with the logical time at which each started (1-based) -/
def timed (p : Program) (t : Trace) : List (Nat × Stage) :=
  ((stageIds t).zipIdx 1).filterMap fun (id, k) => (findStage p id).map fun st => (k, st)

/-- plain `addDetail` calls executed, in order -/
def plainAdds (p : Program) (t : Trace) : List (DName × UC) :=
  (timed p t).flatMap fun (_, st) => st.acts.filterMap fun | .addDetail n c => some (n, c) | _ => none

/-- every user detail attached under a distinct name arrives under that name (for a name used twice,
the later value) -/
def cUserDetails (p : Program) (_ff0 : Bool) (t : Trace) : Bool :=
  !showsDetails p.flavour || p.skipDeco.isSome ||
    let adds := plainAdds p t
    let D := detailsOf t
    (adds.zipIdx).all fun ((n, c), i) =>
      -- last add for this name?
      ((adds.drop (i + 1)).any (fun x => x.1 == n)) ||
        (D.find? (fun x => x.1 == n)).map (·.2) == some (evalAt (finalClock t) c)

/-- details that must arrive under their name or a `-k` renaming of it: mismatch details, the failed
expectation marker, fixture details (also of a fixture whose setUp failed) — each with the bytes due -/
def uniqueAdds (p : Program) (t : Trace) : List (DName × Content) :=
  let ids := stageIds t
  let fin := finalClock t
  (timed p t).flatMap fun (k, st) =>
    (st.acts.flatMap fun
      | .expect mid ds => ds.map (fun (n, c) => (n, evalAt fin c)) ++ [(nmExpectation, .expectation mid)]
      | .useFixture _ ds cu => ds.map (fun (n, c) => (n, evalAt (ids.idxOf cu.id) c))
      | _ => []) ++
    (match st.term with
      | .assertFail _ ds => ds.map (fun (n, c) => (n, evalAt fin c))
      | .fixtureFail ds _ _ _ => ds.map (fun (n, c) => (n, evalAt k c))
      | _ => [])

def isRenaming (n m : DName) : Bool :=
  m == n || (m.base == n.base && m.sufs.dropLast == n.sufs && m.sufs.length == n.sufs.length + 1)

def cUniqueDetails (p : Program) (_ff0 : Bool) (t : Trace) : Bool :=
  !showsDetails p.flavour || p.skipDeco.isSome ||
    let D := detailsOf t
    (uniqueAdds p t).all fun (n, c) =>
      (D.filter fun x => x.2 == c).length == 1 && D.any fun x => x.2 == c && isRenaming n x.1

/-- exceptions denoting a failure or an error by the documented mapping (anything that is not a skip, an
expected failure or an unexpected success): their traceback MUST be among the details -/
def needsTb (c : Cls) : Bool := !(isSub c .skip || isSub c .xfail || isSub c .uxs)

/-- other exceptions whose traceback MAY be present: every exception handed to the runner, the assertion
behind an expected failure, the object caught by the expectedFailure decorator -/
def relatedTbs (p : Program) (ff0 : Bool) (t : Trace) : List Exc :=
  raisedAll p ff0 t ++
  ((executed p t).flatMap fun st =>
    (match st.term with
     | .expectFailure _ (some e) _ => [e]
     | _ => []) ++
    (if p.xfailDeco && st.id == p.body.id then
       (match termObj st.term with
        | some obj => if isSub obj.cls .exc then [obj] else []
        | none => [])
     else []))

/-- tracebacks that must be present: of every raised failure / error (constituents of MultipleExceptions
counted separately, forced failure included), of the assertion behind an expected failure, and of the
failure caught by the expectedFailure decorator -/
def requiredTbs (p : Program) (ff0 : Bool) (t : Trace) : List Exc :=
  ((raisedAll p ff0 t).filter fun e => needsTb e.cls) ++
  ((executed p t).flatMap fun st =>
    (match st.term with
     | .expectFailure _ (some e) _ => [e]
     | _ => []) ++
    (if p.xfailDeco && st.id == p.body.id then
       (match termObj st.term with
        | some obj => if isSub obj.cls .exc then [obj] else []
        | none => [])
     else []))

def tbsIn (D : Details) : List Exc := D.filterMap fun | (_, .tb e) => some e | _ => none

/-- `xs` is a sub-multiset of `ys` -/
def subMulti : List Exc → List Exc → Bool
  | [], _ => true
  | x :: xs, ys => ys.contains x && subMulti xs (ys.erase x)

/-- one traceback per failure / error raised by user code, none invented, none twice -/
def cTracebacks (p : Program) (ff0 : Bool) (t : Trace) : Bool :=
  !showsDetails p.flavour || p.skipDeco.isSome ||
    (subMulti (requiredTbs p ff0 t) (tbsIn (detailsOf t)) && subMulti (tbsIn (detailsOf t)) (relatedTbs p ff0 t))

def cNamesDistinct (_p : Program) (_ff0 : Bool) (t : Trace) : Bool :=
  idsNodupN ((detailsOf t).map (·.1))
where idsNodupN : List DName → Bool
  | [] => true
  | x :: xs => !xs.contains x && idsNodupN xs

/-- a reported skip carries its reason -/
def cReason (p : Program) (ff0 : Bool) (t : Trace) : Bool :=
  p.flavour == .py26 || p.flavour == .stream ||
  p.userHandlers.any (fun h => match h.2 with | .user _ .skip => true | _ => false) ||   -- skips reported by user code are the user's
    match outcomeOf t with
    | some (.skip, D) =>
      (match p.skipDeco with
       | some r => (D.find? (fun x => x.1 == nmReason)).map (·.2) == some (.reason r)
       | none =>
         -- reported by the case's own skip reporter: the reason of one of the skips raised
         let rs := ((raisedAll p ff0 t).filter fun e => handlerFor (handlers p) e == some (.std .skip)).map (·.tag)
         rs.isEmpty || (match ((D.find? (fun x => x.1 == nmReason)).map (·.2) : Option Content) with
           | some (Content.reason r) => rs.contains r
           | _ => false))
    | _ => true

def onExcOf (t : Trace) : List (Nat × Exc) := t.events.filterMap fun | .onExc h e => some (h, e) | _ => none

/-- each handler once per exception, in registration order, all before the outcome -/
def cOnException (p : Program) (ff0 : Bool) (t : Trace) : Bool :=
  p.skipDeco.isSome ||
    (onExcOf t == (raisedAll p ff0 t).flatMap (fun e => (List.range p.nOnExc).map fun h => (h, e)) &&
     ((t.events.dropWhile fun | .outcome _ _ => false | _ => true).all fun | .onExc _ _ => false | _ => true))

def clauses : List (String × (Input → List Trace → Bool)) :=
  [("user-details", lift cUserDetails), ("mismatch-fixture-details", lift cUniqueDetails),
   ("tracebacks", lift cTracebacks), ("names-distinct", lift cNamesDistinct), ("skip-reason", lift cReason),
   ("on-exception-handlers", lift cOnException)]

def holds (i : Input) (ts : List Trace) : Bool := clauses.all fun c => c.2 i ts

/-- known finding D3 (`lateCollision`): in some run a plain `addDetail(n)` replaced an entry stored under a
generated / renamed name -/
def clobberedRuns (p : Program) : Nat → Bool → Bool
  | 0, _ => false
  | n + 1, ff0 =>
    (p.skipDeco.isNone && (runCore p ff0).1.clobbered) || clobberedRuns p n (runOnce p ff0).ffAfter

def lateCollision (i : Input) : Bool := clobberedRuns i.prog i.runs false

end TTV.Spec.C05
