import TTV.Model.Result
import TTV.Model.ResC17
/-! Executable specification of C17 over observed traces.  `TagContext` is a stack of sets: `startTestRun`
empties it, `startTest` pushes a copy, `stopTest` pops (never the run-level set), `tags(new, gone)` changes
the top.  (1) `current_tags` of the object reported to follows this after every call; (2) every wrapped result
and every stream consumer sees, at each outcome, the tags this semantics gives at that outcome — plus what the
`Tagger`s between reporter and observer add at `startTest`. -/
namespace TTV.Spec.C17
open TTV.Result TTV.ResC17

/-- reference semantics: the effect of one call on the tag context -/
def refStep (ctx : TagCtx) : Call → TagCtx
  | .startTestRun => {}
  | .startTest _ => ctx.push
  | .stopTest _ => ctx.pop
  | .tags n g => ctx.change n g
  | _ => ctx

def inject (ctx : TagCtx) (inj : List (TagSet × TagSet)) : TagCtx :=
  inj.foldl (fun c p => c.change p.1 p.2) ctx

/-- as `refStep`, with the tag changes `inj` of the `Tagger`s applied right after every `startTest` -/
def refStepInj (inj : List (TagSet × TagSet)) (ctx : TagCtx) : Call → TagCtx
  | .startTest _ => inject ctx.push inj
  | c => refStep ctx c

/-- current tags after each call -/
def refCur (inj : List (TagSet × TagSet)) : TagCtx → List Call → List TagSet
  | _, [] => []
  | ctx, c :: h => (refStepInj inj ctx c).cur :: refCur inj (refStepInj inj ctx c) h

/-- (test, current tags) at each outcome -/
def refSeen : TagCtx → List Call → List (Nat × TagSet)
  | _, [] => []
  | ctx, .add _ t _ :: h => (t, ctx.cur) :: refSeen ctx h
  | ctx, c :: h => refSeen (refStep ctx c) h

/-- a `Tagger` applies its tags right after every `startTest` -/
def taggerV (n g : TagSet) : List Call → List Call
  | [] => []
  | .startTest t :: h => .startTest t :: .tags n g :: taggerV n g h
  | c :: h => c :: taggerV n g h

/-- the `Tagger`s whose changes show in `current_tags` of the object itself (innermost first) -/
def chain : Shape → List (TagSet × TagSet)
  | .tagger n g c => chain c ++ [(n, g)]
  | .etod c => if (caps c).currentTags then chain c else []
  | .deco c => chain c
  | _ => []

def untagged (h : List Call) : List (Nat × TagSet) :=
  h.filterMap fun | .add _ t _ => some (t, 0) | _ => none

/- what each observation point is to see (pre-order, as `ResC17.points`): a result without tags sees none -/
mutual
def specSeen : Shape → List Call → List (List (Nat × TagSet))
  | .sink f, h => [if f = .ext then refSeen {} h else untagged h]
  | .tt _, h => [refSeen {} h]
  | .text _, h => [refSeen {} h]
  | .tbt, h => [refSeen {} h]
  | .etod c, h => specSeen c h
  | .deco c, h => specSeen c h
  | .fsink _ _ f, h => [if f = .ext then refSeen {} h else untagged h]
  | .sff, _ => []
  | .tagger n g c, h => specSeen c (taggerV n g h)
  | .tfr c, h => specSeen c h
  | .multi cs, h => specSeenL cs h
  | .e2s c, h => refSeen {} h :: specSeen c h
def specSeenL : List Shape → List Call → List (List (Nat × TagSet))
  | [], _ => []
  | c :: cs, h => specSeen c h ++ specSeenL cs h
end

mutual
def Shape.hasE2s : Shape → Bool
  | .e2s _ | .sff => true
  | .etod c | .deco c | .tagger _ _ c | .tfr c => Shape.hasE2s c
  | .multi cs => Shape.hasE2sL cs
  | _ => false
def Shape.hasE2sL : List Shape → Bool
  | [] => false
  | c :: cs => Shape.hasE2s c || Shape.hasE2sL cs
end

/-- the calls a caller may make; a graph with an `ExtendedToStreamDecorator` is started with `startTestRun` -/
def inScope (i : Input) : Bool :=
  i.hist.all Call.ok && (!Shape.hasE2s i.shape || i.hist.head? == some .startTestRun)

def cCurrent (i : Input) (t : Trace) : Bool :=
  !inScope i || t.cur == refCur (chain i.shape) {} i.hist

/-- `new` and `gone` of a `tags` call are disjoint -/
def Call.tagsDisjoint : Call → Bool
  | .tags n g => n &&& g == 0
  | _ => true

mutual
def Shape.tagsDisjoint : Shape → Bool
  | .tagger n g c => n &&& g == 0 && Shape.tagsDisjoint c
  | .etod c | .deco c | .tfr c | .e2s c => Shape.tagsDisjoint c
  | .multi cs => Shape.tagsDisjointL cs
  | _ => true
def Shape.tagsDisjointL : List Shape → Bool
  | [] => true
  | c :: cs => Shape.tagsDisjoint c && Shape.tagsDisjointL cs
end

/-- well-formed for tags: tests are `startTest t, tags*, outcome t, (tags* outcome t)*, tags*, stopTest t` — one or more
outcomes per test (unittest reports a failing body and a failing `tearDown` as two), no run boundary inside —
or the start-less pair `outcome t, stopTest t`; phase 0 = between tests, 1 = started, 2 = reported, 3 = reported
without `startTest` -/
def wfTag : Nat → Nat → List Call → Bool
  | p, _, [] => p == 0
  | p, cur, c :: h =>
    match c with
    | .startTest t => p == 0 && wfTag 1 t h
    | .add _ t _ => ((p == 1 || p == 2) && t == cur && wfTag 2 t h) || (p == 0 && wfTag 3 t h)
    | .stopTest t => (p == 2 || p == 3) && t == cur && wfTag 0 0 h
    | .startTestRun | .stopTestRun => p == 0 && wfTag p cur h
    | .tags _ _ => p != 3 && wfTag p cur h
    | _ => wfTag p cur h

def obsScope (i : Input) : Bool :=
  inScope i && wfTag 0 0 i.hist && i.hist.all Call.tagsDisjoint && Shape.tagsDisjoint i.shape

def cObserved (i : Input) (t : Trace) : Bool :=
  !obsScope i || t.seen == specSeen i.shape i.hist

def clauses : List (String × (Input → Trace → Bool)) :=
  [("current", cCurrent), ("observed", cObserved)]

def holds (i : Input) (t : Trace) : Bool := clauses.all fun c => c.2 i t

/- a `Tagger` below a `ThreadsafeForwardingResult` or an `ExtendedToStreamDecorator` (which replay the
reporter's tags around / after the `startTest` at which the `Tagger` acts) -/
mutual
def taggerBelow : Bool → Shape → Bool
  | b, .tagger _ _ c => b || taggerBelow b c
  | _, .tfr c => taggerBelow true c
  | _, .e2s c => taggerBelow true c
  | b, .etod c => taggerBelow b c
  | b, .deco c => taggerBelow b c
  | b, .multi cs => taggerBelowL b cs
  | _, _ => false
def taggerBelowL : Bool → List Shape → Bool
  | _, [] => false
  | b, c :: cs => taggerBelow b c || taggerBelowL b cs
end

def taggerBelowBuffer (i : Input) : Bool := taggerBelow false i.shape

end TTV.Spec.C17
