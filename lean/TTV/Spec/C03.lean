import TTV.Spec.RunCommon
/-! C03 — the reported outcome is sound: success means nothing raised; a single exception maps through
the handler table (user handlers first); failures and errors are never masked. -/
namespace TTV.Spec.C03
open TTV.Run TTV.Spec.Run

def observed (t : Trace) : Option Outcome := (outcomeOf t).map (·.1)

/-- the documented default mapping from exception type to outcome — stated here independently of the
handler table found in the source (`TTV.Generated.C01`), which the theorems relate to it -/
def docDefault (c : Cls) : Option Outcome :=
  if isSub c .skip then some .skip
  else if isSub c .failure then some .failure
  else if isSub c .xfail then some .xfail
  else if isSub c .uxs then some .uxs
  else if isSub c .exc then some .error
  else none

/-- the outcome an exception's type maps to: handlers inserted by the user first, in list order, then the
documented defaults (`error` for one nobody claims: the last resort) -/
def mapsTo (p : Program) (e : Exc) : Outcome :=
  match handlerFor p.userHandlers e with
  | some r => r.outcome
  | none => (docDefault e.cls).getD .error

/-- success is reported iff no stage raised, no expectThat mismatched - in any executed stage, `setUp` included -
and force_failure is unset (2.6-style results also show skip / expected failure as success: not judged here, see C08; a handler
function supplied by the user that calls `addSuccess` for its exception is the user's choice) -/
def cSuccessIff (p : Program) (ff0 : Bool) (t : Trace) : Bool :=
  p.skipDeco.isSome || p.flavour == .py26 || p.userHandlers.any (fun h => h.2.outcome == .success) ||
    ((observed t == some .success) == (raisedAll p ff0 t).isEmpty)

/-- exactly one exception ⇒ the outcome its type maps to -/
def cSingle (p : Program) (ff0 : Bool) (t : Trace) : Bool :=
  p.skipDeco.isSome ||
    (match raisedAll p ff0 t with
     | [e] => observed t == some (degrade p.flavour (mapsTo p e))
     | _ => true)

def userHandlersUnsuccessful (p : Program) : Bool :=
  p.userHandlers.all fun h => h.2.outcome.unsuccessful

/-- some stage raised a failure or an error ⇒ the run is reported unsuccessful -/
def cNoDowngrade (p : Program) (ff0 : Bool) (t : Trace) : Bool :=
  p.skipDeco.isSome || !userHandlersUnsuccessful p ||
    !((raisedAll p ff0 t).any fun e => mapsTo p e == .failure || mapsTo p e == .error) ||
    (match observed t with
     | some o => o.unsuccessful
     | none => false)

/-- a recorded expectation mismatch (an `expectThat` that did not match in any executed stage — `setUp`, the test
method, `tearDown`, a cleanup — or `force_failure` left set by an earlier run) is reported as a failure, or as the
error of an exception that has to propagate: never as success, skip, expected failure or unexpected success —
whatever the stage that recorded it, or a later one, goes on to raise (`setUp` ending in `skipTest` or an expected
failure included).  Hypothesis: the user inserted no handler of his own that claims the forced `AssertionError` (such
a handler is arbitrary code; the stock `exception_handlers` map it to `addFailure`). -/
def cExpectationFails (p : Program) (ff0 : Bool) (t : Trace) : Bool :=
  p.skipDeco.isSome || !ffNow p ff0 t || (handlerFor p.userHandlers forcedFailure).isSome ||
    (observed t == some (degrade p.flavour .failure) || observed t == some (degrade p.flavour .error))

def clauses : List (String × (Input → List Trace → Bool)) :=
  [("success-iff-nothing-raised", lift cSuccessIff), ("single-exception-maps", lift cSingle),
   ("no-downgrade", lift cNoDowngrade), ("expectation-mismatch-fails", lift cExpectationFails)]

def holds (i : Input) (ts : List Trace) : Bool := clauses.all fun c => c.2 i ts

end TTV.Spec.C03
