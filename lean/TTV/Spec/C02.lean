import TTV.Spec.C01
/-! C02 — stages in order; every cleanup exactly once, LIFO; nothing left registered; patches undone;
re-running the instance repeats the same sequence and outcome. -/
namespace TTV.Spec.C02
open TTV.Run TTV.Spec.Run

def cEmpty (_p : Program) (_ff0 : Bool) (t : Trace) : Bool := t.stackAfter == 0
def cAttrs (p : Program) (_ff0 : Bool) (t : Trace) : Bool := t.attrsAfter == sortAttrs p.attrs0

/-- what is compared between repetitions: the event sequence (stages, handler calls, result calls with
their details) and what propagated -/
def sameRun (a b : Trace) : Bool :=
  a.events == b.events && a.raised == b.raised

def cRerun (i : Input) (ts : List Trace) : Bool :=
  !wf i.prog || (match ts with
    | [] => true
    | t :: rest => rest.all (sameRun t))

def clauses : List (String × (Input → List Trace → Bool)) :=
  [("stage-order-and-lifo-once", lift C01.cStages), ("no-cleanup-left", lift cEmpty),
   ("patches-restored", lift cAttrs), ("rerun-repeats", cRerun)]

def holds (i : Input) (ts : List Trace) : Bool := clauses.all fun c => c.2 i ts

end TTV.Spec.C02
