import TTV.Model.StreamRouter
/-! Executable specification of C18 — *routing picks exactly one destination; route prefixes push and pop
inversely* — over observed traces.  It is written against the **history** of operations: which rule applies to an
event is decided by looking back at the registrations made so far ("the latest registration for a key wins"),
not by replaying the router's dictionaries.

**Interpretations** (taken from the code, stated plainly because an independent audit - audit/C18 - read the prose more
widely; the code is left as it is):
* an event is a `status(**kwargs)` call: `StreamResultRouter.status` takes keywords only, a positional call raises
  TypeError and reaches no sink (audit/C18 v3).  `CopyStreamResult`, `StreamTagger` and `TimestampingStreamResult` hand
  positional arguments on as they got them, so a positional call made through one of them into a router raises as well.
* registration for start/stop is for good and per sink OBJECT (see `flagged`): a sink whose rule is replaced stays
  registered; a sink object is registered at most once (repaired, see KNOWN_FINDINGS: it used to be once per rule).
* sinks are told apart by identity; their truth value and what they compare equal to do not matter (repaired for the
  fallback, which used to be registered only if truthy).
* route codes with empty segments are read literally (`"0/"` forwards `None` after consuming, `""` is not `None`); a sink
  that raises ends the operation there (`_in_run` keeps its old value, later sinks are not called); without a fallback an
  unrouted event raises AttributeError; nothing is said about calls from several threads. -/
namespace TTV.Spec.C18
open TTV.Stream TTV.Stream.Router

/-- a registration that succeeded -/
inductive Reg where
  | pfx (sink : Nat) (p : Str) (consume flag : Bool)
  | tid (sink : Nat) (t : Option Nat) (flag : Bool)
deriving DecidableEq, Repr

def regOf : Op → Option Reg
  | .addPrefix sink p consume flag => if p.contains '/' then none else some (.pfx sink p consume flag)
  | .addId sink t flag => some (.tid sink t flag)
  | _ => none

/-- the registrations made by the operations `hist` -/
def regs (hist : List Op) : List Reg := hist.filterMap regOf

/-- latest prefix rule for a segment -/
def prefixRule (rs : List Reg) (seg : Str) : Option (Nat × Bool) :=
  rs.reverse.findSome? fun
    | .pfx sink p consume _ => if p = seg then some (sink, consume) else none
    | _ => none
/-- latest test-id rule for an id -/
def idRule (rs : List Reg) (t : Option Nat) : Option Nat :=
  rs.reverse.findSome? fun
    | .tid sink t' _ => if t' = t then some sink else none
    | _ => none

/-- the first segment of a route code (up to the first `/`), and what is left after that `/` (`None` when nothing) -/
def segments : Str → Str × Option Str
  | [] => ([], none)
  | c :: cs =>
    if c = '/' then ([], match cs with | [] => none | d :: ds => some (d :: ds))
    else ((c :: (segments cs).1), (segments cs).2)

/-- the one destination of an event: the rule of the first segment of its route code if there is one, else the
rule of its test id, else the fallback, else none (the call raises); a consuming route rule strips that segment,
every other field is forwarded unchanged -/
def destination (hasFallback : Bool) (rs : List Reg) (e : Event) : Option (Nat × Event) :=
  match e.route.bind fun rc => (prefixRule rs (segments rc).1).map fun r => (r, (segments rc).2) with
  | some ((sink, consume), rest) => some (sink, if consume then { e with route := rest } else e)
  | none =>
    match idRule rs e.testId with
    | some sink => some (sink, e)
    | none => if hasFallback then some (0, e) else none

/-- who is registered for startTestRun / stopTestRun, in registration order (the fallback first).  The history holds
registrations as they took effect (see `entered`): a sink OBJECT is in this list at most once, however many rules point at
it and whether or not it is the fallback as well.  A registration is for good: a sink whose rule is later replaced by a
rule for another sink stays registered (it keeps getting one start and one stop per run) - that much, and no more, is
guaranteed about replaced rules. -/
def flagged (hasFallback fbFlag : Bool) (rs : List Reg) : List Nat :=
  (if hasFallback && fbFlag then [0] else []) ++ rs.filterMap fun
    | .pfx sink _ _ flag => if flag then some sink else none
    | .tid sink _ flag => if flag then some sink else none

/-- is a run in progress after the operations `hist` -/
def isCtl : Op → Bool
  | .start => true
  | .stop => true
  | _ => false

def inRun (hist : List Op) : Bool :=
  match hist.reverse.find? isCtl with
  | some .start => true
  | _ => false

/-! ### reading the observed history
`H` = the operations that took effect so far, in order: every `add_rule` call — by the driver, or by a sink from inside
one of its methods — and every `startTestRun` / `stopTestRun` of the router that returned normally.  Which rule applies,
who is registered and whether a run is in progress are read off `H` (`regs`, `flagged`, `inRun`). -/

/-- the sink of a registration made with `do_start_stop_run` -/
def flaggedSink (o : Op) : Option Nat :=
  match regOf o with
  | some (.pfx sink _ _ true) => some sink
  | some (.tid sink _ true) => some sink
  | _ => none

def clearFlag : Op → Op
  | .addPrefix sink p consume _ => .addPrefix sink p consume false
  | .addId sink t _ => .addId sink t false
  | o => o

/-- an `add_rule` call as it takes effect after the history `h`: `do_start_stop_run` for a sink that is registered for
start/stop already (by an earlier rule, or as the fallback) adds the rule and nothing else -/
def entered (hb ff : Bool) (h : List Op) (o : Op) : Op :=
  match flaggedSink o with
  | some y => if (flagged hb ff (regs h)).contains y then clearFlag o else o
  | none => o

/-- an `add_rule` call enters the history if its policy method succeeded -/
def effAdd (o : Op) : List Op :=
  match regOf o with
  | some _ => [o]
  | none => []

/-- what the router itself must call during an operation: for `startTestRun` / `stopTestRun` one call per sink
registered for them — including sinks registered while the dispatch is under way —, otherwise a fixed list -/
inductive Mode where
  | ctl (ev : SinkEv)
  | fixed (ds : List (Nat × SinkEv))

def nextTop (hb ff : Bool) (m : Mode) (h : List Op) (i : Nat) : Option (Nat × SinkEv) :=
  match m with
  | .ctl ev => ((flagged hb ff (regs h))[i]?).map (·, ev)
  | .fixed ds => ds[i]?

def allDone (hb ff : Bool) (m : Mode) (h : List Op) (i : Nat) : Bool :=
  match m with
  | .ctl _ => i == (flagged hb ff (regs h)).length
  | .fixed ds => i == ds.length

/-- walk through what was observed during one operation.  `running` = a run was in progress when the operation
began (it stays so until the operation returns); `i` = calls made by the router so far; `h` = history so far;
`pend` = a sink just registered re-entrantly with the flag while running: its `startTestRun` must come next;
`st` = the router has called a sink already (only then can a sink add rules or raise).
Result: the exception that ended the operation (if any) and the history; `none` = not what the property allows. -/
def walk (hb ff running : Bool) (m : Mode) : Nat → List Op → Option Nat → Bool → List Item → Option (Option String × List Op)
  | i, h, some y, st, .del x .start true :: r => if x = y then walk hb ff running m i h none st r else none
  | _, _, some _, _, _ => none
  | i, h, none, _, [] => if allDone hb ff m h i then some (none, h) else none
  | _, h, none, st, [.exc x] => if st then some (some x, h) else none
  | i, h, none, st, .radd o :: r =>
    if st then walk hb ff running m i (h ++ effAdd (entered hb ff h o))
      (if running then flaggedSink (entered hb ff h o) else none) st r else none
  | i, h, none, _, .del x ev false :: r =>
    if nextTop hb ff m h i = some (x, ev) then walk hb ff running m (i + 1) h none true r else none
  | _, _, none, _, _ => none

def closes (res : Res) (w : Option (Option String × List Op)) (completed : List Op) : Option (List Op) :=
  match w with
  | some (none, h) => if res == .ok then some (h ++ completed) else none
  | some (some x, h) => if res == .raised x then some h else none
  | none => none

/-- an `add_rule` of the driver whose policy method succeeds: the sink is started at once iff it is newly registered
with the flag and a run is in progress -/
def addOk (hb ff : Bool) (H : List Op) (o : Op) (seg : List Item) (res : Res) : Option (List Op) :=
  closes res (walk hb ff (inRun H)
    (.fixed (match flaggedSink (entered hb ff H o) with | some y => if inRun H then [(y, .start)] else [] | none => []))
    0 (H ++ [entered hb ff H o]) none false seg) []

/-- one operation of the driver against what was observed during it and what it returned; result: the history
afterwards, `none` = the property is violated -/
def opOk (hb ff : Bool) (H : List Op) (o : Op) (seg : List Item) (res : Res) : Option (List Op) :=
  match o with
  | .start => closes res (walk hb ff (inRun H) (.ctl .start) 0 H none false seg) [.start]
  | .stop => closes res (walk hb ff (inRun H) (.ctl .stop) 0 H none false seg) [.stop]
  | .status e =>
    match destination hb (regs H) e with
    | none => if seg.isEmpty && res == .raised "AttributeError" then some H else none
    | some (sink, e') => closes res (walk hb ff (inRun H) (.fixed [(sink, .status e')]) 0 H none false seg) []
  | .roundTrip codes e =>
    if seg.isEmpty && (codes.any (fun c => c.contains '/' || c.isEmpty) || e.route == some [] || res == .arrived e)
    then some H else none
  | o =>
    match regOf o with
    | none => if seg.isEmpty && res != .ok then some H else none
    | some _ => addOk hb ff H o seg res

/-- the history after all operations; `none` = the property is violated somewhere -/
def finalHist (hb ff : Bool) : List Op → List Op → List (List Item) → List Res → Option (List Op)
  | H, [], [], [] => some H
  | H, o :: os, seg :: segs, r :: rs =>
    match opOk hb ff H o seg r with
    | some H' => finalHist hb ff H' os segs rs
    | none => none
  | _, _, _, _ => none

def historyOk (hb ff : Bool) (H : List Op) (os : List Op) (segs : List (List Item)) (rs : List Res) : Bool :=
  (finalHist hb ff H os segs rs).isSome

/-- **the property over whole histories**: every status goes to the one sink `destination` names (rules registered
so far, by whatever path), unchanged but for a consumed route segment; `startTestRun` / `stopTestRun` call each sink
registered for them — before or during the dispatch — exactly once, in registration order, and nothing else; a rule
added with the flag while a run is in progress is started at once, otherwise not; an exception raised by a sink ends
the operation there and reaches the driver; a push/pop round trip returns the event unchanged -/
def cHistory (i : Input) (t : Trace) : Bool := historyOk i.hasFallback i.fbFlag [] i.ops t.segments t.results

/-! ### per sink: starts and stops alternate -/
def ctlOf (x : Nat) : List Item → List Bool
  | [] => []
  | .del y .start _ :: r => if y = x then true :: ctlOf x r else ctlOf x r
  | .del y .stop _ :: r => if y = x then false :: ctlOf x r else ctlOf x r
  | _ :: r => ctlOf x r

/-- `true` = start; alternating, beginning with a start -/
def alternates : Bool → List Bool → Bool
  | _, [] => true
  | expectStart, b :: r => b == expectStart && alternates (!expectStart) r

def hasExc (seg : List Item) : Bool := seg.any fun | .exc _ => true | _ => false

/-- the driver starts a run only when none is in progress and stops only a run in progress -/
def runsWellFormed : Bool → List Op → Bool
  | _, [] => true
  | running, .start :: os => !running && runsWellFormed true os
  | running, .stop :: os => running && runsWellFormed false os
  | running, _ :: os => runsWellFormed running os

def sinksOf (t : Trace) : List Nat :=
  (t.segments.flatten.filterMap fun | .del x _ _ => some x | _ => none).eraseDups

/-- no sink raises and runs do not nest (the driver starts a run only when none is in progress and stops only a run in
progress).  Nothing is asked of the rule set: a sink may serve any number of rules, be the fallback as well, be
registered by the driver or re-entrantly. -/
def clean (i : Input) (t : Trace) : Bool :=
  !(t.segments.any hasExc) && runsWellFormed false i.ops &&
    (finalHist i.hasFallback i.fbFlag [] i.ops t.segments t.results).isSome

/-- in such a history every sink OBJECT sees `startTestRun` and `stopTestRun` strictly alternating, beginning with a
start: at most one start per run - however many rules point at it -, never a stop without a start -/
def cAlternate (i : Input) (t : Trace) : Bool :=
  !clean i t || (sinksOf t).all fun x => alternates true (ctlOf x t.segments.flatten)

def clauses : List (String × (Input → Trace → Bool)) :=
  [("history", cHistory), ("alternate", cAlternate)]

def holds (i : Input) (t : Trace) : Bool := clauses.all fun c => c.2 i t

end TTV.Spec.C18
