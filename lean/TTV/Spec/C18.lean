import TTV.Model.StreamRouter
/-! Executable specification of C18 — *routing picks exactly one destination; route prefixes push and pop
inversely* — over observed traces.  It is written against the **history** of operations: which rule applies to an
event is decided by looking back at the registrations made so far ("the latest registration for a key wins"),
not by replaying the router's dictionaries. -/
namespace TTV.Spec.C18
open TTV.Stream TTV.Stream.Router

/-- a registration that succeeded -/
inductive Reg where
  | pfx (sink : Nat) (p : Str) (consume flag : Bool)
  | tid (sink : Nat) (t : Option Nat) (flag : Bool)
deriving DecidableEq, Repr

def regOf : Op → Option Reg
  | .addPrefix sink p consume flag => if p.contains '/' then none else some (.pfx sink p consume flag)
  | .addId sink t flag => some (.tid sink t flag)
  | _ => none

/-- the registrations made by the operations `hist` -/
def regs (hist : List Op) : List Reg := hist.filterMap regOf

/-- latest prefix rule for a segment -/
def prefixRule (rs : List Reg) (seg : Str) : Option (Nat × Bool) :=
  rs.reverse.findSome? fun
    | .pfx sink p consume _ => if p = seg then some (sink, consume) else none
    | _ => none
/-- latest test-id rule for an id -/
def idRule (rs : List Reg) (t : Option Nat) : Option Nat :=
  rs.reverse.findSome? fun
    | .tid sink t' _ => if t' = t then some sink else none
    | _ => none

/-- the first segment of a route code (up to the first `/`), and what is left after that `/` (`None` when nothing) -/
def segments : Str → Str × Option Str
  | [] => ([], none)
  | c :: cs =>
    if c = '/' then ([], match cs with | [] => none | d :: ds => some (d :: ds))
    else ((c :: (segments cs).1), (segments cs).2)

/-- the one destination of an event: the rule of the first segment of its route code if there is one, else the
rule of its test id, else the fallback, else none (the call raises); a consuming route rule strips that segment,
every other field is forwarded unchanged -/
def destination (hasFallback : Bool) (rs : List Reg) (e : Event) : Option (Nat × Event) :=
  match e.route.bind fun rc => (prefixRule rs (segments rc).1).map fun r => (r, (segments rc).2) with
  | some ((sink, consume), rest) => some (sink, if consume then { e with route := rest } else e)
  | none =>
    match idRule rs e.testId with
    | some sink => some (sink, e)
    | none => if hasFallback then some (0, e) else none

/-- who is registered for startTestRun / stopTestRun, in registration order (the fallback first) -/
def flagged (hasFallback fbFlag : Bool) (rs : List Reg) : List Nat :=
  (if hasFallback && fbFlag then [0] else []) ++ rs.filterMap fun
    | .pfx sink _ _ flag => if flag then some sink else none
    | .tid sink _ flag => if flag then some sink else none

/-- is a run in progress after the operations `hist` -/
def isCtl : Op → Bool
  | .start => true
  | .stop => true
  | _ => false

def inRun (hist : List Op) : Bool :=
  match hist.reverse.find? isCtl with
  | some .start => true
  | _ => false

def isStatus : SinkEv → Bool
  | .status _ => true
  | _ => false

/-- status deliveries expected of operation `o` after history `hist` -/
def expectStatus (hasFallback : Bool) (hist : List Op) : Op → List (Nat × SinkEv)
  | .status e => match destination hasFallback (regs hist) e with
    | some (sink, e') => [(sink, .status e')]
    | none => []
  | _ => []

/-- start/stop deliveries expected of operation `o` after history `hist` -/
def expectCtl (hasFallback fbFlag : Bool) (hist : List Op) (o : Op) : List (Nat × SinkEv) :=
  match o with
  | .start => (flagged hasFallback fbFlag (regs hist)).map (·, .start)
  | .stop => (flagged hasFallback fbFlag (regs hist)).map (·, .stop)
  | _ =>
    match regOf o with
    | some (.pfx sink _ _ true) => if inRun hist then [(sink, .start)] else []
    | some (.tid sink _ true) => if inRun hist then [(sink, .start)] else []
    | _ => []

def overHistory {α : Type} (f : List Op → Op → List α) : List Op → List Op → List α
  | _, [] => []
  | hist, o :: os => f hist o ++ overHistory f (hist ++ [o]) os

/-- every status goes to exactly one sink — the one `destination` names — and to no other; an event without
destination is delivered nowhere -/
def cOneSink (i : Input) (t : Trace) : Bool :=
  t.deliveries.filter (fun d => isStatus d.2) == overHistory (expectStatus i.hasFallback) [] i.ops
/-- startTestRun / stopTestRun reach exactly the registered sinks, once per call; a rule added mid-run with the
flag is started at once, one without the flag never -/
def cStartStop (i : Input) (t : Trace) : Bool :=
  t.deliveries.filter (fun d => !isStatus d.2) == overHistory (expectCtl i.hasFallback i.fbFlag) [] i.ops

def expectRes (hasFallback : Bool) (hist : List Op) : Op → Res → Bool
  | .status e, r => r == (if (destination hasFallback (regs hist) e).isSome then .ok else .raised "AttributeError")
  | .roundTrip codes e, r => codes.any (fun c => c.contains '/' || c.isEmpty) || e.route == some [] || r == .arrived e
  | .start, r => r == .ok
  | .stop, r => r == .ok
  | _, _ => true

def resultsOk (hasFallback : Bool) : List Op → List Op → List Res → Bool
  | _, [], [] => true
  | hist, o :: os, r :: rs => expectRes hasFallback hist o r && resultsOk hasFallback (hist ++ [o]) os rs
  | _, _, _ => false

/-- a status call raises exactly when there is no destination; an event pushed through `StreamToQueue(code)`s and
popped by consuming rules for those codes arrives unchanged, with its original route code (`None` or any
non-empty string; the empty string is not a route code: it has no segment, and comes back as `None`) -/
def cResults (i : Input) (t : Trace) : Bool := resultsOk i.hasFallback [] i.ops t.results

def clauses : List (String × (Input → Trace → Bool)) :=
  [("one-sink", cOneSink), ("start-stop", cStartStop), ("results-inverse", cResults)]

def holds (i : Input) (t : Trace) : Bool := clauses.all fun c => c.2 i t

end TTV.Spec.C18
