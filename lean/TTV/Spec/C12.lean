import TTV.Model.Conc
/-! Executable specification of C12 over an observed trace: the event log of the shared semaphore and
target (each event tagged with the acting thread), and whether every thread ran to its end.

The clauses read the *log* (what the target saw), not the model's scheduler:
* `mutex`      the log is `acquire_i · calls of i … · release_i` repeated: every call on the target is made by
               the thread that holds the semaphore, and the semaphore is free again at the end
               (released after every section, also after a call that raised);
* `shape`      each such section is one block: a single control call, or `time · startTest t · time ·
               [tags] · [tags] · outcome t · stopTest t`, cut short only directly after a call that raised
               (a raising outcome is still followed by `stopTest`);
* `per-thread` the sections of thread `i`, in log order, are exactly the sections of `i`'s own program run
               alone (every operation once, in program order, with its own times and tags);
* `tests-once` every outcome operation of a thread's program has exactly one block, in program order, which
               carries that outcome exactly once or ends in a call that raised before it;
* `exclusive`  every call on the target - the control calls `startTestRun / stopTestRun / stop / done / shouldStop` like the
               calls of a block - is made while the caller, and nobody else, is inside a section: a control call never lands
               inside another thread's block (read off the raw log, thread by thread: an acquire that succeeded opens the
               acquirer's section, a release closes the releaser's);
* `sem-counter` the semaphore's COUNTER, read after every operation on it, is 0 after every acquire and 1 after every
               release - never 2 - and 1 when everything is over: released exactly as often as acquired, by whom acquired;
* `no-deadlock` every thread finished. -/
namespace TTV.Spec.C12
open TTV.Conc

/-- cut the log into critical sections `(thread, calls)`; `none` if the semaphore discipline is broken
(call without holding it, acquire while held, release by another thread, still held at the end) -/
def walk : Option (Nat × Section) → List Ev → Option (List (Nat × Section))
  | none, [] => some []
  | some _, [] => none
  | none, (i, .acq) :: r => walk (some (i, [])) r
  | none, (_, .rel) :: _ => none
  | none, (_, .call _ _) :: _ => none
  | some (h, cur), (i, .call c b) :: r => if i = h then walk (some (h, cur ++ [(c, b)])) r else none
  | some (h, cur), (i, .rel) :: r => if i = h then (walk none r).map ((h, cur) :: ·) else none
  | some _, (_, .acq) :: _ => none
  -- a non-blocking acquire that got the semaphore opens a section like a blocking one; one that did not get it is no section
  -- (and whatever its caller then does without the semaphore is judged by the other cases)
  | none, (i, .tryAcq true) :: r => walk (some (i, [])) r
  | some _, (_, .tryAcq true) :: _ => none
  | st, (_, .tryAcq false) :: r => walk st r

def parse (log : List Ev) : Option (List (Nat × Section)) := walk none log

/-- `[tags] [tags] outcome stopTest` (at most `n` tags calls); a raising tags call ends the block -/
def shapeTail (id : TId) : Nat → Section → Bool
  | _, [(.outcome _ id', _), (.stopTest id'', _)] => id' == id && id'' == id
  | n + 1, (.tags _ _, r) :: rest => if r then rest.isEmpty else shapeTail id n rest
  | _, _ => false

/-- the block grammar, including the shapes a raising call leaves behind -/
def shapeOk : Section → Bool
  | [(.ctl _, _)] => true
  | (.time _, r1) :: rest1 =>
    if r1 then rest1.isEmpty else
    match rest1 with
    | (.startTest id, r2) :: rest2 =>
      if r2 then rest2.isEmpty else
      match rest2 with
      | (.time _, r3) :: rest3 => if r3 then rest3.isEmpty else shapeTail id 2 rest3
      | _ => false
    | _ => false
  | _ => false

def secsOf (i : Nat) (ps : List (Nat × Section)) : List Section :=
  (ps.filter fun p => p.1 == i).map (·.2)

def outcomeOps (ops : List Op) : List (Kind × TId) :=
  ops.filterMap fun | .outcome k id => some (k, id) | _ => none

def secOutcomes (s : Section) : List (Kind × TId) :=
  s.filterMap fun | (.outcome k id, _) => some (k, id) | _ => none

def isTestSec : Section → Bool
  | (.time _, _) :: _ => true
  | _ => false

def lastRaised (s : Section) : Bool :=
  match s.getLast? with
  | some (_, r) => r
  | none => false

/-- the block of one outcome operation: that outcome exactly once, or cut by a raise before it -/
def blockFor (o : Kind × TId) (s : Section) : Bool :=
  secOutcomes s == [o] || (secOutcomes s == [] && lastRaised s)

def zipAll {α β : Type} (f : α → β → Bool) : List α → List β → Bool
  | [], [] => true
  | a :: as, b :: bs => f a b && zipAll f as bs
  | _, _ => false

def cMutex (_ : Input) (t : Trace) : Bool := (parse t.log).isSome
def cShape (_ : Input) (t : Trace) : Bool :=
  match parse t.log with
  | some ps => ps.all fun p => shapeOk p.2
  | none => false
def cPerThread (i : Input) (t : Trace) : Bool :=
  match parse t.log with
  | some ps =>
    ps.all (fun p => p.1 < i.threads.length)
    && (List.range i.threads.length).all fun j => secsOf j ps == (i.threads[j]?.map Thread.secs).getD []
  | none => false
def cTestsOnce (i : Input) (t : Trace) : Bool :=
  match parse t.log with
  | some ps =>
    (List.range i.threads.length).all fun j =>
      zipAll blockFor (outcomeOps ((i.threads[j]?.map Thread.ops).getD [])) ((secsOf j ps).filter isTestSec)
  | none => false
def cNoDeadlock (_ : Input) (t : Trace) : Bool := t.finished

/-- `ins` = the threads inside a section (one entry per successful acquire not yet followed by a release of the same thread) -/
def exclusiveFrom : List Nat → List Ev → Bool
  | _, [] => true
  | ins, (i, .acq) :: r => exclusiveFrom (i :: ins) r
  | ins, (i, .tryAcq true) :: r => exclusiveFrom (i :: ins) r
  | ins, (_, .tryAcq false) :: r => exclusiveFrom ins r
  | ins, (i, .rel) :: r => exclusiveFrom (ins.erase i) r
  | ins, (i, .call _ _) :: r => ins == [i] && exclusiveFrom ins r

def cExclusive (_ : Input) (t : Trace) : Bool := exclusiveFrom [] t.log

def cSemCounter (_ : Input) (t : Trace) : Bool := t.sems == readings t.log && t.sem == 1

def clauses : List (String × (Input → Trace → Bool)) :=
  [("mutex", cMutex), ("shape", cShape), ("per-thread", cPerThread), ("tests-once", cTestsOnce),
   ("exclusive", cExclusive), ("sem-counter", cSemCounter), ("no-deadlock", cNoDeadlock)]

def holds (i : Input) (t : Trace) : Bool := clauses.all fun c => c.2 i t

end TTV.Spec.C12
