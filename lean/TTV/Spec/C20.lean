import TTV.Model.Deferred
/-! Executable specification of C20 over observed traces.

The clauses compare what was observed with the *declared* behaviour of the matchers: a reference run
(`declRun`) in which `has_no_result()` does nothing at all, `succeeded(m)`/`failed(m)` do nothing except
turning an inspected failure into a handled one, and the verdicts are read off the Deferred's state
(unfired or waiting / fired with a value / fired with a failure).  The Deferred itself (Twisted) follows
the state machine of `TTV.Deferred`.  That the operational model — which, like the code, adds capturing
callbacks and looks at what they caught — agrees with this declaration for every history is the theorem
`holds_model`. -/
namespace TTV.Spec.C20
open TTV.Deferred

/-- the verdict a matcher is declared to give in a state -/
def declVerdict : Matcher → St → Bool
  | .noResult, .fired _ => false
  | .noResult, _ => true
  | .succeeded m, .fired (.ok v) => m.eval v
  | .succeeded _, _ => false
  | .failed m, .fired (.fail e) => m.eval e
  | .failed _, _ => false

/-- the declared effect of matching on the Deferred: none, except that `succeeded`/`failed` mark an
inspected failure as handled (the result becomes `None`).

READING (audit/C20 V1).  The property says that matching "leaves an unfired Deferred and a successful result intact" and that "a
failure inspected by succeeded() or failed() is marked handled"; it deliberately does not say that a FAILED result stays intact.
The only way to mark a failure handled is the errback `lambda _: None`, which consumes it: afterwards the Deferred's current
result is a successful `None`.  So matching a failed Deferred changes its state, and a second matcher applied to the same Deferred
classifies the NEW state (`succeeded(Always())` then matches, `failed(…)` does not, `extract_result` returns `None`).  The
"exactly one of" / "iff" clauses are therefore claimed - and checked (`classify` works on three replicas of the Deferred) - per
Deferred STATE at the moment of matching, not for several matchers applied in a row to one failed Deferred. -/
def declAfter (m : Matcher) (d : D) : D :=
  match m, d.st with
  | .noResult, _ => d
  | _, .fired (.fail _) => { d with st := .fired (.ok .none) }
  | _, _ => d

def declExtract : St → Extracted
  | .fired (.ok v) => .value v
  | .fired (.fail e) => .raised e
  | _ => .notFired

def declStep (d : D) : Op → D × Obs
  | .fire r => let x := fire d r; (x.1, .fired x.2)
  | .add cb => ((add d cb).1, .added)
  | .resume r => let x := resume d r; (x.1, .resumed x.2)
  | .matchD m => (declAfter m d, .verdict (declVerdict m d.st) d.called d.called)
  | .classify => (d, .classes (declVerdict .noResult d.st) (declVerdict (.succeeded .always) d.st)
      (declVerdict (.failed .always) d.st))
  | .extract => ((add d extractCb).1, .extracted (declExtract d.st))

def declRun (d : D) : List Op → D × List Obs
  | [] => (d, [])
  | op :: ops => let x := declStep d op; let y := declRun x.1 ops; (y.1, x.2 :: y.2)

def isVerdict : Op × Obs → Bool
  | (.matchD _, _) => true
  | _ => false
def isClassify : Op × Obs → Bool
  | (.classify, _) => true
  | _ => false
def isExtract : Op × Obs → Bool
  | (.extract, _) => true
  | _ => false

def exactlyOne (a b c : Bool) : Bool := (a && !b && !c) || (!a && b && !c) || (!a && !b && c)

def cShape : Input → Trace → Bool
  | .history ops, .history obs _ _ _ => obs.length == ops.length
  | .runUser _, .runUser _ => true
  | _, _ => false

/-- `succeeded(m)` / `failed(m)` / `has_no_result()` match iff the state (and the inner matcher) say so;
matching does not fire the Deferred -/
def cVerdicts : Input → Trace → Bool
  | .history ops, .history obs _ _ _ =>
    ((ops.zip obs).filter isVerdict) == ((ops.zip (declRun D.new ops).2).filter isVerdict)
  | _, _ => true

/-- exactly one of `has_no_result()`, `succeeded(Always())`, `failed(Always())` matches, as the state says.

READING (audit/C20 V3).  "Fired" is read as "a result is deliverable to a newly added callback": the helpers learn the state by
adding a callback pair and seeing whether it runs.  A Deferred that was called but is paused (`pause()`, or waiting for a Deferred
returned by one of its callbacks - `St.paused`), or one examined from inside one of its own running callbacks, delivers nothing to
a new callback and counts as having no result; `extract_result` raises `DeferredNotFired` for it. -/
def cTrichotomy : Input → Trace → Bool
  | .history ops, .history obs _ _ _ =>
    ((ops.zip obs).filter isClassify) == ((ops.zip (declRun D.new ops).2).filter isClassify)
    && (obs.all fun o => match o with | .classes a b c => exactlyOne a b c | _ => true)
  | _, _ => true

def cExtract : Input → Trace → Bool
  | .history ops, .history obs _ _ _ =>
    ((ops.zip obs).filter isExtract) == ((ops.zip (declRun D.new ops).2).filter isExtract)
  | _, _ => true

/-- everything else that can be seen of the Deferred is as if the matchers were not there (apart from handled
failures): firing, the results later callbacks are called with, `called` -/
def cPassive : Input → Trace → Bool
  | .history ops, .history obs seen called _ =>
    let x := declRun D.new ops
    obs == x.2 && seen == x.1.seen && called == x.1.called
  | _, _ => true

/-- "Unhandled error in Deferred" is logged at collection iff the declared final result is a failure: not after
`succeeded`/`failed` inspected it, still after `has_no_result` did -/
def cLogged : Input → Trace → Bool
  | .history ops, .history _ _ _ logged => logged == isFailed (declRun D.new ops).1
  | _, _ => true

/-- what `TestCase.run` reports when the test does this directly (without a Deferred) -/
def directOutcome : Beh → Outcome
  | .returns _ => .success
  | .raises k => .reported k
  | .returnsFired none _ => .success
  | .returnsFired (some k) _ => .reported k
  | .returnsUnfired => .notFired

/-- a test returning an already-fired Deferred is reported like the corresponding return / raise -/
def cSyncRunner : Input → Trace → Bool
  | .runUser b, .runUser o => o == directOutcome b
  | _, _ => true

def clauses : List (String × (Input → Trace → Bool)) :=
  [("shape", cShape), ("verdicts", cVerdicts), ("trichotomy", cTrichotomy), ("extract", cExtract),
   ("passive", cPassive), ("unhandled-log", cLogged), ("sync-runner", cSyncRunner)]

def holds (i : Input) (t : Trace) : Bool := clauses.all fun c => c.2 i t

end TTV.Spec.C20
