import TTV.Model.Spinner
/-! Executable specification of C15 over observed traces of `Spinner.run` histories.

The expected result of a run is computed **declaratively** from the scenario (no event loop, no queue):
the first of "the Deferred fires / fails" and "the timeout call" in the reactor's order
`(time, scheduling order)` decides, unless the reactor was stopped at a strictly earlier instant.
`TTV.Props.C15` proves that the discrete-event model computes exactly this.
A history interleaves calls of `run` (also with a timeout the reactor rejects), `clear_junk()` and handler
installations by the process; the clause `signals` is stated for **every** call, unguarded. -/
namespace TTV.Spec.C15
open TTV.Reactor TTV.Spinner

/-! ## the expected result of one run -/

def fireRes : Act → Option Res
  | .fire v => some (.value v)
  | .fail e => some (.raised e)
  | _ => none

def nowAct : Op → Option Act
  | .now a => some a
  | .later _ _ => none

/-- the result the scenario's Deferred already has when `f` returns -/
def syncFire (sc : Scen) : Option Res := (sc.body.filterMap nowAct).findSome? fireRes

/-- the result `run_function` sees at once: `f` returned a value, raised, or returned a fired Deferred -/
def syncRes (sc : Scen) : Option Res :=
  match sc.term with
  | .ret v => some (.value v)
  | .raise e => some (.raised e)
  | .deferred => syncFire sc

/-- `f` itself asked the reactor to stop -/
def syncStop (sc : Scen) : Bool := (sc.body.filterMap nowAct).any (· == .stop)

/-- what a delayed call means for the outcome -/
inductive Kind | decisive (r : Res) | stop | other
deriving DecidableEq, Repr

def kindOf : Act → Kind
  | .fire v => .decisive (.value v)
  | .fail e => .decisive (.raised e)
  | .stop => .stop
  | _ => .other

def laterKind : Op → Option (Nat × Kind)
  | .later d a => some (d, kindOf a)
  | .now _ => none

/-- the delayed calls `(delay, kind)` in scheduling order: those made before `run`, the spinner's timeout
call, those made by `f` -/
def delayed (sc : Scen) : List (Nat × Kind) :=
  sc.pre.map (fun p => (p.1, kindOf p.2)) ++ (sc.timeout, Kind.decisive .timeout) :: sc.body.filterMap laterKind

/-- the first decisive call in the order (time, scheduling order): scan in scheduling order, a later call
replaces the best one only if it is due strictly earlier -/
def winner : List (Nat × Kind) → Option (Nat × Res) → Option (Nat × Res)
  | [], best => best
  | (t, .decisive r) :: rest, none => winner rest (some (t, r))
  | (t, .decisive r) :: rest, some (tb, rb) => winner rest (if t < tb then some (t, r) else some (tb, rb))
  | _ :: rest, best => winner rest best

/-- no stop request at an instant strictly before `t` -/
def noStopBefore (t : Nat) (cs : List (Nat × Kind)) : Bool :=
  cs.all fun c => c.2 != Kind.stop || t ≤ c.1

def expected (sc : Scen) : Res :=
  match syncRes sc with
  | some r => r
  | none =>
    if syncStop sc then .noresult else
    match winner (delayed sc) none with
    | none => .noresult
    | some (t, r) => if noStopBefore t (delayed sc) then r else .noresult

/-! ## labels -/

/-- label `l` belongs to: the l-th `pre` call, or the (l - |pre|)-th operation of `f` -/
def actOf (sc : Scen) (l : Nat) : Option Act :=
  if l < sc.pre.length then sc.pre[l]?.map (·.2)
  else match sc.body[l - sc.pre.length]? with
    | some (.later _ a) => some a
    | some (.now a) => some a
    | none => none

def laterLabels : Nat → List Op → List Nat
  | _, [] => []
  | i, .later _ _ :: rest => i :: laterLabels (i + 1) rest
  | i, .now _ :: rest => laterLabels (i + 1) rest

/-- labels of the delayed calls of the scenario -/
def delayedLabels (sc : Scen) : List Nat := List.range sc.pre.length ++ laterLabels sc.pre.length sc.body

def junkSel : Junk → Option Nat
  | .sel n => some n
  | .call _ => none

def evLabels (o : RunObs) : List Lbl := o.events.map (·.2)

/-- the event is the execution of a re-entry attempt -/
def isReenterEv (sc : Scen) (e : Nat × Lbl) : Bool :=
  match e.2 with
  | .user l => (match actOf sc l with | some (.reenter _) => true | _ => false)
  | .timeout => false

/-- the event is the execution of "register a selectable": its label -/
def selEv (sc : Scen) (e : Nat × Lbl) : Option Nat :=
  match e.2 with
  | .user l => (match actOf sc l with | some .addSel => some l | _ => none)
  | .timeout => none

/-- junk that is a delayed call of the scenario carries the label of one -/
def junkKnown (sc : Scen) (j : Junk) : Bool :=
  match j with
  | .call (.user l) => (delayedLabels sc).contains l
  | _ => true

/-! ## clauses over one run: scenario, junk in the spinner before the call, observation -/

def refused (jb : List Junk) : Bool := !jb.isEmpty

/-- the reactor rejects the timeout (and the run is not refused for stale junk before that): `reactor.callLater` raises,
`run` raises out of the statements before its `try … finally` -/
def rejects (sc : Scen) (jb : List Junk) : Bool := !refused jb && sc.bad

/-- `f` is never called: the run is refused or the timeout rejected -/
def skipped (sc : Scen) (jb : List Junk) : Bool := refused jb || sc.bad

/-- refuses to run while there is junk (and only then); a refusal changes nothing -/
def cStale (sc : Scen) (jb : List Junk) (o : RunObs) : Bool :=
  (o.result == .stalejunk) == refused jb &&
  (!refused jb ||
    (o.events.isEmpty && o.reentries.isEmpty && o.junk == jb && o.pending == sc.pre.length && o.sels == 0
      && !o.running && o.stopRestored && o.sigAfter == o.sigBefore && o.elapsed == 0))

/-- a timeout the reactor does not accept makes `run` raise what `reactor.callLater` raised (and only that does); such
a call changes nothing: no event, no junk, what the caller scheduled is still pending, every signal handler (preserved
or not), `reactor.stop` and the reactor's state are what they were -/
def cRejected (sc : Scen) (jb : List Junk) (o : RunObs) : Bool :=
  (o.result == .rejected) == rejects sc jb &&
  (!rejects sc jb ||
    (o.events.isEmpty && o.reentries.isEmpty && o.junk == jb && o.pending == sc.pre.length && o.sels == 0
      && !o.running && o.stopRestored && o.sigAfter == o.sigBefore && o.elapsed == 0))

/-- every re-entrant call was refused with ReentryError, one per attempt -/
def cReentry (sc : Scen) (_ : List Junk) (o : RunObs) : Bool :=
  o.reentries.all (· == .reentry) && o.result != .reentry &&
  o.reentries.length == (o.events.filter (isReenterEv sc)).length

def cResult (sc : Scen) (jb : List Junk) (o : RunObs) : Bool :=
  skipped sc jb || o.result == expected sc

/-- the signals the property names (independent of what the code's table says) -/
def mustPreserve (s : Nat) : Bool :=
  match sigNames[s]? with
  | some n => ["SIGINT", "SIGTERM", "SIGCHLD"].contains n
  | none => false

def preservedSame : Nat → List Nat → List Nat → Bool
  | _, [], [] => true
  | s, a :: as, b :: bs => (!mustPreserve s || a == b) && preservedSame (s + 1) as bs
  | _, _, _ => false

/-- afterwards: not running, nothing pending, no selectables, `reactor.stop` and the preserved signal
handlers are what they were -/
def opAct' : Op → Act
  | .later _ a => a
  | .now a => a

/-- some call of the scenario installs a signal handler -/
def installsHandler (sc : Scen) : Bool :=
  (sc.pre.map (·.2) ++ sc.body.map opAct').any fun a => match a with
    | .setSig _ _ => true
    | _ => false

/-- with obligatory iterations (`_OBLIGATORY_REACTOR_ITERATIONS > 0`) a leftover call of the scenario that installs a signal
handler may be run by `_clean` AFTER `_restore_signals`: then - and only then - the handlers need not be the old ones -/
def lateHandler (sc : Scen) : Bool := decide (sc.oblig > 0) && installsHandler sc

def cClean (sc : Scen) (jb : List Junk) (o : RunObs) : Bool :=
  skipped sc jb ||
    (!o.running && o.pending == 0 && o.sels == 0 && o.stopRestored && (lateHandler sc || preservedSame 0 o.sigBefore o.sigAfter))

/-- **whenever `run` returns or raises** - its own result, a timeout, a refusal, an exception of `reactor.callLater` - the
SIGINT / SIGTERM / SIGCHLD handlers are what they were immediately before *that* call, whatever this spinner did or
failed to do before and whatever the process installed in between -/
def cSignals (sc : Scen) (_ : List Junk) (o : RunObs) : Bool := lateHandler sc || preservedSame 0 o.sigBefore o.sigAfter

def isOwnResult : Res → Bool
  | .value _ => true
  | .raised _ => true
  | _ => false

/-- the leftovers are exactly the recorded junk: every delayed call of the scenario either ran or is junk
(exactly one of the two, once); the timeout call ran, or was cancelled (a result was recorded), or is junk;
nothing else is junk; the selectables registered by executed actions are junk, in order -/
def cJunk (sc : Scen) (jb : List Junk) (o : RunObs) : Bool :=
  -- (the exact accounting is for the plain Spinner; with obligatory iterations leftovers run, and schedule, after the loop:
  -- then `clean` - nothing pending, no selectables - and the differential check speak)
  skipped sc jb || decide (sc.oblig > 0) ||
    ((delayedLabels sc).all (fun l => o.junk.count (.call (.user l)) + (evLabels o).count (.user l) == 1)
     && o.junk.count (.call .timeout) + (evLabels o).count .timeout + (if isOwnResult o.result then 1 else 0) == 1
     && o.junk.all (junkKnown sc)
     && o.junk.filterMap junkSel == o.events.filterMap (selEv sc))

/-- the run never lasts beyond the timeout -/
def cBounded (sc : Scen) (jb : List Junk) (o : RunObs) : Bool :=
  skipped sc jb || o.elapsed ≤ sc.timeout

/-! ## lifting to histories -/

def shape : List Step → List Obs → Bool
  | [], [] => true
  | .run _ :: ss, .run _ :: os => shape ss os
  | .clearJunk :: ss, .cleared _ :: os => shape ss os
  | .setSig _ _ :: ss, .sigs _ :: os => shape ss os
  | .swap :: ss, .swapped :: os => shape ss os
  | _, _ => false

/-- `p` holds of every run; the junk before a run is what the previous observation left -/
def forRuns (p : Scen → List Junk → RunObs → Bool) : List Step → List Obs → List Junk → List Junk → Bool
  | .run sc :: ss, .run o :: os, jb, jo => p sc jb o && forRuns p ss os o.junk jo
  | .clearJunk :: ss, .cleared _ :: os, _, jo => forRuns p ss os [] jo
  | .setSig _ _ :: ss, .sigs _ :: os, jb, jo => forRuns p ss os jb jo
  | .swap :: ss, .swapped :: os, jb, jo => forRuns p ss os jo jb
  | _, _, _, _ => true

/-- `clear_junk()` returns the junk and empties it -/
def clearOk : List Step → List Obs → List Junk → List Junk → Bool
  | .run _ :: ss, .run o :: os, _, jo => clearOk ss os o.junk jo
  | .clearJunk :: ss, .cleared j :: os, jb, jo => j == jb && clearOk ss os [] jo
  | .setSig _ _ :: ss, .sigs _ :: os, jb, jo => clearOk ss os jb jo
  | .swap :: ss, .swapped :: os, jb, jo => clearOk ss os jo jb
  | _, _, _, _ => true

/-- the handlers through the history: a call of `run` finds what the previous step left; between calls only the process
changes them (`cur`: the handlers now) -/
def sigThread : List Step → List Obs → List Nat → Bool
  | .run _ :: ss, .run o :: os, cur => o.sigBefore == cur && sigThread ss os o.sigAfter
  | .clearJunk :: ss, .cleared _ :: os, cur => sigThread ss os cur
  | .setSig s h :: ss, .sigs l :: os, cur => l == cur.set s h && sigThread ss os l
  | .swap :: ss, .swapped :: os, cur => sigThread ss os cur
  | _, _, _ => true

def lift (p : Scen → List Junk → RunObs → Bool) (i : Input) (t : Trace) : Bool := forRuns p i.steps t [] []

def clauses : List (String × (Input → Trace → Bool)) :=
  [("shape", fun i t => shape i.steps t),
   ("stale-junk", lift cStale),
   ("rejected", lift cRejected),
   ("reentry", lift cReentry),
   ("result", lift cResult),
   ("clean", lift cClean),
   ("signals", lift cSignals),
   ("handlers-thread", fun i t => sigThread i.steps t [0, 0, 0, 0]),
   ("junk", lift cJunk),
   ("bounded", lift cBounded),
   ("clear-junk", fun i t => clearOk i.steps t [] [])]

def holds (i : Input) (t : Trace) : Bool := clauses.all fun c => c.2 i t

end TTV.Spec.C15
