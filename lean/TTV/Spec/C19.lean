import TTV.Model.Suite
/-! Executable specification of C19 over observed traces.  Every clause is a `Bool` function of the
input and the trace; `TTV.Props.C19` proves them for the model's trace and relates them to the
`Prop`-level statements. -/
namespace TTV.Spec.C19
open TTV.Suite

/- `rel S t t'`: `t'` is `t` with exactly the cases whose id is outside `S` replaced by an empty plain
suite — same suites (same class), same grouping, same order. -/
mutual
def rel (S : Nat → Bool) : T → T → Bool
  | .case id, .case id' => S id && id == id'
  | .case id, .suite k cs => !S id && k == .plain && cs.isEmpty
  | .suite k cs, .suite k' cs' => k == k' && relL S cs cs'
  | .suite _ _, .case _ => false
def relL (S : Nat → Bool) : List T → List T → Bool
  | [], [] => true
  | t :: ts, u :: us => rel S t u && relL S ts us
  | _, _ => false
end

def ascending (xs : List Nat) : List Nat := xs.mergeSort (fun a b => a ≤ b)

/-- what is compared of a top-level item of the sorted result: its class (none = a test case) and its
set of leaf ids -/
def summary : T → Option Kind × List Nat
  | .case id => (none, [id])
  | .suite k cs => (some k, ascending (iterateL cs))

/- top-level items expected in the result: plain suites unpacked, other suites whole, each with the
key it is placed by (its first test).

READING (audit/C19 V2).  "Custom suites kept whole and placed by their first test": the first test the suite yields when
`sorted_tests` reaches it, i.e. BEFORE the suite's own `sort_tests` has run (the code takes the id, then calls `sort_tests`).  A
suite with `sort_tests` whose tests were not in order is therefore placed by a test that is no longer its first one in the result,
and `sorted_tests` is not idempotent on such trees (sorting the result again may move the suite).  Taking the id after sorting
would be the other reading; the seeded change C19-a is exactly that swap and is reported as a violation of this reading. -/
mutual
def tops : T → List (Option Nat × (Option Kind × List Nat))
  | .case id => [(some id, (none, [id]))]
  | .suite k cs => if k = .plain then topsL cs else [((iterateL cs).head?, (some k, ascending (iterateL cs)))]
def topsL : List T → List (Option Nat × (Option Kind × List Nat))
  | [] => []
  | t :: ts => tops t ++ topsL ts
end

def isPlainSuite : T → Bool
  | .suite .plain _ => true
  | _ => false

/-- a suite with a `sort_tests` method has been sorted itself -/
def innerSorted : T → Bool
  | .suite .csort cs => decide ((cs.map fun c => (iterate c).head?).Pairwise (fun a b => keyLe a b = true))
  | _ => true

def cIter (i : Input) (t : Trace) : Bool := t.iter == iterate i.tree
def cFilterIds (i : Input) (t : Trace) : Bool :=
  t.filtIter == (iterate i.tree).filter (fun x => i.ids.contains x)
def cFilterShape (i : Input) (t : Trace) : Bool :=
  rel (fun x => i.ids.contains x) i.tree t.filtered && t.filtIter == iterate t.filtered
def cSortedDup (i : Input) (t : Trace) : Bool := t.sorted.isNone == hasDup (iterate i.tree)
def cSortedItems (i : Input) (t : Trace) : Bool :=
  match t.sorted with
  | none => true
  | some (.suite .plain items) =>
      items.map summary == ((tops i.tree).mergeSort (fun a b => keyLe a.1 b.1)).map (·.2)
      && items.all (fun x => !isPlainSuite x)
  | some _ => false
def cSortedPerm (i : Input) (t : Trace) : Bool :=
  match t.sorted with
  | none => true
  | some r => ascending (iterate r) == ascending (iterate i.tree)
def cList (i : Input) (t : Trace) : Bool := t.listed == iterate i.tree
def cLoad (i : Input) (t : Trace) : Bool :=
  t.loaded == (iterate i.tree).filter (fun x => i.ids.contains x)

/-- what `sorted_tests` returns can be filtered: exactly the chosen ids remain, in the sorted order -/
def cSortThenFilter (i : Input) (t : Trace) : Bool :=
  match t.sorted, t.sortFilt with
  | none, none => true
  | some r, some ids => ids == (iterate r).filter (fun x => i.ids.contains x)
  | _, _ => false

/-- what identifies a suite OBJECT in a model whose trees are values: its class and its tests (ids ascending - wherever
`sorted_tests` answers at all the ids are unique, so two different non-empty suites never share this) -/
abbrev Ident := Kind × List Nat

/- every suite that is not exactly a `unittest.TestSuite`, at ANY depth, each with the nearest such suite around it -/
mutual
def customs (par : Option Ident) : T → List (Ident × Option Ident)
  | .case _ => []
  | .suite k cs =>
    if k = .plain then customsL par cs
    else ((k, ascending (iterateL cs)), par) :: customsL (some (k, ascending (iterateL cs))) cs
def customsL (par : Option Ident) : List T → List (Ident × Option Ident)
  | [] => []
  | t :: ts => customs par t ++ customsL par ts
end

/-- "custom suites kept whole" AT EVERY DEPTH (seed C19-f): every suite of the input that is not a plain `TestSuite` - also one
nested inside a suite whose own `sort_tests` ran (a `FixtureSuite` inside a `FixtureSuite`), also one nested inside a suite kept
as it is - is still there in the result as one suite of its class with its own tests, inside the same custom suite as before; and
the result has no others.  (Only plain suites are dissolved.  That the surviving suite is the very same OBJECT, and that a kept
`FixtureSuite` still sets its fixture up when the result is run, is checked on the real objects by the harness.) -/
def cSortedWhole (i : Input) (t : Trace) : Bool :=
  match t.sorted with
  | none => true
  | some r => (customs none r).isPerm (customs none i.tree)

def clauses : List (String × (Input → Trace → Bool)) :=
  [("iterate", cIter), ("filter-ids", cFilterIds), ("filter-shape", cFilterShape),
   ("sorted-dup", cSortedDup), ("sorted-items", cSortedItems), ("sorted-perm", cSortedPerm),
   ("list", cList), ("load-list", cLoad), ("sort-then-filter", cSortThenFilter), ("sorted-whole", cSortedWhole)]

def holds (i : Input) (t : Trace) : Bool := clauses.all fun c => c.2 i t

end TTV.Spec.C19
