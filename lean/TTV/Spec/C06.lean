import TTV.Model.Matchers
/-! Executable specification of C06: the *documented* predicate of every stock matcher.

`spec m v : Option Verdict` — `none` means "`v` is outside the documented domain of `m`" (the property
makes no claim there); `some .match` / `some .mismatch` is the documented verdict; `some (.raised c)`
occurs only for `Raises`: "exceptions which are not subclasses of Exception propagate out of the
Raises.match call unless they are explicitly matched".  Combinators are truth-functional over their
parts and strict: they are specified when every part has a Boolean verdict.

The spec does not follow the code's algorithms: `SameMembers` is equality of multiplicities,
`MatchesSetwise` is the existence of a one-to-one assignment of values to matchers (search over all
assignments), the dict matchers are key-set conditions plus per-key matchers. -/
namespace TTV.Spec.C06
open TTV.Matchers

def strictB : Option Verdict → Option Bool
  | some .match => some true
  | some .mismatch => some false
  | _ => none

/-- all parts Boolean -/
def bools : List (Option Verdict) → Option (List Bool)
  | [] => some []
  | r :: rs => match strictB r, bools rs with
      | some b, some bs => some (b :: bs)
      | _, _ => none

def countV (x : V) (xs : List V) : Nat := (xs.filter (veq x)).length

/- leaves: the documented predicate is the Python operation itself; a value on which it raises is outside
the domain.  (`MatchesPredicate` with a message that does not have exactly one conversion raises while
building its mismatch: such a matcher is built outside its documented domain.) -/
def leafSpec : Leaf → V → Option Verdict
  | .sameMembers e, v => match pyIter v with
      | some xs => some (.ofBool ((e ++ xs).all fun x => countV x e == countV x xs))
      | none => none
  | .raisesAny, v => match v with
      | .fnRet _ => some .mismatch
      | .fnRaise e => some (if isUser e.cls then .match else .raised e.cls)
      | _ => none
  | l, v => match leafImpl l v with
      | .raised _ => none
      | r => some r

def allSome {α : Type} : List (Option α) → Option (List α)
  | [] => some []
  | some a :: rs => (allSome rs).map (a :: ·)
  | none :: _ => none

def subsetB (a b : List Key) : Bool := a.all fun k => b.contains k

def keyCond (kind : DictKind) (ks oks : List Key) : Bool :=
  match kind with
  | .exact => subsetB ks oks && subsetB oks ks
  | .contains => subsetB ks oks
  | .containedBy => subsetB oks ks

mutual
def spec : M → V → Option Verdict
  | .leaf l, v => leafSpec l v
  | .excTypeV cs vm, v => match v with
      | .exc e true =>
          if excTypeMatches cs e then (strictB (spec vm (.exc e false))).map Verdict.ofBool else some .mismatch
      | .tuple _ => none                 -- a tuple that is no exc_info: outside the domain
      | _ => some .mismatch
  | .raises em, v => match v with
      | .fnRet _ => some .mismatch
      | .fnRaise e => match strictB (spec em (.exc e true)) with
          | some true => some .match
          | some false => some (if isUser e.cls then .mismatch else .raised e.cls)
          | none => none
      | _ => none
  | .not m, v => (strictB (spec m v)).map fun b => .ofBool (!b)
  | .all _ ms, v => (bools (specRow ms v)).map fun bs => .ofBool (bs.all id)
  | .any ms, v => (bools (specRow ms v)).map fun bs => .ofBool (bs.any id)
  | .allMatch m, v => match pyIter v with
      | none => none
      | some xs => (bools (xs.map (spec m))).map fun bs => .ofBool (bs.all id)
  | .anyMatch m, v => match pyIter v with
      | none => none
      | some xs => (bools (xs.map (spec m))).map fun bs => .ofBool (bs.any id)
  | .listwise _ ms, v => match pyIter v with
      | none => none
      | some xs => (bools (specZip ms (xs.map some))).map fun bs =>
          .ofBool (xs.length == ms.length && bs.all id)
  | .setwise _ _ ms, v => match pyIter v with
      | none => none
      | some xs => (allSome (xs.map fun x => bools (specRow ms x))).map fun matrix =>
          .ofBool (assignB matrix (List.range ms.length))
  | .structure attrs ms, v =>
      if attrs.length != ms.length || (attrs.map (getAttr v)).any Option.isNone then none
      else (bools (specZip ms (attrs.map (getAttr v)))).map fun bs => .ofBool (bs.all id)
  | .dict kind ks ms, v => match v with
      | .dict oks ovs =>
          if ks.length != ms.length then none
          else (bools (specZip ms (ks.map fun k => lookupK k oks ovs))).map fun bs =>
            .ofBool (keyCond kind ks oks && bs.all id)
      | _ => none
  | .annotate m, v => spec m v
  | .after f _ m, v => match applyPre f v with
      | .ok w => spec m w
      | .error _ => none
def specRow : List M → V → List (Option Verdict)
  | [], _ => []
  | m :: ms, v => spec m v :: specRow ms v
/-- matcher `i` on value `i`, positions without a value are skipped -/
def specZip : List M → List (Option V) → List (Option Verdict)
  | m :: ms, some v :: vs => spec m v :: specZip ms vs
  | _ :: ms, none :: vs => specZip ms vs
  | _, _ => []
end

/-! ## clauses over the observed trace -/
def cSound (i : Input) (t : Trace) : Bool :=
  match spec i.m i.v with
  | none => true
  | some s => t.first == canon i.m s
def cDeterministic (i : Input) (t : Trace) : Bool :=
  t.again == t.first && ((spec i.m i.v).isNone || t.other == t.first)
def cPure (_ : Input) (t : Trace) : Bool := t.pureM && t.pureV

def clauses : List (String × (Input → Trace → Bool)) :=
  [("sound", cSound), ("deterministic", cDeterministic), ("pure", cPure)]

def holds (i : Input) (t : Trace) : Bool := clauses.all fun c => c.2 i t

end TTV.Spec.C06
