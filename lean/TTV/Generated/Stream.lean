import TTV.Model.StreamTypes
/-! GENERATED on every run from the tree under test by `harness/props/_stream.py` (tie 1) - do not edit.
`interim` = `INTERIM_STATES`, `statusMap` = `_status_map` (read), `bucket`/`counted` = the public list of
`StreamSummary` a single test reported with that status is appended to / whether `testsRun` counts it
(observed on one-event streams), `failFast` = the statuses for which `StreamFailFast` calls `on_error` (observed). -/
namespace TTV.Generated.Stream
open TTV.Stream

def interim : List (Option Status) := [none, some .inprogress]

def statusMap : Status → Option Outcome
  | .inprogress => some .failure
  | .exist => none
  | .xfail => some .xfail
  | .uxsuccess => some .uxsuccess
  | .success => some .success
  | .fail => some .failure
  | .skip => some .skip
  | .unknown => some .failure

def bucket : Status → Bucket
  | .inprogress => .errors
  | .exist => .none
  | .xfail => .expectedFailures
  | .uxsuccess => .unexpectedSuccesses
  | .success => .none
  | .fail => .errors
  | .skip => .skipped
  | .unknown => .errors

def counted : Status → Bool
  | .inprogress => true
  | .exist => false
  | .xfail => true
  | .uxsuccess => true
  | .success => true
  | .fail => true
  | .skip => true
  | .unknown => true

def failFast : List Status := [.uxsuccess, .fail]

end TTV.Generated.Stream
