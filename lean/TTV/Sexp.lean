/-! Minimal S-expression reader/printer (import-free) used by the line-protocol driver.
Atoms are maximal runs of characters other than whitespace and parentheses.  Text that may contain
such characters travels as a list of code points (see `chars?` / `ofChars`). -/
namespace TTV

inductive Sexp where
  | atom (s : String)
  | list (xs : List Sexp)
deriving Repr, Inhabited

namespace Sexp

inductive Tok | lp | rp | at_ (s : String)

def tokenize (s : String) : List Tok := Id.run do
  let mut toks : Array Tok := #[]
  let mut cur : String := ""
  for c in s.toList do
    if c = '(' || c = ')' || c = ' ' || c = '\n' || c = '\t' || c = '\r' then
      if cur ≠ "" then
        toks := toks.push (.at_ cur)
        cur := ""
      if c = '(' then toks := toks.push .lp
      else if c = ')' then toks := toks.push .rp
    else
      cur := cur.push c
  if cur ≠ "" then toks := toks.push (.at_ cur)
  return toks.toList

/-- stack-based parse: `stack` holds the partially built enclosing lists (reversed items) -/
def parseToks : List Tok → List (List Sexp) → Option Sexp
  | [], [ [x] ] => some x
  | [], _ => none
  | .lp :: ts, st => parseToks ts ([] :: st)
  | .rp :: ts, top :: parent :: st => parseToks ts ((Sexp.list top.reverse :: parent) :: st)
  | .rp :: _, _ => none
  | .at_ a :: ts, top :: st => parseToks ts ((Sexp.atom a :: top) :: st)
  | .at_ _ :: _, [] => none

def parse (s : String) : Option Sexp := parseToks (tokenize s) [[]]

partial def toStr : Sexp → String
  | .atom s => s
  | .list xs => "(" ++ " ".intercalate (xs.map toStr) ++ ")"

/-! decoders -/
def nat? : Sexp → Option Nat
  | .atom s => s.toNat?
  | _ => none
def int? : Sexp → Option Int
  | .atom s => s.toInt?
  | _ => none
def bool? : Sexp → Option Bool
  | .atom "T" => some true
  | .atom "F" => some false
  | _ => none
def str? : Sexp → Option String
  | .atom s => some s
  | _ => none
def list? (f : Sexp → Option α) : Sexp → Option (List α)
  | .list xs => xs.mapM f
  | _ => none
/-- `none` is the atom `none`; anything else is `(some x)` -/
def opt? (f : Sexp → Option α) : Sexp → Option (Option α)
  | .atom "none" => some none
  | .list [.atom "some", x] => (f x).map some
  | _ => none
def pair? (f : Sexp → Option α) (g : Sexp → Option β) : Sexp → Option (α × β)
  | .list [a, b] => do some (← f a, ← g b)
  | _ => none
/-- text as a list of code points -/
def chars? : Sexp → Option (List Char)
  | .list xs => xs.mapM fun x => (nat? x).map Char.ofNat
  | _ => none

/-! encoders -/
def ofNat (n : Nat) : Sexp := .atom (toString n)
def ofInt (n : Int) : Sexp := .atom (toString n)
def ofBool (b : Bool) : Sexp := .atom (if b then "T" else "F")
def ofList (f : α → Sexp) (xs : List α) : Sexp := .list (xs.map f)
def ofOpt (f : α → Sexp) : Option α → Sexp
  | none => .atom "none"
  | some x => .list [.atom "some", f x]
def ofPair (f : α → Sexp) (g : β → Sexp) (p : α × β) : Sexp := .list [f p.1, g p.2]
def ofChars (cs : List Char) : Sexp := .list (cs.map fun c => ofNat c.toNat)
def tag (t : String) (xs : List Sexp) : Sexp := .list (.atom t :: xs)

end Sexp

/-- What a property plugs into the driver.  `clauses` are the named conjuncts of the property's
executable specification `holds`; the same functions are used by the theorems (on the model's trace)
and by the driver (on the implementation's trace). -/
structure PropDrv (I T : Type) where
  decI : Sexp → Option I
  decT : Sexp → Option T
  encT : T → Sexp
  model : I → T
  clauses : List (String × (I → T → Bool))
  /-- names of the known-finding classes the input belongs to -/
  classes : I → List String := fun _ => []

namespace PropDrv
variable {I T : Type}

def failed (d : PropDrv I T) (i : I) (t : T) : List String :=
  (d.clauses.filter fun c => !c.2 i t).map (·.1)

/-- request `(input implTrace)` → `(modelTrace specOnImpl specOnModel classes)` -/
def handle (d : PropDrv I T) : List Sexp → Sexp
  | [inp, impl] =>
    match d.decI inp with
    | none => .atom "bad-input"
    | some i =>
      let m := d.model i
      let enc (fs : List String) : Sexp := if fs.isEmpty then .atom "ok" else Sexp.tag "fail" (fs.map .atom)
      let si := match d.decT impl with
        | none => Sexp.tag "fail" [.atom "undecodable-trace"]
        | some t => enc (d.failed i t)
      .list [d.encT m, si, enc (d.failed i m), .list ((d.classes i).map .atom)]
  | [inp] =>
    match d.decI inp with
    | none => .atom "bad-input"
    | some i => let m := d.model i; .list [d.encT m]
  | _ => .atom "bad-request"
end PropDrv
end TTV
