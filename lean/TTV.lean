-- root of the TTV library: models, specs, driver glue and property theorems
import TTV.Sexp
import TTV.Model.Suite
import TTV.Spec.C19
import TTV.Drv.C19
import TTV.Props.C19
