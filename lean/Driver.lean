import TTV.Sexp
import TTV.Drv.C01
import TTV.Drv.C02
import TTV.Drv.C03
import TTV.Drv.C04
import TTV.Drv.C05
import TTV.Drv.C06
import TTV.Drv.C07
import TTV.Drv.C08
import TTV.Drv.C09
import TTV.Drv.C10
import TTV.Drv.C11
import TTV.Drv.C12
import TTV.Drv.C13
import TTV.Drv.C14
import TTV.Drv.C15
import TTV.Drv.C16
import TTV.Drv.C17
import TTV.Drv.C18
import TTV.Drv.C19
import TTV.Drv.C20
/-! Line-protocol driver.  One request per line: `(<property> <input> <implementation trace>)`;
one reply per line (see `TTV.PropDrv.handle`).  Imports models, specs and codecs only — never
`TTV.Props`, so it still builds and runs when a proof obligation is broken. -/
open TTV

def dispatch : String → List Sexp → Sexp
  | "C01", a => Drv.C01.handle a
  | "C02", a => Drv.C02.handle a
  | "C03", a => Drv.C03.handle a
  | "C04", a => Drv.C04.handle a
  | "C05", a => Drv.C05.handle a
  | "C06", a => Drv.C06.handle a
  | "C07", a => Drv.C07.handle a
  | "C08", a => Drv.C08.handle a
  | "C09", a => Drv.C09.handle a
  | "C10", a => Drv.C10.handle a
  | "C11", a => Drv.C11.handle a
  | "C12", a => Drv.C12.handle a
  | "C13", a => Drv.C13.handle a
  | "C14", a => Drv.C14.handle a
  | "C15", a => Drv.C15.handle a
  | "C16", a => Drv.C16.handle a
  | "C17", a => Drv.C17.handle a
  | "C18", a => Drv.C18.handle a
  | "C19", a => Drv.C19.handle a
  | "C20", a => Drv.C20.handle a
  | _, _ => .atom "unknown-property"

def handleLine (line : String) : String :=
  match Sexp.parse line with
  | some (.list (.atom p :: args)) => (dispatch p args).toStr
  | _ => "bad-line"

partial def loop (h : IO.FS.Stream) (out : IO.FS.Stream) : IO Unit := do
  let line ← h.getLine
  if line.isEmpty then return ()
  out.putStrLn (handleLine line)
  loop h out

def main : IO Unit := do
  let out ← IO.getStdout
  loop (← IO.getStdin) out
  out.flush
