import TTV.Sexp
import TTV.Drv.C19
/-! Line-protocol driver.  One request per line: `(<property> <input> <implementation trace>)`;
one reply per line (see `TTV.PropDrv.handle`).  Imports models, specs and codecs only — never
`TTV.Props`, so it still builds and runs when a proof obligation is broken. -/
open TTV

def dispatch : String → List Sexp → Sexp
  | "C19", a => Drv.C19.handle a
  | _, _ => .atom "unknown-property"

def handleLine (line : String) : String :=
  match Sexp.parse line with
  | some (.list (.atom p :: args)) => (dispatch p args).toStr
  | _ => "bad-line"

partial def loop (h : IO.FS.Stream) (out : IO.FS.Stream) : IO Unit := do
  let line ← h.getLine
  if line.isEmpty then return ()
  out.putStrLn (handleLine line)
  loop h out

def main : IO Unit := do
  let out ← IO.getStdout
  loop (← IO.getStdin) out
  out.flush
