#!/venv/bin/python
"""make.py - (re)creates the behaviour-preserving rewrites H*.diff and the near-miss mutants M*.diff of this directory from /repo HEAD
(textual substitutions in a scratch worktree, never in /repo) and prints, for each, whether the data that harness/pymatch2lean.py
generates changes.  Expected: H* leave TTV/Generated/MatchSrc.lean byte-identical (then the C06_src_* / C07_src_* ties hold);
M* change it (the ties break and the check reports them); N* are behaviour-preserving rewrites that are deliberately not tolerated.  The full outcome of a patch is obtained with tools/try_harmless.py."""
import os, re, subprocess, sys, tempfile
HERE = os.path.dirname(os.path.abspath(__file__))
V = os.path.dirname(HERE)
sys.path.insert(0, V)
from harness import pymatch2lean

HO, BA, DS, DI, EX, IM = ('testtools/matchers/' + n for n in ('_higherorder.py', '_basic.py', '_datastructures.py', '_dict.py', '_exception.py', '_impl.py'))
TC, AS = 'testtools/testcase.py', 'testtools/assertions.py'
WA = 'testtools/matchers/_warnings.py'

# (name, file, [(old, new)...], what)
H = [
 ('H01', HO, [('        results = []\n        for matcher in self.matchers:\n            mismatch = matcher.match(matchee)\n            if mismatch is None:\n                return None\n            results.append(mismatch)\n        return MismatchesAll(results)',
               '        found = []\n        for each in self.matchers:\n            m = each.match(matchee)\n            if m is None:\n                return None\n            found.append(m)\n        return MismatchesAll(found)')], 'MatchesAny.match: renamed locals'),
 ('H02', HO, [('            if mismatch is None:\n                return None\n            results.append(mismatch)\n        return MismatchesAll(results)',
               '            if not (mismatch is not None):\n                return\n            results.append(mismatch)\n        return MismatchesAll(results)')], 'MatchesAny.match: `not (x is not None)`, bare return'),
 ('H03', HO, [('            if mismatch is not None:\n                if self.first_only:', '            if not mismatch is None:\n                if self.first_only:')], 'MatchesAll.match: `not x is None`'),
 ('H04', HO, [('        if results:\n            return MismatchesAll(results)\n        else:\n            return None', '        if results:\n            return MismatchesAll(results)\n        return None')], 'MatchesAll.match: else dropped after a returning branch'),
 ('H05', HO, [('            if mismatch:\n                mismatches.append(mismatch)\n        if mismatches:\n            return MismatchesAll(mismatches)\n', '            if mismatch:\n                mismatches.append(mismatch)\n        if mismatches:\n            return MismatchesAll(mismatches)\n        return None\n')], 'AllMatch.match: explicit `return None`'),
 ('H06', HO, [('            if mismatch:\n                mismatches.append(mismatch)\n            else:\n                return None\n        return MismatchesAll(mismatches)', '            if bool(mismatch):\n                mismatches.append(mismatch)\n            else:\n                return\n        return MismatchesAll(mismatches)')], 'AnyMatch.match: bool(x), bare return'),
 ('H07', HO, [('        if mismatch is None:\n            return MatchedUnexpectedly(self.matcher, other)\n        else:\n            return None', '        if mismatch is None:\n            return MatchedUnexpectedly(self.matcher, other)\n        return None')], 'Not.match: else dropped'),
 ('H08', HO, [('        mismatch = self.matcher.match(other)\n        if mismatch is not None:\n            return AnnotatedMismatch(self.annotation, mismatch)\n', '        """Annotate the mismatch of the wrapped matcher, if any."""\n        inner = self.matcher.match(other)\n        if inner is not None:\n            return AnnotatedMismatch(self.annotation, inner)\n        return None\n')], 'Annotate.match: docstring, renamed local, explicit return None'),
 ('H09', HO, [('        after = self.preprocessor(value)', '        processed = self.preprocessor(value)'), ('        return matcher.match(after)', '        return matcher.match(processed)')], 'AfterPreprocessing.match: renamed local'),
 ('H10', HO, [('            return Mismatch(self.message % (x,))\n', '            return Mismatch(self.message % (x,))\n        return None\n')], 'MatchesPredicate.match: explicit return None'),
 ('H11', BA, [('        if self.comparator(other, self.expected):\n            return None\n        return _BinaryMismatch(other, self.mismatch_string, self.expected)', '        if self.comparator(other, self.expected):\n            return None\n        else:\n            return _BinaryMismatch(other, self.mismatch_string, self.expected)')], '_BinaryComparison.match: else added'),
 ('H12', BA, [('        if expected_only == observed_only == []:\n            return\n', '        if expected_only == observed_only == []:\n            return None\n')], 'SameMembers.match: return None'),
 ('H13', BA, [('    def match(self, matchee):\n        if not matchee.startswith(self.expected):\n            return DoesNotStartWith(matchee, self.expected)', '    def match(self, text):\n        if not text.startswith(self.expected):\n            return DoesNotStartWith(text, self.expected)')], 'StartsWith.match: renamed parameter'),
 ('H14', BA, [('        except (TypeError, ValueError):', '        except (ValueError, TypeError):')], 'Contains.match: order of the caught classes'),
 ('H15', BA, [('        if isinstance(other, self.types):\n            return None\n        return NotAnInstance(other, self.types)', '        if isinstance(other, self.types):\n            return None\n        else:\n            return NotAnInstance(other, self.types)')], 'IsInstance.match: else added'),
 ('H16', DS, [('        mismatches = []\n        length_mismatch = Annotate(\n            "Length mismatch", HasLength(len(self.matchers))\n        ).match(values)\n        if length_mismatch:\n            mismatches.append(length_mismatch)', '        problems = []\n        lm = Annotate("Length mismatch", HasLength(len(self.matchers))).match(values)\n        if lm:\n            problems.append(lm)'),
              ('                if self.first_only:\n                    return mismatch\n                mismatches.append(mismatch)\n        if mismatches:\n            return MismatchesAll(mismatches)', '                if self.first_only:\n                    return mismatch\n                problems.append(mismatch)\n        if problems:\n            return MismatchesAll(problems)')], 'MatchesListwise.match: renamed locals'),
 ('H17', DS, [('        for attr, matcher in sorted(self.kws.items()):\n            matchers.append(Annotate(attr, matcher))\n            values.append(getattr(value, attr))', '        for name, m in sorted(self.kws.items()):\n            matchers.append(Annotate(name, m))\n            values.append(getattr(value, name))')], 'MatchesStructure.match: renamed loop variables'),
 ('H18', DS, [('reached_from', 'seen_from'), ('            queue = [start]\n            for value in queue:', '            todo = [start]\n            for value in todo:'), ('                        queue.append(value_of[matcher])', '                        todo.append(value_of[matcher])')], 'MatchesSetwise.match: renamed locals of the pairing search'),
 ('H19', DS, [('    return MatchesAll(*map(Contains, items), first_only=False)', '    return MatchesAll(*[Contains(item) for item in items], first_only=False)')], 'ContainsAll: map -> comprehension'),
 ('H20', DI, [('        common_keys = set(expected.keys()) & set(observed.keys())', '        common_keys = set(observed.keys()) & set(expected.keys())')], '_MatchCommonKeys: operands of & swapped (both .keys() calls happen before either set())'),
 ('H21', DI, [('        mismatches = {}\n        for label in self.matchers:\n            mismatches[label] = self.matchers[label].match(observed)\n        return _dict_to_mismatch(mismatches, result_mismatch=LabelledMismatches)', '        by_label = {}\n        for name in self.matchers:\n            by_label[name] = self.matchers[name].match(observed)\n        return _dict_to_mismatch(by_label, result_mismatch=LabelledMismatches)')], 'MatchesAllDict.match: renamed locals'),
 ('H22', EX, [('        expected_class = self.expected\n        if self._is_instance:\n            expected_class = expected_class.__class__\n        if not issubclass(other[0], expected_class):\n            return Mismatch(f"{other[0]!r} is not a {expected_class!r}")', '        klass = self.expected\n        if self._is_instance:\n            klass = klass.__class__\n        if not issubclass(other[0], klass):\n            return Mismatch(f"{other[0]!r} is not a {klass!r}")')], 'MatchesException.match: renamed local'),
 ('H23', IM, [('        if description is not None:\n            self._description = description', '        if not description is None:\n            self._description = description')], 'Mismatch.__init__: `not x is None`'),
 ('H24', IM, [('        difference = self.mismatch.describe()', '        diff = self.mismatch.describe()'), ('                difference,\n            )', '                diff,\n            )'), ('        else:\n            return difference', '        else:\n            return diff')], 'MismatchError.__str__: renamed local'),
 ('H25', TC, [('        mismatch_error = self._matchHelper(matchee, matcher, message, verbose)\n        if mismatch_error is not None:\n            raise mismatch_error', '        err = self._matchHelper(matchee, matcher, message, verbose)\n        if not err is None:\n            raise err')], 'assertThat: renamed local, `not x is None`'),
 ('H26', TC, [('            full_name = "%s-%d" % (name, suffix)\n            suffix += 1', '            full_name = "%s-%d" % (name, suffix)\n            suffix = suffix + 1')], 'addDetailUniqueName: `x += 1` -> `x = x + 1`'),
 ('H27', AS, [('    mismatch = matcher.match(matchee)\n    if not mismatch:\n        return\n    raise MismatchError(matchee, matcher, mismatch, verbose)', '    problem = matcher.match(matchee)\n    if not problem:\n        return None\n    raise MismatchError(matchee, matcher, problem, verbose)')], 'assert_that: renamed local, return None'),
 ('H28', BA, [('        if not re.match(self.pattern, value, self.flags):\n            pattern = self.pattern\n            if not isinstance(pattern, str):\n                pattern = pattern.decode("latin1")\n            pattern = pattern.encode("unicode_escape").decode("ascii")\n            return Mismatch(\n                "{!r} does not match /{}/".format(value, pattern.replace("\\\\\\\\", "\\\\"))\n            )',
               '        if not re.match(self.pattern, value, self.flags):\n            return Mismatch(\n                "{!r} does not match /{}/".format(value, self._shown_pattern())\n            )\n\n    def _shown_pattern(self):\n        pattern = self.pattern\n        if not isinstance(pattern, str):\n            pattern = pattern.decode("latin1")\n        pattern = pattern.encode("unicode_escape").decode("ascii")\n        return pattern.replace("\\\\\\\\", "\\\\")')], 'MatchesRegex.match: the text of the pattern moved into a pure helper'),
 ('H29', HO, [('            if mismatch is not None:\n                if self.first_only:\n                    return mismatch\n                results.append(mismatch)\n', '            if mismatch is None:\n                continue\n            if self.first_only:\n                return mismatch\n            results.append(mismatch)\n')], 'MatchesAll guard with continue'),
 ('H30', HO, [('        if mismatch is None:\n            return MatchedUnexpectedly(self.matcher, other)\n        else:\n            return None', '        if mismatch is not None:\n            return None\n        else:\n            return MatchedUnexpectedly(self.matcher, other)')], 'Not inverted if/else'),
 ('H31', HO, [('            if mismatch:\n                mismatches.append(mismatch)\n            else:\n                return None\n        return MismatchesAll(mismatches)', '            if not mismatch:\n                return None\n            else:\n                mismatches.append(mismatch)\n        return MismatchesAll(mismatches)')], 'AnyMatch inverted if/else'),
 ('H32', HO, [('            if mismatch is None:\n                return None\n            results.append(mismatch)\n        return MismatchesAll(results)', '            if mismatch is not None:\n                results.append(mismatch)\n            else:\n                return None\n        return MismatchesAll(results)')], 'MatchesAny inverted if/else'),
 ('H33', DI, [('        mismatches = {}\n        for label in self.matchers:\n            mismatches[label] = self.matchers[label].match(observed)\n', '        mismatches = {label: self.matchers[label].match(observed) for label in self.matchers}\n')], 'MatchesAllDict dict comprehension'),
 ('H34', IM, [('        if self.verbose:\n', '        if not self.verbose:\n            return difference\n        else:\n'), ('                difference,\n            )\n        else:\n            return difference\n', '                difference,\n            )\n')], 'MismatchError.__str__ inverted'),
 ('H35', TC, [('        if mismatch_error is not None:\n            raise mismatch_error\n', '        if mismatch_error is None:\n            return\n        raise mismatch_error\n')], 'assertThat guard'),
 ('H36', EX, [('            exc_info = sys.exc_info()', '            info = sys.exc_info()'), ('match(exc_info)', 'match(info)'), ('                    del exc_info\n                    return', '                    del info\n                    return'), ('            exception = exc_info[1]', '            exception = info[1]'), ('                del exc_info\n                raise', '                del info\n                raise')], 'Raises renamed exc_info'),
 ('H37', DS, [('        for matcher, value in zip(self.matchers, values):\n            mismatch = matcher.match(value)', '        for m, v in zip(self.matchers, values):\n            mismatch = m.match(v)')], 'Listwise renamed loop vars'),
 ('H38', DI, [('        for key in common_keys:\n            mismatch = expected[key].match(observed[key])\n            if mismatch:\n                mismatches[key] = mismatch', '        for k in common_keys:\n            problem = expected[k].match(observed[k])\n            if problem:\n                mismatches[k] = problem')], 'CommonKeys renamed'),
 ('H39', HO, [('        if mismatch is not None:\n            return AnnotatedMismatch(self.annotation, mismatch)\n', '        if mismatch is None:\n            return None\n        return AnnotatedMismatch(self.annotation, mismatch)\n')], 'Annotate guard inverted'),
 ('H40', TC, [('        if not mismatch:\n            return\n        for name, value in mismatch.get_details().items():\n            self.addDetailUniqueName(name, value)\n        return MismatchError(matchee, matcher, mismatch, verbose)', '        if mismatch:\n            for name, value in mismatch.get_details().items():\n                self.addDetailUniqueName(name, value)\n            return MismatchError(matchee, matcher, mismatch, verbose)\n        return None')], '_matchHelper inverted'),
 ('H41', BA, [('        if self.comparator(other, self.expected):\n            return None\n        return _BinaryMismatch(other, self.mismatch_string, self.expected)', '        if not self.comparator(other, self.expected):\n            return _BinaryMismatch(other, self.mismatch_string, self.expected)\n        return None')], 'BinaryComparison inverted'),
 ('H42', BA, [('        if isinstance(other, self.types):\n            return None\n        return NotAnInstance(other, self.types)', '        if not isinstance(other, self.types):\n            return NotAnInstance(other, self.types)')], 'IsInstance inverted falls off'),
 ('H43', IM, [('        if description is not None:\n            self._description = description', '        if description is None:\n            pass\n        else:\n            self._description = description')], 'Mismatch init inverted'),
 ('H44', EX, [('        expected_type = type(self.expected)\n        self._is_instance = not any(\n            issubclass(expected_type, class_type) for class_type in (type, tuple)\n        )\n', '        self._is_instance = not isinstance(self.expected, (type, tuple))\n')], 'MatchesException.__init__: isinstance(expected, (type, tuple)) for the issubclass test over type(expected)'),
 ('H45', EX, [('        expected_type = type(self.expected)\n        self._is_instance = not any(\n            issubclass(expected_type, class_type) for class_type in (type, tuple)\n        )\n', '        kind = type(exception)\n        self._is_instance = not (issubclass(kind, type) or issubclass(kind, tuple))\n')], 'MatchesException.__init__: the two issubclass tests written out'),
 ('H46', WA, [('        with warnings.catch_warnings(record=True) as w:', '        with warnings.catch_warnings(record=True) as recorded:'), ('                return self.warnings_matcher.match(w)\n            elif not w:\n                return Mismatch("Expected at least one warning, got none")', '                return self.warnings_matcher.match(recorded)\n            if recorded:\n                return None\n            return Mismatch("Expected at least one warning, got none")')], 'Warnings.match: renamed list, the empty test inverted'),
 ('H47', WA, [('            if self.warnings_matcher is not None:\n                return self.warnings_matcher.match(w)\n            elif not w:\n                return Mismatch("Expected at least one warning, got none")', '            if self.warnings_matcher is None:\n                if not w:\n                    return Mismatch("Expected at least one warning, got none")\n            else:\n                return self.warnings_matcher.match(w)')], 'Warnings.match: the matcher guard inverted'),
]
M = [
 ('M01', HO, [('            if mismatch is None:\n                return None\n            results.append(mismatch)', '            if not mismatch:\n                return None\n            results.append(mismatch)')], 'MatchesAny: `is None` -> truthiness'),
 ('M02', HO, [('            if mismatch is not None:\n                if self.first_only:', '            if mismatch:\n                if self.first_only:')], 'MatchesAll: `is not None` -> truthiness'),
 ('M03', HO, [('                if self.first_only:\n                    return mismatch\n                results.append(mismatch)', '                if not self.first_only:\n                    return mismatch\n                results.append(mismatch)')], 'MatchesAll: first_only inverted'),
 ('M04', HO, [('            if mismatch:\n                mismatches.append(mismatch)\n        if mismatches:', '            if mismatch is not None:\n                mismatches.append(mismatch)\n        if mismatches:')], 'AllMatch: truthiness -> `is not None`'),
 ('M05', HO, [('            else:\n                return None\n        return MismatchesAll(mismatches)', '        return MismatchesAll(mismatches)')], 'AnyMatch: no early return'),
 ('M06', HO, [('        if mismatch is None:\n            return MatchedUnexpectedly(self.matcher, other)', '        if mismatch is not None:\n            return MatchedUnexpectedly(self.matcher, other)')], 'Not: test inverted'),
 ('M07', BA, [('        if self.comparator(other, self.expected):', '        if self.comparator(self.expected, other):')], '_BinaryComparison: operands swapped'),
 ('M08', BA, [('    comparator = operator.__lt__', '    comparator = operator.__le__')], 'LessThan: <='),
 ('M09', BA, [('        except (TypeError, ValueError):', '        except TypeError:')], 'Contains: ValueError no longer caught'),
 ('M10', BA, [('        if expected_only == observed_only == []:', '        if expected_only == []:')], 'SameMembers: one direction only'),
 ('M11', DS, [('        for attr, matcher in sorted(self.kws.items()):', '        for attr, matcher in self.kws.items():')], 'MatchesStructure: sorted dropped'),
 ('M12', DS, [('            if mismatch:\n                if self.first_only:\n                    return mismatch', '            if mismatch:\n                if not self.first_only:\n                    return mismatch')], 'MatchesListwise: first_only inverted'),
 ('M13', DS, [('        if length_mismatch:\n            mismatches.append(length_mismatch)', '        if length_mismatch and not self.first_only:\n            mismatches.append(length_mismatch)')], 'MatchesListwise: length check dropped with first_only'),
 ('M14', DS, [('        matchers = list(self.matchers)', '        matchers = list(dict.fromkeys(self.matchers))')], 'MatchesSetwise: repeated matcher objects collapse'),
 ('M15', DS, [('[matcher.match(value) is None for matcher in matchers]', '[not matcher.match(value) for matcher in matchers]')], 'MatchesSetwise: acceptance by truthiness'),
 ('M16', DI, [('        "Missing": lambda m: _SuperDictOf(m, format_value=str),\n        "Differences": _MatchCommonKeys,\n    }\n\n    def format_expected(self, expected):\n        return _format_matcher_dict(expected)\n\n\nclass ContainedByDict', '        "Differences": _MatchCommonKeys,\n    }\n\n    def format_expected(self, expected):\n        return _format_matcher_dict(expected)\n\n\nclass ContainedByDict')], 'ContainsDict: the Missing part dropped'),
 ('M17', DI, [('            if mismatch:\n                mismatches[key] = mismatch', '            if mismatch is not None:\n                mismatches[key] = mismatch')], '_MatchCommonKeys: truthiness -> `is not None`'),
 ('M18', DI, [('        if list_subtract(self.expected, keys) or list_subtract(keys, self.expected):', '        if list_subtract(self.expected, keys):')], 'KeysEqual: one subtraction'),
 ('M19', EX, [('        except BaseException:', '        except Exception:')], 'Raises: except Exception'),
 ('M20', EX, [('                if not mismatch:\n                    del exc_info\n                    return', '                if mismatch is None:\n                    del exc_info\n                    return')], 'Raises: falsy -> `is None`'),
 ('M21', IM, [('        if description is not None:', '        if description:')], 'Mismatch.__init__: truthiness of the description'),
 ('M22', IM, [('                matchee = text_repr(self.matchee, multiline=False)', '                matchee = text_repr(self.matchee)')], 'MismatchError.__str__: multiline left to text_repr'),
 ('M23', TC, [('        while full_name in existing_details:', '        if full_name in existing_details:')], 'addDetailUniqueName: while -> if'),
 ('M24', TC, [('            self.force_failure = True', '            pass')], 'expectThat: failure no longer forced'),
 ('M25', TC, [('        mismatch = matcher.match(matchee)\n        if not mismatch:\n            return\n        for name, value', '        mismatch = matcher.match(matchee)\n        if mismatch is None:\n            return\n        for name, value')], '_matchHelper: falsy -> `is None`'),
 ('M26', AS, [('    matcher = Annotate.if_message(message, matcher)\n', '')], 'assert_that: message ignored'),
 ('M27', HO, [('            if mismatch is None:\n                return None\n            results.append(mismatch)', '            if mismatch is None:\n                continue\n            results.append(mismatch)')], 'MatchesAny: a match no longer ends the loop'),
 ('M28', HO, [('        if mismatch is not None:\n            return AnnotatedMismatch(self.annotation, mismatch)', '        if mismatch is None:\n            return AnnotatedMismatch(self.annotation, mismatch)')], 'Annotate: test inverted'),
 ('M29', HO, [('            else:\n                return None\n        return MismatchesAll(mismatches)', '            else:\n                continue\n        return MismatchesAll(mismatches)')], 'AnyMatch: a match no longer ends the loop'),
 ('M30', HO, [('                if self.first_only:\n                    return mismatch\n                results.append(mismatch)', '                if self.first_only:\n                    break\n                results.append(mismatch)')], 'MatchesAll: first_only breaks instead of returning the mismatch'),
 ('M31', DI, [('        common_keys = set(expected.keys()) & set(observed.keys())', '        common_keys = set(expected.keys())')], '_MatchCommonKeys: all expected keys instead of the common ones'),
 ('M32', BA, [('        if isinstance(other, self.types):\n            return None\n        return NotAnInstance(other, self.types)', '        if not isinstance(other, self.types):\n            return None\n        return NotAnInstance(other, self.types)')], 'IsInstance: inverted'),
 ('M33', TC, [('        if mismatch_error is not None:\n            raise mismatch_error', '        if mismatch_error:\n            raise mismatch_error')], 'assertThat: `is not None` -> truthiness of the error'),
 ('M34', DS, [('        for matcher, value in zip(self.matchers, values):\n            mismatch = matcher.match(value)', '        for matcher, value in zip(self.matchers, values):\n            mismatch = matcher.match(values)')], 'MatchesListwise: every matcher gets the whole sequence'),
 ('M36', DI, [('        common_keys = set(expected.keys()) & set(observed.keys())', '        common_keys = set(expected) & set(observed)')], '_MatchCommonKeys: set(d) for set(d.keys()): a list / str matchee no longer raises (found by the correspondence run)'),
 ('M35', EX, [('        if not issubclass(other[0], expected_class):', '        if not isinstance(other[1], expected_class):')], 'MatchesException: class test replaced by an instance test'),
 ('M37', EX, [('        expected_type = type(self.expected)\n        self._is_instance = not any(\n            issubclass(expected_type, class_type) for class_type in (type, tuple)\n        )\n', '        self._is_instance = type(self.expected) not in (type, tuple)\n')], 'MatchesException.__init__: exact type instead of the subclass test (seed C06-g: classes with a metaclass, named tuples)'),
 ('M38', EX, [('            value_re = AfterPreprocessing(str, MatchesRegex(value_re), False)', '            value_re = MatchesRegex(value_re)')], 'MatchesException.__init__: the regex applied to the exception itself, not to its str()'),
 ('M39', WA, [('            warnings.simplefilter("always")', '            warnings.resetwarnings()')], 'Warnings.match: resetwarnings() for simplefilter("always") (seed C06-h: a repeated warning is recorded once)'),
 ('M40', WA, [('            warnings.simplefilter("always")', '            warnings.simplefilter("default")')], 'Warnings.match: the action "default"'),
 ('M41', WA, [('            warnings.simplefilter("always")\n            matchee()', '            matchee()\n            warnings.simplefilter("always")')], 'Warnings.match: the filter installed after the call'),
 ('M42', WA, [('        MatchesListwise(\n            [WarningMessage(category_type=DeprecationWarning, message=message)]\n        )', '        AfterPreprocessing(\n            lambda w: w[:1],\n            MatchesListwise(\n                [WarningMessage(category_type=DeprecationWarning, message=message)]\n            ),\n        )')], 'IsDeprecated: only the first warning is looked at'),
]

# behaviour-preserving, but deliberately NOT tolerated by the recogniser (the data changes, the tie alarms without a failing input)
N = [
 ('N01', BA, [('            if self.needle not in matchee:\n                return DoesNotContain(matchee, self.needle)\n        except (TypeError, ValueError):', '            found = self.needle in matchee\n        except (TypeError, ValueError):'), ('            return DoesNotContain(matchee, self.needle)\n        return None', '            return DoesNotContain(matchee, self.needle)\n        if not found:\n            return DoesNotContain(matchee, self.needle)\n        return None')], 'Contains.match: the test moved out of the try (the handler covers less)'),
 ('N02', DS, [('        for attr, matcher in sorted(self.kws.items()):\n            matchers.append(Annotate(attr, matcher))\n            values.append(getattr(value, attr))', '        for attr, matcher in sorted(self.kws.items()):\n            matchers.append(Annotate(attr, matcher))\n        for attr, matcher in sorted(self.kws.items()):\n            values.append(getattr(value, attr))')], 'MatchesStructure.match: the two lists built in two passes'),
]


def sh(*a, **k):
    return subprocess.run(a, capture_output=True, text=True, **k)


def main():
    wt = tempfile.mkdtemp(prefix='match-h4-', dir='/tmp')
    os.rmdir(wt)
    subprocess.run(['git', '-C', '/repo', 'worktree', 'add', '-q', '--detach', wt], check=True)
    try:
        base = pymatch2lean.generate(wt)
        for group, want_same in ((H, True), (M, False), (N, False)):
            for name, path, subs, what in group:
                sh('git', '-C', wt, 'checkout', '-q', '--', '.')
                p = os.path.join(wt, path)
                s = open(p).read()
                ok = True
                for old, new in subs:
                    if old not in s:
                        ok = False
                        print('%s: PATTERN NOT FOUND %r' % (name, old[:60]))
                    s = s.replace(old, new)
                open(p, 'w').write(s)
                if not ok:
                    continue
                diff = sh('git', '-C', wt, 'diff').stdout
                header = '# %s: %s\n' % (name, what)
                open(os.path.join(HERE, name + '.diff'), 'w').write(diff)
                comp = sh('/venv/bin/python', '-m', 'py_compile', p)
                same = pymatch2lean.generate(wt) == base
                verdict = 'generated data identical' if same else 'generated data CHANGES'
                flag = '' if same == want_same else '   <-- NOT AS INTENDED'
                print('%s %-62s %s%s%s' % (name, what[:62], verdict, '' if comp.returncode == 0 else ' (does not compile!)', flag))
    finally:
        subprocess.run(['git', '-C', '/repo', 'worktree', 'remove', '--force', wt])


if __name__ == '__main__':
    main()
