"""./check <Cxx> [--tier quick|thorough] [--replay FILE] [--budget N]

Decision procedure of DESIGN.md section 2.3:
  1. regenerate the Lean tables from the repo (tie 1)            2. lake build driver, then the property's theorems
  3. audit axioms / forbidden tokens                              4. corpus + enumerated + generated cases:
  real code vs Lean model (tie 2)                                 5. Lean `Spec.holds` on every implementation trace
  6. decide: exit 0 / KNOWN-FINDING lines / VIOLATION line + replay file (exit 1) / exit 2 = infrastructure
  7. write evidence/<id>.json
"""
import argparse, importlib, json, os, random, subprocess, sys, time, traceback

sys.path.insert(0, os.path.dirname(os.path.dirname(os.path.abspath(__file__))))
from harness import core
from harness.core import sx

# the implementation under test: VERIF_REPO (default /repo) must win over the editable install
sys.path.insert(0, core.REPO)


class CaseTimeout(BaseException):
    pass


class case_deadline:
    """wall-clock limit for one run of the implementation (SIGALRM, main thread)"""

    def __init__(self, seconds):
        self.seconds = seconds

    def _fire(self, signum, frame):
        raise CaseTimeout()

    def __enter__(self):
        import signal
        self.old = signal.signal(signal.SIGALRM, self._fire)
        signal.setitimer(signal.ITIMER_REAL, self.seconds)

    def __exit__(self, *exc):
        import signal
        signal.setitimer(signal.ITIMER_REAL, 0)
        signal.signal(signal.SIGALRM, self.old)
        return False


def infra(msg):
    print('INFRASTRUCTURE-FAILURE: ' + msg)
    sys.exit(2)


class Run:
    def __init__(self, prop, tier, seed, budget=None):
        self.prop, self.tier, self.seed = prop, tier, seed
        self.pid = prop.id
        self.budget = budget if budget is not None else prop.budgets[tier]
        self.driver = core.Driver(self.pid)
        self.findings = core.known_findings(self.pid)
        self.finding_classes = {c for _, c, _, _ in self.findings}
        self.evaluations = 0
        self.nontrivial = set()
        self.dist = {}
        self.samples = []
        self.disagreements = []   # (input, impl, model) traces differ, spec holds on impl
        self.spec_failures = []   # (input, impl, model, clauses) outside any finding class
        self.finding_hits = {}    # class -> (input, impl, clauses)
        self.finding_fixed = {}   # class -> count of class inputs on which impl holds but differs from model
        self.model_spec_failures = []  # spec fails on the model's own trace (theorem would be false)
        self.impl_wall = 0.0

    def evaluate(self, inputs):
        """run impl + model on a batch; classify"""
        pairs = []
        t0 = time.time()
        for inp in inputs:
            try:
                with case_deadline(getattr(self.prop, 'case_timeout', 30)):
                    tr = self.prop.run_impl(inp)
            except CaseTimeout:
                # the code under test did not come back (e.g. a loop that no longer terminates): a trace outside the
                # model's alphabet, hence a spec failure with this input as the replay
                tr = ['implementation-did-not-terminate']
            except BaseException as e:  # the plug-in promises not to raise; a raise here is a harness bug
                if isinstance(e, (KeyboardInterrupt, SystemExit)) and not getattr(e, 'verif_generated', False):
                    raise
                tr = ['harness-crash', type(e).__name__]
                self.last_crash = traceback.format_exc()
            pairs.append((inp, tr))
        self.impl_wall += time.time() - t0
        replies = self.driver.ask(pairs)
        results = []
        for (inp, tr), rep in zip(pairs, replies):
            self.evaluations += 1
            if not isinstance(rep, list) or len(rep) != 4:
                infra('driver rejected a request for %s: %r on input %s (trace %s)' % (self.pid, rep, sx(inp)[:400], sx(tr)[:200]))
            model_tr, spec_impl, spec_model, classes = rep
            model_s, impl_s = sx(model_tr), sx(tr)
            agree = model_s == impl_s
            impl_ok = spec_impl == 'ok'
            in_class = [c for c in classes if c in self.finding_classes]
            if self.prop.nontrivial(inp, tr):
                self.nontrivial.add(sx(inp))
            for c in classes:
                self.dist['class:' + str(c)] = self.dist.get('class:' + str(c), 0) + 1
            for f in self.prop.features(inp, tr):
                self.dist[f] = self.dist.get(f, 0) + 1
            if len(self.samples) < 3 and self.prop.nontrivial(inp, tr):
                self.samples.append({'input': sx(inp), 'impl_trace': impl_s[:600], 'model_trace': model_s[:600], 'spec_on_impl': sx(spec_impl)})
            if spec_model != 'ok' and not in_class:
                # (inside a known-finding class the model exhibits the defect, so the spec is expected to fail on it)
                self.model_spec_failures.append((inp, tr, model_tr, spec_model))
            if not impl_ok:
                clauses = spec_impl[1:] if isinstance(spec_impl, list) else [spec_impl]
                covering = [c for c in in_class if self.covers(c, clauses)]
                if covering:
                    for c in covering:
                        self.finding_hits.setdefault(c, (inp, tr, clauses))
                else:
                    self.spec_failures.append((inp, tr, model_tr, clauses))
            elif not agree:
                if in_class:
                    for c in in_class:
                        self.finding_fixed[c] = self.finding_fixed.get(c, 0) + 1
                else:
                    self.disagreements.append((inp, tr, model_tr))
            results.append((agree, impl_ok, in_class))
        return results

    def covers(self, cls, clauses):
        """does a listed finding of class `cls` account for a failure of exactly these clauses?"""
        for _, c, _, only in self.findings:
            if c == cls and (only is None or set(map(str, clauses)) <= only):
                return True
        return False

    def fails(self, inp):
        """does the implementation break the spec on this input (outside the finding classes)?"""
        try:
            with case_deadline(getattr(self.prop, 'case_timeout', 30)):
                tr = self.prop.run_impl(inp)
        except CaseTimeout:
            tr = ['implementation-did-not-terminate']
        except Exception:
            return None
        rep = self.driver.ask([(inp, tr)])[0]
        if not isinstance(rep, list) or len(rep) != 4:
            return None
        if rep[1] != 'ok':
            clauses = rep[1][1:] if isinstance(rep[1], list) else [rep[1]]
            if not [c for c in rep[3] if c in self.finding_classes and self.covers(c, clauses)]:
                return (inp, tr, rep[0], clauses)
        return None

    def differs(self, inp):
        try:
            tr = self.prop.run_impl(inp)
        except Exception:
            return None
        rep = self.driver.ask([(inp, tr)])[0]
        if isinstance(rep, list) and len(rep) == 4 and sx(rep[0]) != sx(tr):
            return (inp, tr, rep[0])
        return None

    def shrink(self, case, pred, limit=300):
        """greedy shrinking with the plug-in's candidates"""
        n = 0
        progress = True
        while progress and n < limit:
            progress = False
            for cand in self.prop.shrink(case[0]):
                n += 1
                if n > limit:
                    break
                r = pred(cand)
                if r is not None:
                    case = r
                    progress = True
                    break
        return case


def write_replay(pid, seed, kind, payload):
    d = os.path.join(core.VERIF, 'replay')
    os.makedirs(d, exist_ok=True)
    path = os.path.join(d, '%s-%s-seed%d.json' % (pid, kind, seed))
    json.dump(payload, open(path, 'w'), indent=1)
    return path


def replay(prop, path):
    data = json.load(open(path))
    inp = data.get('input')
    if inp is None:
        print('replay file names a broken obligation, no input: ' + json.dumps(data.get('broken'), indent=1))
        return 1
    run = Run(prop, 'quick', 0)
    tr = prop.run_impl(inp)
    rep = run.driver.ask([(inp, tr)])[0]
    print('input        :', sx(inp))
    print('impl  trace  :', sx(tr))
    print('model trace  :', sx(rep[0]) if isinstance(rep, list) else rep)
    print('spec on impl :', sx(rep[1]) if isinstance(rep, list) else rep)
    print('classes      :', sx(rep[3]) if isinstance(rep, list) else rep)
    bad = isinstance(rep, list) and (rep[1] != 'ok' or sx(rep[0]) != sx(tr))
    if bad:
        print('VIOLATION property=%s replay=%s' % (prop.id, path))
    return 1 if bad else 0


def main():
    ap = argparse.ArgumentParser()
    ap.add_argument('prop')
    ap.add_argument('--tier', default=None)
    ap.add_argument('--replay', default=None)
    ap.add_argument('--budget', type=int, default=None)
    ap.add_argument('--no-build', action='store_true')
    a = ap.parse_args()
    tier = os.environ.get('VERIF_TIER') or a.tier or 'quick'
    if tier not in ('quick', 'thorough'):
        infra('unknown tier ' + tier)
    seed = int(os.environ.get('VERIF_SEED', '0') or 0)
    pid = a.prop.upper()
    t_start = time.time()
    try:
        import testtools
    except Exception as e:
        # the tree does not even import: every property is unshown; report as broken tie
        testtools = None
        import_error = repr(e)
    if testtools is not None and not os.path.abspath(testtools.__file__).startswith(os.path.abspath(core.REPO)):
        infra('testtools imported from %s, expected under %s' % (testtools.__file__, core.REPO))
    prop = importlib.import_module('harness.props.' + pid.lower()).PROP
    if a.replay:
        sys.exit(replay(prop, a.replay))

    broken = []   # obligations / ties that no longer check: (kind, what)
    # 1. tables
    no_tables = bool(os.environ.get('VERIF_NO_TABLES'))   # (tools/mutate.py: many scratch trees in parallel, never touch lean/)
    lock = None if (no_tables and a.no_build) else core.build_lock()
    try:
        tables = {} if no_tables else prop.extract_tables(core.REPO)
    except Exception as e:
        tables = {}
        broken.append(('table-extraction', '%s: %r' % (pid, e)))
    changed_tables = []
    for rel, text in tables.items():
        p = os.path.join(core.LEAN, rel)
        old = open(p).read() if os.path.exists(p) else None
        if old != text:
            os.makedirs(os.path.dirname(p), exist_ok=True)
            open(p, 'w').write(text)
            changed_tables.append((rel, old))
    # 2. build
    obligations = discharged = 0
    leanchecker = 'not run (thorough tier only)'
    axioms = {}
    if not a.no_build:
        rc, out = core.lake('build', 'driver')
        if rc != 0 and changed_tables:
            # the regenerated tables broke the model itself: keep the previous tables for the driver
            broken.append(('generated-tables', 'driver does not build with the tables extracted from the tree: ' + out[-600:]))
            for rel, old in changed_tables:
                p = os.path.join(core.LEAN, rel)
                if old is None:
                    os.remove(p)
                else:
                    open(p, 'w').write(old)
            rc, out = core.lake('build', 'driver')
        if rc != 0:
            infra('lake build driver failed:\n' + out[-2000:])
        rc, out = core.lake('build', 'TTV.Props.' + pid)
        names = core.theorem_names(pid)
        if rc != 0:
            import re
            bad_lines = [int(m.group(1)) for m in re.finditer(r'error: TTV/Props/%s\.lean:(\d+):' % pid, out)]
            bad = set()
            for ln in bad_lines:
                prev = [n for n, l in names if l <= ln]
                bad.add(prev[-1] if prev else '<preamble>')
            if not bad:
                bad.add('<dependency of TTV.Props.%s>' % pid)
            broken.append(('proof', 'theorems that no longer check: %s :: %s' % (sorted(bad), out[-800:])))
            pnames = [n for n, _ in names if core.is_property_theorem(n)]
            # the module as a whole does not check any more: none of its theorems is available
            obligations, discharged = len(pnames), 0
        else:
            obligations, discharged, axioms, problems = core.audit(pid)
            hits = core.grep_forbidden()
            if hits:
                infra('forbidden tokens in Lean sources: ' + '; '.join(hits[:5]))
            if problems:
                infra('axiom audit failed: ' + '; '.join(problems))
            if tier == 'thorough':
                # independent re-check of the compiled theorems by the toolchain's stand-alone kernel checker
                rc2, out2 = core.lake('env', 'leanchecker', 'TTV.Props.' + pid)
                if rc2 != 0:
                    infra('leanchecker rejected TTV.Props.%s: %s' % (pid, out2[-500:]))
                leanchecker = 'ok'

    if lock is not None:
        lock.close()
    if not os.path.exists(core.DRIVER):
        infra('driver executable missing; run the setup command first')

    # 4/5. correspondence
    run = Run(prop, tier, seed, a.budget)
    rng = random.Random('%s/%d' % (pid, seed))
    deadline = time.time() + prop.time_limit[tier]
    exhaustive_done = False
    cov = None
    anchored_cov = {}
    if tier == 'thorough' and testtools is not None:
        try:   # line coverage of the files the property is anchored in (evidence only)
            import coverage
            anchors = [json.loads(l) for l in open(os.path.join(core.VERIF, 'properties.jsonl'))]
            files = [os.path.join(core.REPO, f) for a in anchors if a['id'] == pid for f in a['anchors']['files']]
            cov = coverage.Coverage(data_file=None, include=files)
            cov.start()
        except Exception:
            cov = None
    try:
        if testtools is None:
            broken.append(('import', 'testtools cannot be imported from the tree: ' + import_error))
        else:
            corpus = prop.corpus()
            run.evaluate(corpus)
            batch = []
            n_enum = 0
            if tier == 'thorough':
                for inp in prop.enumerate(tier):
                    batch.append(inp)
                    n_enum += 1
                    if len(batch) >= 2000:
                        run.evaluate(batch)
                        batch = []
                    if time.time() > deadline:
                        break
                else:
                    exhaustive_done = n_enum > 0
                run.evaluate(batch)
                batch = []
            n = 0
            while n < run.budget and time.time() < deadline:
                k = min(1000, run.budget - n)
                run.evaluate([prop.gen(rng, tier) for _ in range(k)])
                n += k
            # broken obligation or disagreement without a failing input: spend more looking for one
            if (broken or run.disagreements) and not run.spec_failures:
                extra_deadline = time.time() + prop.time_limit[tier]
                rng2 = random.Random('%s/%d/search' % (pid, seed))
                for d in list(run.disagreements)[:20]:
                    for cand in prop.shrink(d[0]):
                        r = run.fails(cand)
                        if r:
                            run.spec_failures.append(r)
                            break
                    if run.spec_failures:
                        break
                while not run.spec_failures and time.time() < extra_deadline and n < 4 * run.budget + 4000:
                    run.evaluate([prop.gen(rng2, 'thorough') for _ in range(500)])
                    n += 500
    except RuntimeError as e:
        infra(str(e))
    if cov is not None:
        try:
            cov.stop()
            for f in files:
                _, stmts, _, missing, _ = cov.analysis2(f)
                anchored_cov[os.path.relpath(f, core.REPO)] = {'statements': len(stmts), 'executed': len(stmts) - len(missing)}
        except Exception as e:
            anchored_cov = {'error': repr(e)}

    # 6. decision
    violation = None
    for cls, (inp, tr, clauses) in sorted(run.finding_hits.items()):
        text = [t for i, c, t, _ in run.findings if c == cls][0]
        print('KNOWN-FINDING: property=%s %s [class %s, clauses %s, e.g. input %s]' % (pid, text, cls, ','.join(map(str, clauses)), sx(inp)[:300]))
    for cls, cnt in sorted(run.finding_fixed.items()):
        if cls not in run.finding_hits:
            print('NOTE: finding class %s no longer reproduces on %d class inputs (implementation satisfies the spec there)' % (cls, cnt))
    if run.model_spec_failures and not broken:
        inp, tr, mtr, sm = run.model_spec_failures[0]
        infra('the spec fails on the MODEL trace for %s (%s): model/spec/theorem mismatch in the framework' % (sx(inp)[:400], sx(sm)))
    if run.spec_failures:
        case = run.shrink(run.spec_failures[0], run.fails)
        inp, tr, mtr, clauses = case
        path = write_replay(pid, seed, 'violation', {
            'property': pid, 'kind': 'spec-failure-on-implementation', 'failed_clauses': clauses,
            'input': inp, 'input_sexp': sx(inp), 'impl_trace': sx(tr), 'model_trace': sx(mtr),
            'broken': broken, 'replay_cmd': './check %s --replay <this file>' % pid})
        violation = 'VIOLATION property=%s replay=%s' % (pid, path)
    elif broken or run.disagreements:
        payload = {'property': pid, 'kind': 'no-failing-input-found', 'broken': [list(b) for b in broken]}
        if run.disagreements:
            d = run.shrink(run.disagreements[0], run.differs)
            payload.update({'input': d[0], 'input_sexp': sx(d[0]), 'impl_trace': sx(d[1]), 'model_trace': sx(d[2])})
            payload['broken'].append(['correspondence', 'model %s and implementation disagree on %d of %d inputs; the spec holds on every implementation trace explored' % (pid, len(run.disagreements), run.evaluations)])
        path = write_replay(pid, seed, 'unshown', payload)
        violation = 'VIOLATION property=%s replay=%s no-failing-input-found' % (pid, path)

    # 7. evidence
    wall = time.time() - t_start
    tb = ['Lean 4.33.0 kernel', 'axioms: ' + ', '.join(sorted({x for v in axioms.values() for x in v}) or ['none']),
          'hand-written Lean model TTV/Model + spec TTV/Spec/%s.lean (statement of the property)' % pid,
          'Python correspondence harness harness/props/%s.py (generators, canonicalisation)' % pid.lower(),
          'S-expression codecs TTV/Drv/%s.lean' % pid] + list(prop.assumptions)
    ev = {
        'property_id': pid, 'tier': tier, 'seed': seed, 'level': 'proof',
        'coverage': {
            'obligations': obligations, 'discharged': discharged,
            'checker_cmd': 'cd lean && lake build TTV.Props.%s && lake env lean .lake/audit_%s.lean   # kernel check + #print axioms of every theorem' % (pid, pid),
            'trusted_base': tb,
            'leanchecker': leanchecker,
            'anchored_line_coverage': anchored_cov,
            'theorems': sorted(n for n in axioms if core.is_property_theorem(n.split('.')[-1])),
            'helper_lemmas_audited': len([n for n in axioms if not core.is_property_theorem(n.split('.')[-1])]),
            'evaluations': run.evaluations, 'distinct_nontrivial': len(run.nontrivial),
            'rule': prop.rule,
            'samples': run.samples,
            'traces_validated_against_impl': run.evaluations,
            'disagreements': len(run.disagreements), 'spec_failures_on_impl': len(run.spec_failures),
            'known_finding_hits': {c: 1 for c in run.finding_hits},
            'distribution': dict(sorted(run.dist.items())),
            'corpus_cases': len(prop.corpus()),
            'exhaustive': bool(exhaustive_done),
            'impl_wall_s': round(run.impl_wall, 2), 'model_wall_s': round(run.driver.wall, 2),
            'repo': core.REPO,
        },
        'assumptions': list(prop.assumptions),
        'wall_s': round(wall, 2),
        'violations': 1 if violation else 0,
    }
    # evidence/ only ever describes runs against /repo itself; runs against a scratch checkout (VERIF_REPO) go elsewhere
    evdir = os.path.join(core.VERIF, 'evidence') if os.path.abspath(core.REPO) == '/repo' else '/tmp/verif-scratch-evidence'
    os.makedirs(evdir, exist_ok=True)
    json.dump(ev, open(os.path.join(evdir, pid + '.json'), 'w'), indent=1)
    print('%s tier=%s seed=%d: %d/%d obligations discharged; %d cases (%d distinct non-trivial), %d disagreements, %d spec failures on the implementation; %.1fs'
          % (pid, tier, seed, discharged, obligations, run.evaluations, len(run.nontrivial), len(run.disagreements), len(run.spec_failures), wall))
    if violation:
        print(violation)
        sys.exit(1)
    sys.exit(0)


if __name__ == '__main__':
    try:
        main()
    except SystemExit:
        raise
    except BaseException:   # a crash of the machinery is never a verdict about the property
        traceback.print_exc()
        print('INFRASTRUCTURE-FAILURE: unexpected exception in the check machinery (see traceback above)')
        sys.exit(2)
