"""Shared harness code of the M-Res family (C04, C08, C17): recording results, object-graph builder,
canonicalisation and generators.  Shapes / calls are S-expression trees, see lean/TTV/Drv/Res.lean:

shape : [sink f] f in py26/py27/twisted/ext | [tt B] | [text B] | [tbt] | [etod s] | [deco s] | [tagger new gone s] | [tagger new gone s [container shared]] (realisation hint, Graph.tagger_args)
        | [sff] (ExtendedToStreamDecorator(StreamFailFast(callback)): the stream target is itself a StreamFailFast, its callback is counted)
        | [fsink late B f] (f in py26/twisted: a recording result of that flavour with the instance attribute failfast = B, assigned at once (late false) or after the whole graph is built (late true))
        | [tfr [etod s]] | [multi [etod s] ...] | [e2s [etod s]]
        (the etod below tfr/multi/e2s is the ExtendedToOriginalDecorator those classes create themselves)
call  : [startTestRun] [stopTestRun] [startTest t] [stopTest t] [add kind t arg] [tags new gone] [time tv] [stop] [done]
        [progress] [setFailfast B]
arg   : none | [exc real] | [reason chars] | [details [[namechars content] ...]]   content: [text chars] | [binary chars] | tb
tv    : none | wall | [at n]
"""
import datetime, io, sys, threading
from harness.core import chars

KINDS = ['success', 'error', 'failure', 'skip', 'xfail', 'uxsuccess']
METHOD = {'success': 'addSuccess', 'error': 'addError', 'failure': 'addFailure', 'skip': 'addSkip',
          'xfail': 'addExpectedFailure', 'uxsuccess': 'addUnexpectedSuccess'}
BASE = datetime.datetime(2020, 1, 1, tzinfo=datetime.timezone.utc)


class HarnessError(Exception):
    pass


#: falsy but legal values in the alphabets: tag 3 is the empty string, test 7 has the empty id
EMPTY_TAG, EMPTY_ID = 3, 7


def tagname(i):
    return '' if i == EMPTY_TAG else 'tag%02d' % i


#: every tag collection the code under test handed to the harness during the current run (a sink argument, a returned
#: current_tags), with its value at that moment: what was delivered must not change afterwards (no aliasing of internal state)
RETAINED = []


def tagnums(s):
    r = sorted(int(x[3:]) if x else EMPTY_TAG for x in s)
    if isinstance(s, (set, frozenset, list)) and len(RETAINED) < 4000:
        RETAINED.append((s, r))
    return r


def retained_changed():
    """True when a tag collection delivered earlier in this run has changed since it was delivered"""
    return any(sorted(int(x[3:]) if x else EMPTY_TAG for x in s) != r for s, r in RETAINED)


def scribble_on_retained():
    """the client mutates every mutable tag collection it was given (it owns them)"""
    for s, _ in RETAINED:
        if isinstance(s, set):
            s.add('tag99')


def unchars(cs):
    return ''.join(chr(c) for c in cs)


_K = {}


def K():
    """classes that depend on the testtools under test, created once"""
    if _K:
        return _K
    import testtools
    from testtools.content import Content, text_content, TracebackContent
    from testtools.content_type import ContentType
    from testtools.tags import TagContext
    from testtools.testresult import real

    def canon_time(d):
        if d is None:
            return None
        if isinstance(d, datetime.datetime):
            delta = (d - BASE).total_seconds()
            if d.microsecond == 0 and 0 <= delta < 1000 and delta == int(delta):
                return ['at', int(delta)]
            return 'wall'
        return 'not-a-time'

    def canon_content(c):
        ct = c.content_type
        if isinstance(c, TracebackContent) or (ct.type == 'text' and ct.subtype == 'x-traceback'):
            return 'tb'
        if ct.type == 'text':
            return ['text', chars(c.as_text())]
        return ['binary', chars(repr(ct))]

    def canon_details(d):
        return [[chars(k), canon_content(v)] for k, v in sorted(d.items())]

    def canon_err(err):
        if isinstance(err, tuple) and len(err) == 3:
            if err[0] is real._StringException:
                return ['exc', ['str', chars(str(err[1]))]]
            if isinstance(err[1], HarnessError):
                return ['exc', 'real']
            if isinstance(err[1], AssertionError) and str(err[1]) == '':
                return ['exc', 'synth']
            return ['exc', 'other-' + type(err[1]).__name__]
        return 'not-an-exc-info'

    def tnum(test):
        return int(test.id()[1:]) if test.id() else EMPTY_ID

    class Sink:
        """recording result; `_log` holds canonical [call, current tags] pairs"""
        flavour = None

        def __init__(self):
            self._log = []
            self._was_successful = True
            self.testsRun = 0

        def _ev(self, call, ctags=()):
            self._log.append([call, sorted(ctags)])

        def startTest(self, test):
            self._ev(['startTest', tnum(test)])
            self.testsRun += 1

        def stopTest(self, test):
            self._ev(['stopTest', tnum(test)])

        def addSuccess(self, test):
            self._ev(['add', 'success', tnum(test), None])

        def wasSuccessful(self):
            return self._was_successful

    class Py26(Sink):
        flavour = 'py26'

        def __init__(self):
            Sink.__init__(self)
            self.shouldStop = False

        def addError(self, test, err):
            self._was_successful = False
            self._ev(['add', 'error', tnum(test), canon_err(err)])

        def addFailure(self, test, err):
            self._was_successful = False
            self._ev(['add', 'failure', tnum(test), canon_err(err)])

        def stop(self):
            self.shouldStop = True

    class Py27(Py26):
        flavour = 'py27'

        def __init__(self):
            Py26.__init__(self)
            self.failfast = False

        def addError(self, test, err):
            Py26.addError(self, test, err)
            if self.failfast:
                self.stop()

        def addFailure(self, test, err):
            Py26.addFailure(self, test, err)
            if self.failfast:
                self.stop()

        def addExpectedFailure(self, test, err):
            self._ev(['add', 'xfail', tnum(test), canon_err(err)])

        def addSkip(self, test, reason):
            self._ev(['add', 'skip', tnum(test), ['reason', chars(reason)] if isinstance(reason, str) else 'not-a-reason'])

        def addUnexpectedSuccess(self, test):
            self._ev(['add', 'uxsuccess', tnum(test), None])
            if self.failfast:
                self.stop()

        def startTestRun(self):
            self._ev(['startTestRun'])

        def stopTestRun(self):
            self._ev(['stopTestRun'])

    class Twisted(Sink):
        flavour = 'twisted'

        def addError(self, test, error):
            self._was_successful = False
            self._ev(['add', 'error', tnum(test), canon_err(error)])

        def addFailure(self, test, error):
            self._was_successful = False
            self._ev(['add', 'failure', tnum(test), canon_err(error)])

        # trial's reporter signatures (`todo=None`): whatever arrives in `todo` is part of the call the target received
        @staticmethod
        def _todo(todo, plain):
            if todo is None:
                return plain
            if isinstance(todo, dict):
                return ['details', canon_details(todo)]          # a details dict bound to `todo`
            return 'not-a-todo'

        def addExpectedFailure(self, test, failure, todo=None):
            self._ev(['add', 'xfail', tnum(test), self._todo(todo, canon_err(failure))])

        def addUnexpectedSuccess(self, test, todo=None):
            self._ev(['add', 'uxsuccess', tnum(test), self._todo(todo, None)])

        def addSkip(self, test, reason):
            self._ev(['add', 'skip', tnum(test), ['reason', chars(reason)] if isinstance(reason, str) else 'not-a-reason'])

        def done(self):
            pass

    def canon_arg(err, details):
        if details is not None and err is not None:
            return 'both-err-and-details'         # the full call is recorded: no protocol passes both
        if details is not None:
            return ['details', canon_details(details)]
        if err is None:
            return None
        if isinstance(err, str):
            return ['reason', chars(err)]
        return canon_err(err)

    class Ext(Py27):
        """extended (details) protocol, tags, time, progress; after doubles.ExtendedTestResult"""
        flavour = 'ext'

        def __init__(self):
            Py27.__init__(self)
            self._tags = TagContext()

        def _add(self, kind, test, err, details):
            self._ev(['add', kind, tnum(test), canon_arg(err, details)], tagnums(self.current_tags))

        def addError(self, test, err=None, details=None):
            self._was_successful = False
            self._add('error', test, err, details)

        def addFailure(self, test, err=None, details=None):
            self._was_successful = False
            self._add('failure', test, err, details)

        def addExpectedFailure(self, test, err=None, details=None):
            self._add('xfail', test, err, details)

        def addSkip(self, test, reason=None, details=None):
            self._add('skip', test, reason, details)

        def addSuccess(self, test, details=None):
            self._add('success', test, None, details)

        def addUnexpectedSuccess(self, test, details=None):
            self._was_successful = False
            self._add('uxsuccess', test, None, details)

        def progress(self, offset, whence):
            self._ev(['progress'])

        def startTestRun(self):
            Py27.startTestRun(self)
            self._was_successful = True
            self._tags = TagContext()

        def startTest(self, test):
            Py27.startTest(self, test)
            self._tags = TagContext(self._tags)

        def stopTest(self, test):
            Py27.stopTest(self, test)
            if self._tags.parent is not None:
                self._tags = self._tags.parent

        @property
        def current_tags(self):
            return self._tags.get_current_tags()

        def tags(self, new_tags, gone_tags):
            self._ev(['tags', tagnums(new_tags), tagnums(gone_tags)])
            self._tags.change_tags(new_tags, gone_tags)

        def time(self, a_datetime):
            self._ev(['time', canon_time(a_datetime)])

    def recording(base):
        """subclass of a testtools result that logs every call before the upcall"""
        class Rec(base):
            def __init__(self, *a, **kw):
                self._log = []
                base.__init__(self, *a, **kw)

            def _ev(self, call, ctags=()):
                self._log.append([call, sorted(ctags)])

            def _add(self, kind, test, err, details):
                self._ev(['add', kind, tnum(test), canon_arg(err, details)], tagnums(self.current_tags))

            def startTestRun(self):
                if hasattr(self, '_log'):
                    self._ev(['startTestRun'])
                base.startTestRun(self)

            def stopTestRun(self):
                self._ev(['stopTestRun'])
                base.stopTestRun(self)

            def startTest(self, test):
                self._ev(['startTest', tnum(test)])
                base.startTest(self, test)

            def stopTest(self, test):
                self._ev(['stopTest', tnum(test)])
                base.stopTest(self, test)

            def addError(self, test, err=None, details=None):
                self._add('error', test, err, details)
                base.addError(self, test, err, details)

            def addFailure(self, test, err=None, details=None):
                self._add('failure', test, err, details)
                base.addFailure(self, test, err, details)

            def addExpectedFailure(self, test, err=None, details=None):
                self._add('xfail', test, err, details)
                base.addExpectedFailure(self, test, err, details)

            def addSkip(self, test, reason=None, details=None):
                self._add('skip', test, reason, details)
                base.addSkip(self, test, reason, details)

            def addSuccess(self, test, details=None):
                self._add('success', test, None, details)
                base.addSuccess(self, test, details)

            def addUnexpectedSuccess(self, test, details=None):
                self._add('uxsuccess', test, None, details)
                base.addUnexpectedSuccess(self, test, details)

            def tags(self, new_tags, gone_tags):
                self._ev(['tags', tagnums(new_tags), tagnums(gone_tags)])
                base.tags(self, new_tags, gone_tags)

            def time(self, a_datetime):
                self._ev(['time', canon_time(a_datetime)])
                base.time(self, a_datetime)
        Rec.__name__ = 'Rec' + base.__name__
        return Rec

    RecTT = recording(testtools.TestResult)
    RecText = recording(testtools.TextTestResult)
    RecTBTBase = recording(real.TestByTestResult)

    class RecTBT(RecTBTBase):
        def __init__(self):
            self._calls = []
            self._faults = ()        # tests for which the callback raises (after having recorded the call)
            RecTBTBase.__init__(self, self._on_test)

        def _on_test(self, test, status, start_time, stop_time, tags, details):
            from harness.core import some
            self._calls.append([tnum(test), some(status), canon_time(start_time), canon_time(stop_time), tagnums(tags),
                                some(canon_details(details)) if details is not None else None])
            if tnum(test) in self._faults:
                raise CallbackFault(tnum(test))

    class TC(testtools.TestCase):
        def test(self):
            pass

    def make_test(n):
        name = 't%04d' % n
        if n == EMPTY_ID:
            t = TC('test')
            t.id = lambda: ''
            return t
        if n % 2 == 0:
            t = TC('test')
            t.id = lambda: name
            return t
        if n % 4 == 3:
            try:
                raise HarnessError('holder')
            except HarnessError:
                return testtools.ErrorHolder(name, sys.exc_info())
        return testtools.PlaceHolder(name)

    CT = {}

    def content_type(rep):
        if rep not in CT:
            main, _, params = rep.partition(';')
            typ, _, sub = main.strip().partition('/')
            ps = {}
            for p in params.split(';'):
                if '=' in p:
                    k, _, v = p.strip().partition('=')
                    ps[k] = v.strip('"')
            CT[rep] = ContentType(typ, sub, ps)
        return CT[rep]

    def make_details(d):
        out = {}
        for name, c in d:
            if c[0] == 'text':
                out[unchars(name)] = text_content(unchars(c[1]))
            else:
                out[unchars(name)] = Content(content_type(unchars(c[1])), lambda: [b'\x00\x01\x02'])
        return out

    class StreamRecorder(real.StreamResult):
        """records test id and test_tags of every final status event"""

        def __init__(self):
            real.StreamResult.__init__(self)
            self._sent = []

        def status(self, test_id=None, test_status=None, test_tags=None, **kw):
            if test_status not in (None, 'inprogress'):
                self._sent.append([int(test_id[1:]) if test_id else EMPTY_ID, tagnums(test_tags or ())])

    _K.update(dict(StreamRecorder=StreamRecorder, Py26=Py26, Py27=Py27, Twisted=Twisted, Ext=Ext, RecTT=RecTT, RecText=RecText, RecTBT=RecTBT,
                   make_test=make_test, make_details=make_details, canon_time=canon_time, testtools=testtools, real=real))
    return _K


class CallbackFault(Exception):
    """raised by the on_test callback of a recording TestByTestResult for the tests named in the input"""

    def __init__(self, n):
        Exception.__init__(self, n)
        self.n = n


def linear_tbt(s):
    """a linear stack of ExtendedToOriginalDecorator / TestResultDecorator / Tagger layers over a TestByTestResult"""
    return s[0] == 'tbt' or (s[0] in ('etod', 'deco', 'tagger') and linear_tbt(children(s)[0]))


class Graph:
    """the Python objects of a shape: root, leaves left to right"""

    def __init__(self, shape, genuine=False):
        del RETAINED[:]
        self.k = K()
        self.genuine = genuine
        self.leaves = []
        self.points = []         # observation points, pre-order: leaves and the recorder of every e2s node
        self.nodes = []          # (path, object) of every node
        self.pending = []        # (object, value): failfast attributes to assign once everything is built
        self.cbs = []            # one-element counters: calls of the callback of every StreamFailFast used as stream target (pre-order)
        self.shared_args, self.scrambles = {}, 0
        self.root = self.build(shape, ())
        self.scramble_tagger_args()
        for o, b in self.pending:
            o.failfast = b
        self.tests = {}

    def tagger_args(self, s):
        """realisation hint [container, shared] as fifth component of a tagger shape: how `new_tags` / `gone_tags` are supplied - a
        set / frozenset / list / tuple / one-shot generator; with `shared` the mutable containers are ONE object per stack and
        argument position, refilled for every Tagger that is built from it, and refilled with other tags once the stack stands
        and after every stopTest.  A Tagger tags by the value its arguments had when it was constructed."""
        new, gone = [tagname(i) for i in s[1]], [tagname(i) for i in s[2]]
        kind, shared = (s[4] if len(s) > 4 else ['set', 0])
        out = []
        for pos, tags in enumerate((new, gone)):
            if kind == 'frozenset':
                a = frozenset(tags)
            elif kind == 'tuple':
                a = tuple(tags)
            elif kind == 'gen':
                a = (t for t in list(tags))
            elif kind == 'list':
                a = self.shared_args.setdefault(('list', pos), []) if shared else []
                a[:] = tags
            else:
                a = self.shared_args.setdefault(('set', pos), set()) if shared else set()
                a.clear()
                a.update(tags)
            out.append(a)
        return out

    def scramble_tagger_args(self):
        """the caller goes on using the containers it built the Taggers from"""
        self.scrambles += 1
        for (kind, pos), a in self.shared_args.items():
            other = [tagname((self.scrambles + pos + i) % 4) for i in range(1 + self.scrambles % 2)]
            if kind == 'list':
                a[:] = other
            else:
                a.clear()
                a.update(other)

    def target(self, s, path):
        assert s[0] == 'etod', s
        return self.build(s[1], path + (0,))

    def build(self, s, path):
        k = self.k
        real = k['real']
        kind = s[0]
        if kind == 'sink':
            o = {'py26': k['Py26'], 'py27': k['Py27'], 'twisted': k['Twisted'], 'ext': k['Ext']}[s[1]]()
            self.leaves.append(o)
            self.points.append(o)
        elif kind == 'tt':
            o = (k['testtools'].TestResult if self.genuine else k['RecTT'])(failfast=s[1])
            self.leaves.append(o)
            self.points.append(o)
        elif kind == 'text':
            o = (k['testtools'].TextTestResult if self.genuine else k['RecText'])(io.StringIO(), failfast=s[1])
            self.leaves.append(o)
            self.points.append(o)
        elif kind == 'tbt':
            o = k['RecTBT']()
            self.leaves.append(o)
            self.points.append(o)
        elif kind == 'etod':
            o = real.ExtendedToOriginalDecorator(self.build(s[1], path + (0,)))
        elif kind == 'deco':
            o = real.TestResultDecorator(self.build(s[1], path + (0,)))
        elif kind == 'tagger':
            child = self.build(s[3], path + (0,))
            o = real.Tagger(child, *self.tagger_args(s))
        elif kind == 'fsink':
            o = {'py26': k['Py26'], 'twisted': k['Twisted']}[s[3]]()
            if s[1]:
                self.pending.append((o, s[2]))
            else:
                o.failfast = s[2]
            self.leaves.append(o)
            self.points.append(o)
        elif kind == 'tfr':
            o = real.ThreadsafeForwardingResult(self.target(s[1], path + (0,)), threading.Semaphore(1))
        elif kind == 'multi':
            o = real.MultiTestResult(*[self.target(c, path + (i,)) for i, c in enumerate(s[1:])])
        elif kind == 'sff':
            counter = [0]
            self.cbs.append(counter)

            def on_error(counter=counter):
                counter[0] += 1
            o = real.ExtendedToStreamDecorator(real.StreamFailFast(on_error))
        elif kind == 'e2s':
            rec = k['StreamRecorder']()
            self.points.append(rec)
            o = real.ExtendedToStreamDecorator(real.CopyStreamResult(
                [real.StreamToExtendedDecorator(self.target(s[1], path + (0,))), rec]))
        else:
            raise ValueError('unknown shape %r' % (s,))
        self.nodes.append((path, o))
        return o

    def test(self, n):
        if n not in self.tests:
            self.tests[n] = self.k['make_test'](n)
        return self.tests[n]

    def apply(self, call, obj=None):
        r = self.root if obj is None else obj
        c = call[0]
        if c in ('startTestRun', 'stopTestRun', 'stop', 'done'):
            getattr(r, c)()
        elif c in ('startTest', 'stopTest'):
            getattr(r, c)(self.test(call[1]))
            if c == 'stopTest' and self.shared_args:
                self.scramble_tagger_args()
        elif c == 'add':
            m = getattr(r, METHOD[call[1]])
            t, a = self.test(call[2]), call[3]
            if a is None:
                m(t)
            elif a[0] == 'exc':
                try:
                    raise HarnessError('boom')
                except HarnessError:
                    m(t, sys.exc_info())
            elif a[0] == 'reason':
                m(t, unchars(a[1]))
            else:
                m(t, details=self.k['make_details'](a[1]))
        elif c == 'tags':
            r.tags({tagname(i) for i in call[1]}, {tagname(i) for i in call[2]})
        elif c == 'time':
            r.time(None if call[1] is None else BASE + datetime.timedelta(seconds=call[1][1]))
        elif c == 'progress':
            r.progress(0, 0)
        elif c == 'setFailfast':
            r.failfast = call[1]
        else:
            raise ValueError('unknown call %r' % (call,))


# ----- static facts about shapes (mirror of `caps` in TTV/Model/Result.lean, used to keep generated calls in the domain)
def has_progress(s):
    k = s[0]
    return k in ('etod', 'deco', 'tagger', 'tfr') or (k == 'sink' and s[1] == 'ext')


def can_progress(s):
    """progress() on this object does not raise AttributeError"""
    k = s[0]
    if k == 'sink':
        return s[1] == 'ext'
    if k == 'etod':
        return (not has_progress(s[1])) or can_progress(s[1])
    if k == 'deco':
        return can_progress(s[1])
    if k == 'tagger':
        return can_progress(s[3])
    return k == 'tfr'


def can_done(s):
    return s[0] in ('tt', 'text', 'tbt', 'etod', 'tfr', 'multi')


NODE_KINDS = ('sink', 'tt', 'text', 'tbt', 'etod', 'deco', 'tagger', 'tfr', 'multi', 'e2s', 'fsink', 'sff')


def kinds_in(s, acc=None):
    acc = [] if acc is None else acc
    acc.append('sink:' + s[1] if s[0] == 'sink' else 'fsink:' + s[3] if s[0] == 'fsink' else s[0])
    for c in s[1:]:
        if isinstance(c, list) and c and isinstance(c[0], str) and c[0] in NODE_KINDS:
            kinds_in(c, acc)
    return acc


def depth(s):
    subs = [c for c in s[1:] if isinstance(c, list) and c and isinstance(c[0], str) and c[0] in NODE_KINDS]
    return 1 + max([depth(c) for c in subs] or [0])


def children(s):
    k = s[0]
    if k in ('etod', 'deco', 'tfr', 'e2s'):
        return [s[1]]
    if k == 'tagger':
        return [s[3]]
    if k == 'multi':
        return list(s[1:])
    return []


def wf_shape(s, under_etod=False):
    k = s[0]
    if k == 'sink':
        return under_etod or s[1] == 'ext'
    if k in ('tt', 'text', 'tbt', 'sff'):
        return True
    if k == 'etod':
        return wf_shape(s[1], True)
    if k in ('deco', 'tagger'):
        return wf_shape(children(s)[0])
    if k == 'fsink':
        return under_etod and s[3] in ('py26', 'twisted')
    if k in ('tfr', 'e2s'):
        return s[1][0] == 'etod' and wf_shape(s[1])
    if k == 'multi':
        return len(s) > 1 and all(c[0] == 'etod' and wf_shape(c) for c in s[1:])
    return False


# ----- generators
TEXTS = ['x', 'boom', ' padded ', 'two\nlines', '', '  ', '\n', 'tab\there', '{{{}}}', 'café', ' wide ', 'a\n\nb\n', 'trace\nback\n']
NAMES = ['traceback', 'reason', 'log', 'a b', 'x', 'Z', 'traceback-1']
BINARY = ['application/octet-stream', 'image/png', 'application/x-thing; k="v"']


def gen_text(rng):
    if rng.random() < 0.7:
        return rng.choice(TEXTS)
    return ''.join(rng.choice(' \n\tab{}: ') for _ in range(rng.randint(0, 6)))


def gen_details(rng, allow_binary=True, allow_empty=True, nonempty_text=False):
    n = rng.choice([0, 1, 1, 2, 2, 3]) if allow_empty else rng.choice([1, 1, 2, 3])
    names = rng.sample(NAMES, n)
    out = []
    for nm in names:
        if allow_binary and rng.random() < 0.2:      # (also for the name `reason`: a skip whose reason attachment is not text)
            out.append([chars(nm), ['binary', chars(rng.choice(BINARY))]])
        else:
            t = gen_text(rng)
            out.append([chars(nm), ['text', chars(t if t or not nonempty_text else 'x')]])
    return out


def gen_arg(rng, kind, **kw):
    r = rng.random()
    if r < 0.5:
        return ['details', gen_details(rng, **kw)]
    if kind in ('success', 'uxsuccess'):
        return None
    if kind == 'skip':
        return ['reason', chars(gen_text(rng))]
    return ['exc', 'real']


def gen_tagset(rng, pool=4):
    return sorted(rng.sample(range(pool), rng.choice([0, 1, 1, 2])))


def gen_tags_call(rng, pool=4):
    new = gen_tagset(rng, pool)
    gone = [t for t in gen_tagset(rng, pool) if t not in new]
    return ['tags', new, gone]


OLD = ['py26', 'py27', 'twisted']


def gen_shape(rng, d, leaves=('old', 'ext', 'tt', 'tbt'), inner=('etod', 'deco', 'tagger', 'tfr', 'multi'), ff=False, fattr=0.0):
    """a capable (extended-protocol) result graph of depth <= d+1; fattr = probability that a 2.6 / Twisted style result gets a failfast attribute"""
    def old():
        f = rng.choice(OLD)
        if fattr and f in ('py26', 'twisted') and rng.random() < fattr:
            return ['etod', ['fsink', rng.random() < 0.5, rng.random() < 0.65, f]]
        return ['etod', ['sink', f]]
    if d <= 0 or rng.random() < 0.25:
        l = rng.choice(leaves)
        if l == 'old':
            return old()
        if l == 'ext':
            return ['sink', 'ext']
        if l in ('tt', 'text'):
            return [l, bool(ff and rng.random() < 0.5)]
        return [l]
    k = rng.choice(inner)

    def target():
        if 'old' in leaves and rng.random() < 0.3:
            return old()
        return ['etod', gen_shape(rng, d - 1, leaves, inner, ff, fattr)]
    if k == 'etod':
        return ['etod', gen_shape(rng, d - 1, leaves, inner, ff, fattr)]
    if k == 'deco':
        return ['deco', gen_shape(rng, d - 1, leaves, inner, ff, fattr)]
    if k == 'tagger':
        return gen_tagger(rng, gen_shape(rng, d - 1, leaves, inner, ff, fattr))
    if k in ('tfr', 'e2s'):
        return [k, target()]
    return ['multi'] + [target() for _ in range(rng.choice([1, 2, 2, 3]))]


TAGGER_CONTAINERS = ('set', 'set', 'frozenset', 'list', 'tuple', 'gen', 'gen')


def gen_tagger(rng, child):
    """30% of the taggers only remove tags - drawn from the pool the histories use at run level (gen_tags_call)"""
    hint = [[rng.choice(TAGGER_CONTAINERS), rng.randrange(2)]] if rng.random() < 0.5 else []
    if rng.random() < 0.3:
        return ['tagger', [], sorted(rng.sample(range(4), rng.choice([1, 1, 2]))), child] + hint
    new = gen_tagset(rng, 6)
    return ['tagger', new, [t for t in gen_tagset(rng, 6) if t not in new], child] + hint


def shrink_shape(s):
    """smaller well-formed shapes"""
    for c in children(s):
        yield c if c[0] not in ('sink', 'fsink') or c[1] == 'ext' else ['etod', c]
    k = s[0]
    if k == 'multi' and len(s) > 2:
        for i in range(1, len(s)):
            yield s[:i] + s[i + 1:]
    if k in ('etod', 'deco', 'tfr', 'e2s'):
        for c in shrink_shape(s[1]):
            if wf_shape([k, c]):
                yield [k, c]
    if k == 'tagger':
        for c in shrink_shape(s[3]):
            yield s[:3] + [c] + s[4:]
        if len(s) > 4:
            yield s[:4]
        if s[1] or s[2]:
            yield ['tagger', [], [], s[3]] + s[4:]
    if k == 'etod' and s[1][0] == 'fsink':
        yield ['etod', ['sink', s[1][3]]]
        if s[1][1]:
            yield ['etod', ['fsink', False] + s[1][2:]]
    if k == 'multi':
        for i in range(1, len(s)):
            for c in shrink_shape(s[i]):
                cand = s[:i] + [c] + s[i + 1:]
                if wf_shape(cand):
                    yield cand


def shrink_hist(h):
    for i in range(len(h)):
        yield h[:i] + h[i + 1:]
    for i, c in enumerate(h):
        if c[0] == 'add' and isinstance(c[3], list) and c[3][0] == 'details':
            d = c[3][1]
            for j in range(len(d)):
                yield h[:i] + [c[:3] + [['details', d[:j] + d[j + 1:]]]] + h[i + 1:]
            for j, (nm, ct) in enumerate(d):
                if ct[0] == 'text' and len(ct[1]) > 1:
                    yield h[:i] + [c[:3] + [['details', d[:j] + [[nm, ['text', ct[1][:1]]]] + d[j + 1:]]]] + h[i + 1:]


def wf_hist(h):
    """test events form startTest t / outcome t / stopTest t brackets"""
    ev = [c for c in h if c[0] in ('startTest', 'stopTest', 'add')]
    if len(ev) % 3:
        return False
    for i in range(0, len(ev), 3):
        a, b, c = ev[i:i + 3]
        if not (a[0] == 'startTest' and b[0] == 'add' and c[0] == 'stopTest' and a[1] == b[2] == c[1]):
            return False
    return True


def seen_of(point):
    """(test, tags) at each outcome of an observation point"""
    if hasattr(point, '_sent'):
        return point._sent
    return [[c[2], t] for c, t in point._log if c[0] == 'add']


def starts_run(h):
    return bool(h) and h[0] == ['startTestRun']


def wf_tag(h):
    """mirror of Spec.C17.wfTag"""
    p, cur = 0, 0
    for c in h:
        k = c[0]
        if k == 'startTest':
            if p != 0:
                return False
            p, cur = 1, c[1]
        elif k == 'add':
            if p in (1, 2) and c[2] == cur:
                p = 2
            elif p == 0:
                p, cur = 3, c[2]
            else:
                return False
        elif k == 'stopTest':
            if p not in (2, 3) or c[1] != cur:
                return False
            p, cur = 0, 0
        elif k in ('startTestRun', 'stopTestRun'):
            if p != 0:
                return False
        elif k == 'tags':
            if p == 3:
                return False
    return p == 0
