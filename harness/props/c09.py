"""C09 - TestResult -> StreamResult -> TestResult conversion preserves every test
(ExtendedToStreamDecorator -> CopyStreamResult([stream sink, StreamToExtendedDecorator(extended sink)])).
Input : [explicitStart, [run...]]   run = [test...]   test = [id, gtags, t0, ltags, t1, result]   (all runs on the same converter pair)   (see TTV/Drv/C09.lean)
Trace : [mid-stream events, calls received by the final extended result]
"""
import itertools, traceback
from harness.core import Prop
from harness.props import _stream as S

TB = (ValueError, ValueError('boom'), None)
TB_BYTES = list(''.join(traceback.format_exception_only(TB[0], TB[1])).encode('utf8'))
TEXT_CHUNKS = [[], [65], [66, 10], [0xC3, 0xA9], [32, 120, 121, 122]]
SPLIT_UTF8 = [[0xC3], [0xA9]]              # one character split over two chunks
BIN_CHUNKS = [[], [0], [255, 0], [10], [200, 201, 202]]
REASONS = [[], [119, 104, 121], [233, 32, 8364], [0x1F600], [110, 111, 10, 120]]
UNDECODABLE = [[0xFF, 0xFE], [0xC3], [0xE2, 0x98], [0xA9, 65]]      # invalid (or truncated) under charset=utf8


class C09(Prop):
    id = 'C09'
    budgets = {'quick': 2500, 'thorough': 30000}
    time_limit = {'quick': 60, 'thorough': 600}
    rule = ('histories of 1-3 runs (startTestRun ... stopTestRun) on the same ExtendedToStreamDecorator/StreamToExtendedDecorator pair, explicit time() values '
            'in some runs and none in others; per run 0-5 tests (4 ids incl. the empty string, possibly repeated), each outcome kind, payload = exc_info / details (0-3 details out of 6 names incl. '
            '"reason", "traceback", a non-ASCII name and the empty name, 0-4 chunks each biased to 0,1,2 chunks with leading/trailing/all-empty chunks, a UTF-8 '
            'character split over two chunks, 10% of the utf8 text details with bytes invalid in that charset; 15 content types incl. parameters, two pairs differing only in the letter case of a parameter value; histories with an odd number of tests hand over the same Content / ContentType objects again and again, the others build them on the fly and drop them) / reason text (empty, ASCII, non-ASCII, astral) / nothing; '
            'tags() before and inside tests, time() before startTest and before the outcome or never; startTestRun explicit or left to the first startTest (40%; tags() / time() may precede that startTest). '
            'thorough adds all payloads with <= 2 details x <= 3 chunks over a 2-chunk alphabet for 3 outcome kinds. '
            'non-trivial = at least one test with a multi-chunk or empty detail, or >= 2 tests; distinct = distinct input S-expression')
    assumptions = ['translator tie (harness/pystream.py): _convert and ExtendedToStreamDecorator.startTestRun are matched statement by statement on every run (each self.status(...) call with exactly its keyword set); trusted: the translator and the reading of the loops over iter_bytes()/details.items() by TTV/Model/ConvertSrc.lean; the content-type functions (_quote, _make_content_type) are not translated (C16); trusted normalisations before matching: alpha-renaming of the locals (recognised by what is bound to them), spellings of None tests, `for k in details: v = details[k]` = items(), the two pure bindings at the head of the details loop and the run of attribute resets in startTestRun in any order, `x = self.current_tags` right before its only use, utf8 = utf-8 - the order of every call (test.id(), self._now(), startTestRun, self.status) is asserted as written',
                   'content types are opaque tokens compared for equality: the render (repr(ContentType)) / parse (_make_content_type) round trip is C16\'s (another family); the tokens are lower-case types with lower-case parameter names and no RFC 2047 encoded words - what the round trip does to other spellings (audit/C09 v4: case folding, decoding of encoded words) is recorded with C16',
                   'INTERPRETATION modelled from the code, not repaired (audit/C09 v3, audit/C10 v1): "every non-empty detail" - a detail without chunks or with only empty chunks, incl. the skip reason "", is dropped on the consumer side (an attachment exists from its first non-empty chunk)',
                   'an exc_info is (ValueError, ValueError("boom"), None): TracebackContent yields one chunk, canonicalised to the token bytes "TB"; traceback formatting is not modelled',
                   'addSkip gets reason or details (alternatives, as in the extended API), never both',
                   'datetime.now(utc) is canonicalised to `now` after checking it is tz-aware UTC and inside the run window',
                   'a tags() / time() call BEFORE an explicit startTestRun() belongs to no run (startTestRun resets both; not expressible in the input); before the first startTest of a run that is started by that startTest they belong to the run (repaired: they used to raise AttributeError / be forgotten)',
                   'the history is well formed: runs startTestRun ... stopTestRun (only the first startTestRun may be left to the first startTest), per test [tags] [time] startTest [tags] [time] outcome stopTest; stopTestRun is not called on a decorator that was never started']

    manifest = {
        'text': 'Theorems for every well-formed history of runs on one converter pair (startTestRun resets tags and clock: a run that supplies no time() is stamped with the wall clock, never with a time of an earlier run; any number of tests, each outcome kind with exc_info / details / reason / nothing, any number of details and '
                'chunks incl. empty ones, tags() and time() calls): the stream between the converters is, per test, inprogress, then for each detail in order its chunks '
                'with eof exactly on the last (one empty eof chunk for a detail without chunks), then the reason file, then exactly one final status (error and failure '
                'as fail); StreamToExtendedDecorator replays it as, per test and in order, one well-formed startTest/outcome/stopTest bracket with the same id, the same '
                'outcome (error -> failure), the reporter\'s current tags, the supplied times in force, the skip reason and every detail with non-empty bytes under the '
                'same name and content type with the concatenated bytes. The hand-written model is tied to the code by a differential check of both the intermediate '
                'stream and the final call log.',
        'note': 'trusted: Lean kernel, the models TTV/Model/StreamConvert.lean + Stream.lean, the harness; content types are opaque tokens (MIME render/parse round trip belongs to C16); '
                'traceback text abstracted to a token',
        'technique': 'Lean 4 induction over histories and chunk lists (one-chunk look-ahead loop = declarative chunking; table consumer = one report per test), composed with the C10 '
                     'refinement; executable spec shared with a differential correspondence check',
    }

    def extract_tables(self, repo):
        from harness import pystream
        out = dict(S.extract_tables(repo))
        out.update(pystream.generate_convert(repo))      # the skeleton of ExtendedToStreamDecorator._convert, translated from the source
        out.update(pystream.generate_consumer(repo))     # C09's theorems build on C10's
        return out

    # ----- implementation side
    keep = None

    def details(self, ds):
        """the details dict of one outcome call.  `self.keep` None: every Content / ContentType is built on the fly and dies with
        the call (the next one may land on the same address); a dict: equal ContentTypes and equal Contents are ONE object each,
        kept alive and handed over again and again (identity must not matter either way)"""
        from testtools.content import Content
        out = {}
        for name, mime, chunks in ds:
            if self.keep is None:
                out[S.NAMES[name]] = Content(S.content_type(mime), (lambda cs: (lambda: [bytes(c) for c in cs]))(chunks))
            else:
                ct = self.keep.setdefault(('type', mime), S.content_type(mime))
                key = ('content', mime, repr(chunks))
                if key not in self.keep:
                    self.keep[key] = Content(ct, (lambda cs: (lambda: [bytes(c) for c in cs]))(chunks))
                out[S.NAMES[name]] = self.keep[key]
        return out

    def canon_tb(self, x):
        """replace the traceback text by the token the model uses"""
        if isinstance(x, list):
            if x == TB_BYTES:
                return [84, 66]
            return [self.canon_tb(y) for y in x]
        return x

    def run_impl(self, inp):
        from testtools import ExtendedToStreamDecorator, CopyStreamResult, StreamToExtendedDecorator, PlaceHolder
        explicit, runs = inp
        # histories with an odd number of tests re-use their Content / ContentType objects, the others build fresh ones
        self.keep = {} if sum(len(r) for r in runs) % 2 else None
        try:
            clock = S.Clock()
            mid = _Mid(clock)
            ext = S.ExtSink(clock)
            # one pair of converters for all runs of the history
            e = ExtendedToStreamDecorator(CopyStreamResult([mid, StreamToExtendedDecorator(ext)]))
            for nrun, tests in enumerate(runs):
              if explicit or nrun > 0:
                e.startTestRun()
              for tid, gtags, t0, ltags, t1, result in tests:
                  pl = PlaceHolder(S.test_id(tid))
                  if gtags is not None:
                      e.tags(S.tagset(gtags[1][0]), S.tagset(gtags[1][1]))
                  if t0 is not None:
                      e.time(S.ts(t0[1]))
                  e.startTest(pl)
                  if ltags is not None:
                      e.tags(S.tagset(ltags[1][0]), S.tagset(ltags[1][1]))
                  if t1 is not None:
                      e.time(S.ts(t1[1]))
                  kind, p = result
                  if kind in ('success', 'uxsuccess'):
                      m = e.addSuccess if kind == 'success' else e.addUnexpectedSuccess
                      if p is None:
                          m(pl)
                      else:
                          m(pl, details=self.details(p[1]))
                  elif kind in ('error', 'failure', 'xfail'):
                      m = {'error': e.addError, 'failure': e.addFailure, 'xfail': e.addExpectedFailure}[kind]
                      if p == 'err':
                          m(pl, TB)
                      else:
                          m(pl, details=self.details(p[1:]))
                  else:
                      if p is None:
                          e.addSkip(pl)
                      elif p[0] == 'reason':
                          e.addSkip(pl, ''.join(map(chr, p[1])))
                      else:
                          e.addSkip(pl, details=self.details(p[1:]))
                  e.stopTest(pl)
              e.stopTestRun()
            return [self.canon_tb(mid.ev), self.canon_tb(ext.ev)]
        except Exception as ex:
            return ['raised', type(ex).__name__]

    # ----- generators
    def gen_detail(self, rng, name):
        text = rng.random() < 0.6 or (name == 0 and rng.random() < 0.7)          # (a detail named "reason" may be binary too)
        mime = rng.choice([1, 1, 2, 4, 9, 10, 12] if text else [0, 0, 3, 6, 7, 8, 11, 13])
        pool = BIN_CHUNKS if mime in (0, 3, 4, 6, 7, 8, 11, 13) else TEXT_CHUNKS
        n = rng.choice([0, 1, 1, 2, 2, 3, 4])
        chunks = [list(rng.choice(pool)) for _ in range(n)]
        r = rng.random()
        if r < 0.12:
            chunks = [[]] * n                         # all empty
        elif r < 0.24 and n:
            chunks[0] = []                            # leading empty
        elif r < 0.36 and n:
            chunks[-1] = []                           # trailing empty
        elif r < 0.44 and mime in (1, 2, 9, 10, 12):
            k = rng.randrange(len(chunks) + 1)
            chunks[k:k] = [list(c) for c in SPLIT_UTF8]
        elif r < 0.54 and mime in (1, 2, 9, 10, 12):
            # declared text with a charset, bytes invalid in it (the decorator is a StreamSummary itself and formats the details
            # of failed tests: it must not lose the test over that)
            k = rng.randrange(len(chunks) + 1)
            chunks[k:k] = [list(rng.choice(UNDECODABLE))]
        return [name, mime, chunks]

    def gen_details(self, rng):
        names = rng.sample([0, 1, 2, 3, 4, 5], rng.choice([0, 1, 1, 2, 2, 3]))          # 5: the empty name
        return [self.gen_detail(rng, n) for n in names]

    def gen_result(self, rng):
        kind = rng.choice(['success', 'uxsuccess', 'error', 'failure', 'xfail', 'skip', 'skip', 'failure'])
        if kind in ('success', 'uxsuccess'):
            return [kind, None if rng.random() < 0.4 else ['some', self.gen_details(rng)]]
        if kind in ('error', 'failure', 'xfail'):
            return [kind, 'err' if rng.random() < 0.3 else ['details'] + self.gen_details(rng)]
        r = rng.random()
        if r < 0.15:
            return [kind, None]
        if r < 0.6:
            return [kind, ['reason', list(rng.choice(REASONS))]]
        return [kind, ['details'] + self.gen_details(rng)]

    def gen_tags(self, rng):
        if rng.random() < 0.55:
            return None
        return ['some', [sorted(rng.sample([0, 1, 2, 3], rng.choice([0, 1, 1, 2]))), sorted(rng.sample([0, 1, 2, 3], rng.choice([0, 0, 1, 2])))]]

    def gen_run(self, rng, n, clock, timed):
        tests = []
        for _ in range(n):
            t0 = ['some', next(clock)] if timed and rng.random() < 0.6 else None
            t1 = ['some', next(clock)] if timed and rng.random() < 0.6 else None
            tests.append([rng.choice([0, 1, 2, S.EMPTY_ID]), self.gen_tags(rng), t0, self.gen_tags(rng), t1, self.gen_result(rng)])
        return tests

    def gen(self, rng, tier):
        clock = itertools.count(rng.choice([0, 10]))
        nruns = rng.choice([1, 1, 1, 2, 2, 3])
        runs = []
        for k in range(nruns):
            n = rng.choice([0, 1, 1, 2, 2, 3, 4, 5]) if nruns == 1 else rng.choice([0, 1, 1, 2, 3])
            # explicit times in some runs and none in others: a later run without time() is stamped with the wall clock
            runs.append(self.gen_run(rng, n, clock, rng.random() < 0.6))
        explicit = True if not runs[0] else rng.random() < 0.6
        # (not explicit: the first run is started by its first startTest - what unittest does with a supplied result and what
        # PlaceHolder.run does; tags() and time() may precede that startTest and belong to the run)
        return [explicit, runs]

    def enumerate(self, tier):
        alphabet = [[], [65]]
        chunkings = [list(c) for k in range(0, 4) for c in itertools.product(alphabet, repeat=k)]
        for kind in ('success', 'failure', 'skip'):
            for c1 in chunkings:
                ds = [[2, 1, [list(x) for x in c1]]]
                yield [True, [[[0, None, None, None, None, self.wrap(kind, ds)]]]]
                for c2 in chunkings:
                    ds2 = ds + [[0 if kind == 'skip' else 3, 1 if kind == 'skip' else 0, [list(x) for x in c2]]]
                    yield [True, [[[0, None, ['some', 1], None, ['some', 2], self.wrap(kind, ds2)]], [[1, None, None, None, None, ['success', None]]]]]

        # utf8-declared details with invalid bytes under the names the summaries treat specially and under the empty name, for the
        # empty test id too; twice in a row (odd / even number of tests: re-used / fresh Content objects)
        for kind in ('failure', 'xfail', 'skip', 'success', 'error'):
            for name in (0, 1, 2, 5):
                for chunk in UNDECODABLE:
                    for tid in (0, S.EMPTY_ID):
                        t = [tid, None, None, None, None, self.wrap(kind, [[name, 1, [list(chunk)]], [2, 13, [[0, 255]]]])]
                        yield [True, [[t]]]
                        yield [True, [[t, [0, None, None, None, None, self.wrap(kind, [[name, 12, [[65], list(chunk)]]])]]]]

        # a run started by its first startTest, with every combination of tags() / time() before that startTest and inside the
        # test; then a second, explicitly started run without own time
        for g in (None, ['some', [[0, 1], []]], ['some', [[], [0]]]):
            for t0 in (None, ['some', 1]):
                for l in (None, ['some', [[2], [0]]]):
                    for t1 in (None, ['some', 2]):
                        for res in (['success', None], ['failure', 'err'], ['skip', ['reason', [119]]]):
                            first = [0, g, t0, l, t1, res]
                            yield [False, [[first]]]
                            yield [False, [[first, [1, ['some', [[3], []]], None, None, None, ['success', None]]], [[0, None, None, None, None, ['success', None]]]]]

    def wrap(self, kind, ds):
        if kind == 'success':
            return [kind, ['some', ds]]
        return [kind, ['details'] + ds]

    # ----- evidence
    def result_details(self, result):
        kind, p = result
        if kind in ('success', 'uxsuccess'):
            return [] if p is None else p[1]
        if isinstance(p, list) and p and p[0] == 'details':
            return p[1:]
        return []

    def nontrivial(self, inp, trace):
        tests = [t for run in inp[1] for t in run]
        return len(tests) >= 2 or any(len(d[2]) != 1 or d[2] == [[]] for t in tests for d in self.result_details(t[5]))

    def features(self, inp, trace):
        explicit, runs = inp
        tests = [t for run in runs for t in run]
        f = {'tests=%s' % (len(tests) if len(tests) < 6 else '6+'), 'start:' + ('explicit' if explicit else 'implied'), 'runs=%d' % len(runs)}
        timed = [any(t[2] is not None or t[4] is not None for t in run) for run in runs]
        for k in range(1, len(runs)):
            if any(timed[:k]) and runs[k] and runs[k][0][2] is None:
                f.add('run-without-own-time-after-timed-run')
        for t in tests:
            kind, p = t[5]
            f.add('outcome:' + kind)
            f.add('payload:' + ('none' if p is None else 'err' if p == 'err' else 'reason' if p[0] == 'reason' else 'details'))
            ds = self.result_details(t[5])
            f.add('details=%d' % len(ds))
            for d in ds:
                f.add('chunks=%s' % (len(d[2]) if len(d[2]) < 4 else '4+'))
                if d[2] and all(c == [] for c in d[2]):
                    f.add('detail-all-empty-chunks')
                elif d[2] and d[2][0] == []:
                    f.add('detail-leading-empty-chunk')
                elif d[2] and d[2][-1] == []:
                    f.add('detail-trailing-empty-chunk')
                f.add('mime=%d' % d[1])
                f.add('name=%s' % ('reason' if d[0] == 0 else 'traceback' if d[0] == 1 else 'other'))
            if p is not None and p != 'err' and p[0] == 'reason':
                f.add('reason:' + ('empty' if not p[1] else 'ascii' if max(p[1]) < 128 else 'non-ascii'))
            if t[1] is not None:
                f.add('tags-before-test')
            if t[3] is not None:
                f.add('tags-inside-test')
            f.add('time:%s%s' % ('start' if t[2] is not None else '-', 'end' if t[4] is not None else '-'))
        ids = [t[0] for t in tests]
        if len(ids) != len(set(ids)):
            f.add('repeated-test-id')
        if trace and trace[0] == 'raised':
            f.add('raised:' + trace[1])
        return sorted(f)

    def shrink(self, inp):
        explicit, runs = inp
        for k in range(len(runs)):
            if len(runs) > 1 and (k > 0 or explicit or runs[1:2] and runs[1]):
                cand = runs[:k] + runs[k + 1:]
                if explicit or (cand and cand[0]):
                    yield [explicit, cand]
            for tests in self.shrink_run(runs[k], explicit or k > 0):
                yield [explicit, runs[:k] + [tests] + runs[k + 1:]]
        if not explicit:
            yield [True, runs]

    def shrink_run(self, tests, explicit):
        for i in range(len(tests)):
            rest = tests[:i] + tests[i + 1:]
            if explicit or rest:
                yield rest
        for i, t in enumerate(tests):
            for pos in (1, 2, 3, 4):
                if t[pos] is not None:
                    yield tests[:i] + [t[:pos] + [None] + t[pos + 1:]] + tests[i + 1:]
            kind, p = t[5]
            ds = self.result_details(t[5])
            for j in range(len(ds)):
                nds = ds[:j] + ds[j + 1:]
                yield tests[:i] + [t[:5] + [[kind, ['some', nds]] if kind in ('success', 'uxsuccess') else [kind, ['details'] + nds]]] + tests[i + 1:]
                for k in range(len(ds[j][2])):
                    nd = [ds[j][0], ds[j][1], ds[j][2][:k] + ds[j][2][k + 1:]]
                    nds = ds[:j] + [nd] + ds[j + 1:]
                    yield tests[:i] + [t[:5] + [[kind, ['some', nds]] if kind in ('success', 'uxsuccess') else [kind, ['details'] + nds]]] + tests[i + 1:]


class _Mid:
    """recording StreamResult between the converters"""

    def __init__(self, clock):
        self.ev, self.clock = [], clock

    def startTestRun(self):
        self.ev.append('start')

    def stopTestRun(self):
        self.ev.append('stop')

    def status(self, test_id=None, test_status=None, test_tags=None, runnable=True, file_name=None, file_bytes=None,
               eof=False, mime_type=None, route_code=None, timestamp=None):
        self.ev.append(['status', S.canon_event(self.clock, test_id, test_status, test_tags, runnable, file_name, file_bytes, eof,
                                                 mime_type, route_code, timestamp)])


PROP = C09()
