"""C03 (model M-Run, harness/mrun.py)."""
from harness.mrun import RunProp
from harness.props.c01 import C01


class C03(RunProp):
    id = 'C03'
    rule = C01.rule
    manifest = {
        'text': 'Theorems (same model and quantifier as C01): success is reported iff no stage raised, no expectThat mismatched and '
                'force_failure is unset; a single exception yields the outcome its type maps to, user handlers first in list order; whenever '
                'any stage raised something that maps to failure or error the one reported outcome is failure/error/unexpected success, '
                'whatever other stages raised before or after (all ordered combinations of kinds and stages at once); a recorded expectThat '
                'mismatch (in any executed stage, setUp included - also when setUp then gives up with a skip or an expected failure - or '
                'force_failure left set) is reported as a failure, or as the error of an exception that has to propagate: never success / skip / '
                'expected failure / unexpected success (C03_expectation_fails, clause expectation-mismatch-fails). The documented '
                'type->outcome mapping is stated independently of the exception_handlers table extracted from testcase.py; a theorem proves '
                'the extracted table implements it, so a reordered table breaks the proof and the differential check finds the failing test.',
        'note': 'trusted: Lean kernel; model TTV/Model/RunTest.lean; harness/mrun.py; hypotheses: wf (distinct stage ids, user handlers only for '
                'Exception subclasses; further conjuncts concern C02/C05 only), user handlers report unsuccessful outcomes for no-downgrade / do not report success for success-iff / do not claim the forced AssertionError for expectation-mismatch-fails '
                '(a user handler is arbitrary code); 2.6-style results not judged for success-iff (they show skip as success, see C08)',
        'technique': 'Lean 4 proofs about exception selection (list folds) over the M-Run model, generated handler table proved against a documented mapping, differential correspondence',
    }


PROP = C03()
