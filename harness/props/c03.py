"""C03 (model M-Run, harness/mrun.py)."""
from harness.mrun import RunProp
from harness.props.c01 import C01


class C03(RunProp):
    id = 'C03'
    rule = C01.rule


PROP = C03()
