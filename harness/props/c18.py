"""C18 - routing picks exactly one destination; route prefixes push and pop inversely (StreamResultRouter, StreamToQueue).
Input : [hasFallback, fbFlag, ops]
        op = 'start' | 'stop' | ['prefix', sink, chars, consume, flag] | ['id', sink, tid|None, flag] | ['bad', sink, flag]
           | ['status', event] | ['trip', [chars...], event]
Trace : [[(sink, 'start'|'stop'|['status', event]) ...] in global order,  [per-op 'ok' | ['raised', X] | ['arrived', event]]]
The fallback (if any) is sink 0; every other sink number names one recording sink object.
"""
import itertools
from harness.core import Prop
from harness.props import _stream as S

SEGS = ['0', '1', 'ab', 'zz']


def chars(s):
    return [ord(c) for c in s]


def ev(tid=None, status=None, tags=None, runnable=True, fname=None, fbytes=None, eof=False, mime=None, route=None, ts=None):
    return [S.opt(tid), S.opt(status), S.opt(tags), runnable, S.opt(fname), S.opt(fbytes), eof, S.opt(mime),
            None if route is None else ['some', chars(route)], S.opt(ts)]


class _Sink:
    def __init__(self, n, log, clock):
        self.n, self.log, self.clock = n, log, clock

    def startTestRun(self):
        self.log.append([self.n, 'start'])

    def stopTestRun(self):
        self.log.append([self.n, 'stop'])

    def status(self, test_id=None, test_status=None, test_tags=None, runnable=True, file_name=None, file_bytes=None,
               eof=False, mime_type=None, route_code=None, timestamp=None):
        self.log.append([self.n, ['status', S.canon_event(self.clock, test_id, test_status, test_tags, runnable, file_name,
                                                          file_bytes, eof, mime_type, route_code, timestamp)]])


class _Fault(Exception):
    """raised by a scripted sink"""


class _KeyFault(KeyError):
    """a subclass of an exception the router's own code might catch"""


class _BaseFault(BaseException):
    """not an Exception"""


#: what a raising sink raises: the classes a router / decorator could be catching itself around the call - KeyError (dict
#: lookups), AttributeError (fallback None), TypeError / ValueError (add_rule), StopIteration, LookupError / IndexError - a
#: subclass of one, a plain Exception subclass and a BaseException; plus every builtin exception named in an `except` clause
#: of the stream classes of the tree under test (read from the source on every run, see `fault_classes`)
FAULTS = [_Fault, KeyError, AttributeError, TypeError, ValueError, StopIteration, LookupError, IndexError, _KeyFault, Exception, _BaseFault]
_FAULT_CACHE = {}


def fault_classes():
    """FAULTS + the builtin exception classes the tree's own stream code names in `except` clauses"""
    import ast, builtins, testtools.testresult.real as real
    path = real.__file__
    if path not in _FAULT_CACHE:
        out = list(FAULTS)
        try:
            tree = ast.parse(open(path).read())
            classes = ('StreamResult', 'CopyStreamResult', 'StreamFailFast', 'StreamResultRouter', 'StreamTagger', 'StreamToQueue',
                       'TimestampingStreamResult', 'StreamToDict', 'StreamSummary', '_StreamToTestRecord')
            for node in ast.walk(tree):
                if isinstance(node, ast.ClassDef) and node.name in classes:
                    for h in ast.walk(node):
                        if isinstance(h, ast.ExceptHandler) and h.type is not None:
                            for n in ast.walk(h.type):
                                cls = getattr(builtins, n.id, None) if isinstance(n, ast.Name) else None
                                if isinstance(cls, type) and issubclass(cls, BaseException) and cls not in out \
                                        and cls not in (KeyboardInterrupt, SystemExit, GeneratorExit):
                                    out.append(cls)
        except (OSError, SyntaxError):
            pass
        _FAULT_CACHE[path] = out
    return _FAULT_CACHE[path]


class _ScriptedSink:
    """recording sink of the main router.  When the router calls one of its methods (not from inside another sink's
    method) it performs the next entry of its script for that method: re-entrant router.add_rule(...) calls and/or raise."""

    def __init__(self, n, ctx, falsy=False, alike=False):
        self.n, self.ctx = n, ctx
        self.falsy, self.alike = falsy, alike

    # falsy but valid: a sink whose truth value is False (a list-like recorder that is still empty) is a sink like any other
    def __len__(self):
        if self.falsy:
            return 0
        raise TypeError('no len()')

    def __bool__(self):
        return not self.falsy

    # identity, not equality: sinks that compare equal to every other sink are still different objects
    def __eq__(self, other):
        return self is other or (self.alike and isinstance(other, _ScriptedSink))

    def __ne__(self, other):
        return not self.__eq__(other)

    __hash__ = None

    def _call(self, kind, ev):
        ctx = self.ctx
        nested = ctx['depth'] > 0
        ctx['log'].append(['del', self.n, ev, nested])
        if nested:
            return
        entries = ctx['scripts'].get((self.n, kind))
        if not entries:
            return
        acts = entries.pop(0)
        ctx['depth'] += 1
        try:
            for act in acts:
                if act == 'raise':
                    # the class is a realisation detail of 'raise' (it cycles through the vocabulary with the position in the
                    # run); what the property asks: THIS exception object reaches the caller, the event is not delivered again
                    ctx['log'].append(['exc', 'Fault'])
                    classes = ctx['faults']
                    exc = classes[(ctx['nfaults'] + self.n + ctx['salt']) % len(classes)]('scripted fault')
                    ctx['nfaults'] += 1
                    ctx['fault_obj'] = exc
                    raise exc
                ctx['log'].append(['radd', act])
                try:
                    ctx['add'](act)
                except (TypeError, ValueError) as e:
                    ctx['log'].append(['exc', type(e).__name__])
                    raise
        finally:
            ctx['depth'] -= 1

    def startTestRun(self):
        self._call('start', 'start')

    def stopTestRun(self):
        self._call('stop', 'stop')

    def status(self, test_id=None, test_status=None, test_tags=None, runnable=True, file_name=None, file_bytes=None,
               eof=False, mime_type=None, route_code=None, timestamp=None):
        self._call('status', ['status', S.canon_event(self.ctx['clock'], test_id, test_status, test_tags, runnable, file_name,
                                                        file_bytes, eof, mime_type, route_code, timestamp)])


class _ListQueue:
    def __init__(self):
        self.items = []

    def put(self, d):
        self.items.append(d)


class C18(Prop):
    id = 'C18'
    budgets = {'quick': 4000, 'thorough': 50000}
    time_limit = {'quick': 60, 'thorough': 600}
    rule = ('router with/without fallback (with/without do_start_stop_run) and a script of 2-14 operations in random order: startTestRun / stopTestRun '
            '(also repeated or missing), add_rule for route prefixes over {0,1,ab,zz} (consume on/off, flag on/off, re-registration of a prefix, 3% with a "/" '
            'in the prefix, 6% for the empty prefix), add_rule for test ids incl. None and the empty string (re-registration), 2% unknown policy, status events with route None or 1-4 segments (8% with an '
            'empty segment, so also the empty route code) x 4 test ids (one the empty string)/None x other fields, and round trips through 1-3 StreamToQueue codes (incl. the empty code) popped by as many fresh consuming routers; in 30% of the cases one event '
            'is sent, then 1-3 rules are added (mostly for the first segment of its route code: new rule, replacement with other sink / consume flag; or its test id) and after each the same event '
            '(25%: same first segment, other rest) is sent again, spread in this order over the script; in another 10% a route rule whose sink is the fallback object (or the sink of a test-id rule) and a test-id rule both match one event. '
            'In half of the cases 1-3 sinks have scripted behaviour at their 1st/2nd startTestRun / stopTestRun / status: they call router.add_rule '
            're-entrantly (with/without do_start_stop_run; fresh or already known sink; 4% bad prefix, 3% unknown policy) and/or raise; the driver '
            'survives every exception and carries on with the script; what a raising sink raises cycles through a vocabulary of exception classes (KeyError, AttributeError, TypeError, ValueError, StopIteration, LookupError, IndexError, a KeyError subclass, Exception, a BaseException that is not an Exception, plus whatever builtin the tree\'s own stream classes name in an except clause) - the very exception object must reach the caller; in 20% of the cases a sink in a chosen role (route rule, test-id rule, fallback; other rules behind it) raises from status / startTestRun / stopTestRun and the same event is sent again. '
            'thorough adds all configurations with <= 2 rules x <= 3 events from a 6-event alphabet, with start/stop around or across the rules, every event-rule-same event[-rule-same event] history over 4 events x 5 earlier rules x 4 later rules, and '
            'every pair of one-act behaviours (7 kinds) at start/stop/status of the fallback and a rule sink over 5 histories. '
            'non-trivial = at least one rule and one status event, or a round trip; distinct = distinct input S-expression')
    assumptions = ['translator tie (harness/pystream.py): StreamResultRouter.status is symbolically executed and startTestRun/stopTestRun/add_rule/policy methods are matched statement by statement on every run; trusted: the translator and the reading of the recognised forms by TTV/Model/RouterSrc.lean (is-not-None, in-dict, and/not, str truthiness, split/slice, live-list loop); trusted normalisations before comparing: an arm is read knowing its test, nested ifs = `and`, conjuncts that cannot raise in canonical order (a dict lookup is only admitted on a path that tested the key, else the tie breaks), == None for is None, early returns with one forwarding call per path, aliases of the rule dicts, prefixes.get(k) tested for None = `k in prefixes` (values are pairs), split("/", n>=1)[0] / partition("/")[0], tests of the parameter do_start_stop_run split / merged / turned around - the order of calls on sinks, of the append and of the _in_run assignments is asserted as written',
                   'INTERPRETATIONS modelled from the code, not repaired (audit/C18 v3 and its borderline list): an event is a status(**kwargs) call - StreamResultRouter.status takes keywords only, a positional call raises TypeError and reaches no sink, also when it comes through CopyStreamResult / StreamTagger / TimestampingStreamResult, which pass positional arguments on unchanged; a sink whose rule is replaced stays registered for start/stop; a raising sink ends the operation there (_in_run keeps its value, later sinks are not called); route codes with empty segments are read literally; StreamToQueue(queue, None) cannot prefix a route code (TypeError); no statement about threads',
                   'sink objects are told apart by identity: half of the generated sinks are falsy (__len__ == 0 / __bool__ False), a third compare equal to every other sink',
                   'a scripted sink behaves plainly (records only) when it is called from inside a re-entrant add_rule, i.e. the immediate startTestRun of a rule added by another sink\'s method while a run is in progress; nesting of scripted behaviour is therefore one level deep',
                   'Python list iteration over a list that grows (for sink in self._sinks) is modelled by an index loop over the live list, with a fuel bound proved sufficient',
                   'Python dict semantics of the two rule tables are modelled by association lists (re-registration overwrites)',
                   'str.split("/")[0] and slicing are modelled on lists of characters',
                   'round trips are driven by the harness: it takes the dict StreamToQueue put on its queue and calls the next stage with it, as ConcurrentStreamTestSuite does']

    manifest = {
        'text': 'Theorems for every rule history (any number of route-prefix rules with consume on/off and test-id rules incl. None, re-registrations, with/without '
                'fallback and do_start_stop_run, added before, during or after runs) and every event: status goes to exactly one sink - the latest rule of the first '
                'segment of its route code if there is one, else the latest rule of its test id, else the fallback, else the call raises and nothing is delivered - '
                'with every field but route_code unchanged, a consuming rule stripping exactly the first segment (None when nothing remains); for every "/"-free code '
                'and every route code (None or any string) consume(code, prefix(code, rc)) = rc, nested to any depth; startTestRun/stopTestRun reach exactly the '
                'registered sinks once per call - also sinks registered re-entrantly by another sink from inside its startTestRun/stopTestRun while the dispatch is under '
                'way: each registration is reached exactly once by that dispatch and is not started by add_rule itself unless a run is in progress (the flag is set only '
                'after the dispatch loop has completed); a sink that raises ends the dispatch there (later sinks are not called, the flag is unchanged, the exception '
                'reaches the driver); in histories without exceptions, nested runs or double registrations every sink sees startTestRun/stopTestRun strictly alternating '
                'beginning with a start; a rule added mid-run with the flag is started at once, one without the flag never. The hand-written model is tied to '
                'the code by a differential check over operation scripts.',
        'note': 'trusted: Lean kernel, the model TTV/Model/StreamRouter.lean, the harness; dicts modelled as association lists, strings as character lists',
        'technique': 'Lean 4 invariant proof over operation histories (model dictionaries = latest registration in the history) plus list lemmas for the push/pop inverse; '
                     'executable history specification shared with a differential correspondence check',
    }

    def extract_tables(self, repo):
        from harness import pystream
        out = dict(S.extract_tables(repo))
        out.update(pystream.generate_router(repo))     # the router's decision logic, translated from the source
        return out

    # ----- implementation side
    def run_impl(self, inp):
        from testtools import StreamResultRouter, StreamToQueue
        has_fb, fb_flag, ops = inp[:3]
        scripts = inp[3] if len(inp) > 3 else []
        try:
            clock = S.Clock()
            ctx = {'log': [], 'depth': 0, 'clock': clock, 'scripts': {}, 'faults': fault_classes(), 'nfaults': 0,
                   'salt': len(ops) + sum(len(s[2]) for s in scripts), 'fault_obj': None}
            for n, kind, entries in scripts:
                ctx['scripts'].setdefault((n, kind), [list(e) for e in entries])
            sinks = {}

            def sink(n):
                if n not in sinks:
                    # half of the sink objects are falsy (incl. the fallback in half of the inputs), a third compare equal to
                    # every other sink: neither may matter to the router
                    sinks[n] = _ScriptedSink(n, ctx, falsy=(n + len(ops)) % 2 == 0, alike=(n + len(ops)) % 3 == 0)
                return sinks[n]
            router = StreamResultRouter(sink(0) if has_fb else None, do_start_stop_run=fb_flag)

            def add(op):
                if op[0] == 'prefix':
                    router.add_rule(sink(op[1]), 'route_code_prefix', route_prefix=''.join(map(chr, op[2])), consume_route=op[3],
                                    do_start_stop_run=op[4])
                elif op[0] == 'id':
                    router.add_rule(sink(op[1]), 'test_id', test_id=None if op[2] is None else S.test_id(op[2][1]),
                                    do_start_stop_run=op[3])
                elif op[0] == 'bad':
                    router.add_rule(sink(op[1]), 'no-such-policy', do_start_stop_run=op[2])
                else:
                    raise AssertionError(op)
            ctx['add'] = add
            results, segments = [], []
            for op in ops:
                mark = len(ctx['log'])
                try:
                    if op == 'start':
                        router.startTestRun()
                    elif op == 'stop':
                        router.stopTestRun()
                    elif op[0] in ('prefix', 'id', 'bad'):
                        add(op)
                    elif op[0] == 'status':
                        router.status(**S.event_kwargs(op[1]))
                    elif op[0] == 'trip':
                        results.append(self.trip(clock, [''.join(map(chr, c)) for c in op[1]], S.event_kwargs(op[2])))
                        segments.append([])
                        continue
                    else:
                        raise AssertionError(op)
                    results.append('ok')
                except BaseException as e:
                    if e is ctx['fault_obj']:
                        results.append(['raised', 'Fault'])        # the sink's own exception object, unchanged
                    elif isinstance(e, (AttributeError, TypeError, ValueError)) and not isinstance(e, (KeyboardInterrupt, SystemExit)):
                        results.append(['raised', type(e).__name__])
                    elif isinstance(e, (KeyboardInterrupt, SystemExit)):
                        raise
                    else:
                        return ['raised', type(e).__name__]
                ctx['fault_obj'] = None
                if ctx['depth'] != 0:
                    return ['raised', 'harness-depth']
                segments.append(ctx['log'][mark:])
            return [segments, results]
        except Exception as e:
            return ['raised', type(e).__name__]

    def trip(self, clock, codes, kw):
        from testtools import StreamResultRouter, StreamToQueue
        far = []
        target = _Sink(0, far, clock)
        try:
            # the routers that pop: innermost code last
            for code in codes:
                r = StreamResultRouter()
                r.add_rule(target, 'route_code_prefix', route_prefix=code, consume_route=True)
                target = r
            for code in codes:
                q = _ListQueue()
                StreamToQueue(q, code).status(**kw)
                kw = dict(q.items[0])
                if kw.pop('event') != 'status' or len(q.items) != 1:
                    return ['raised', 'bad-queue-content']
            target.status(**kw)
        except (AttributeError, TypeError, ValueError) as e:
            return ['raised', type(e).__name__]
        if len(far) != 1:
            return ['raised', 'not-exactly-one-arrival']
        return ['arrived', far[0][1][1]]

    # ----- generators
    def gen_route(self, rng):
        n = rng.choice([0, 0, 1, 1, 2, 3, 4])
        if n == 0:
            return None
        segs = [rng.choice(SEGS) for _ in range(n)]
        if rng.random() < 0.08:
            segs[rng.randrange(n)] = ''              # an empty segment; alone it is the empty route code, which is not None
        return '/'.join(segs)

    def gen_event(self, rng):
        fname = rng.choice([None, None, 2])
        return ev(rng.choice([None, 0, 1, 2, S.EMPTY_ID]), rng.choice([None, 'inprogress', 'success', 'fail'] + S.STATUSES),        # every member of STATES, incl. unknown
                  rng.choice([None, None, [], [0], [0, 1]]), rng.random() < 0.85, fname, None if fname is None else rng.choice([[], [65, 66]]),
                  rng.random() < 0.2, rng.choice([None, None, 1]), self.gen_route(rng), rng.choice([None, 3]))

    def gen(self, rng, tier):
        ops = []
        nsink = itertools.count(1)
        for _ in range(rng.choice([0, 1, 2, 2, 3, 4])):
            r = rng.random()
            if r < 0.6:
                p = rng.choice(SEGS[:3])
                if rng.random() < 0.06:
                    p = ''                          # a rule for the empty first segment
                if rng.random() < 0.03:
                    p = p + '/' + rng.choice(SEGS)
                ops.append(['prefix', next(nsink), chars(p), rng.random() < 0.6, rng.random() < 0.5])
            elif r < 0.98:
                ops.append(['id', next(nsink), rng.choice([None, ['some', 0], ['some', 1], ['some', S.EMPTY_ID]]), rng.random() < 0.5])
            else:
                ops.append(['bad', next(nsink), rng.random() < 0.5])
        if rng.random() < 0.25:
            # one object in two roles: a rule whose sink is the fallback or the sink of another rule
            rules = [o for o in ops if o[0] in ('prefix', 'id')]
            if rules:
                o = rng.choice(rules)
                o[1] = rng.choice([0, 0] + [q[1] for q in rules if q is not o])
        ops += [['status', self.gen_event(rng)] for _ in range(rng.choice([1, 2, 3, 4, 5]))]
        if rng.random() < 0.35:
            codes = [rng.choice(['0', '1', 'x', 'ab', '']) for _ in range(rng.choice([1, 1, 2, 3]))]
            ops.append(['trip', [chars(c) for c in codes], self.gen_event(rng)])
        ctl = rng.choice([['start', 'stop'], ['start', 'stop'], ['start', 'stop'], ['start'], ['start', 'stop', 'start', 'stop'], [], ['stop'],
                          ['start', 'start', 'stop']])
        # start/stop keep their relative order, everything else is shuffled around them
        rng.shuffle(ops)
        if rng.random() < 0.3:
            # the same event again after the rules changed: a route code seen BEFORE a rule for its first segment is added
            # (or replaced, or the fallback / test-id rule it fell to is joined by one), then seen again - in this order,
            # spread over the rest of the script
            seg = rng.choice(SEGS[:3])
            rest = [rng.choice(SEGS) for _ in range(rng.choice([0, 1, 1, 1, 2]))]
            e = self.gen_event(rng)
            e[8] = ['some', chars('/'.join([seg] + rest))]
            pat = [['status', e]]
            for _ in range(rng.choice([1, 1, 2, 3])):
                r = rng.random()
                if r < 0.75:
                    pat.append(['prefix', next(nsink), chars(seg), rng.random() < 0.6, rng.random() < 0.5])
                elif r < 0.9:
                    pat.append(['prefix', next(nsink), chars(rng.choice(SEGS[:3])), rng.random() < 0.6, rng.random() < 0.5])
                else:
                    pat.append(['id', next(nsink), e[0], rng.random() < 0.5])
                again = list(e)
                if rng.random() < 0.25:
                    again[8] = ['some', chars('/'.join([seg] + [rng.choice(SEGS) for _ in range(rng.choice([0, 1, 2]))]))]
                pat.append(['status', again])
            pos = sorted(rng.randrange(len(ops) + 1) for _ in pat)
            for k, (q, o) in enumerate(zip(pos, pat)):
                ops.insert(q + k, o)
        elif rng.random() < 0.15:
            # one object in two roles, and an event that two rules match: the fallback (or the sink of the test-id rule) is also the
            # sink of the rule for the event's first route segment; the route rule wins, whoever its sink is
            seg = rng.choice(SEGS[:3])
            e = self.gen_event(rng)
            e[8] = ['some', chars('/'.join([seg] + [rng.choice(SEGS) for _ in range(rng.choice([0, 1, 2]))]))]
            ids = next(nsink)
            pat = [['prefix', rng.choice([0, 0, ids]), chars(seg), rng.random() < 0.6, rng.random() < 0.5], ['id', ids, e[0], rng.random() < 0.5]]
            rng.shuffle(pat)
            pat.append(['status', e])
            pos = sorted(rng.randrange(len(ops) + 1) for _ in pat)
            for k, (q, o) in enumerate(zip(pos, pat)):
                ops.insert(q + k, o)
        pos = sorted(rng.randrange(len(ops) + 1) for _ in ctl)
        for k, (p, c) in enumerate(zip(pos, ctl)):
            ops.insert(p + k, c)
        has_fb, fb_flag = rng.random() < 0.7, rng.random() < 0.7
        scripts = self.gen_scripts(rng, has_fb, ops, fb_flag) if rng.random() < 0.5 else []
        if rng.random() < 0.2:
            # a sink that RAISES from status() (the class cycles through `fault_classes()`), at each position a sink can have - route
            # rule, test-id rule, fallback -, with other rules around that a second delivery would go to; the same event again
            # afterwards (later events are unaffected); sometimes it raises from startTestRun / stopTestRun instead
            seg = rng.choice(SEGS[:3])
            e = self.gen_event(rng)
            role = rng.choice(['prefix', 'prefix', 'id', 'fallback'])
            x = next(nsink)
            extra = []
            if role == 'prefix':
                e[8] = ['some', chars('/'.join([seg] + [rng.choice(SEGS) for _ in range(rng.choice([0, 1, 2]))]))]
                extra.append(['prefix', x, chars(seg), rng.random() < 0.6, rng.random() < 0.5])
                if rng.random() < 0.6:
                    extra.append(['id', next(nsink), e[0], rng.random() < 0.5])
                has_fb = has_fb or rng.random() < 0.5
            elif role == 'id':
                e[8] = rng.choice([None, ['some', chars('zz/0')]])
                extra.append(['id', x, e[0], rng.random() < 0.5])
                has_fb = has_fb or rng.random() < 0.5
            else:
                e[8] = rng.choice([None, ['some', chars('zz')]])
                e[0] = ['some', 2]
                x, has_fb = 0, True
            kind = rng.choice(['status', 'status', 'status', 'start', 'stop'])
            tail = [['status', e], ['status', list(e)]] + ([['status', self.gen_event(rng)]] if rng.random() < 0.5 else [])
            ops = extra + ops + tail if kind == 'status' else extra + ops + tail + rng.choice([['start', 'stop'], ['stop', 'start', 'stop']])
            scripts = [[x, kind, rng.choice([[['raise']], [[], ['raise']], [['raise'], ['raise']]])]] + [s for s in scripts if (s[0], s[1]) != (x, kind)]
        return [has_fb, fb_flag, ops, scripts]

    def gen_act(self, rng, fresh, known):
        if rng.random() < 0.25:
            return 'raise'
        sink = next(fresh) if rng.random() < 0.9 or not known else rng.choice(known)
        r = rng.random()
        flag = rng.random() < 0.7
        if r < 0.5:
            p = rng.choice(SEGS)
            if rng.random() < 0.04:
                p = p + '/x'
            return ['prefix', sink, chars(p), rng.random() < 0.6, flag]
        if r < 0.97:
            return ['id', sink, rng.choice([None, ['some', 0], ['some', 2]]), flag]
        return ['bad', sink, flag]

    def gen_scripts(self, rng, has_fb, ops, fb_flag=True):
        """scripted behaviour for 1-3 sinks: at their 1st/2nd startTestRun / stopTestRun / status they add rules re-entrantly and/or raise"""
        known = ([0] if has_fb else []) + [o[1] for o in ops if isinstance(o, list) and o[0] in ('prefix', 'id')]
        if not known:
            return []
        fresh = itertools.count(100)
        scripts, used = [], set()
        for _ in range(rng.choice([1, 1, 2, 3])):
            kind = rng.choice(['start', 'start', 'start', 'stop', 'stop', 'status'])
            pool = known + ([100, 101] if rng.random() < 0.3 else [])
            if kind != 'status' and rng.random() < 0.8:
                # sinks that are registered for start/stop are the ones whose start/stop scripts can fire
                flagged = ([0] if has_fb and fb_flag else []) + [o[1] for o in ops if isinstance(o, list) and o[0] in ('prefix', 'id') and o[-1]]
                pool = flagged or pool
            key = (rng.choice(pool), kind)
            if key in used:
                continue
            used.add(key)
            entries = []
            for _ in range(rng.choice([1, 1, 2])):
                entries.append([self.gen_act(rng, fresh, known) for _ in range(rng.choice([0, 1, 1, 1, 2]))])
            scripts.append([key[0], key[1], entries])
        return scripts

    def enumerate(self, tier):
        events = [ev(0, 'success'), ev(1, 'fail', route='0'), ev(0, None, route='0/1'), ev(None, 'inprogress', route='1/0/ab'),
                  ev(2, 'success', route='ab'), ev(1, None, fname=2, fbytes=[65], route='1')]
        rules = [['prefix', 1, chars('0'), True, True], ['prefix', 1, chars('0'), False, False], ['prefix', 2, chars('1'), True, False],
                 ['id', 3, ['some', 0], True], ['id', 3, None, False], ['id', 4, ['some', 1], False]]
        for nr in range(0, 3):
            for rs in itertools.product(rules, repeat=nr):
                rs = [list(r) for r in rs]
                for k, r in enumerate(rs):      # distinct sinks per registration
                    r[1] = 10 + k
                for ne in range(1, 4):
                    for es in itertools.product(events, repeat=ne):
                        sts = [['status', e] for e in es]
                        for shape in range(3):
                            if shape == 0:
                                ops = rs + ['start'] + sts + ['stop']
                            elif shape == 1:
                                ops = ['start'] + rs + sts + ['stop']
                            else:
                                ops = rs[:1] + ['start'] + sts[:1] + rs[1:] + sts[1:] + ['stop'] + sts[:1]
                            yield [shape != 1 or nr != 1, shape != 2, ops, []]
        # a route code seen before a rule for its first segment is added / replaced, then seen again (what a cache of resolved
        # route codes must survive): event, rule, same event[, second rule, same event]
        again = [ev(0, 'success', route='0/1'), ev(1, None, route='0'), ev(0, 'fail', route='0/1/ab'), ev(None, 'inprogress', route='1/0')]
        first = [None, ['prefix', 10, chars('0'), True, False], ['prefix', 10, chars('0'), False, True], ['prefix', 10, chars('1'), True, True],
                 ['id', 10, ['some', 0], False]]
        later = [['prefix', 11, chars('0'), True, True], ['prefix', 11, chars('0'), False, False], ['prefix', 11, chars('1'), True, False],
                 ['id', 11, ['some', 0], True]]
        for e in again:
            for e2 in again:
                for r0 in first:
                    for r1 in later:
                        for r2 in [None] + later:
                            ops = ([r0] if r0 else []) + ['start', ['status', e], r1, ['status', e], ['status', e2]]
                            if r2:
                                ops += [[r2[0], 12] + r2[2:], ['status', e], ['status', e2]]
                            for fb in (True, False):
                                yield [fb, True, ops + ['stop'], []]
        # a sink raises from status(): at each position (route rule with / without consuming, test-id rule, fallback), with a test-id
        # rule and a fallback behind it, for every class of the exception vocabulary (the class cycles with the length of the script:
        # `pad` filler events in front), followed by the same event again
        hit = ev(0, 'fail', route='0/1')
        for pad in range(len(FAULTS) + 3):
            fill = [['status', ev(2, 'success', route='zz')]] * pad
            for rules, who in (([['prefix', 10, chars('0'), True, False], ['id', 11, ['some', 0], False]], 10),
                               ([['prefix', 10, chars('0'), False, True], ['id', 11, ['some', 0], True]], 10),
                               ([['id', 11, ['some', 0], False]], 11), ([], 0)):
                for fb in ((True, False) if who else (True,)):
                    yield [fb, True, rules + ['start'] + fill + [['status', hit], ['status', hit], 'stop'], [[who, 'status', [['raise']]]]]
            yield [True, True, [['prefix', 10, chars('0'), True, True], 'start'] + fill + [['status', hit], 'stop', 'start', 'stop'],
                   [[10, 'stop', [['raise']]], [0, 'start', [[], ['raise']]]]]
        # scripted sinks: every pair of one-act behaviours at the first startTestRun / stopTestRun of the fallback and of a rule sink
        acts = [[], ['raise'], [['id', 20, ['some', 1], True]], [['prefix', 21, chars('0'), True, True]], [['id', 22, None, False]],
                [['id', 23, ['some', 0], True], 'raise'], [['id', 24, ['some', 0], True], ['prefix', 25, chars('1'), False, True]]]
        histories = [['start', ['status', events[1]], 'stop'], [['id', 10, ['some', 0], True], 'start', ['status', events[0]], 'stop', 'start', 'stop'],
                     ['start', ['id', 10, ['some', 0], True], ['status', events[0]], 'stop'], ['start', 'stop', 'stop', 'start'],
                     [['prefix', 10, chars('0'), True, True], 'start', 'start', ['status', events[1]], 'stop']]
        for h in histories:
            for who in (0, 10):
                for a1 in acts:
                    for a2 in acts:
                        for k1, k2 in (('start', 'stop'), ('start', 'status'), ('stop', 'status')):
                            yield [True, True, h, [[who, k1, [a1, a2]], [0 if who else 10, k2, [a2]]]]

    # ----- evidence
    def nontrivial(self, inp, trace):
        ops = inp[2]
        kinds = [o if isinstance(o, str) else o[0] for o in ops]
        if len(inp) > 3 and inp[3] and trace and trace[0] != 'raised' and any(d[0] in ('radd', 'exc') for seg in trace[0] for d in seg):
            return True
        return ('status' in kinds and ('prefix' in kinds or 'id' in kinds)) or 'trip' in kinds

    def features(self, inp, trace):
        has_fb, fb_flag, ops = inp[:3]
        scripts = inp[3] if len(inp) > 3 else []
        f = {'fallback:' + ('none' if not has_fb else 'flagged' if fb_flag else 'unflagged')}
        f.add('scripts=%d' % len(scripts))
        for n, kind, entries in scripts:
            for acts in entries:
                for a in acts:
                    f.add('script:%s:%s' % (kind, 'raise' if a == 'raise' else 'add-flag' if a[-1] else 'add-noflag'))
        kinds = [o if isinstance(o, str) else o[0] for o in ops]
        f.add('rules=%d' % sum(k in ('prefix', 'id') for k in kinds))
        f.add('events=%d' % kinds.count('status'))
        in_run = False
        seen = set()
        for o in ops:
            k = o if isinstance(o, str) else o[0]
            if k == 'start':
                f.add('start-while-running' if in_run else 'start')
                in_run = True
            elif k == 'stop':
                f.add('stop' if in_run else 'stop-while-stopped')
                in_run = False
            elif k in ('prefix', 'id'):
                flag = o[4] if k == 'prefix' else o[3]
                f.add('rule-%s-%s' % ('mid-run' if in_run else 'outside-run', 'flag' if flag else 'noflag'))
                key = (k, str(o[2]))
                if key in seen:
                    f.add('re-registration')
                seen.add(key)
                if k == 'prefix':
                    f.add('prefix-consume' if o[3] else 'prefix-keep')
            elif k == 'status':
                rc = o[1][8]
                f.add('route-segments=%s' % (0 if rc is None else ''.join(map(chr, rc[1])).count('/') + 1))
            elif k == 'trip':
                f.add('trip-depth=%d' % len(o[1]))
            elif k == 'bad':
                f.add('unknown-policy')
        if trace and trace[0] != 'raised':
            for r in trace[1]:
                if isinstance(r, list) and r[0] == 'raised':
                    f.add('raises:' + r[1])
            dest = {d[1] for seg in trace[0] for d in seg if d[0] == 'del' and isinstance(d[2], list)}
            if 0 in dest:
                f.add('delivered-to-fallback')
            if dest - {0}:
                f.add('delivered-to-rule-sink')
            for o, seg, r in zip(ops, trace[0], trace[1]):
                k = o if isinstance(o, str) else o[0]
                if any(d[0] == 'radd' for d in seg):
                    f.add('reentrant-add-during-' + k)
                if any(d[0] == 'del' and d[3] for d in seg):
                    f.add('immediate-start-of-reentrant-rule-during-' + k)
                if k in ('start', 'stop') and r != 'ok':
                    f.add('aborted-%s-dispatch' % k)
        if trace and trace[0] == 'raised':
            f.add('raised:' + trace[1])
        return sorted(f)

    def shrink(self, inp):
        has_fb, fb_flag, ops = inp[:3]
        scripts = inp[3] if len(inp) > 3 else []
        for j in range(len(scripts)):
            yield [has_fb, fb_flag, ops, scripts[:j] + scripts[j + 1:]]
            n, kind, entries = scripts[j]
            for a in range(len(entries)):
                for b in range(len(entries[a])):
                    yield [has_fb, fb_flag, ops, scripts[:j] + [[n, kind, entries[:a] + [entries[a][:b] + entries[a][b + 1:]] + entries[a + 1:]]] + scripts[j + 1:]]
        for x in self.shrink_ops(has_fb, fb_flag, ops):
            yield x + [scripts]

    def shrink_ops(self, has_fb, fb_flag, ops):
        for i in range(len(ops)):
            yield [has_fb, fb_flag, ops[:i] + ops[i + 1:]]
        for i, o in enumerate(ops):
            if isinstance(o, list) and o[0] in ('status', 'trip'):
                e = o[-1]
                for pos in (2, 4, 5, 7, 9, 0, 1, 8):
                    if e[pos] is not None:
                        yield [has_fb, fb_flag, ops[:i] + [o[:-1] + [e[:pos] + [None] + e[pos + 1:]]] + ops[i + 1:]]


PROP = C18()
