"""C10 - stream consumers account for every test exactly once (StreamToDict, StreamSummary, StreamToExtendedDecorator).
Input : [run, ...]            run = [[event, ...], [fault, ...]]   event = (tid status tags runnable fname fbytes eof mime route ts)
        fault = number (0-based, per consumer and run) of a hand-over at which the consumer's callback raises
Trace : [[dict-reports, dict-raised, dict-stop-raises, summary, extended-log, ext-raised, ext-stop-raises, real-started], ...] one per run
        (see TTV/Drv/C10.lean)
The same three consumer objects are driven through all runs of an input (startTestRun must reset them).
"""
import itertools
from harness.core import Prop
from harness.props import _stream as S

FINALS = ['exists', 'xfail', 'uxsuccess', 'success', 'fail', 'skip']
ROUTES = [None, ['some', [48]], ['some', [49]], ['some', [48, 47, 49]], ['some', []]]        # the last: the empty route code, not None


def ev(tid=None, status=None, tags=None, runnable=True, fname=None, fbytes=None, eof=False, mime=None, route=None, ts=None):
    return [S.opt(tid), S.opt(status), S.opt(tags), runnable, S.opt(fname), S.opt(fbytes), eof, S.opt(mime), route, S.opt(ts)]


class _Fault(Exception):
    """what a failing consumer raises"""


class _FaultyExtSink(S.ExtSink):
    """extended result whose outcome methods raise at the planned hand-overs (after logging the call)"""

    def __init__(self, clock, plan):
        S.ExtSink.__init__(self, clock)
        self.plan = plan

    def _o(self, kind, t, details):
        S.ExtSink._o(self, kind, t, details)
        self.plan['ext'] += 1
        if self.plan['ext'] - 1 in self.plan['faults']:
            raise _Fault('outcome method fails')


class C10(Prop):
    id = 'C10'
    budgets = {'quick': 4000, 'thorough': 40000}
    time_limit = {'quick': 60, 'thorough': 600}
    rule = ('1-2 runs of 0-25 status events over 4 test ids (one of them the empty string) x 5 route codes (None, "", "0", "1", "0/1") x None/inprogress/6 final statuses/'
            '"unknown" (repeated finals, events after a final, ids re-used on other routes) x tag sets (None, empty, 1-2 tags; set or frozenset) '
            'x 4 file names (incl. the empty name) x chunks (None, empty, 1-3 bytes; ASCII under text types, arbitrary bytes under binary types; in 30% of the text runs bytes that are invalid - or only valid once a later chunk completes them - in the declared charset, under the names reason / traceback / log) x 7 content types (two differing only in the letter case of a parameter value) / None; in every other run equal tag sets are one shared object '
            'x timestamps (None or one of 9 instants); 10% events without test id; in 40% of the runs the consumer callback (StreamToDict on_test, '
            'the outcome methods of the extended result) raises at 1-3 hand-overs - at a final status or inside stopTestRun - the driver survives '
            'and repeats stopTestRun until it returns; a real testtools.TestResult behind a second StreamToExtendedDecorator sees every run too '
            '(its addSkip raises for binary reasons). thorough adds every sequence of length <= 4 over a '
            '14-event alphabet (2 ids, 2 routes, interim/final/file/tag events). non-trivial = at least 2 events with a test id and '
            '(a key with >= 2 lifetimes, or an open lifetime, or a multi-chunk attachment); distinct = distinct input S-expression')
    assumptions = ['translator tie (harness/pystream.py): _update_case is symbolically executed, status/_ensure_key/stopTestRun and the StreamToDict/StreamToExtendedDecorator wrappers are matched statement by statement on every run; trusted: the translator, the record primitives set/got_timestamp/got_file/create and the reading of the recognised forms by TTV/Model/ConsumerSrc.lean; trusted normalisations before matching: early return = if/else, tests of parameters in `and` in any order, a popped / converted value bound to a local right before it is handed over, turned-around guards (`if test_id is not None: …`, `if test_status != "exists": …`), popitem() unpacked, chained to_test_case().run(...) - the order of calls (super, hook, decorated, on_test vs. pop) is asserted as written',
                   'content types are opaque tokens: parsing of mime strings (_make_content_type / email) belongs to C16',
                   'INTERPRETATIONS modelled from the code, not repaired (audit/C10 v1, v3, v4 read the prose differently): (1) an attachment exists from its first NON-EMPTY chunk - `if file_name is not None and file_bytes:` skips empty chunks, so an attachment whose chunks are all empty (also a skip reason "") is not reported and a mime type sent only with an empty first chunk is lost; (2) StreamToExtendedDecorator drops `exists` events before its table, so inprogress + exists is flushed as a failure at stopTestRun (the extended API has no outcome for exists; its clause is about the exists-free stream); (3) events are passed by keyword - StreamToExtendedDecorator.status rejects a third positional argument (TypeError); (4) a repeated final / an event after a final opens a new lifetime that is reported again; fail lands in StreamSummary.errors; timestamps are those of the first and last event; (5) a plain unittest.TestResult / testtools.TestResult behind StreamToExtendedDecorator raises from its own addSkip for a reason attachment that is not decodable text (audit/C10 v5: ExtendedToOriginalDecorator / TestResult.addSkip, not the consumers; the driver survives it)',

                   'text-typed attachments may carry bytes that are invalid in their declared charset (30% of the text runs; names incl. reason and traceback); the declared charset itself is always a codec Python knows (an unknown one makes codecs.getincrementaldecoder raise LookupError in the same places: reported, not generated)',
                   'consumer faults are exceptions raised by the callback after it recorded the hand-over; the driver catches them and calls stopTestRun again until it returns normally (what the unchanged code needs in order to report the records still in its table after an exception inside the stopTestRun loop)',
                   'Python dict insertion order / popitem() LIFO order are modelled by an association list',
                   'test ids, tags and file names are drawn from fixed vocabularies (incl. non-ASCII names) and mapped to numbers']

    manifest = {
        'text': 'Theorems for every finite sequence of status events (any ids, route codes, statuses incl. repeated finals and events after a '
                'final, tags, attachments, timestamps; no length bound): the table-based consumer _StreamToTestRecord reports, per key '
                '(test id, route code), exactly the lifetimes of that key - each once, closed ones when their final status arrives (in that order), '
                'open ones at stopTestRun most-recent-first without second timestamp - with last non-None status (else unknown), latest non-None tags, '
                'first/last timestamps and per file name the concatenation of its non-empty chunks; events without test id change nothing; '
                'the same holds whatever hand-overs the consumer callback raises at (C10_once_under_faults: the record is popped before the callback, '
                'so nothing is handed over twice and repeated stopTestRun calls still report every open lifetime); '
                'StreamSummary.testsRun counts the non-exists reports, each lands in exactly the list its status names, a failed or incomplete test '
                'makes wasSuccessful() false; StreamToExtendedDecorator replays each report of the exists-free stream as one well-formed bracket. '
                'The hand-written model is tied to the code by a differential check and by status tables re-extracted from the tree on every run.',
        'note': 'trusted: Lean kernel, the model TTV/Model/Stream.lean, the harness and its canonicalisation; content types are opaque tokens (mime parsing is C16); '
                'dict ordering modelled; declared charsets are known codecs',
        'technique': 'Lean 4 refinement proof (table invariant over all event lists) to a declarative lifetimes specification; executable spec shared with a differential correspondence check',
    }

    def extract_tables(self, repo):
        from harness import pystream
        out = dict(S.extract_tables(repo))
        out.update(pystream.generate_consumer(repo))     # the consumers' decision logic, translated from the source
        return out

    # ----- implementation side
    def drive(self, consumer, run_events, kwargs_list, skip_exists=False):
        """feed one run to a consumer the way a robust driver does: survive exceptions out of status(), and call
        stopTestRun() again until it returns normally.  -> (indices of status calls that raised, stopTestRun calls that raised)"""
        raised = []
        k = 0
        for e, kw in zip(run_events, kwargs_list):
            if skip_exists and e[1] is not None and e[1][1] == 'exists':
                consumer.status(**kw)           # dropped by StreamToExtendedDecorator before the table; not counted
                continue
            try:
                consumer.status(**kw)
            except _Fault:
                raised.append(k)
            k += 1
        stops = 0
        while True:
            try:
                consumer.stopTestRun()
                break
            except _Fault:
                stops += 1
                if stops > len(run_events) + 2:
                    raise RuntimeError('stopTestRun keeps raising')
        return raised, stops

    def run_impl(self, inp):
        from testtools import StreamToDict, StreamSummary, StreamToExtendedDecorator, TestResult
        try:
            clock = S.Clock()
            reports = []
            plan = {'faults': (), 'dict': 0, 'ext': 0}

            def on_test(d):
                reports.append([S.un_test_id(d['id']), S.un_tags(d['tags']), S.canon_details(d['details']), d['status'],
                                S.opt(clock.canon(d['timestamps'][0])), S.opt(clock.canon(d['timestamps'][1]))])
                plan['dict'] += 1
                if plan['dict'] - 1 in plan['faults']:
                    raise _Fault('on_test fails')
            ext = _FaultyExtSink(clock, plan)

            class Real(TestResult):
                """a real testtools.TestResult: its addSkip raises ValueError for a skip whose reason attachment is not text"""
                started = []

                def startTest(self, test):
                    Real.started.append(S.un_test_id(test.id()))
                    super().startTest(test)
            real = StreamToExtendedDecorator(Real())
            consumers = [StreamToDict(on_test), StreamSummary(), StreamToExtendedDecorator(ext)]
            summary = consumers[1]
            out = []
            n = 0
            for events, faults in inp:
                del reports[:]
                del ext.ev[:]
                del Real.started[:]
                plan.update(faults=set(faults), dict=0, ext=0)
                for c in consumers + [real]:
                    c.startTestRun()
                kws = []
                shared = {}
                for e in events:
                    n += 1
                    kw = S.event_kwargs(e, frozen=(n % 3 == 0))
                    if len(events) % 2 and kw['test_tags'] is not None:
                        # in every other run equal tag sets are ONE object handed in again and again (a consumer must neither
                        # write to it nor tell events apart by it); checked unchanged after the run
                        kw['test_tags'] = shared.setdefault((type(kw['test_tags']), frozenset(kw['test_tags'])), kw['test_tags'])
                    kws.append(kw)
                d_raised, d_stops = self.drive(consumers[0], events, kws)
                for kw in kws:
                    summary.status(**kw)
                summary.stopTestRun()
                x_raised, x_stops = self.drive(consumers[2], events, kws, skip_exists=True)
                # library objects only: exceptions come out of TestResult.addSkip/addFailure when an attachment is not text
                for kw in kws:
                    try:
                        real.status(**kw)
                    except (ValueError, UnicodeDecodeError):
                        pass
                for _ in range(len(events) + 2):
                    try:
                        real.stopTestRun()
                        break
                    except (ValueError, UnicodeDecodeError):
                        pass
                for (_, content), obj in shared.items():
                    if set(obj) != set(content):
                        raise AssertionError('a tag set of the caller was written to')
                ids = lambda xs: [S.un_test_id((x[0] if isinstance(x, tuple) else x).id()) for x in xs]
                out.append([list(reports), d_raised, d_stops,
                            [summary.testsRun, ids(summary.errors), ids(summary.failures), ids(summary.skipped),
                             ids(summary.expectedFailures), ids(summary.unexpectedSuccesses), bool(summary.wasSuccessful())],
                            list(ext.ev), x_raised, x_stops, list(Real.started)])
            return out
        except Exception as e:
            return ['raised', type(e).__name__]

    # ----- generators
    #: content-type tokens (S.CTS) that are text/* with charset=utf8: bytes can be invalid under them
    UTF8 = [1, 2, 10]
    #: bytes for those: a two-byte and a three-byte UTF-8 sequence that may be split over chunks (valid when completed in order, an
    #: error when truncated or out of order), a byte that is never valid, ASCII
    UTF8_BYTES = [0xC3, 0xA9, 0xE2, 0x98, 0x83, 0xFF, 65, 10]

    def gen_event(self, rng, binary, ids, routes=(None, None, None, ROUTES[1], ROUTES[2], ROUTES[3]), names=(0, 1, 2, 2, 3), undecodable=False):
        if rng.random() < 0.1:
            tid = None
        else:
            tid = rng.choice(ids)
        route = rng.choice(routes)
        r = rng.random()
        status = rng.choice(FINALS) if r < 0.22 else 'inprogress' if r < 0.4 else 'unknown' if r < 0.44 else None     # 'unknown': a member of STATES too
        if undecodable and r < 0.22:
            status = rng.choice(['fail', 'xfail', 'skip', 'fail', 'xfail', 'skip', 'success', 'uxsuccess'])
        tags = None
        if rng.random() < 0.35:
            tags = sorted(rng.sample([0, 1, 2], rng.choice([0, 1, 1, 2])))
        fname = fbytes = mime = None
        eof = False
        if rng.random() < 0.5:
            fname = rng.choice(names)
            alphabet = [0, 255, 10, 65, 200] if binary else [65, 66, 10, 32, 122]
            k = rng.choice([None, 0, 1, 1, 2, 3])
            fbytes = None if k is None else [rng.choice(alphabet) for _ in range(k)]
            # (a non-text 'reason' attachment on a skip used to make StreamSummary raise: fixed in /repo 08362b3, now generated)
            mime = rng.choice([None, 0, 3, 11, 13] if binary else [None, 0, 1, 1, 2, 3, 4, 10, 12])
            if undecodable and rng.random() < 0.8:
                # a text type with a charset and chunk bytes that need not be valid in it (a stream from another process can
                # declare anything): the consumers must still account for the test once
                mime = rng.choice(self.UTF8 + [1, 4])
                fbytes = [rng.choice(self.UTF8_BYTES) for _ in range(rng.choice([1, 1, 2, 3]))]
            eof = rng.random() < 0.4
        elif rng.random() < 0.05:
            fbytes = [65]            # bytes without a name: ignored
        ts = rng.choice([None, None] + list(range(9)))
        return ev(tid, status, tags, rng.random() < 0.9, fname, fbytes, eof, mime, route, ts)

    def gen(self, rng, tier):
        runs = []
        for _ in range(rng.choice([1, 1, 1, 2])):
            binary = rng.random() < 0.3
            ids = rng.choice([[0], [0, 1], [0, 1, 2], [0, S.EMPTY_ID], [0, 1, 2, S.EMPTY_ID]])       # token 3: the empty string as test id
            n = rng.choice([0, 1, 2, 3, 5, 8, 12, 18, 25])
            routes = rng.choice([[None], [None, None, ROUTES[1]], [None, ROUTES[1], ROUTES[3]], [None, None, None, ROUTES[1], ROUTES[2], ROUTES[3]],
                                 [None, ROUTES[4]], [None, ROUTES[1], ROUTES[4]]])
            names = rng.choice([[2], [1, 2], [0, 2], [0, 1, 2, 2, 3], [2, 5], [0, 5]])              # 5: the empty file name
            undecodable = not binary and rng.random() < 0.3
            if undecodable:
                names = rng.choice([[0], [1], [2], [0, 1, 2]])
            events = [self.gen_event(rng, binary, ids, routes, names, undecodable) for _ in range(n)]
            faults = []
            if rng.random() < 0.4:
                # the consumer's callback raises at 1-3 hand-overs (some beyond the last one: no effect)
                hi = max(2, sum(1 for e in events if e[0] is not None) // 2 + 1)
                faults = sorted(set(rng.randrange(hi) for _ in range(rng.choice([1, 1, 2, 3]))))
            runs.append([events, faults])
        return runs

    ALPHABET = None

    def alphabet(self):
        if self.ALPHABET is None:
            a = []
            for tid in (0, 1):
                a.append(ev(tid, 'inprogress', ts=1))
                a.append(ev(tid, 'success', tags=[0], ts=2))
                a.append(ev(tid, 'fail', ts=3))
                a.append(ev(tid, fname=2, fbytes=[65], mime=1, ts=4))
                a.append(ev(tid, fname=2, fbytes=[66], eof=True))
            a.append(ev(0, 'skip', route=ROUTES[1], fname=0, fbytes=[67], mime=1, ts=5))
            a.append(ev(0, None, tags=[1], route=ROUTES[1]))
            a.append(ev(None, 'fail', fname=2, fbytes=[68]))
            a.append(ev(1, 'exists', ts=6))
            self.ALPHABET = a
        return self.ALPHABET

    def enumerate(self, tier):
        a = self.alphabet()
        for n in range(0, 5):
            for seq in itertools.product(a, repeat=n):
                yield [[list(seq), []]]
        for n in range(1, 4):
            for seq in itertools.product(a, repeat=n):
                for faults in ([0], [1], [0, 1], [2]):
                    yield [[list(seq), faults]]
        # text attachments whose bytes are invalid (or only valid once completed) in the declared charset, under the names the
        # summaries treat specially, then every final status
        d = [ev(0, fname=name, fbytes=bs, mime=1) for name in (0, 1, 2) for bs in ([0xFF, 0xFE], [0xC3])]
        d += [ev(0, fname=2, fbytes=[0xA9]), ev(0, fname=0, fbytes=[0xA9], mime=4)]
        d += [ev(0, st) for st in ('fail', 'xfail', 'skip', 'success', 'uxsuccess', 'inprogress')]
        d += [ev(0, 'unknown'), ev(S.EMPTY_ID, 'exists')]         # the rest of STATES as explicit statuses
        # falsy but valid: the empty test id, the empty route code (another key than None), the empty file name, an empty tag set,
        # a zero-length chunk with eof as the only chunk of a file
        d += [ev(S.EMPTY_ID, 'inprogress', ts=1), ev(S.EMPTY_ID, 'fail', route=ROUTES[4]), ev(0, 'success', tags=[], route=ROUTES[4]),
              ev(S.EMPTY_ID, fname=5, fbytes=[65], mime=12), ev(0, fname=5, fbytes=[], eof=True, mime=2), ev(S.EMPTY_ID, 'skip', fname=0, fbytes=[], eof=True)]
        for n in range(1, 4):
            for seq in itertools.product(d if n < 3 else d[:14], repeat=n):
                yield [[list(seq), []]]

    # ----- evidence
    def stats(self, inp):
        lifetimes = opens = multichunk = keyed = 0
        maxlife = 0
        for run, _faults in inp:
            per = {}
            for e in run:
                if e[0] is None:
                    continue
                keyed += 1
                per.setdefault((e[0][1], str(e[8])), []).append(e)
            for k, es in per.items():
                n = 0
                open_ = False
                chunks = {}
                for e in es:
                    open_ = True
                    if e[4] is not None and e[5] is not None and e[5][1]:
                        chunks[e[4][1]] = chunks.get(e[4][1], 0) + 1
                    if e[1] is not None and e[1][1] != 'inprogress':
                        n += 1
                        open_ = False
                        if any(v > 1 for v in chunks.values()):
                            multichunk += 1
                        chunks = {}
                if open_:
                    opens += 1
                    n += 1
                    if any(v > 1 for v in chunks.values()):
                        multichunk += 1
                lifetimes += n
                maxlife = max(maxlife, n)
        return keyed, lifetimes, opens, multichunk, maxlife

    def nontrivial(self, inp, trace):
        keyed, lifetimes, opens, multichunk, maxlife = self.stats(inp)
        return keyed >= 2 and (maxlife >= 2 or opens > 0 or multichunk > 0)

    def features(self, inp, trace):
        keyed, lifetimes, opens, multichunk, maxlife = self.stats(inp)
        n = sum(len(r[0]) for r in inp)
        f = ['runs=%d' % len(inp), 'events=%s' % ('0' if n == 0 else '1-5' if n <= 5 else '6-15' if n <= 15 else '16+'),
             'lifetimes=%s' % (lifetimes if lifetimes < 4 else '4-7' if lifetimes < 8 else '8+'),
             'open=%s' % (opens if opens < 3 else '3+'), 'max-lifetimes-per-key=%s' % (maxlife if maxlife < 4 else '4+')]
        if multichunk:
            f.append('multi-chunk-attachment')
        for run, faults in inp:
            finals = sum(1 for e in run if e[0] is not None and e[1] is not None and e[1][1] != 'inprogress')
            if not faults:
                f.append('faults:none')
            if any(k < finals for k in faults):
                f.append('fault-at-final-status')
            if any(finals <= k < lifetimes for k in faults) and len(inp) == 1:
                f.append('fault-at-stopTestRun')
            for e in run:
                if e[0] is None:
                    f.append('event:no-id')
                f.append('status:%s' % (e[1][1] if e[1] else 'None'))
                if e[8] is not None:
                    f.append('event:routed')
        if trace and trace[0] == 'raised':
            f.append('raised:' + trace[1])
        return sorted(set(f))

    def shrink(self, inp):
        for i in range(len(inp)):
            if len(inp) > 1:
                yield inp[:i] + inp[i + 1:]
            run, faults = inp[i]
            for j in range(len(faults)):
                yield inp[:i] + [[run, faults[:j] + faults[j + 1:]]] + inp[i + 1:]
            for j in range(len(run)):
                yield inp[:i] + [[run[:j] + run[j + 1:], faults]] + inp[i + 1:]
            for j, e in enumerate(run):
                for pos, blank in ((2, None), (5, None), (9, None), (7, None), (8, None), (4, None)):
                    if e[pos] is not None:
                        yield inp[:i] + [[run[:j] + [e[:pos] + [blank] + e[pos + 1:]] + run[j + 1:], faults]] + inp[i + 1:]


PROP = C10()
