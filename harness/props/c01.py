"""C01 - every test run is bracketed and yields exactly one outcome (model M-Run, harness/mrun.py)."""
from harness.mrun import RunProp


class C01(RunProp):
    id = 'C01'
    rule = ('random test programs (setUp/body/tearDown + nested cleanups up to depth 2, fixtures, patches, details, expectThat/assertThat '
            'mismatches, expectFailure, MultipleExceptions incl. empty, skip/expectedFailure decorators, user exception handlers, '
            'addOnException handlers) over 12 exception kinds incl. KeyboardInterrupt/SystemExit and their subclasses, run 1-3 times on one '
            'instance against 7 result flavours; non-trivial = at least 4 stages or a faulty stage; distinct = distinct input S-expression')


PROP = C01()
