"""C01 - every test run is bracketed and yields exactly one outcome (model M-Run, harness/mrun.py)."""
from harness.mrun import RunProp


class C01(RunProp):
    id = 'C01'
    manifest = {
        'text': 'Theorems about a Lean model of TestCase.run/RunTest for ALL test programs (any nesting of cleanups and fixtures, any of 12 '
                'exception kinds incl. KeyboardInterrupt/SystemExit subclasses in any stages, MultipleExceptions, decorators, user handler '
                'tables, 7 result flavours, any left-over force_failure, any number of repeated runs): the result calls are exactly startTest, '
                'one outcome, stopTest; a non-Exception exception is reported as error and propagates; otherwise run() returns; the complete '
                'stage sequence runs (stack-machine check). The model is tied to the code by the exception_handlers table regenerated from '
                'testcase.py on every run and by a differential check running generated TestCase classes against the model.',
        'note': 'trusted: Lean kernel; hand-written model TTV/Model/RunTest.lean; harness/mrun.py (program -> real TestCase, canonicalisation of '
                'tracebacks to exception identities); hypothesis wf: distinct stage ids, user handlers only for Exception subclasses (wf has further conjuncts needed by '
                'C02/C05 only: distinct initial attribute names, no user detail named "reason", pairwise distinct content objects); '
                'CPython try/finally + fixtures library modelled, not verified',
        'technique': 'Lean 4 invariant proofs over an executable model of the runner (well-founded cleanup loop, fun_induction), generated handler table, differential correspondence',
    }
    rule = ('random test programs (setUp/body/tearDown + nested cleanups up to depth 2, fixtures, patches, details, expectThat/assertThat '
            'mismatches, expectFailure, MultipleExceptions incl. empty, skip/expectedFailure decorators, user exception handlers, '
            'addOnException handlers) over 12 exception kinds incl. KeyboardInterrupt/SystemExit and their subclasses, run 1-3 times on one '
            'instance against 7 result flavours; non-trivial = at least 4 stages or a faulty stage; distinct = distinct input S-expression')


PROP = C01()
