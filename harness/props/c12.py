"""C12 - ThreadsafeForwardingResult: per-test atomicity under every interleaving.

Input : [threads, schedule] | [threads, schedule, hints]   thread = [ops, faults] | [ops, faults, failfast]
        failfast: `failfast` is assigned on this thread's forwarder (after an unsuccessful outcome it then calls stop())
        hints = realisation hints, which do not change what the model predicts (atoms): sharedTests (all threads report the very
                same test objects), emptyId (test 0 has the id ''), positional (outcome arguments given positionally), errNotDetails
                (err / reason instead of details, details=None), twoTargets (the forwarders of odd threads wrap a second target
                object behind the same semaphore; both write one log)
        op = ['time', None|['some', n]] | ['tags', [n..], [n..]] | ['startTest', id] | ['stopTest', id]
           | ['outcome', kind, id] | 'startTestRun' | 'stopTestRun' | 'stop' | 'done' | 'shouldStop'
        faults = indices into the thread's own sequence of calls on the target: those calls raise
        schedule = list of thread ids (see harness/sched.py)
Trace : [log, exc, finished, sems, sem]  log = [[tid, 'acq'] | [tid, 'rel'] | [tid, 'tryacq', got it] | [tid, 'call', <call>, raised]];
        sems = the counter of the (real, instrumented) semaphore read after every operation on it, sem = the counter at the end   (TTV/Drv/C12.lean)
Real `ThreadsafeForwardingResult`s, one per real thread, share one target and one semaphore double; the
deterministic scheduler decides who runs between two operations on the shared objects.
"""
import datetime, itertools
from harness.core import Prop, some, sx
from harness import sched as S

KINDS = ['success', 'error', 'failure', 'skip', 'xfail', 'uxsuccess']
ADD = {'success': 'addSuccess', 'error': 'addError', 'failure': 'addFailure', 'skip': 'addSkip',
       'xfail': 'addExpectedFailure', 'uxsuccess': 'addUnexpectedSuccess'}
CTLS = ['startTestRun', 'stopTestRun', 'stop', 'done', 'shouldStop']


EPOCH = datetime.datetime(1970, 1, 1, tzinfo=datetime.timezone.utc)
HINTS = ['sharedTests', 'emptyId', 'positional', 'errNotDetails', 'twoTargets']


def instant(n):
    """explicit time n as a fresh tz-aware datetime object (equal instants are equal but not identical objects)"""
    return EPOCH + datetime.timedelta(seconds=n)


def canon_time(t):
    if t is None:
        return None
    if isinstance(t, datetime.datetime):
        d = (t - EPOCH).total_seconds() if t.tzinfo is not None else -1
        return int(d) if 0 <= d < 10 ** 6 and d == int(d) else 'wall'
    return 'not-a-datetime'


def canon_id(test):
    i = test.id()
    if i == '':
        return 0
    return 'broken' if i.startswith('broken-runner') else int(i[1:])


class Target:
    """extended-style TestResult double shared by all forwarders: every method is a yield point, logs the
    call with the calling thread, and raises when the calling thread's fault plan says so"""

    #: C12 raises faults of both kinds (Exception / BaseException outside Exception); C13's fault domain is Exception only
    mixed_faults = True

    def __init__(self, sched, log, faults):
        self.s, self.log, self.faults, self.n = sched, log, faults, {}

    def _call(self, c):
        self.s.yield_point()
        tid = S.current_tid()
        k = self.n.get(tid, 0)
        self.n[tid] = k + 1
        r = k in self.faults.get(tid, ())
        self.log.append([tid, 'call', c, r])
        if r:
            raise S.injected(tid, k) if self.mixed_faults else S.Injected('injected fault')

    def startTestRun(self): self._call('startTestRun')
    def stopTestRun(self): self._call('stopTestRun')
    def stop(self): self._call('stop')
    def done(self): self._call('done')

    @property
    def shouldStop(self):
        self._call('shouldStop')
        return False

    def time(self, t): self._call(['time', canon_time(t)])
    def tags(self, new, gone): self._call(['tags', sorted(new), sorted(gone)])
    def startTest(self, t): self._call(['startTest', canon_id(t)])
    def stopTest(self, t): self._call(['stopTest', canon_id(t)])
    def addSuccess(self, t, details=None): self._call(['outcome', 'success', canon_id(t)])
    def addError(self, t, err=None, details=None): self._call(['outcome', 'error', canon_id(t)])
    def addFailure(self, t, err=None, details=None): self._call(['outcome', 'failure', canon_id(t)])
    def addSkip(self, t, reason=None, details=None): self._call(['outcome', 'skip', canon_id(t)])
    def addExpectedFailure(self, t, err=None, details=None): self._call(['outcome', 'xfail', canon_id(t)])
    def addUnexpectedSuccess(self, t, details=None): self._call(['outcome', 'uxsuccess', canon_id(t)])
    def wasSuccessful(self): return True


def fake_exc_info():
    try:
        raise ValueError('reported error')
    except ValueError:
        import sys
        return sys.exc_info()


def report(r, kind, test, hints):
    """call the add* method in one of the legal ways"""
    m = getattr(r, ADD[kind])
    if 'errNotDetails' in hints:
        if kind in ('success', 'uxsuccess'):
            return m(test) if 'positional' in hints else m(test, details=None)
        x = 'some reason' if kind == 'skip' else fake_exc_info()
        if 'positional' in hints:
            return m(test, x)
        return m(test, reason=x) if kind == 'skip' else m(test, err=x)
    if 'positional' in hints:
        return m(test, {}) if kind in ('success', 'uxsuccess') else m(test, None, {})
    return m(test, details={})


def apply_op(r, op, tests, hints=()):
    """perform one operation of a forwarder program on the real ThreadsafeForwardingResult `r`"""
    from testtools import PlaceHolder

    def test(i):
        if i not in tests:
            tests[i] = PlaceHolder('broken-runner' if i == 'broken' else '' if (i == 0 and 'emptyId' in hints) else 't%d' % i)
        return tests[i]
    if isinstance(op, str):
        if op == 'shouldStop':
            r.shouldStop
        else:
            getattr(r, op)()
    elif op[0] == 'time':
        r.time(None if op[1] is None else instant(op[1][1]))
    elif op[0] == 'tags':
        r.tags(set(op[1]), set(op[2]))
    elif op[0] == 'startTest':
        r.startTest(test(op[1]))
    elif op[0] == 'stopTest':
        r.stopTest(test(op[1]))
    elif op[0] == 'outcome':
        report(r, op[1], test(op[2]), hints)
    else:
        raise ValueError(op)


def schedules(rem, cur, k):
    """all complete interleavings of rem[i] steps per thread with at most k pre-emptions"""
    if not any(rem):
        yield []
        return
    def dec(j):
        return rem[:j] + (rem[j] - 1,) + rem[j + 1:]
    if cur is not None and rem[cur] > 0:
        for s in schedules(dec(cur), cur, k):
            yield [cur] + s
        if k > 0:
            for j in range(len(rem)):
                if j != cur and rem[j] > 0:
                    for s in schedules(dec(j), j, k - 1):
                        yield [j] + s
    else:
        for j in range(len(rem)):
            if rem[j] > 0:
                for s in schedules(dec(j), j, k):
                    yield [j] + s


class C12(Prop):
    id = 'C12'
    budgets = {'quick': 2500, 'thorough': 30000}
    time_limit = {'quick': 45, 'thorough': 540}
    rule = ('1-4 real threads (mostly 2-3), each driving its own ThreadsafeForwardingResult through 0-3 tests (arbitrary outcomes, explicit/wall '
            'times, run-level and test-level tags, also start-less / unfinished tests) and control calls (startTestRun, stopTestRun, stop, done, '
            'shouldStop), 0-3 raising target calls per case (any call: time, startTest, tags, the outcome, stopTest, every control call); explicit times are fresh tz-aware '
            'datetime objects drawn from a tiny pool, so equal instants in consecutive events and across threads - e.g. a test starting exactly on its predecessor\'s end - '
            'are frequent, also time(None); tags() with empty sets and with the same tag added and removed; a second outcome inside one startTest / stopTest bracket '
            '(what stdlib unittest emits for a failing body + failing tearDown), with test-local tags buffered and more tags() / time() between the two; failfast assigned on some forwarders; realisation hints that leave '
            'the prediction unchanged: all threads report the very same test objects / equal-but-not-identical ones, the empty test id, outcome arguments positional or by '
            'keyword, err/reason instead of details (details=None), a second target object behind the same semaphore; the semaphore is the real class, instrumented: a non-blocking acquire is an ordinary schedulable step and a release by a thread that holds nothing is performed (the counter is observed after every operation); '
            'schedules: quick = every schedule with <= 2 pre-emptions of 8 small base programs '
            '+ random / bursty / few-pre-emption schedules of random programs; thorough adds every schedule with <= 3 pre-emptions for 2 threads and <= 2 for 3 '
            'threads, each also with every single fault position. non-trivial = at least two threads have a critical section; '
            'distinct = distinct input S-expression')
    assumptions = ['the shared semaphore is a real threading.Semaphore(1), instrumented (harness/sched.py SchedSemaphore subclasses it): its operations and its counter are the stock ones; what the harness adds is the '
                   'scheduling - a blocking acquire is offered to the scheduler only while the counter is not 0, a non-blocking acquire and a release always - and the observation (every operation logged, the counter read after each and at the end); '
                   'that a blocking acquire waits exactly while the counter is 0 is the modelled part (Conc.stepThread)',
                   'translator tie (harness/tfrskel.py, TTV/Model/TfrSkel.lean): trusted are the interpreter\'s reading of sequencing / if / try-finally / tail return, '
                   'that each recognised statement is the one atomic step (acquire, release, one call on the target) or forwarder-local assignment its name says, and that '
                   'acquire/release do not raise; `_stop_if_failfast()` is read as the fact "if self.failfast: self.stop()" plus the table of the methods that call it (modelled by Conc.runOp, theorem C12_src_thread_steps)',
                   'only operations on the shared semaphore and target are scheduling points: each forwarder is confined to its thread, as the property assumes; CPython pre-emption inside real.py is not explored',
                   'the target has no failfast attribute (the extra stop() of ExtendedToOriginalDecorator under failfast belongs to C04)',
                   'a fault is an exception raised by the target call - an Exception subclass or, depending on the position, a BaseException that is not an Exception (as KeyboardInterrupt is); faults are addressed per thread (k-th call of thread i), so a plan is schedule-independent',
                   'a fault leaves the call the forwarder makes on self.result = ExtendedToOriginalDecorator(target); a TypeError raised INSIDE an inner target\'s outcome method that '
                   'was called with details= is not such a fault: the decorator takes every TypeError for "old signature" and calls the method again with exc_info (the outcome arrives '
                   'twice, nothing propagates - audit/C12 violation 2); that retry is the decorator\'s fallback contract (C08), not the forwarder\'s, and is outside C12\'s fault alphabet',
                   'C12 identifies "that test\'s tags" with the deltas the thread\'s OWN forwarder buffered (what _merge_tags computes, transcribed in Conc.mergeTags - also for a single tags() '
                   'call that names a tag in both sets, which is generated); that these deltas reproduce the reporter\'s current_tags on the target is C17\'s clause, whose quantifier demands '
                   'disjoint new/gone sets: for an overlapping call _merge_tags drops the removal (audit/C12 violation 1: tags({db,slow},{slow}) after a run-level slow reaches the target as +db only) - recorded, not a C12 clause',
                   'ThreadsafeForwardingResult.wasSuccessful() forwards to the target without the semaphore; it is a query outside the statement and is not generated']

    manifest = {
        'text': 'Theorems for every number of threads, every forwarder program (arbitrary operation sequences incl. control calls), every fault plan and every '
                'schedule (arbitrary list of thread ids, unbounded): the log of the shared target/semaphore is a sequence of whole critical sections, each one '
                'operation of one thread (one well-shaped block: time, startTest, time, tags, outcome, stopTest - cut only directly after a raising call, a '
                'raising outcome still followed by stopTest), never interleaved; per thread exactly its own sequential call sequence (every outcome once, in order, '
                'own start time and tags - EVERY outcome of a test replays the tags buffered for it, also a second outcome inside one startTest/stopTest bracket (C12_tags_survive_outcome, '
                'C12_second_outcome_same_tags); stopTest() forgets the test-local ones); the semaphore is free at every operation boundary and its COUNTER is 1 when nobody is inside a section, 0 otherwise - never 2 - and reads 0 after every acquire, 1 after every release (C12_counter); every call on the target, control calls like stop() included, is made while the caller and nobody else is inside a section: a control call never lands inside another thread\'s block (C12_control_between_blocks); no reachable state is stuck and every run terminates. The hand-written '
                'model is tied to the code by a differential check that drives real ThreadsafeForwardingResult objects in real threads under a deterministic '
                'scheduler (bounded-pre-emption exhaustive + random schedules, injected faults), and by a translator tie: the order and try/finally structure of '
                '_add_result_with_semaphore, startTestRun/stopTestRun/stop/done/shouldStop, startTest/stopTest/tags/time are re-read from real.py on every run '
                '(harness/tfrskel.py -> TTV/Generated/TfrSkel.lean) and theorems C12_src_block / C12_src_ctl / C12_src_local / C12_src_forward prove that the model\'s '
                'block semantics is the interpretation of exactly these skeletons.',
        'note': 'partial by nature: the theorems cover every interleaving of the model\'s atomic steps (operations on the shared semaphore/target); CPython thread '
                'pre-emption is reached only through the scheduler-driven correspondence. trusted: Lean kernel, the model TTV/Model/Conc.lean, harness/sched.py and '
                'the plug-in; the blocking behaviour of threading.Semaphore.acquire is modelled (the counter itself is the real one, observed)',
        'technique': 'Lean 4 invariant proof over a small-step interleaving semantics (all schedules, no bound), executable spec shared with a differential '
                     'correspondence check under a deterministic thread scheduler',
    }

    def extract_tables(self, repo):
        """translator tie: the control skeletons of ThreadsafeForwardingResult, re-read from the tree under test"""
        from harness import tfrskel
        return {'TTV/Generated/TfrSkel.lean': tfrskel.generate(repo)}

    def __init__(self):
        self.stats = {}
        self._sys = None
        self._sys_left = None

    # ----- implementation side
    def execute(self, inp):
        threads, schedule = inp[0], inp[1]
        hints = inp[2] if len(inp) > 2 else []
        from testtools import ThreadsafeForwardingResult
        sch = S.Scheduler(schedule)
        log = []
        sem = S.SchedSemaphore(sch, log)
        tgt = Target(sch, log, {i: set(t[1]) for i, t in enumerate(threads)})
        tgt2 = Target(sch, log, tgt.faults)
        tgt2.n = tgt.n                      # one fault plan and one log for both target objects
        exc = [[] for _ in threads]
        shared = {}

        def worker(i, ops, ff):
            def f():
                r = ThreadsafeForwardingResult(tgt2 if ('twoTargets' in hints and i % 2) else tgt, sem)
                if ff:
                    r.failfast = True
                tests = shared if 'sharedTests' in hints else {}
                for op in ops:
                    try:
                        apply_op(r, op, tests, hints)
                        exc[i].append(False)
                    except S.INJECTED:
                        exc[i].append(True)
            return f
        for i, t in enumerate(threads):
            sch.spawn(i, worker(i, t[0], len(t) > 2 and t[2]))
        dl = sch.run()
        self.sem = sem
        return sch, log, exc, dl

    def run_impl(self, inp):
        try:
            sch, log, exc, dl = self.execute(inp)
        except S.Hang as e:
            return ['harness-hang', 'scheduler']
        if sch.errors:
            e = sorted(sch.errors.items())[0][1]
            return ['raised', type(e).__name__]
        self.stats[id(inp)] = (sch.skipped, len(sch.picks), max(0, len(sch.picks) - (len(inp[1]) - sch.skipped)))
        return [log, exc, dl is None and len(sch.done) == len(sch.order), list(self.sem.sems), self.sem.value]

    def step_counts(self, threads):
        sch, log, exc, dl = self.execute([threads, []])     # (hints do not change the step counts)
        return tuple(sch.picks.count(i) for i in range(len(threads)))

    # ----- generators
    def gen_time(self, rng):
        # a tiny pool: equal instants in consecutive events and across threads are the rule, not the exception
        return ['time', rng.choice([None, some(rng.randrange(3)), some(rng.randrange(3)), some(rng.randrange(20))])]

    def gen_test(self, rng, tid, wild):
        ops = []
        if rng.random() < 0.5:
            ops.append(self.gen_time(rng))
        if rng.random() < 0.25:
            ops.append(self.gen_tags(rng))
        if not (wild and rng.random() < 0.3):
            ops.append(['startTest', tid])
        if rng.random() < 0.5:
            ops.append(self.gen_time(rng))
        for _ in range(rng.choice([0, 0, 1, 1, 2])):
            ops.append(self.gen_tags(rng))
        ops.append(['outcome', rng.choice(KINDS), tid])
        if rng.random() < (0.3 if wild else 0.2):
            # a second outcome inside the same startTest / stopTest bracket (stdlib unittest: failing body + failing tearDown gives
            # addFailure + addError), possibly with more tags() / time() in between
            if rng.random() < 0.3:
                ops.append(self.gen_tags(rng))
            if rng.random() < 0.2:
                ops.append(self.gen_time(rng))
            ops.append(['outcome', rng.choice(KINDS), tid])
        if rng.random() < 0.2:
            ops.append(self.gen_tags(rng))
        if not (wild and rng.random() < 0.3):
            ops.append(['stopTest', tid])
        return ops

    def gen_tags(self, rng):
        pool = list(range(4))
        new = sorted(rng.sample(pool, rng.choice([0, 1, 1, 2])))
        gone = sorted(rng.sample(pool, rng.choice([0, 0, 1, 2])))
        if new and rng.random() < 0.2:
            gone = sorted(set(gone) | {new[0]})            # the same tag added and removed in one call
        return ['tags', new, gone]

    def gen_thread(self, rng, wild):
        ops = []
        ids = itertools.count()
        if rng.random() < 0.3:
            ops.append('startTestRun')
        if rng.random() < 0.2:
            ops.append(self.gen_tags(rng))
        for _ in range(rng.choice([0, 1, 1, 1, 2, 2, 3])):
            if rng.random() < 0.15:
                ops.append(rng.choice(CTLS))
            t = next(ids) if rng.random() < 0.9 else 'broken'
            ops += self.gen_test(rng, t, wild)
        for _ in range(rng.choice([0, 0, 0, 1, 2])):
            ops.append(rng.choice(CTLS))
        return ops

    def calls_upper(self, ops):
        return sum(8 if (not isinstance(o, str) and o[0] == 'outcome') else 1 if isinstance(o, str) else 0 for o in ops)

    def gen_program(self, rng):
        n = rng.choice([1, 2, 2, 2, 3, 3, 3, 4])
        wild = rng.random() < 0.2
        threads = []
        nf = rng.choice([0, 0, 0, 0, 1, 1, 1, 2, 3])
        ffp = rng.choice([0, 0, 0.5, 1])
        for i in range(n):
            threads.append([self.gen_thread(rng, wild), []] + ([True] if rng.random() < ffp else []))
        for _ in range(nf):
            t = rng.choice(threads)
            up = self.calls_upper(t[0])
            if up:
                k = rng.randrange(up)
                if k not in t[1]:
                    t[1] = sorted(t[1] + [k])
        return threads

    def gen_schedule(self, rng, threads):
        n = len(threads)
        total = sum(2 * len(t[0]) + self.calls_upper(t[0]) for t in threads) + 2
        mode = rng.random()
        if mode < 0.4:      # uniformly random
            return [rng.randrange(n) for _ in range(rng.randrange(total + 1))]
        if mode < 0.75:     # bursts
            out = []
            while len(out) < total:
                out += [rng.randrange(n)] * rng.choice([1, 1, 2, 3, 5, 8, 13])
            return out[:rng.randrange(total + 1)]
        if mode < 0.95:     # run to completion with a few pre-emptions
            out = []
            for _ in range(rng.choice([1, 2, 3, 4])):
                out += [rng.randrange(n)] * rng.randrange(1, 14)
            return out
        return []

    def base_programs(self):
        t = lambda i, k='success': [['startTest', i], ['outcome', k, i], ['stopTest', i]]
        return [
            [[t(0), []], [t(0, 'error'), []]],
            [[['startTestRun'] + t(0) + ['stopTestRun'], []], [[['tags', [1], []]] + t(0, 'skip') + ['stop'], []]],
            [[t(0), [3]], [t(0, 'failure'), [5]]],
            [[t(0), []], [t(0, 'xfail'), [1]], [['shouldStop', 'done'], []]],
            # failfast on the forwarders: stop() follows the unsuccessful outcome unless something raised
            [[t(0, 'error'), [], True], [t(0, 'failure'), [3], True]],
            # a test that starts exactly on the instant its predecessor ended on, next to a thread using the same instants
            [[[['time', some(1)]] + t(0) + [['startTest', 1], ['time', some(1)], ['outcome', 'skip', 1], ['stopTest', 1]], []],
             [[['time', some(1)]] + t(0, 'uxsuccess'), []]],
            # stop() (and the other control calls) requested while another thread's block is in flight: it has to wait
            [[t(0), []], [['stop'] + t(0, 'error') + ['shouldStop'], []]],
            # two outcomes inside one bracket (failing body + failing tearDown): both blocks carry the test's own tags
            [[[['tags', [0], []], ['startTest', 0], ['tags', [1], [0]], ['outcome', 'failure', 0], ['outcome', 'error', 0], ['stopTest', 0]] + t(1), []],
             [[['startTest', 0], ['tags', [2], []], ['outcome', 'error', 0], ['tags', [3], []], ['outcome', 'success', 0], ['stopTest', 0]], [6]]],
        ]

    def systematic(self, programs, k):
        for threads in programs:
            counts = self.step_counts(threads)
            for s in schedules(counts, None, k):
                yield [threads, s]

    def gen(self, rng, tier):
        if self._sys is None:
            its = [self.systematic([c], 2) for c in self.base_programs()]

            def round_robin():
                live = list(its)
                while live:
                    for it in list(live):
                        x = next(it, None)
                        if x is None:
                            live.remove(it)
                        else:
                            yield x
            self._sys = round_robin()
            self._sys_left = self.budgets[tier] // 2 if tier == 'quick' else 0
        if self._sys_left > 0:
            self._sys_left -= 1
            nxt = next(self._sys, None)
            if nxt is not None:
                return nxt
            self._sys_left = 0
        threads = self.gen_program(rng)
        hints = [h for h in HINTS if rng.random() < 0.2]
        return [threads, self.gen_schedule(rng, threads)] + ([hints] if hints else [])

    def enumerate(self, tier):
        t = lambda i, k='success': [['startTest', i], ['outcome', k, i], ['stopTest', i]]
        two = [[t(0) + t(1, 'error'), []], [[['tags', [1], []]] + t(0, 'skip') + ['stop'], []]]
        three = [[t(0), []], [['startTestRun'] + t(0, 'failure'), []], [t(0, 'uxsuccess') + ['done'], []]]
        yield from self.systematic([two], 3)
        ff = [[t(0, 'error') + t(1), [], True], [t(0, 'uxsuccess') + ['stop'], [], True]]
        yield from self.systematic([ff], 2)
        for ti in range(2):                                  # failfast x every single fault position
            for f in range(12):
                yield from self.systematic([[[x[0], [f] if j == ti else [], True] for j, x in enumerate(ff)]], 1)
        yield from self.systematic([three], 2)
        # every control call requested at every point of another thread's block (they have to wait): <= 2 pre-emptions, also under failfast
        for ctl in ('stop', 'startTestRun', 'stopTestRun', 'done', 'shouldStop'):
            yield from self.systematic([[[t(0), []], [[ctl] + t(0, 'error'), []]]], 2)
        yield from self.systematic([[[t(0, 'failure'), [], True], [['stop'] + t(0), []]]], 2)
        # two outcomes inside one startTest / stopTest bracket, test-local tags buffered: <= 2 pre-emptions, and every single fault position
        twice = [[[['startTest', 0], ['tags', [1], []], ['outcome', 'failure', 0], ['outcome', 'error', 0], ['stopTest', 0]] + t(1), []],
                 [[['tags', [2], []]] + t(0, 'skip'), []]]
        yield from self.systematic([twice], 2)
        for f in range(16):
            yield from self.systematic([[[twice[0][0], [f]], twice[1]]], 1)
        # every single fault position, <= 2 pre-emptions (2 threads) / <= 1 (3 threads)
        for base, k in ((two, 2), (three, 1)):
            counts = self.step_counts(base)
            for ti, th in enumerate(base):
                ncalls = counts[ti] - 2 * sum(1 for o in th[0] if isinstance(o, str) or o[0] == 'outcome')
                for f in range(ncalls):
                    threads = [[x[0], [f] if j == ti else []] for j, x in enumerate(base)]
                    yield from self.systematic([threads], k)

    # ----- evidence
    def nontrivial(self, inp, trace):
        if not isinstance(trace, list) or len(trace) != 5 or not isinstance(trace[0], list):
            return False
        return len({e[0] for e in trace[0] if isinstance(e, list) and e[1] == 'acq'}) >= 2

    def features(self, inp, trace):
        threads, schedule = inp[0], inp[1]
        f = ['threads=%d' % len(threads)] + ['hint:' + h for h in (inp[2] if len(inp) > 2 else [])]
        if any(len(t) > 2 and t[2] for t in threads):
            f.append('failfast-forwarder')
        times = [o[1][1] for t in threads for o in t[0] if not isinstance(o, str) and o[0] == 'time' and o[1] is not None]
        if len(times) != len(set(times)):
            f.append('equal-explicit-times')
        if any(not isinstance(o, str) and o[0] == 'time' and o[1] is None for t in threads for o in t[0]):
            f.append('time(None)')
        if any(not isinstance(o, str) and o[0] == 'tags' and set(o[1]) & set(o[2]) for t in threads for o in t[0]):
            f.append('tag-added-and-removed')
        if any(not isinstance(o, str) and o[0] == 'tags' and not o[1] and not o[2] for t in threads for o in t[0]):
            f.append('tags-both-empty')
        for t in threads:           # two outcomes between one startTest and the next stopTest, with test-local tags buffered at the second
            inside = outs = False
            local = 0
            for o in t[0]:
                k = o if isinstance(o, str) else o[0]
                if k == 'startTest':
                    inside, outs, local = True, 0, 0
                elif k == 'stopTest' or k == 'startTestRun':
                    inside = False
                elif k == 'tags' and inside and (o[1] or o[2]):
                    local += 1
                elif k == 'outcome' and inside:
                    outs += 1
                    if outs == 2:
                        f.append('two-outcomes-one-bracket')
                        if local:
                            f.append('second-outcome-with-test-tags')
        nt = sum(1 for t in threads for o in t[0] if not isinstance(o, str) and o[0] == 'outcome')
        f.append('outcomes=%s' % (nt if nt < 7 else '7+'))
        f.append('faults=%d' % sum(len(t[1]) for t in threads))
        st = self.stats.pop(id(inp), None)
        if st:
            f.append('disabled-picks=%s' % ('0' if st[0] == 0 else '1+'))
            f.append('drained=%s' % ('0' if st[2] == 0 else '1+'))
        if isinstance(trace, list) and len(trace) == 5 and isinstance(trace[0], list):
            log = trace[0]
            last_end = {}
            for k, e in enumerate(log):          # a block whose start time is the explicit instant the thread's previous block ended on
                if e[1] == 'call' and isinstance(e[2], list) and e[2][0] == 'time':
                    first = k > 0 and log[k - 1][1] == 'acq'
                    if first and isinstance(e[2][1], int) and last_end.get(e[0]) == e[2][1]:
                        f.append('start-equals-previous-end')
                        break
                    if not first:
                        last_end[e[0]] = e[2][1]
            owners = [e[0] for e in log if e[1] == 'acq']
            sw = sum(1 for a, b in zip(owners, owners[1:]) if a != b)
            f.append('section-switches=%s' % (sw if sw < 6 else '6+'))
            for e in log:
                if e[1] == 'call' and e[3]:
                    c = e[2]
                    f.append('raised-in:' + (c if isinstance(c, str) else c[0]))
            f += sorted({'call:' + (e[2] if isinstance(e[2], str) else e[2][0] if e[2][0] != 'outcome' else 'outcome-' + e[2][1])
                         for e in log if e[1] == 'call'})
            if not trace[2]:
                f.append('DEADLOCK')
        else:
            f.append('trace:' + (str(trace[0]) if isinstance(trace, list) and trace else '?'))
        return f

    def shrink(self, inp):
        threads, schedule = inp[0], inp[1]
        hints = inp[2] if len(inp) > 2 else []
        tail = [hints] if hints else []
        n = len(threads)
        for j in range(len(hints)):                          # drop a realisation hint
            h = hints[:j] + hints[j + 1:]
            yield [threads, schedule] + ([h] if h else [])
        for i in range(n):                                   # drop a thread
            if n > 1:
                yield [threads[:i] + threads[i + 1:], [x - (x > i) for x in schedule if x != i]] + tail
        for i, t in enumerate(threads):
            if len(t) > 2 and t[2]:                          # failfast off
                yield [threads[:i] + [t[:2]] + threads[i + 1:], schedule] + tail
            for j in range(len(t[0])):                       # drop an operation
                yield [threads[:i] + [[t[0][:j] + t[0][j + 1:], t[1]] + t[2:]] + threads[i + 1:], schedule] + tail
            for j in range(len(t[1])):                       # drop a fault
                yield [threads[:i] + [[t[0], t[1][:j] + t[1][j + 1:]] + t[2:]] + threads[i + 1:], schedule] + tail
        if schedule:
            yield [threads, []] + tail
            yield [threads, schedule[:len(schedule) // 2]] + tail
            for j in range(len(schedule)):
                yield [threads, schedule[:j] + schedule[j + 1:]] + tail


PROP = C12()
